import Parmcb.Model.HeapAlgo
import Parmcb.Lemmas.HeapSim
import Parmcb.Lemmas.ApproxAlgo
import Parmcb.Lemmas.MpiAlgo
/-!
The entry points with the literal 4-ary heaps (`Model/HeapAlgo.lean`) are instances of the oracle models: every search on
the real heaps is a search of the oracle model under some admissible oracle (`Lemmas/HeapSim.lean`), so the end-to-end
theorems apply.  Core Lean only.
-/
namespace Parmcb
open Parmcb.C01 Parmcb.C02

namespace HeapAlgoL
open SignedAlgoL

theorem pickHead_ok : PickOK pickHead := by
  intro i l hl
  cases l with
  | nil => exact absurd rfl hl
  | cons a r => exact List.mem_cons_self

/-- the neighbours-in-range hypothesis of `Lemmas/HeapSim.lean` from `AdjEOK` -/
theorem adjE_range {adjE : Array (List (Nat × Int × Nat))} {wOf : Nat → Int} (h : AdjEOK adjE wOf) :
    ∀ u, u < adjE.size → ∀ p ∈ adjE[u]!, p.1 < adjE.size := by
  intro u hu p hp
  have := h.ok.range u (by rw [projAdj_size]; exact hu) (p.1, p.2.1)
    (by rw [projAdj_get]; exact List.mem_map.2 ⟨p, hp, rfl⟩)
  rwa [projAdj_size] at this

/-! ### `mcb_sva_signed` -/

/-- step 1: one search on the literal heaps is a search of the oracle model -/
theorem searchSignedH_eq (g : Graph) (ord : List Nat) (hs : g.simpleB = true) (hp : g.positiveB = true)
    (S hid : List Nat) (s : Nat) (sPos : Bool) (t : Nat) (tPos : Bool) (L : Option Int) (hs' : s < g.n) (ht : t < g.n) :
    ∃ pick : Pick, PickOK pick ∧
      searchSignedH g ord S hid s sPos t tPos L = searchSigned g ord pick S hid s sPos t tPos L := by
  obtain ⟨hok, hsz⟩ := sgAdjE_ok g ord hs hp S hid
  unfold searchSignedH searchSigned
  exact biSearchH_eq _ _ _ _ _ (by rw [hsz]; exact sgNode_lt _ _ _ hs') (by rw [hsz]; exact sgNode_lt _ _ _ ht)
    (adjE_range hok)

theorem pickFor_exists (g : Graph) (ord : List Nat) (S hid : List Nat) (s : Nat) (sPos : Bool) (t : Nat) (tPos : Bool)
    (L : Option Int) :
    ∃ pick : Pick, PickOK pick ∧ (g.simpleB = true → g.positiveB = true → s < g.n → t < g.n →
      searchSignedH g ord S hid s sPos t tPos L = searchSigned g ord pick S hid s sPos t tPos L) := by
  by_cases h : g.simpleB = true ∧ g.positiveB = true ∧ s < g.n ∧ t < g.n
  · obtain ⟨pick, h1, h2⟩ := searchSignedH_eq g ord h.1 h.2.1 S hid s sPos t tPos L h.2.2.1 h.2.2.2
    exact ⟨pick, h1, fun _ _ _ _ => h2⟩
  · exact ⟨pickHead, pickHead_ok, fun a b c d => absurd ⟨a, b, c, d⟩ h⟩

/-- the oracle of one search (total in the arguments) -/
noncomputable def pickFor (g : Graph) (ord : List Nat) (S hid : List Nat) (s : Nat) (sPos : Bool) (t : Nat) (tPos : Bool)
    (L : Option Int) : Pick :=
  Classical.choose (pickFor_exists g ord S hid s sPos t tPos L)

theorem pickFor_ok (g : Graph) (ord : List Nat) (S hid : List Nat) (s : Nat) (sPos : Bool) (t : Nat) (tPos : Bool)
    (L : Option Int) : PickOK (pickFor g ord S hid s sPos t tPos L) :=
  (Classical.choose_spec (pickFor_exists g ord S hid s sPos t tPos L)).1

theorem pickFor_spec (g : Graph) (ord : List Nat) (hs : g.simpleB = true) (hp : g.positiveB = true)
    (S hid : List Nat) (s : Nat) (sPos : Bool) (t : Nat) (tPos : Bool) (L : Option Int) (hs' : s < g.n) (ht : t < g.n) :
    searchSignedH g ord S hid s sPos t tPos L =
      searchSigned g ord (pickFor g ord S hid s sPos t tPos L) S hid s sPos t tPos L :=
  (Classical.choose_spec (pickFor_exists g ord S hid s sPos t tPos L)).2 hs hp hs' ht

/-- oracles of the all-vertices loop: index = vertex -/
noncomputable def pkA (g : Graph) (ord : List Nat) (S : List Nat) : PickFam :=
  fun v L => pickFor g ord S [] v true v false L

/-- oracles of the hidden-edge loop: index = edge; the hidden list at `e` is the suffix of `σ` from `e` on -/
noncomputable def pkH (g : Graph) (ord : List Nat) (S σ : List Nat) : PickFam :=
  fun e L => pickFor g ord S (σ.drop (σ.idxOf e)) (g.src e) true (g.tgt e) true L

theorem foldl_congr_mem {α β : Type} (f f' : β → α → β) : ∀ (l : List α) (x : β),
    (∀ b, ∀ a ∈ l, f b a = f' b a) → l.foldl f x = l.foldl f' x
  | [], _, _ => rfl
  | a :: l, x, h => by
    rw [List.foldl_cons, List.foldl_cons, h x a List.mem_cons_self]
    exact foldl_congr_mem f f' l _ (fun b c hc => h b c (List.mem_cons_of_mem _ hc))

theorem seqMin_congr {C : Type} (f f' : Nat → Option Int → Cyc C) (lo hi : Nat)
    (h : ∀ i L, lo ≤ i → i < hi → f i L = f' i L) : seqMin f lo hi = seqMin f' lo hi := by
  unfold seqMin minBody
  apply foldl_congr_mem
  intro b i hi'
  have := List.mem_range'_1.1 hi'
  rw [h i _ (by omega) (by omega)]

theorem allVerticesLoopH_eq (g : Graph) (ord : List Nat) (hs : g.simpleB = true) (hp : g.positiveB = true)
    (S : List Nat) : allVerticesLoopH g ord S = allVerticesLoop g ord (pkA g ord S) S := by
  unfold allVerticesLoopH allVerticesLoop
  apply seqMin_congr
  intro v L _ hv
  exact pickFor_spec g ord hs hp S [] v true v false L hv hv

theorem hiddenLoopH_eq (g : Graph) (ord : List Nat) (hs : g.simpleB = true) (hp : g.positiveB = true)
    (S σ : List Nat) (hnd : σ.Nodup) (hσm : ∀ e ∈ σ, e < g.m) :
    ∀ (rest pre : List Nat) (best : Cyc (List Nat)), σ = pre ++ rest →
      hiddenLoopH g ord S rest best = hiddenLoop g ord (pkH g ord S σ) S rest best
  | [], _, _, _ => rfl
  | e :: rest, pre, best, hσ => by
    unfold hiddenLoopH hiddenLoop
    have hnp : e ∉ pre := by
      intro he
      rw [hσ] at hnd
      exact (List.nodup_append.1 hnd).2.2 e he e List.mem_cons_self rfl
    have hidx : σ.drop (σ.idxOf e) = e :: rest := by
      rw [hσ, List.idxOf_append, if_neg hnp, List.idxOf_cons_self, Nat.zero_add, List.drop_left]
    have hem : e < g.m := hσm e (by rw [hσ]; exact List.mem_append_right _ List.mem_cons_self)
    have hf := simpleB_facts g hs e hem
    have hsr : searchSignedH g ord S (e :: rest) (g.src e) true (g.tgt e) true (best.map (·.1)) =
        hiddenSearch g ord (pkH g ord S σ) S (e :: rest) e (best.map (·.1)) := by
      unfold hiddenSearch pkH
      rw [hidx]
      exact pickFor_spec g ord hs hp S (e :: rest) _ true _ true _ hf.1 hf.2.1
    rw [hsr]
    exact hiddenLoopH_eq g ord hs hp S σ hnd hσm rest (pre ++ [e]) _ (by rw [hσ, List.append_assoc]; rfl)

/-! ### the approximate algorithms -/

theorem pathBack_congr (f f' : FrontierP) (h1 : f.src = f'.src) (h2 : f.pred = f'.pred) :
    ∀ (fuel w : Nat), pathBack f fuel w = pathBack f' fuel w
  | 0, _ => rfl
  | fuel + 1, w => by
    unfold pathBack
    rw [h1, h2]
    by_cases hc : (w == f'.src) = true
    · rw [if_pos hc, if_pos hc]
    · rw [if_neg hc, if_neg hc]
      cases f'.pred[w]! with
      | none => rfl
      | some ue =>
        obtain ⟨u, e⟩ := ue
        dsimp only
        rw [pathBack_congr f f' h1 h2 fuel]

/-- step 4: the cycle of a dropped edge computed with the literal heap is the oracle model's -/
theorem nonSpannerCycleH_eq (g : Graph) (R : List Nat) (hss : (spannerGraph g R).simpleB = true)
    (hsp : (spannerGraph g R).positiveB = true) (e : Nat) (he : g.src e < g.n) :
    ∃ pick : Pick, PickOK pick ∧ nonSpannerCycleH g R e = nonSpannerCycle g R pick e := by
  have hsz : (plainAdjE (spannerGraph g R)).size = g.n := ApproxAlgoL.plainAdjE_size _
  obtain ⟨pick, hok, h1, _, h3⟩ := dijkstraH_eq (plainAdjE (spannerGraph g R)) (g.src e) (by rw [hsz]; exact he)
    (adjE_range (ApproxAlgoL.plainAdjE_ok _ hss hsp))
  rw [hsz] at h1 h3
  refine ⟨pick, hok, ?_⟩
  unfold nonSpannerCycleH nonSpannerCycle
  simp only
  rw [pathBack_congr _ (dijkstraP (spannerGraph g R) pick (g.src e)) h1 h3]

theorem pickDFor_exists (g : Graph) (R : List Nat) (e : Nat) :
    ∃ pick : Pick, PickOK pick ∧ ((spannerGraph g R).simpleB = true → (spannerGraph g R).positiveB = true →
      g.src e < g.n → nonSpannerCycleH g R e = nonSpannerCycle g R pick e) := by
  by_cases h : (spannerGraph g R).simpleB = true ∧ (spannerGraph g R).positiveB = true ∧ g.src e < g.n
  · obtain ⟨pick, h1, h2⟩ := nonSpannerCycleH_eq g R h.1 h.2.1 e h.2.2
    exact ⟨pick, h1, fun _ _ _ => h2⟩
  · exact ⟨pickHead, pickHead_ok, fun a b c => absurd ⟨a, b, c⟩ h⟩

/-- the oracle of the Dijkstra run for dropped edge `e` -/
noncomputable def pickDFor (g : Graph) (R : List Nat) (e : Nat) : Pick := Classical.choose (pickDFor_exists g R e)

theorem pickDFor_ok (g : Graph) (R : List Nat) (e : Nat) : PickOK (pickDFor g R e) :=
  (Classical.choose_spec (pickDFor_exists g R e)).1

theorem pickDFor_spec (g : Graph) (R : List Nat) (hss : (spannerGraph g R).simpleB = true)
    (hsp : (spannerGraph g R).positiveB = true) (e : Nat) (he : g.src e < g.n) :
    nonSpannerCycleH g R e = nonSpannerCycle g R (pickDFor g R e) e :=
  (Classical.choose_spec (pickDFor_exists g R e)).2 hss hsp he

theorem approxCoreH_eq (g : Graph) (hs : g.simpleB = true) (hp : g.positiveB = true) (k : Nat)
    (scan : List Nat) (hscan : scanOkB g scan = true) (exact : Graph → McbResult) :
    approxCoreH g k scan exact = approxCore g k scan exact (pickDFor g (constructSpanner g k scan).1) := by
  obtain ⟨hnd, hm⟩ := C06.retained_facts g k scan hscan
  have hss := ApproxAlgoL.sp_simple g hs _ hnd hm
  have hsp := ApproxAlgoL.sp_positive g hp _ hm
  have hpart := (Spanner.spanner_partition g k scan).1.trans (Spanner.scan_perm g scan hscan)
  have hmap : (constructSpanner g k scan).2.map (nonSpannerCycleH g (constructSpanner g k scan).1) =
      (constructSpanner g k scan).2.map fun e =>
        nonSpannerCycle g (constructSpanner g k scan).1 (pickDFor g (constructSpanner g k scan).1 e) e := by
    apply List.map_congr_left
    intro e he
    have hem : e < g.m := List.mem_range.1 (hpart.mem_iff.1 (List.mem_append_right _ he))
    exact pickDFor_spec g _ hss hsp e (simpleB_facts g hs e hem).1
  unfold approxCoreH approxCore
  simp only [hmap]

end HeapAlgoL

/-- one phase of `mcb_sva_signed` on literal heaps, any out-edge order, any `std::set` order of the signed edges -/
theorem signedPhaseSearchH_ok (g : Graph) (ord : List Nat) (hs : g.simpleB = true) (hp : g.positiveB = true)
    (S : List Nat) (hS : StrictSorted S) (hSm : ∀ e ∈ S, e < g.m)
    (σ : List Nat) (hσ : σ.Perm S) (hex : ∃ Z, EvenSet g Z ∧ dotPar Z S = true) :
    SignedAlgoL.PhaseFound g S (signedPhaseSearchH g ord σ S) := by
  open HeapAlgoL in
  by_cases hn : g.n ≤ S.length
  · have h := SignedAlgoL.signedPhaseSearch_ok g ord hs hp (pkA g ord S) (fun i L => pickFor_ok _ _ _ _ _ _ _ _ _)
      S hS hSm σ hσ hex
    unfold signedPhaseSearch at h
    unfold signedPhaseSearchH
    rw [if_pos hn] at h ⊢
    rw [allVerticesLoopH_eq g ord hs hp S]
    exact h
  · have h := SignedAlgoL.signedPhaseSearch_ok g ord hs hp (pkH g ord S σ) (fun i L => pickFor_ok _ _ _ _ _ _ _ _ _)
      S hS hSm σ hσ hex
    unfold signedPhaseSearch at h
    unfold signedPhaseSearchH
    rw [if_neg hn] at h ⊢
    rw [hiddenLoopH_eq g ord hs hp S σ (hσ.nodup_iff.2 hS.nodup) (fun e he => hSm e (hσ.mem_iff.1 he)) σ [] none rfl]
    exact h

/-- **`mcb_sva_signed` with the real heaps, end to end** -/
theorem mcbSignedH_correct (g : Graph) (hs : g.simpleB = true) (hp : g.positiveB = true)
    (order : List Nat) (ho : order.Perm (List.range g.n))
    (σ : Nat → List Nat → List Nat) (hσ : ∀ k S, (σ k S).Perm S) :
    McbCorrect g order (mcbSignedH g order σ) := by
  have hd := C16.c16_exact_domain g order hs hp ho
  exact SignedAlgoL.mcb_correct_of_core g hs hp order ho .signed _ (List.Perm.refl _) _
    (fun k S hS hSm hex => signedPhaseSearchH_ok _ _ hd.simple hd.positive S hS hSm (σ k S) (hσ k S) hex)

/-- the approximate algorithms' sequential builder with the real heap, for any correct exact phase -/
theorem approxCoreH_correct (g : Graph) (hs : g.simpleB = true) (hp : g.positiveB = true) (k : Nat) (hk : 1 ≤ k)
    (scan : List Nat) (hscan : scanOkB g scan = true) (order0 : List Nat) (ho0 : order0.Perm (List.range g.n))
    (exact : Graph → McbResult) (orderSp : List Nat)
    (hex : McbCorrect (spannerGraph g (constructSpanner g k scan).1) orderSp
      (exact (spannerGraph g (constructSpanner g k scan).1))) :
    ApproxCorrect g k order0 (approxCoreH g k scan exact) := by
  rw [HeapAlgoL.approxCoreH_eq g hs hp k scan hscan exact]
  exact approxCore_correct g hs hp k hk scan hscan order0 ho0 exact orderSp hex _ (HeapAlgoL.pickDFor_ok g _)

theorem approxSignedH_correct (g : Graph) (hs : g.simpleB = true) (hp : g.positiveB = true) (k : Nat) (hk : 1 ≤ k)
    (scan : List Nat) (hscan : scanOkB g scan = true) (order : List Nat) (ho : order.Perm (List.range g.n))
    (σ : Nat → List Nat → List Nat) (hσ : ∀ j S, (σ j S).Perm S) :
    ApproxCorrect g k order (approxSignedH g k scan order σ) := by
  obtain ⟨hnd, hm⟩ := C06.retained_facts g k scan hscan
  have hss := ApproxAlgoL.sp_simple g hs _ hnd hm
  have hsp := ApproxAlgoL.sp_positive g hp _ hm
  exact approxCoreH_correct g hs hp k hk scan hscan order ho _ order
    (mcbSignedH_correct _ hss hsp order ho σ hσ)

theorem approxFvsTreesH_correct (g : Graph) (hs : g.simpleB = true) (hp : g.positiveB = true) (k : Nat) (hk : 1 ≤ k)
    (scan : List Nat) (hscan : scanOkB g scan = true) (order : List Nat) (ho : order.Perm (List.range g.n))
    (picks : List Nat) (hpicks : ∀ x, x < g.n → x ∈ picks) (sorter : List Cand → List Cand) (hsort : SortOK sorter) :
    ApproxCorrect g k order (approxFvsTreesH g k scan order picks sorter) := by
  obtain ⟨hnd, hm⟩ := C06.retained_facts g k scan hscan
  have hss := ApproxAlgoL.sp_simple g hs _ hnd hm
  have hsp := ApproxAlgoL.sp_positive g hp _ hm
  exact approxCoreH_correct g hs hp k hk scan hscan order ho _ order
    (mcbFvsTrees_correct _ hss hsp order ho picks hpicks sorter hsort)

theorem approxIsoTreesH_correct (g : Graph) (hs : g.simpleB = true) (hp : g.positiveB = true) (k : Nat) (hk : 1 ≤ k)
    (scan : List Nat) (hscan : scanOkB g scan = true) (order : List Nat) (ho : order.Perm (List.range g.n))
    (picks : List Nat) (hpicks : ∀ x, x < g.n → x ∈ picks) (sorter : List Cand → List Cand) (hsort : SortOK sorter) :
    ApproxCorrect g k order (approxIsoTreesH g k scan order picks sorter) := by
  obtain ⟨hnd, hm⟩ := C06.retained_facts g k scan hscan
  have hss := ApproxAlgoL.sp_simple g hs _ hnd hm
  have hsp := ApproxAlgoL.sp_positive g hp _ hm
  exact approxCoreH_correct g hs hp k hk scan hscan order ho _ order
    (mcbFvsTrees_correct _ hss hsp order ho picks hpicks sorter hsort)

end Parmcb

namespace Parmcb
open Parmcb.C01 Parmcb.C02

namespace HeapAlgoL
open SignedAlgoL

/-- oracles of the single-edge shortcut: index = edge -/
noncomputable def pkS (g : Graph) (ord : List Nat) : PickFam :=
  fun e L => pickFor g ord [] [e] (g.src e) true (g.tgt e) true L

theorem evalReduce_congr {C : Type} (f f' : Nat → Option Int → Cyc C) (lo hi : Nat)
    (h : ∀ i L, lo ≤ i → i < hi → f i L = f' i L) {s : Sched} {a b : Nat} (hs : s.Covers a b)
    (ha : lo ≤ a) (hb : b ≤ hi) (x : Cyc C) :
    evalReduce (minBody f) cycleMin none s x = evalReduce (minBody f') cycleMin none s x := by
  induction hs generalizing x with
  | leaf a b hab =>
    simp only [evalReduce]
    unfold minBody
    apply foldl_congr_mem
    intro r i hi'
    have := List.mem_range'_1.1 hi'
    rw [h i _ (by omega) (by omega)]
  | @seq l r a mid b hl hr ihl ihr =>
    have h1 := hl.le
    have h2 := hr.le
    simp only [evalReduce]
    rw [ihl ha (by omega) x, ihr (by omega) hb]
  | @fork l r a mid b hl hr ihl ihr =>
    have h1 := hl.le
    have h2 := hr.le
    simp only [evalReduce]
    rw [ihl ha (by omega) x, ihr (by omega) hb]

theorem reduceMin_congr {C : Type} (f f' : Nat → Option Int → Cyc C) (lo hi : Nat)
    (h : ∀ i L, lo ≤ i → i < hi → f i L = f' i L) {s : Sched} (hs : s.Covers lo hi) :
    reduceMin f s = reduceMin f' s :=
  evalReduce_congr f f' lo hi h hs (Nat.le_refl _) (Nat.le_refl _) none

theorem allVerticesTbbH_eq (g : Graph) (ord : List Nat) (hs : g.simpleB = true) (hp : g.positiveB = true)
    (S : List Nat) (s : Sched) (hcov : s.Covers 0 g.n) :
    allVerticesTbbH g ord S s = allVerticesTbb g ord (pkA g ord S) S s := by
  unfold allVerticesTbbH allVerticesTbb
  apply reduceMin_congr _ _ 0 g.n _ hcov
  intro v L _ hv
  exact pickFor_spec g ord hs hp S [] v true v false L hv hv

theorem hiddenTbbH_eq (g : Graph) (ord : List Nat) (hs : g.simpleB = true) (hp : g.positiveB = true)
    (S σ : List Nat) (hnd : σ.Nodup) (hσm : ∀ e ∈ σ, e < g.m) (s : Sched) (hcov : s.Covers 0 σ.length) :
    hiddenTbbH g ord S σ s = hiddenTbb g ord (pkH g ord S σ) S σ s := by
  unfold hiddenTbbH hiddenTbb
  apply reduceMin_congr _ _ 0 σ.length _ hcov
  intro i L _ hi
  unfold hiddenIndexTbbH hiddenIndexTbb
  rw [List.getElem?_eq_getElem hi]
  simp only
  have hf := simpleB_facts g hs σ[i] (hσm _ (List.getElem_mem hi))
  unfold hiddenSearch pkH
  rw [hnd.idxOf_getElem i hi]
  rw [pickFor_spec g ord hs hp S (σ.drop i) _ true _ true L hf.1 hf.2.1]

theorem singleEdgeTbbH_eq (g : Graph) (ord : List Nat) (hs : g.simpleB = true) (hp : g.positiveB = true)
    (e : Nat) (he : e < g.m) : singleEdgeTbbH g ord e = singleEdgeTbb g ord (pkS g ord) e := by
  have hf := simpleB_facts g hs e he
  unfold singleEdgeTbbH singleEdgeTbb pkS
  rw [pickFor_spec g ord hs hp [] [e] _ true _ true none hf.1 hf.2.1]

theorem tbbH_general (g : Graph) (ord : List Nat) (hs : g.simpleB = true) (hp : g.positiveB = true)
    (S : List Nat) (hS : StrictSorted S) (hSm : ∀ e ∈ S, e < g.m)
    (σ : List Nat) (hσ : σ.Perm S) (hex : ∃ Z, EvenSet g Z ∧ dotPar Z S = true)
    (s : Sched) (hcov : s.Covers 0 (if g.n ≤ S.length then g.n else S.length)) :
    PhaseFound g S (if g.n ≤ S.length then allVerticesTbbH g ord S s else hiddenTbbH g ord S σ s) := by
  by_cases hn : g.n ≤ S.length
  · have h := tbb_general g ord hs hp (pkA g ord S) (fun i L => pickFor_ok _ _ _ _ _ _ _ _ _)
      S hS hSm σ hσ hex s hcov
    rw [if_pos hn] at h hcov ⊢
    rw [allVerticesTbbH_eq g ord hs hp S s hcov]
    exact h
  · have h := tbb_general g ord hs hp (pkH g ord S σ) (fun i L => pickFor_ok _ _ _ _ _ _ _ _ _)
      S hS hSm σ hσ hex s hcov
    rw [if_neg hn] at h hcov ⊢
    rw [← hσ.length_eq] at hcov
    rw [hiddenTbbH_eq g ord hs hp S σ (hσ.nodup_iff.2 hS.nodup) (fun e he => hSm e (hσ.mem_iff.1 he)) s hcov]
    exact h

end HeapAlgoL

/-- one phase of `mcb_sva_signed_tbb` on literal heaps, under every execution of the `parallel_reduce` -/
theorem signedPhaseSearchTbbH_ok (g : Graph) (ord : List Nat) (hs : g.simpleB = true) (hp : g.positiveB = true)
    (S : List Nat) (hS : StrictSorted S) (hSm : ∀ e ∈ S, e < g.m)
    (σ : List Nat) (hσ : σ.Perm S) (hex : ∃ Z, EvenSet g Z ∧ dotPar Z S = true)
    (s : Sched) (hcov : s.Covers 0 (if g.n ≤ S.length then g.n else S.length)) :
    SignedAlgoL.PhaseFound g S (signedPhaseSearchTbbH g ord σ S s) := by
  open HeapAlgoL in
  match S, hS, hSm, hσ, hex, hcov with
  | [], hS, hSm, hσ, hex, hcov => exact tbbH_general g ord hs hp [] hS hSm σ hσ hex s hcov
  | [e], hS, hSm, hσ, hex, hcov =>
    have h := SignedAlgoL.signedPhaseSearchTbb_ok g ord hs hp (pkS g ord) (fun i L => pickFor_ok _ _ _ _ _ _ _ _ _)
      [e] hS hSm σ hσ hex s hcov
    show SignedAlgoL.PhaseFound g [e] (singleEdgeTbbH g ord e)
    rw [singleEdgeTbbH_eq g ord hs hp e (hSm e List.mem_cons_self)]
    exact h
  | a :: b :: rest, hS, hSm, hσ, hex, hcov =>
    exact tbbH_general g ord hs hp (a :: b :: rest) hS hSm σ hσ hex s hcov

/-- **`mcb_sva_signed_tbb` with the real heaps, end to end** -/
theorem mcbSignedTbbH_correct (g : Graph) (hs : g.simpleB = true) (hp : g.positiveB = true)
    (order : List Nat) (ho : order.Perm (List.range g.n))
    (σ : Nat → List Nat → List Nat) (hσ : ∀ k S, (σ k S).Perm S)
    (perm : List Nat) (hperm : perm.Perm (List.range (createIndex g order).dim))
    (scheds : Nat → List Nat → Sched)
    (hcov : ∀ k S, (scheds k S).Covers 0 (if g.n ≤ S.length then g.n else S.length)) :
    McbCorrect g order (mcbSignedTbbH g order σ perm scheds) := by
  have hd := C16.c16_exact_domain g order hs hp ho
  have hp0 : (perm.map fun i => [i]).Perm (unitSupports (createIndex g order).dim) := hperm.map _
  exact SignedAlgoL.mcb_correct_of_core g hs hp order ho .signedTbb _ hp0 _
    (fun k S hS hSm hex => signedPhaseSearchTbbH_ok _ _ hd.simple hd.positive S hS hSm
      (σ k S) (hσ k S) hex (scheds k S) (hcov k S))

end Parmcb

namespace Parmcb
open Parmcb.C01 Parmcb.C02

namespace HeapAlgoL
open SignedAlgoL

theorem rtree_eval_congr {C : Type} (loc loc' : Nat → Cyc C) (t : RTree)
    (h : ∀ r ∈ t.leaves, loc r = loc' r) : t.eval loc = t.eval loc' := by
  induction t with
  | leaf r => exact h r (by simp [RTree.leaves])
  | node l r ihl ihr =>
    simp only [RTree.eval]
    rw [ihl (fun q hq => h q (by simp only [RTree.leaves, List.mem_append]; exact Or.inl hq)),
      ihr (fun q hq => h q (by simp only [RTree.leaves, List.mem_append]; exact Or.inr hq))]

theorem mpiPhase_congr {C : Type} (f f' : Nat → Option Int → Cyc C) (total : Nat)
    (h : ∀ i L, i < total → f i L = f' i L) (P : Nat) (scheds : Nat → Sched)
    (hcov : SlicesCovered total P scheds) (t : RTree) (ht : TreeOK P t) :
    mpiPhase f scheds t = mpiPhase f' scheds t := by
  unfold mpiPhase
  apply rtree_eval_congr
  intro r hr
  have hrP := (MpiAlgoL.mem_leaves ht r).1 hr
  have hb := slice_bounds total P r
  exact reduceMin_congr f f' _ _ (fun i L _ h2 => h i L (by omega)) (hcov r hrP)

theorem hiddenIndexTbbH_eq (g : Graph) (ord : List Nat) (hs : g.simpleB = true) (hp : g.positiveB = true)
    (S σ : List Nat) (hnd : σ.Nodup) (hσm : ∀ e ∈ σ, e < g.m) (i : Nat) (L : Option Int) (hi : i < σ.length) :
    hiddenIndexTbbH g ord S σ i L = hiddenIndexTbb g ord (pkH g ord S σ) S σ i L := by
  unfold hiddenIndexTbbH hiddenIndexTbb
  rw [List.getElem?_eq_getElem hi]
  simp only
  have hf := simpleB_facts g hs σ[i] (hσm _ (List.getElem_mem hi))
  unfold hiddenSearch pkH
  rw [hnd.idxOf_getElem i hi]
  rw [pickFor_spec g ord hs hp S (σ.drop i) _ true _ true L hf.1 hf.2.1]

theorem mpiH_general (g : Graph) (ord : List Nat) (hs : g.simpleB = true) (hp : g.positiveB = true)
    (S : List Nat) (hS : StrictSorted S) (hSm : ∀ e ∈ S, e < g.m)
    (hex : ∃ Z, EvenSet g Z ∧ dotPar Z S = true) (P : Nat) (hP : 1 ≤ P)
    (scheds : Nat → Sched) (hcov : SlicesCovered (if S.length < g.n then S.length else g.n) P scheds)
    (t : RTree) (ht : TreeOK P t) :
    PhaseFound g S (if S.length < g.n then mpiPhase (hiddenIndexTbbH g ord S S) scheds t
      else mpiPhase (fun v L => searchSignedH g ord S [] v true v false L) scheds t) := by
  by_cases hn : S.length < g.n
  · have h := MpiAlgoL.mpi_general g ord hs hp (pkH g ord S S) (fun i L => pickFor_ok _ _ _ _ _ _ _ _ _)
      S hS hSm hex P hP scheds hcov t ht
    rw [if_pos hn] at h hcov ⊢
    rw [mpiPhase_congr _ _ S.length
      (fun i L hi => hiddenIndexTbbH_eq g ord hs hp S S hS.nodup hSm i L hi) P scheds hcov t ht]
    exact h
  · have h := MpiAlgoL.mpi_general g ord hs hp (pkA g ord S) (fun i L => pickFor_ok _ _ _ _ _ _ _ _ _)
      S hS hSm hex P hP scheds hcov t ht
    rw [if_neg hn] at h hcov ⊢
    rw [mpiPhase_congr _ (fun v L => searchSigned g ord (pkA g ord S v L) S [] v true v false L) g.n
      (fun v L hv => pickFor_spec g ord hs hp S [] v true v false L hv hv) P scheds hcov t ht]
    exact h

end HeapAlgoL

/-- one phase of `mcb_sva_signed_mpi` on literal heaps, every rank count, every per-rank schedule, every reduction tree -/
theorem signedPhaseSearchMpiH_ok (g : Graph) (ord : List Nat) (hs : g.simpleB = true) (hp : g.positiveB = true)
    (S : List Nat) (hS : StrictSorted S) (hSm : ∀ e ∈ S, e < g.m)
    (hex : ∃ Z, EvenSet g Z ∧ dotPar Z S = true) (P : Nat) (hP : 1 ≤ P)
    (scheds : Nat → Sched) (hcov : SlicesCovered (if S.length < g.n then S.length else g.n) P scheds)
    (t : RTree) (ht : TreeOK P t) :
    SignedAlgoL.PhaseFound g S (signedPhaseSearchMpiH g ord S scheds t) := by
  open HeapAlgoL in
  match S, hS, hSm, hex, hcov with
  | [], hS, hSm, hex, hcov => exact mpiH_general g ord hs hp [] hS hSm hex P hP scheds hcov t ht
  | [e], hS, hSm, hex, hcov =>
    have h := signedPhaseSearchMpi_ok g ord hs hp (pkS g ord) (fun i L => pickFor_ok _ _ _ _ _ _ _ _ _)
      [e] hS hSm hex P hP scheds hcov t ht
    show SignedAlgoL.PhaseFound g [e] (singleEdgeTbbH g ord e)
    rw [singleEdgeTbbH_eq g ord hs hp e (hSm e List.mem_cons_self)]
    exact h
  | a :: b :: rest, hS, hSm, hex, hcov =>
    exact mpiH_general g ord hs hp (a :: b :: rest) hS hSm hex P hP scheds hcov t ht

/-- **`mcb_sva_signed_mpi` with the real heaps, end to end** -/
theorem mcbSignedMpiH_correct (g : Graph) (hs : g.simpleB = true) (hp : g.positiveB = true)
    (order : List Nat) (ho : order.Perm (List.range g.n))
    (P : Nat) (hP : 1 ≤ P) (perm : List Nat) (hperm : perm.Perm (List.range (createIndex g order).dim))
    (scheds : Nat → List Nat → Nat → Sched)
    (hcov : ∀ k S, SlicesCovered (if S.length < g.n then S.length else g.n) P (scheds k S))
    (trees : Nat → List Nat → RTree) (ht : ∀ k S, TreeOK P (trees k S)) :
    McbCorrect g order (mcbSignedMpiH g order perm scheds trees) := by
  have hd := C16.c16_exact_domain g order hs hp ho
  have hp0 : (perm.map fun i => [i]).Perm (unitSupports (createIndex g order).dim) := hperm.map _
  exact SignedAlgoL.mcb_correct_of_core g hs hp order ho .mpi _ hp0 _
    (fun k S hS hSm hex => signedPhaseSearchMpiH_ok _ _ hd.simple hd.positive S hS hSm
      hex P hP (scheds k S) (hcov k S) (trees k S) (ht k S))

end Parmcb
