import Parmcb.Lemmas.IsoDefs
/-! Part D: the label propagation `isoComponents` computes connected components.  Core Lean only. -/
namespace Parmcb

namespace IsoCompL

theorem get_set (lab : Array Nat) (i j x : Nat) :
    (lab.set! i x)[j]! = if i = j ∧ i < lab.size then x else lab[j]! := by
  simp only [Array.set!, Array.getElem!_eq_getD, Array.getD_eq_getD_getElem?, Array.getElem?_setIfInBounds]
  by_cases h : i = j
  · subst h
    by_cases h2 : i < lab.size
    · simp [h2]
    · simp [h2]
  · simp [h]

theorem relax_size (lab : Array Nat) (p : Nat × Nat) : (relaxLink lab p).size = lab.size := by
  unfold relaxLink
  split
  · simp only []
    split
    · simp [Array.set!]
    · split
      · simp [Array.set!]
      · rfl
  · rfl

theorem relax_get (lab : Array Nat) (a b i : Nat) :
    (relaxLink lab (a, b))[i]! =
      if a < lab.size ∧ b < lab.size then
        (if i = b ∧ lab[a]! < lab[b]! then lab[a]!
         else if i = a ∧ lab[b]! < lab[a]! then lab[b]! else lab[i]!)
      else lab[i]! := by
  unfold relaxLink
  simp only []
  by_cases h : a < lab.size ∧ b < lab.size
  · rw [if_pos h, if_pos h]
    by_cases h1 : lab[a]! < lab[b]!
    · rw [if_pos h1, get_set]
      by_cases hib : i = b
      · subst hib; rw [if_pos ⟨rfl, h.2⟩, if_pos ⟨rfl, h1⟩]
      · have hbi : ¬ (b = i ∧ b < lab.size) := fun e => hib e.1.symm
        have h2 : ¬ (i = a ∧ lab[b]! < lab[a]!) := fun e => by omega
        have h3 : ¬ (i = b ∧ lab[a]! < lab[b]!) := fun e => hib e.1
        rw [if_neg hbi, if_neg h3, if_neg h2]
    · rw [if_neg h1]
      have h3 : ¬ (i = b ∧ lab[a]! < lab[b]!) := fun e => h1 e.2
      rw [if_neg h3]
      by_cases h2 : lab[b]! < lab[a]!
      · rw [if_pos h2, get_set]
        by_cases hia : i = a
        · subst hia; rw [if_pos ⟨rfl, h.1⟩, if_pos ⟨rfl, h2⟩]
        · have hai : ¬ (a = i ∧ a < lab.size) := fun e => hia e.1.symm
          have h4 : ¬ (i = a ∧ lab[b]! < lab[a]!) := fun e => hia e.1
          rw [if_neg hai, if_neg h4]
      · rw [if_neg h2]
        have h4 : ¬ (i = a ∧ lab[b]! < lab[a]!) := fun e => h2 e.2
        rw [if_neg h4]
  · rw [if_neg h, if_neg h]

theorem relax_le (lab : Array Nat) (p : Nat × Nat) (i : Nat) : (relaxLink lab p)[i]! ≤ lab[i]! := by
  obtain ⟨a, b⟩ := p
  rw [relax_get]
  split
  · split
    · next h => obtain ⟨rfl, h⟩ := h; omega
    · split
      · next h => obtain ⟨rfl, h⟩ := h; omega
      · exact Nat.le_refl _
  · exact Nat.le_refl _

theorem relax_link (lab : Array Nat) (a b : Nat) (ha : a < lab.size) (hb : b < lab.size) :
    (relaxLink lab (a, b))[a]! ≤ lab[b]! ∧ (relaxLink lab (a, b))[b]! ≤ lab[a]! := by
  have key : ∀ i, (relaxLink lab (a, b))[i]! =
      (if i = b ∧ lab[a]! < lab[b]! then lab[a]!
         else if i = a ∧ lab[b]! < lab[a]! then lab[b]! else lab[i]!) := by
    intro i; rw [relax_get, if_pos ⟨ha, hb⟩]
  rw [key a, key b]
  constructor
  · split
    · omega
    · split
      · omega
      · omega
  · split
    · omega
    · split
      · omega
      · omega

/-! ### one sweep -/

theorem fold_size : ∀ (l : List (Nat × Nat)) (lab : Array Nat), (l.foldl relaxLink lab).size = lab.size
  | [], _ => rfl
  | p :: l, lab => by rw [List.foldl_cons, fold_size l, relax_size]

theorem fold_le : ∀ (l : List (Nat × Nat)) (lab : Array Nat) (i : Nat), (l.foldl relaxLink lab)[i]! ≤ lab[i]!
  | [], _, _ => Nat.le_refl _
  | p :: l, lab, i => by
    rw [List.foldl_cons]
    exact Nat.le_trans (fold_le l _ i) (relax_le lab p i)

theorem fold_link : ∀ (l : List (Nat × Nat)) (lab : Array Nat) (a b : Nat), (a, b) ∈ l → a < lab.size → b < lab.size →
    (l.foldl relaxLink lab)[a]! ≤ lab[b]! ∧ (l.foldl relaxLink lab)[b]! ≤ lab[a]!
  | [], _, _, _, h, _, _ => by cases h
  | p :: l, lab, a, b, h, ha, hb => by
    rw [List.foldl_cons]
    rcases List.mem_cons.1 h with h | h
    · subst h
      have := relax_link lab a b ha hb
      exact ⟨Nat.le_trans (fold_le l _ a) this.1, Nat.le_trans (fold_le l _ b) this.2⟩
    · have := fold_link l (relaxLink lab p) a b h (by rw [relax_size]; exact ha) (by rw [relax_size]; exact hb)
      exact ⟨Nat.le_trans this.1 (relax_le lab p b), Nat.le_trans this.2 (relax_le lab p a)⟩

/-! ### walks through in-range links -/

def Adj (nv : Nat) (links : List (Nat × Nat)) (v w : Nat) : Prop :=
  v < nv ∧ w < nv ∧ ((v, w) ∈ links ∨ (w, v) ∈ links)

/-- `Walk v l u`: a walk from `v` to `u` whose vertices after `v` are `l` -/
inductive Walk (nv : Nat) (links : List (Nat × Nat)) : Nat → List Nat → Nat → Prop
  | nil (v : Nat) : Walk nv links v [] v
  | cons {v w u : Nat} {l : List Nat} : Adj nv links v w → Walk nv links w l u → Walk nv links v (w :: l) u

theorem walk_lt {nv links} {v u : Nat} {l : List Nat} (h : Walk nv links v l u) : ∀ x ∈ l, x < nv := by
  induction h with
  | nil v => intro x hx; cases hx
  | cons hadj _ ih =>
    intro x hx
    rcases List.mem_cons.1 hx with hx | hx
    · subst hx; exact hadj.2.1
    · exact ih x hx

theorem walk_suffix {nv links} {w u : Nat} {l : List Nat} (h : Walk nv links w l u) :
    (w :: l).Nodup → ∀ x, x ∈ w :: l → ∃ l3, Walk nv links x l3 u ∧ (x :: l3).Nodup := by
  induction h with
  | nil v =>
    intro hnd x hx
    have : x = v := by simpa using hx
    subst this
    exact ⟨[], Walk.nil _, hnd⟩
  | @cons v w u l hadj hw ih =>
    intro hnd x hx
    rcases List.mem_cons.1 hx with hx | hx
    · subst hx; exact ⟨w :: l, Walk.cons hadj hw, hnd⟩
    · exact ih (List.nodup_cons.1 hnd).2 x hx

theorem walk_nodup {nv links} {v u : Nat} {l : List Nat} (h : Walk nv links v l u) :
    ∃ l', Walk nv links v l' u ∧ (v :: l').Nodup := by
  induction h with
  | nil v => exact ⟨[], Walk.nil _, by simp⟩
  | @cons v w u l hadj _ ih =>
    obtain ⟨l', hw', hnd'⟩ := ih
    by_cases hv : v ∈ w :: l'
    · exact walk_suffix hw' hnd' v hv
    · exact ⟨w :: l', Walk.cons hadj hw', List.nodup_cons.2 ⟨hv, hnd'⟩⟩

theorem walk_short {nv links} {v u : Nat} {l : List Nat} (h : Walk nv links v l u) (hv : v < nv) :
    ∃ l', Walk nv links v l' u ∧ l'.length + 1 ≤ nv := by
  obtain ⟨l', hw, hnd⟩ := walk_nodup h
  refine ⟨l', hw, ?_⟩
  have := nodup_length_le (v :: l') nv hnd (by
    intro x hx
    rcases List.mem_cons.1 hx with hx | hx
    · subst hx; exact hv
    · exact walk_lt hw x hx)
  simpa using this

theorem walk_linkConn {nv links} {v u : Nat} {l : List Nat} (h : Walk nv links v l u) : LinkConn links u v := by
  induction h with
  | nil v => exact LinkConn.refl _
  | cons hadj _ ih => exact LinkConn.step ih (hadj.2.2.symm)

/-! ### the invariant -/

def Inv (nv : Nat) (links : List (Nat × Nat)) (lab : Array Nat) : Prop :=
  lab.size = nv ∧ ∀ i, i < nv → lab[i]! ≤ i ∧ ∃ l, Walk nv links i l lab[i]!

theorem range_get (nv i : Nat) (h : i < nv) : (Array.range nv)[i]! = i := by
  simp [h]

theorem inv_range (nv links) : Inv nv links (Array.range nv) := by
  refine ⟨by simp, fun i hi => ?_⟩
  rw [range_get nv i hi]
  exact ⟨Nat.le_refl _, [], Walk.nil _⟩

theorem inv_relax {nv links} {lab : Array Nat} (h : Inv nv links lab) (a b : Nat) (hab : (a, b) ∈ links) :
    Inv nv links (relaxLink lab (a, b)) := by
  refine ⟨by rw [relax_size]; exact h.1, fun i hi => ?_⟩
  rw [relax_get]
  split
  · next hr =>
    rw [h.1] at hr
    split
    · next hc =>
      obtain ⟨rfl, hc⟩ := hc
      obtain ⟨ha1, l, hl⟩ := h.2 a hr.1
      have := (h.2 i hi).1
      exact ⟨by omega, a :: l, Walk.cons ⟨hi, hr.1, Or.inr hab⟩ hl⟩
    · split
      · next hc =>
        obtain ⟨rfl, hc⟩ := hc
        obtain ⟨hb1, l, hl⟩ := h.2 b hr.2
        have := (h.2 i hi).1
        exact ⟨by omega, b :: l, Walk.cons ⟨hi, hr.2, Or.inl hab⟩ hl⟩
      · exact h.2 i hi
  · exact h.2 i hi

theorem inv_fold {nv links} : ∀ (l : List (Nat × Nat)), (∀ p ∈ l, p ∈ links) → ∀ lab, Inv nv links lab →
    Inv nv links (l.foldl relaxLink lab)
  | [], _, _, h => h
  | p :: l, hl, lab, h => by
    rw [List.foldl_cons]
    exact inv_fold l (fun q hq => hl q (List.mem_cons_of_mem _ hq)) _
      (inv_relax h p.1 p.2 (hl p List.mem_cons_self))

theorem inv_sweep {nv links} {lab : Array Nat} (h : Inv nv links lab) : Inv nv links (sweepLinks links lab) :=
  inv_fold links (fun _ hp => hp) lab h

theorem inv_sweepN {nv links} : ∀ (k : Nat) (lab : Array Nat), Inv nv links lab → Inv nv links (sweepN links k lab)
  | 0, _, h => h
  | k + 1, lab, h => by
    rw [sweepN]
    split
    · exact h
    · exact inv_sweepN k _ (inv_sweep h)

/-! ### iterated sweeps -/

def iter (links : List (Nat × Nat)) : Nat → Array Nat → Array Nat
  | 0, lab => lab
  | k + 1, lab => iter links k (sweepLinks links lab)

theorem iter_succ' (links) : ∀ (k : Nat) (lab : Array Nat),
    iter links (k + 1) lab = sweepLinks links (iter links k lab)
  | 0, _ => rfl
  | k + 1, lab => by
    show iter links (k + 1) (sweepLinks links lab) = _
    rw [iter_succ' links k]; rfl

theorem iter_size (links) : ∀ (k : Nat) (lab : Array Nat), (iter links k lab).size = lab.size
  | 0, _ => rfl
  | k + 1, lab => by rw [iter_succ', sweepLinks, fold_size, iter_size links k]

theorem iter_le (links) : ∀ (k : Nat) (lab : Array Nat) (i : Nat), (iter links k lab)[i]! ≤ lab[i]!
  | 0, _, _ => Nat.le_refl _
  | k + 1, lab, i => by
    rw [iter_succ', sweepLinks]
    exact Nat.le_trans (fold_le _ _ i) (iter_le links k lab i)

theorem sweepN_cases (links) : ∀ (k : Nat) (lab : Array Nat),
    sweepLinks links (sweepN links k lab) = sweepN links k lab ∨ sweepN links k lab = iter links k lab
  | 0, _ => Or.inr rfl
  | k + 1, lab => by
    rw [sweepN]
    split
    · next h => exact Or.inl (eq_of_beq h)
    · exact sweepN_cases links k _

theorem iter_walk {nv links} {lab : Array Nat} (hs : lab.size = nv) {v u : Nat} {l : List Nat}
    (h : Walk nv links v l u) : ∀ k, l.length ≤ k → (iter links k lab)[v]! ≤ lab[u]! := by
  induction h with
  | nil v => intro k _; exact iter_le links k lab v
  | @cons v w u l hadj _ ih =>
    intro k hk
    cases k with
    | zero => simp at hk
    | succ k =>
      have hk' : l.length ≤ k := by simpa using hk
      rw [iter_succ', sweepLinks]
      have hsz : (iter links k lab).size = nv := by rw [iter_size, hs]
      refine Nat.le_trans ?_ (ih k hk')
      rcases hadj.2.2 with hm | hm
      · exact (fold_link links _ v w hm (by have := hadj.1; omega) (by have := hadj.2.1; omega)).1
      · exact (fold_link links _ w v hm (by have := hadj.2.1; omega) (by have := hadj.1; omega)).2

/-- (3) at a fixpoint -/
theorem fix_link {links} {lab : Array Nat} (h : sweepLinks links lab = lab) (a b : Nat) (hab : (a, b) ∈ links)
    (ha : a < lab.size) (hb : b < lab.size) : lab[a]! = lab[b]! := by
  have := fold_link links lab a b hab ha hb
  rw [show links.foldl relaxLink lab = lab from h] at this
  omega

/-- (3) after `nv` sweeps from the identity labelling -/
theorem iter_link {nv links} (a b : Nat) (hab : (a, b) ∈ links) (ha : a < nv) (hb : b < nv) :
    (iter links nv (Array.range nv))[a]! = (iter links nv (Array.range nv))[b]! := by
  have hinv : ∀ k, Inv nv links (iter links k (Array.range nv)) := by
    intro k
    induction k with
    | zero => exact inv_range nv links
    | succ k ih => rw [iter_succ']; exact inv_sweep ih
  have key : ∀ x y, Adj nv links x y →
      (iter links nv (Array.range nv))[x]! ≤ (iter links nv (Array.range nv))[y]! := by
    intro x y hxy
    obtain ⟨hle, l, hl⟩ := (hinv nv).2 y hxy.2.1
    obtain ⟨l', hw, hlen⟩ := walk_short (Walk.cons hxy hl) hxy.1
    have := iter_walk (lab := Array.range nv) (by simp) hw nv (by omega)
    rw [range_get nv _ (by have := hxy.2.1; omega)] at this
    exact this
  exact Nat.le_antisymm (key a b ⟨ha, hb, Or.inl hab⟩) (key b a ⟨hb, ha, Or.inr hab⟩)

end IsoCompL

theorem isoComponents_spec (nv : Nat) (links : List (Nat × Nat)) :
    (isoComponents nv links).size = nv ∧
    (∀ i, i < nv → (isoComponents nv links)[i]! ≤ i ∧ LinkConn links ((isoComponents nv links)[i]!) i) ∧
    (∀ a b, (a, b) ∈ links → a < nv → b < nv → (isoComponents nv links)[a]! = (isoComponents nv links)[b]!) := by
  have hinv : IsoCompL.Inv nv links (isoComponents nv links) :=
    IsoCompL.inv_sweepN nv _ (IsoCompL.inv_range nv links)
  refine ⟨hinv.1, fun i hi => ?_, fun a b hab ha hb => ?_⟩
  · obtain ⟨hle, l, hl⟩ := hinv.2 i hi
    exact ⟨hle, IsoCompL.walk_linkConn hl⟩
  · rcases IsoCompL.sweepN_cases links nv (Array.range nv) with h | h
    · have hs : (sweepN links nv (Array.range nv)).size = nv := hinv.1
      exact IsoCompL.fix_link h a b hab (by rw [hs]; exact ha) (by rw [hs]; exact hb)
    · show (sweepN links nv (Array.range nv))[a]! = (sweepN links nv (Array.range nv))[b]!
      rw [h]
      exact IsoCompL.iter_link a b hab ha hb

end Parmcb
