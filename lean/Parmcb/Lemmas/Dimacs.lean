import Parmcb.Model.Dimacs
import Parmcb.Lemmas.Graph
/-! helper lemmas for C10.  Core Lean only. -/
namespace Parmcb.DimacsL
open Parmcb

/-! ### newline handling and the line-level fold -/

theorem stripNewline_append_newline (l : List Char) : stripNewline (l ++ ['\n']) = l := by
  simp [stripNewline]

theorem stripNewline_of_ne (l : List Char) (h : l.getLast? ≠ some '\n') : stripNewline l = l := by
  unfold stripNewline
  split
  · contradiction
  · rfl

theorem foldlM_comments (g : DGraph) (k : Nat) :
    List.foldlM interpLine g (List.replicate k DLine.comment) = some g := by
  induction k with
  | zero => rfl
  | succ k ih => simp [List.replicate_succ, interpLine, ih]

theorem interpLine_edge_ok (g : DGraph) (u v : Nat) (w : Dec) (hu : u < g.n) (hv : v < g.n) :
    interpLine g (.edge (u + 1 : Nat) (v + 1 : Nat) w) = some { g with edges := g.edges ++ [(u, v, w)] } := by
  simp only [interpLine]
  rw [if_pos (by omega)]
  have h1 : (((u + 1 : Nat) : Int) - 1).toNat = u := by omega
  have h2 : (((v + 1 : Nat) : Int) - 1).toNat = v := by omega
  rw [h1, h2]

theorem foldlM_edges (between : List Nat) (es : List (Nat × Nat × Dec)) (k : Nat) (g0 : DGraph)
    (h : ∀ e ∈ es, e.1 < g0.n ∧ e.2.1 < g0.n) :
    List.foldlM interpLine g0 ((es.zipIdx k).flatMap fun (e, i) =>
      List.replicate (between.getD i 0) DLine.comment ++ [DLine.edge (e.1 + 1 : Nat) (e.2.1 + 1 : Nat) e.2.2])
      = some { g0 with edges := g0.edges ++ es } := by
  induction es generalizing k g0 with
  | nil => simp
  | cons e es ih =>
    have he := h e List.mem_cons_self
    rw [List.zipIdx_cons, List.flatMap_cons, List.foldlM_append, List.foldlM_append, foldlM_comments]
    simp only [Option.bind_eq_bind, Option.bind_some, List.foldlM_cons, List.foldlM_nil]
    rw [interpLine_edge_ok g0 _ _ _ he.1 he.2]
    simp only [Option.bind_some, Option.pure_def]
    rw [ih]
    · simp
    · intro e' he'; exact h e' (List.mem_cons_of_mem _ he')


/-! ### reading -/

theorem interpLine_edge_bad (g : DGraph) (u v : Int) (w : Dec)
    (h : ¬ (1 ≤ u ∧ u ≤ g.n) ∨ ¬ (1 ≤ v ∧ v ≤ g.n)) : interpLine g (.edge u v w) = none := by
  simp only [interpLine]
  rw [if_neg]
  rintro ⟨a, b, c, d⟩
  rcases h with h | h
  · exact h ⟨a, b⟩
  · exact h ⟨c, d⟩

theorem interp_fail (ls₁ ls₂ : List DLine) (g : DGraph) (l : DLine)
    (h₁ : interp ls₁ = some g) (h : interpLine g l = none) : interp (ls₁ ++ [l] ++ ls₂) = none := by
  unfold interp at *
  rw [List.foldlM_append, List.foldlM_append, h₁]
  simp [h]

/-! ### validators -/

theorem hasLoops_iff (g : Graph) : hasLoops g = true ↔ ∃ e, e < g.m ∧ g.src e = g.tgt e := by
  simp [hasLoops, List.any_eq_true, List.mem_range]

theorem hasNonPositiveWeights_iff (g : Graph) :
    hasNonPositiveWeights g = true ↔ ∃ e, e < g.m ∧ g.weight e ≤ 0 := by
  simp [hasNonPositiveWeights, List.any_eq_true, List.mem_range]

/-! ### `has_multiple_edges` -/

theorem length_eraseDups_le (n : Nat) : ∀ (l : List Nat), l.length ≤ n → l.eraseDups.length ≤ l.length := by
  induction n with
  | zero => intro l hl; cases l with
    | nil => simp
    | cons a l => simp at hl
  | succ n ih =>
    intro l hl
    cases l with
    | nil => simp
    | cons a l =>
      rw [List.eraseDups_cons]
      have h1 := List.length_filter_le (fun b => !b == a) l
      have h2 := ih (l.filter fun b => !b == a) (by simp at hl; omega)
      simp only [List.length_cons]
      omega

theorem length_eraseDups_eq_iff (n : Nat) :
    ∀ (l : List Nat), l.length ≤ n → (l.eraseDups.length = l.length ↔ l.Nodup) := by
  induction n with
  | zero => intro l hl; cases l with
    | nil => simp
    | cons a l => simp at hl
  | succ n ih =>
    intro l hl
    cases l with
    | nil => simp
    | cons a l =>
      rw [List.eraseDups_cons, List.nodup_cons]
      have h1 := List.length_filter_le (fun b => !b == a) l
      have h2 := length_eraseDups_le _ (l.filter fun b => !b == a) (Nat.le_refl _)
      simp only [List.length_cons] at hl ⊢
      constructor
      · intro h
        have h3 : (l.filter fun b => !b == a).length = l.length := by omega
        have h4 : (l.filter fun b => !b == a) = l := by
          rw [List.filter_eq_self]
          exact List.length_filter_eq_length_iff.1 h3
        rw [h4] at h
        refine ⟨?_, (ih l (by omega)).1 (by omega)⟩
        intro ha
        have := (List.filter_eq_self.1 h4) a ha
        simp at this
      · rintro ⟨ha, hn⟩
        have h4 : (l.filter fun b => !b == a) = l := by
          rw [List.filter_eq_self]
          intro b hb
          have : b ≠ a := fun h => ha (h ▸ hb)
          simp [this]
        rw [h4, (ih l (by omega)).2 hn]

theorem eraseDups_length_ne_iff (l : List Nat) : l.eraseDups.length ≠ l.length ↔ ¬ l.Nodup := by
  rw [Ne, length_eraseDups_eq_iff _ l (Nat.le_refl _)]

/-- on a strictly increasing list a relation holds pairwise iff it holds on increasing pairs -/
theorem pairwise_sorted_iff {l : List Nat} (hs : l.Pairwise (· < ·)) (R : Nat → Nat → Prop) :
    l.Pairwise R ↔ ∀ a ∈ l, ∀ b ∈ l, a < b → R a b := by
  induction l with
  | nil => simp
  | cons x l ih =>
    rw [List.pairwise_cons] at hs ⊢
    rw [ih hs.2]
    constructor
    · rintro ⟨h1, h2⟩ a ha b hb hab
      rcases List.mem_cons.1 ha with rfl | ha'
      · rcases List.mem_cons.1 hb with rfl | hb'
        · omega
        · exact h1 b hb'
      · rcases List.mem_cons.1 hb with rfl | hb'
        · have := hs.1 a ha'; omega
        · exact h2 a ha' b hb' hab
    · intro h
      exact ⟨fun b hb => h x List.mem_cons_self b (List.mem_cons_of_mem _ hb) (hs.1 b hb),
        fun a ha b hb hab => h a (List.mem_cons_of_mem _ ha) b (List.mem_cons_of_mem _ hb) hab⟩

/-- the neighbour list of `v` in a loop-free graph: one entry per incident edge -/
theorem nb_eq (g : Graph) (v : Nat) (l : List Nat) (hl : ∀ e ∈ l, g.src e ≠ g.tgt e) :
    (l.flatMap fun e =>
      (if g.src e = v then [(e, g.tgt e)] else []) ++ (if g.tgt e = v then [(e, g.src e)] else [])).map (·.2)
    = (l.filter fun e => decide (g.src e = v ∨ g.tgt e = v)).map (fun e => g.other e v) := by
  induction l with
  | nil => rfl
  | cons e l ih =>
    have he := hl e List.mem_cons_self
    rw [List.flatMap_cons, List.map_append, ih (fun e' he' => hl e' (List.mem_cons_of_mem _ he')),
      List.filter_cons]
    unfold Graph.other
    by_cases h1 : g.src e = v
    · have h2 : g.tgt e ≠ v := by omega
      simp [h1, h2]
    · by_cases h2 : g.tgt e = v
      · simp [h1, h2]
      · simp [h1, h2]

theorem nb_not_nodup_iff (g : Graph) (v : Nat) (hl : ∀ e, e < g.m → g.src e ≠ g.tgt e) :
    ¬ ((g.adj v).map (·.2)).Nodup ↔
      ∃ e f, e < f ∧ f < g.m ∧ (g.src e = v ∨ g.tgt e = v) ∧ (g.src f = v ∨ g.tgt f = v) ∧
        g.other e v = g.other f v := by
  unfold Graph.adj
  rw [nb_eq g v _ (fun e he => hl e (List.mem_range.1 he)), List.Nodup, List.pairwise_map,
    pairwise_sorted_iff (List.pairwise_lt_range.filter _)]
  simp only [List.mem_filter, List.mem_range, decide_eq_true_eq, ne_eq]
  constructor
  · intro h
    apply Classical.byContradiction
    intro hc
    apply h
    rintro a ⟨ha, hav⟩ b ⟨hb, hbv⟩ hab heq
    exact hc ⟨a, b, hab, hb, hav, hbv, heq⟩
  · rintro ⟨e, f, hef, hf, hev, hfv, heq⟩ h
    exact h e ⟨by omega, hev⟩ f ⟨hf, hfv⟩ hef heq

theorem hasMultipleEdges_iff (g : Graph)
    (hr : ∀ e, e < g.m → g.src e < g.n ∧ g.tgt e < g.n ∧ g.src e ≠ g.tgt e) :
    hasMultipleEdges g = true ↔
      ∃ e f, e < f ∧ f < g.m ∧
        ((g.src e = g.src f ∧ g.tgt e = g.tgt f) ∨ (g.src e = g.tgt f ∧ g.tgt e = g.src f)) := by
  unfold hasMultipleEdges
  simp only [List.any_eq_true, List.mem_range, decide_eq_true_eq, eraseDups_length_ne_iff]
  constructor
  · rintro ⟨v, hv, h⟩
    obtain ⟨e, f, hef, hf, hev, hfv, heq⟩ := (nb_not_nodup_iff g v (fun e he => (hr e he).2.2)).1 h
    refine ⟨e, f, hef, hf, ?_⟩
    unfold Graph.other at heq
    have := (hr e (by omega)).2.2
    have := (hr f hf).2.2
    split at heq <;> split at heq <;> omega
  · rintro ⟨e, f, hef, hf, h⟩
    refine ⟨g.src e, (hr e (by omega)).1, ?_⟩
    rw [nb_not_nodup_iff g _ (fun e he => (hr e he).2.2)]
    refine ⟨e, f, hef, hf, Or.inl rfl, by omega, ?_⟩
    unfold Graph.other
    have := (hr e (by omega)).2.2
    have := (hr f hf).2.2
    split <;> split <;> omega

end Parmcb.DimacsL
