import Parmcb.Model.Dimacs
import Parmcb.Lemmas.Graph
/-! helper lemmas for C10.  Core Lean only. -/
namespace Parmcb.DimacsL
open Parmcb

/-! ### newline handling and the line-level fold -/

theorem stripNewline_append_newline (l : List Char) : stripNewline (l ++ ['\n']) = l := by
  simp [stripNewline]

theorem stripNewline_of_ne (l : List Char) (h : l.getLast? ≠ some '\n') : stripNewline l = l := by
  unfold stripNewline
  split
  · contradiction
  · rfl

theorem foldlM_comments (g : DGraph) (k : Nat) :
    List.foldlM interpLine g (List.replicate k DLine.comment) = some g := by
  induction k with
  | zero => rfl
  | succ k ih => simp [List.replicate_succ, interpLine, ih]

theorem interpLine_edge_ok (g : DGraph) (u v : Nat) (w : Dec) (hu : u < g.n) (hv : v < g.n) :
    interpLine g (.edge (u + 1 : Nat) (v + 1 : Nat) w) = some { g with edges := g.edges ++ [(u, v, w)] } := by
  simp only [interpLine]
  rw [if_pos (by omega)]
  have h1 : (((u + 1 : Nat) : Int) - 1).toNat = u := by omega
  have h2 : (((v + 1 : Nat) : Int) - 1).toNat = v := by omega
  rw [h1, h2]

theorem foldlM_edges (between : List Nat) (es : List (Nat × Nat × Dec)) (k : Nat) (g0 : DGraph)
    (h : ∀ e ∈ es, e.1 < g0.n ∧ e.2.1 < g0.n) :
    List.foldlM interpLine g0 ((es.zipIdx k).flatMap fun (e, i) =>
      List.replicate (between.getD i 0) DLine.comment ++ [DLine.edge (e.1 + 1 : Nat) (e.2.1 + 1 : Nat) e.2.2])
      = some { g0 with edges := g0.edges ++ es } := by
  induction es generalizing k g0 with
  | nil => simp
  | cons e es ih =>
    have he := h e List.mem_cons_self
    rw [List.zipIdx_cons, List.flatMap_cons, List.foldlM_append, List.foldlM_append, foldlM_comments]
    simp only [Option.bind_eq_bind, Option.bind_some, List.foldlM_cons, List.foldlM_nil]
    rw [interpLine_edge_ok g0 _ _ _ he.1 he.2]
    simp only [Option.bind_some, Option.pure_def]
    rw [ih]
    · simp
    · intro e' he'; exact h e' (List.mem_cons_of_mem _ he')


/-! ### reading -/

theorem interpLine_edge_bad (g : DGraph) (u v : Int) (w : Dec)
    (h : ¬ (1 ≤ u ∧ u ≤ g.n) ∨ ¬ (1 ≤ v ∧ v ≤ g.n)) : interpLine g (.edge u v w) = none := by
  simp only [interpLine]
  rw [if_neg]
  rintro ⟨a, b, c, d⟩
  rcases h with h | h
  · exact h ⟨a, b⟩
  · exact h ⟨c, d⟩

theorem interp_fail (ls₁ ls₂ : List DLine) (g : DGraph) (l : DLine)
    (h₁ : interp ls₁ = some g) (h : interpLine g l = none) : interp (ls₁ ++ [l] ++ ls₂) = none := by
  unfold interp at *
  rw [List.foldlM_append, List.foldlM_append, h₁]
  simp [h]

/-! ### validators -/

theorem hasLoops_iff (g : Graph) : hasLoops g = true ↔ ∃ e, e < g.m ∧ g.src e = g.tgt e := by
  simp [hasLoops, List.any_eq_true, List.mem_range]

theorem hasNonPositiveWeights_iff (g : Graph) :
    hasNonPositiveWeights g = true ↔ ∃ e, e < g.m ∧ g.weight e ≤ 0 := by
  simp [hasNonPositiveWeights, List.any_eq_true, List.mem_range]

/-! ### `has_multiple_edges` -/

theorem length_eraseDups_le (n : Nat) : ∀ (l : List Nat), l.length ≤ n → l.eraseDups.length ≤ l.length := by
  induction n with
  | zero => intro l hl; cases l with
    | nil => simp
    | cons a l => simp at hl
  | succ n ih =>
    intro l hl
    cases l with
    | nil => simp
    | cons a l =>
      rw [List.eraseDups_cons]
      have h1 := List.length_filter_le (fun b => !b == a) l
      have h2 := ih (l.filter fun b => !b == a) (by simp at hl; omega)
      simp only [List.length_cons]
      omega

theorem length_eraseDups_eq_iff (n : Nat) :
    ∀ (l : List Nat), l.length ≤ n → (l.eraseDups.length = l.length ↔ l.Nodup) := by
  induction n with
  | zero => intro l hl; cases l with
    | nil => simp
    | cons a l => simp at hl
  | succ n ih =>
    intro l hl
    cases l with
    | nil => simp
    | cons a l =>
      rw [List.eraseDups_cons, List.nodup_cons]
      have h1 := List.length_filter_le (fun b => !b == a) l
      have h2 := length_eraseDups_le _ (l.filter fun b => !b == a) (Nat.le_refl _)
      simp only [List.length_cons] at hl ⊢
      constructor
      · intro h
        have h3 : (l.filter fun b => !b == a).length = l.length := by omega
        have h4 : (l.filter fun b => !b == a) = l := by
          rw [List.filter_eq_self]
          exact List.length_filter_eq_length_iff.1 h3
        rw [h4] at h
        refine ⟨?_, (ih l (by omega)).1 (by omega)⟩
        intro ha
        have := (List.filter_eq_self.1 h4) a ha
        simp at this
      · rintro ⟨ha, hn⟩
        have h4 : (l.filter fun b => !b == a) = l := by
          rw [List.filter_eq_self]
          intro b hb
          have : b ≠ a := fun h => ha (h ▸ hb)
          simp [this]
        rw [h4, (ih l (by omega)).2 hn]

theorem eraseDups_length_ne_iff (l : List Nat) : l.eraseDups.length ≠ l.length ↔ ¬ l.Nodup := by
  rw [Ne, length_eraseDups_eq_iff _ l (Nat.le_refl _)]

/-- on a strictly increasing list a relation holds pairwise iff it holds on increasing pairs -/
theorem pairwise_sorted_iff {l : List Nat} (hs : l.Pairwise (· < ·)) (R : Nat → Nat → Prop) :
    l.Pairwise R ↔ ∀ a ∈ l, ∀ b ∈ l, a < b → R a b := by
  induction l with
  | nil => simp
  | cons x l ih =>
    rw [List.pairwise_cons] at hs ⊢
    rw [ih hs.2]
    constructor
    · rintro ⟨h1, h2⟩ a ha b hb hab
      rcases List.mem_cons.1 ha with rfl | ha'
      · rcases List.mem_cons.1 hb with rfl | hb'
        · omega
        · exact h1 b hb'
      · rcases List.mem_cons.1 hb with rfl | hb'
        · have := hs.1 a ha'; omega
        · exact h2 a ha' b hb' hab
    · intro h
      exact ⟨fun b hb => h x List.mem_cons_self b (List.mem_cons_of_mem _ hb) (hs.1 b hb),
        fun a ha b hb hab => h a (List.mem_cons_of_mem _ ha) b (List.mem_cons_of_mem _ hb) hab⟩

/-- the neighbour list of `v` in a loop-free graph: one entry per incident edge -/
theorem nb_eq (g : Graph) (v : Nat) (l : List Nat) (hl : ∀ e ∈ l, g.src e ≠ g.tgt e) :
    (l.flatMap fun e =>
      (if g.src e = v then [(e, g.tgt e)] else []) ++ (if g.tgt e = v then [(e, g.src e)] else [])).map (·.2)
    = (l.filter fun e => decide (g.src e = v ∨ g.tgt e = v)).map (fun e => g.other e v) := by
  induction l with
  | nil => rfl
  | cons e l ih =>
    have he := hl e List.mem_cons_self
    rw [List.flatMap_cons, List.map_append, ih (fun e' he' => hl e' (List.mem_cons_of_mem _ he')),
      List.filter_cons]
    unfold Graph.other
    by_cases h1 : g.src e = v
    · have h2 : g.tgt e ≠ v := by omega
      simp [h1, h2]
    · by_cases h2 : g.tgt e = v
      · simp [h1, h2]
      · simp [h1, h2]

theorem nb_not_nodup_iff (g : Graph) (v : Nat) (hl : ∀ e, e < g.m → g.src e ≠ g.tgt e) :
    ¬ ((g.adj v).map (·.2)).Nodup ↔
      ∃ e f, e < f ∧ f < g.m ∧ (g.src e = v ∨ g.tgt e = v) ∧ (g.src f = v ∨ g.tgt f = v) ∧
        g.other e v = g.other f v := by
  unfold Graph.adj
  rw [nb_eq g v _ (fun e he => hl e (List.mem_range.1 he)), List.Nodup, List.pairwise_map,
    pairwise_sorted_iff (List.pairwise_lt_range.filter _)]
  simp only [List.mem_filter, List.mem_range, decide_eq_true_eq, ne_eq]
  constructor
  · intro h
    apply Classical.byContradiction
    intro hc
    apply h
    rintro a ⟨ha, hav⟩ b ⟨hb, hbv⟩ hab heq
    exact hc ⟨a, b, hab, hb, hav, hbv, heq⟩
  · rintro ⟨e, f, hef, hf, hev, hfv, heq⟩ h
    exact h e ⟨by omega, hev⟩ f ⟨hf, hfv⟩ hef heq

theorem hasMultipleEdges_iff (g : Graph)
    (hr : ∀ e, e < g.m → g.src e < g.n ∧ g.tgt e < g.n ∧ g.src e ≠ g.tgt e) :
    hasMultipleEdges g = true ↔
      ∃ e f, e < f ∧ f < g.m ∧
        ((g.src e = g.src f ∧ g.tgt e = g.tgt f) ∨ (g.src e = g.tgt f ∧ g.tgt e = g.src f)) := by
  unfold hasMultipleEdges
  simp only [List.any_eq_true, List.mem_range, decide_eq_true_eq, eraseDups_length_ne_iff]
  constructor
  · rintro ⟨v, hv, h⟩
    obtain ⟨e, f, hef, hf, hev, hfv, heq⟩ := (nb_not_nodup_iff g v (fun e he => (hr e he).2.2)).1 h
    refine ⟨e, f, hef, hf, ?_⟩
    unfold Graph.other at heq
    have := (hr e (by omega)).2.2
    have := (hr f hf).2.2
    split at heq <;> split at heq <;> omega
  · rintro ⟨e, f, hef, hf, h⟩
    refine ⟨g.src e, (hr e (by omega)).1, ?_⟩
    rw [nb_not_nodup_iff g _ (fun e he => (hr e he).2.2)]
    refine ⟨e, f, hef, hf, Or.inl rfl, by omega, ?_⟩
    unfold Graph.other
    have := (hr e (by omega)).2.2
    have := (hr f hf).2.2
    split <;> split <;> omega

/-! ### text level: the tokenizer -/

theorem splitCh_of_not_mem {sep : Char} {w : List Char} (h : sep ∉ w) : splitCh sep w = [w] := by
  induction w with
  | nil => rfl
  | cons c w ih =>
    have hc : c ≠ sep := fun e => h (e ▸ List.mem_cons_self)
    have hw : sep ∉ w := fun m => h (List.mem_cons_of_mem _ m)
    simp only [splitCh, if_neg hc, ih hw]

theorem splitCh_append_sep {sep : Char} {w : List Char} (h : sep ∉ w) (rest : List Char) :
    splitCh sep (w ++ sep :: rest) = w :: splitCh sep rest := by
  induction w with
  | nil => simp [splitCh]
  | cons c w ih =>
    have hc : c ≠ sep := fun e => h (e ▸ List.mem_cons_self)
    have hw : sep ∉ w := fun m => h (List.mem_cons_of_mem _ m)
    simp only [List.cons_append, splitCh, if_neg hc, ih hw]

theorem tokens_space (rest : List Char) : tokens (' ' :: rest) = tokens rest := by
  simp [tokens, splitCh]

theorem tokens_replicate (k : Nat) (rest : List Char) :
    tokens (List.replicate k ' ' ++ rest) = tokens rest := by
  induction k with
  | zero => rfl
  | succ k ih => rw [List.replicate_succ, List.cons_append, tokens_space, ih]

theorem tokens_word {w : List Char} (h : ' ' ∉ w) (hne : w ≠ []) : tokens w = [w] := by
  simp [tokens, splitCh_of_not_mem h, hne]

/-- a word followed by a non-empty run of spaces -/
theorem tokens_word_gap {w : List Char} (h : ' ' ∉ w) (hne : w ≠ []) (k : Nat) (rest : List Char) :
    tokens (w ++ (List.replicate (k + 1) ' ' ++ rest)) = w :: tokens rest := by
  rw [List.replicate_succ, List.cons_append]
  have : tokens (w ++ ' ' :: (List.replicate k ' ' ++ rest)) = w :: tokens (List.replicate k ' ' ++ rest) := by
    simp [tokens, splitCh_append_sep h, hne]
  rw [this, tokens_replicate]

/-! ### text level: numbers -/

/-- decimal digits of a natural number, no leading zeros (`0` is `"0"`) -/
def renderNat (n : Nat) : List Char := Nat.toDigits 10 n

theorem isDigit_of_mem_renderNat {c : Char} {n : Nat} (h : c ∈ renderNat n) : c.isDigit = true :=
  Nat.isDigit_of_mem_toDigits (by decide) (by decide) h

theorem not_mem_renderNat {c : Char} (hc : c.isDigit = false) (n : Nat) : c ∉ renderNat n := by
  intro h; rw [isDigit_of_mem_renderNat h] at hc; cases hc

theorem renderNat_ne_nil (n : Nat) : renderNat n ≠ [] := Nat.toDigits_ne_nil

theorem parseNat_renderNat (n : Nat) : parseNat (renderNat n) = some n := by
  unfold parseNat
  have h1 : (renderNat n).isEmpty = false := by
    cases h : renderNat n with
    | nil => exact absurd h (renderNat_ne_nil n)
    | cons => rfl
  have h2 : (renderNat n).all Char.isDigit = true :=
    List.all_eq_true.2 fun c hc => isDigit_of_mem_renderNat hc
  rw [h1, h2]
  simp [renderNat]

theorem parseInt_renderNat (n : Nat) : parseInt (renderNat n) = some (n : Int) := by
  have hp := parseNat_renderNat n
  have hm : '-' ∉ renderNat n := not_mem_renderNat (by decide) n
  cases h : renderNat n with
  | nil => exact absurd h (renderNat_ne_nil n)
  | cons c cs =>
    rw [h] at hp hm
    have hc : c ≠ '-' := fun e => hm (e ▸ List.mem_cons_self)
    unfold parseInt
    split
    · rename_i heq; cases heq; exact absurd rfl hc
    · rw [hp]; rfl

/-- exactly `k` fractional digits of `r < 10^k`, zero padded on the left -/
def renderFrac (k r : Nat) : List Char :=
  List.replicate (k - (renderNat r).length) '0' ++ renderNat r

/-- `mant / 10^exp` for `mant ≥ 0`: integer part, and when `exp > 0` a `'.'` and exactly `exp` digits -/
def renderDec (d : Dec) : List Char :=
  renderNat (d.mant.toNat / 10 ^ d.exp) ++
    (if d.exp = 0 then [] else '.' :: renderFrac d.exp (d.mant.toNat % 10 ^ d.exp))

theorem isDigit_of_mem_renderFrac {c : Char} {k r : Nat} (h : c ∈ renderFrac k r) : c.isDigit = true := by
  rcases List.mem_append.1 h with h | h
  · rw [(List.mem_replicate.1 h).2]; rfl
  · exact isDigit_of_mem_renderNat h

theorem length_renderFrac {k r : Nat} (hk : 0 < k) (hr : r < 10 ^ k) : (renderFrac k r).length = k := by
  have : (renderNat r).length ≤ k := (Nat.length_toDigits_le_iff (by decide) hk).2 hr
  simp only [renderFrac, List.length_append, List.length_replicate]
  omega

theorem parseNat_renderFrac {k r : Nat} (hk : 0 < k) (hr : r < 10 ^ k) :
    parseNat (renderFrac k r) = some r := by
  unfold parseNat
  have h1 : (renderFrac k r).isEmpty = false := by
    have := length_renderFrac hk hr
    cases h : renderFrac k r with
    | nil => rw [h] at this; simp at this; omega
    | cons => rfl
  have h2 : (renderFrac k r).all Char.isDigit = true :=
    List.all_eq_true.2 fun c hc => isDigit_of_mem_renderFrac hc
  rw [h1, h2]
  simp [renderFrac, renderNat, Nat.ofDigitChars_append]

theorem not_mem_renderDec {c : Char} (hc : c.isDigit = false) (hd : c ≠ '.') (d : Dec) : c ∉ renderDec d := by
  intro h
  unfold renderDec at h
  rcases List.mem_append.1 h with h | h
  · exact not_mem_renderNat hc _ h
  · split at h
    · cases h
    · rcases List.mem_cons.1 h with h | h
      · exact hd h
      · rw [isDigit_of_mem_renderFrac h] at hc; cases hc

theorem renderDec_ne_nil (d : Dec) : renderDec d ≠ [] := by
  unfold renderDec
  intro h
  exact renderNat_ne_nil _ (List.append_eq_nil_iff.1 h).1

theorem head?_renderDec (d : Dec) : ∃ c, (renderDec d).head? = some c ∧ c.isDigit = true := by
  unfold renderDec
  cases h : renderNat (d.mant.toNat / 10 ^ d.exp) with
  | nil => exact absurd h (renderNat_ne_nil _)
  | cons c cs =>
    refine ⟨c, rfl, isDigit_of_mem_renderNat (n := d.mant.toNat / 10 ^ d.exp) ?_⟩
    rw [h]; exact List.mem_cons_self

/-- the weight parser inverts the weight printer -/
theorem parseDec_renderDec (d : Dec) (hd : 0 ≤ d.mant) : parseDec (renderDec d) = some d := by
  obtain ⟨c, hc, hcd⟩ := head?_renderDec d
  have hneg : ((renderDec d).head? == some '-') = false := by
    rw [hc]; simp only [beq_eq_false_iff_ne, ne_eq, Option.some.injEq]
    intro e; rw [e] at hcd; cases hcd
  have hpos : ((renderDec d).head? == some '+') = false := by
    rw [hc]; simp only [beq_eq_false_iff_ne, ne_eq, Option.some.injEq]
    intro e; rw [e] at hcd; cases hcd
  obtain ⟨m, e⟩ := d
  simp only at hd
  unfold parseDec
  simp only [hneg, hpos, Bool.or_self, Bool.false_eq_true, if_false]
  have hdotI : '.' ∉ renderNat (m.toNat / 10 ^ e) := not_mem_renderNat (by decide) _
  by_cases he : e = 0
  · subst he
    have : renderDec { mant := m, exp := 0 } = renderNat m.toNat := by simp [renderDec]
    rw [this, splitCh_of_not_mem (not_mem_renderNat (by decide) _)]
    simp only [parseNat_renderNat, Option.map_some]
    congr 2
    omega
  · have hk : 0 < e := Nat.pos_of_ne_zero he
    have hr : m.toNat % 10 ^ e < 10 ^ e := Nat.mod_lt _ (Nat.pow_pos (by decide))
    have : renderDec { mant := m, exp := e } =
        renderNat (m.toNat / 10 ^ e) ++ '.' :: renderFrac e (m.toNat % 10 ^ e) := by
      simp [renderDec, he]
    have hdotF : '.' ∉ renderFrac e (m.toNat % 10 ^ e) := by
      intro h; have := isDigit_of_mem_renderFrac h; cases this
    rw [this, splitCh_append_sep hdotI, splitCh_of_not_mem hdotF]
    have hI : (renderNat (m.toNat / 10 ^ e)).isEmpty = false := by
      cases h : renderNat (m.toNat / 10 ^ e) with
      | nil => exact absurd h (renderNat_ne_nil _)
      | cons => rfl
    have hF : (renderFrac e (m.toNat % 10 ^ e)).isEmpty = false := by
      have := length_renderFrac hk hr
      cases h : renderFrac e (m.toNat % 10 ^ e) with
      | nil => rw [h] at this; simp at this; omega
      | cons => rfl
    simp only [hI, hF, Bool.false_eq_true, if_false, parseNat_renderNat, parseNat_renderFrac hk hr,
      length_renderFrac hk hr]
    have hdm := Nat.div_add_mod' m.toNat (10 ^ e)
    congr 2
    omega

/-! ### text level: lines -/

/-- a gap of `k + 1` spaces -/
def spaces (k : Nat) : List Char := List.replicate (k + 1) ' '

/-- how an edge line is laid out: tag `a` (`true`) or `e` (`false`); the number of EXTRA spaces in each of
the three gaps; whether a weight equal to 1 is left out -/
structure EdgeStyle where
  tag : Bool
  gap1 : Nat
  gap2 : Nat
  gap3 : Nat
  omitOne : Bool
deriving Repr

/-- `e u v w` with single spaces -/
instance : Inhabited EdgeStyle := ⟨{ tag := false, gap1 := 0, gap2 := 0, gap3 := 0, omitOne := false }⟩

/-- an edge line for 1-based endpoints `u`, `v` -/
def renderEdgeLine (st : EdgeStyle) (u v : Nat) (w : Dec) : List Char :=
  (if st.tag then 'a' else 'e') :: (spaces st.gap1 ++ (renderNat u ++ (spaces st.gap2 ++ (renderNat v ++
    (if st.omitOne && decide (w = Dec.one) then [] else spaces st.gap3 ++ renderDec w)))))

/-- `p edge n m` -/
def renderProblemLine (gap1 gap2 gap3 n m : Nat) : List Char :=
  'p' :: (spaces gap1 ++ ("edge".toList ++ (spaces gap2 ++ (renderNat n ++ (spaces gap3 ++ renderNat m)))))

/-- a comment line: `#` (`true`) or `c` (`false`) followed by arbitrary text -/
def renderComment (hash : Bool) (text : List Char) : List Char :=
  (if hash then '#' else 'c') :: text

theorem classifyL_edgeLine (st : EdgeStyle) (u v : Nat) (w : Dec) (hw : 0 ≤ w.mant) :
    classifyL (renderEdgeLine st u v w) = .edge u v w := by
  have hu := not_mem_renderNat (c := ' ') (by decide) u
  have hv := not_mem_renderNat (c := ' ') (by decide) v
  have hww := not_mem_renderDec (c := ' ') (by decide) (by decide) w
  have key : classifyL (renderEdgeLine st u v w) =
      (match tokens (spaces st.gap1 ++ (renderNat u ++ (spaces st.gap2 ++ (renderNat v ++
        (if st.omitOne && decide (w = Dec.one) then [] else spaces st.gap3 ++ renderDec w))))) with
      | [u, v] => match parseInt u, parseInt v with
        | some u, some v => DLine.edge u v Dec.one
        | _, _ => .other
      | u :: v :: w :: _ => match parseInt u, parseInt v, parseDec w with
        | some u, some v, some w => .edge u v w
        | _, _, _ => .other
      | _ => .other) := by
    unfold renderEdgeLine
    cases st.tag <;> rfl
  rw [key]
  unfold spaces
  rw [tokens_replicate, tokens_word_gap hu (renderNat_ne_nil u)]
  by_cases ho : (st.omitOne && decide (w = Dec.one)) = true
  · have hone : w = Dec.one := by
      simp only [Bool.and_eq_true, decide_eq_true_eq] at ho; exact ho.2
    rw [if_pos ho, List.append_nil, tokens_word hv (renderNat_ne_nil v)]
    simp only [parseInt_renderNat, hone]
  · rw [if_neg ho, tokens_word_gap hv (renderNat_ne_nil v), tokens_word hww (renderDec_ne_nil w)]
    simp only [parseInt_renderNat, parseDec_renderDec w hw]

theorem classifyL_problemLine (gap1 gap2 gap3 n m : Nat) :
    classifyL (renderProblemLine gap1 gap2 gap3 n m) = .problem n := by
  have hn := not_mem_renderNat (c := ' ') (by decide) n
  have hm := not_mem_renderNat (c := ' ') (by decide) m
  have key : classifyL (renderProblemLine gap1 gap2 gap3 n m) =
      (match tokens (['p'] ++ (spaces gap1 ++ ("edge".toList ++ (spaces gap2 ++ (renderNat n ++
        (spaces gap3 ++ renderNat m)))))) with
      | _ :: _ :: n :: _ => match parseNat n with
        | some n => DLine.problem n
        | none => .other
      | _ => .other) := rfl
  rw [key]
  unfold spaces
  rw [tokens_word_gap (by decide) (by decide), tokens_word_gap (by decide) (by decide),
    tokens_word_gap hn (renderNat_ne_nil n), tokens_word hm (renderNat_ne_nil m)]
  simp only [parseNat_renderNat]

theorem classifyL_comment (hash : Bool) (text : List Char) :
    classifyL (renderComment hash text) = .comment := by
  unfold renderComment
  cases hash <;> rfl

theorem classify_ofList (l : List Char) : classify (String.ofList l) = classifyL l := by
  simp [classify]

theorem classify_edgeLine (st : EdgeStyle) (u v : Nat) (w : Dec) (hw : 0 ≤ w.mant) :
    classify (String.ofList (renderEdgeLine st u v w)) = .edge u v w := by
  rw [classify_ofList, classifyL_edgeLine st u v w hw]

theorem classify_problemLine (gap1 gap2 gap3 n m : Nat) :
    classify (String.ofList (renderProblemLine gap1 gap2 gap3 n m)) = .problem n := by
  rw [classify_ofList, classifyL_problemLine]

theorem classify_comment (hash : Bool) (text : List Char) :
    classify (String.ofList (renderComment hash text)) = .comment := by
  rw [classify_ofList, classifyL_comment]

/-! ### text level: whole files -/

/-- everything about the way a graph is written down that the reader must not care about -/
structure Layout where
  /-- comment lines before the problem line: (`#`?, text) -/
  pre : List (Bool × List Char)
  /-- extra spaces in the three gaps of the problem line -/
  pgap1 : Nat
  pgap2 : Nat
  pgap3 : Nat
  /-- the style of the i-th edge line (missing entries: `e u v w` with single spaces) -/
  styles : List EdgeStyle
  /-- the comment lines before the i-th edge line (missing entries: none) -/
  between : List (List (Bool × List Char))
  /-- comment lines after the last edge line -/
  post : List (Bool × List Char)
  /-- does the last line end with `'\n'`? -/
  finalNewline : Bool

/-- no comment text contains a newline (it would not be ONE line then) -/
def Layout.NoNewlineInComments (lay : Layout) : Prop :=
  (∀ c ∈ lay.pre, '\n' ∉ c.2) ∧ (∀ cs ∈ lay.between, ∀ c ∈ cs, '\n' ∉ c.2) ∧ (∀ c ∈ lay.post, '\n' ∉ c.2)

def renderComments (cs : List (Bool × List Char)) : List (List Char) :=
  cs.map fun c => renderComment c.1 c.2

/-- the lines of the file, without their newlines -/
def renderLines (g : DGraph) (lay : Layout) : List (List Char) :=
  renderComments lay.pre ++ [renderProblemLine lay.pgap1 lay.pgap2 lay.pgap3 g.n g.edges.length] ++
  ((g.edges.zipIdx).flatMap fun (e, i) =>
      renderComments (lay.between.getD i []) ++
        [renderEdgeLine (lay.styles.getD i default) (e.1 + 1) (e.2.1 + 1) e.2.2]) ++
  renderComments lay.post

/-- what `fgets` delivers: every line keeps its `'\n'`; the last line has one iff `finalNewline` -/
def withNewlines (finalNewline : Bool) : List (List Char) → List (List Char)
  | [] => []
  | [l] => [if finalNewline then l ++ ['\n'] else l]
  | l :: l' :: ls => (l ++ ['\n']) :: withNewlines finalNewline (l' :: ls)

/-- the text of the file as the reader's loop sees it -/
def renderText (g : DGraph) (lay : Layout) : List String :=
  (withNewlines lay.finalNewline (renderLines g lay)).map String.ofList

theorem stripNewline_of_not_mem (l : List Char) (h : '\n' ∉ l) : stripNewline l = l :=
  stripNewline_of_ne l fun e => h (List.mem_of_getLast? e)

theorem map_stripNewline_withNewlines (b : Bool) (ls : List (List Char)) (h : ∀ l ∈ ls, '\n' ∉ l) :
    (withNewlines b ls).map stripNewline = ls := by
  induction ls with
  | nil => rfl
  | cons l ls ih =>
    cases ls with
    | nil =>
      cases b
      · simp [withNewlines, stripNewline_of_not_mem l (h l List.mem_cons_self)]
      · simp [withNewlines, stripNewline_append_newline]
    | cons l' ls =>
      rw [withNewlines, List.map_cons, stripNewline_append_newline,
        ih fun x hx => h x (List.mem_cons_of_mem _ hx)]

theorem newline_not_mem_renderNat (n : Nat) : '\n' ∉ renderNat n := not_mem_renderNat (by decide) n

theorem newline_not_mem_edgeLine (st : EdgeStyle) (u v : Nat) (w : Dec) :
    '\n' ∉ renderEdgeLine st u v w := by
  have h1 := newline_not_mem_renderNat u
  have h2 := newline_not_mem_renderNat v
  have h3 := not_mem_renderDec (c := '\n') (by decide) (by decide) w
  unfold renderEdgeLine spaces
  cases st.tag <;> split <;> simp [List.mem_replicate, h1, h2, h3]

theorem newline_not_mem_problemLine (a b c n m : Nat) : '\n' ∉ renderProblemLine a b c n m := by
  have h1 := newline_not_mem_renderNat n
  have h2 := newline_not_mem_renderNat m
  unfold renderProblemLine spaces
  simp [List.mem_replicate, h1, h2]

theorem newline_not_mem_comments (cs : List (Bool × List Char)) (h : ∀ c ∈ cs, '\n' ∉ c.2) :
    ∀ l ∈ renderComments cs, '\n' ∉ l := by
  intro l hl
  obtain ⟨c, hc, rfl⟩ := List.mem_map.1 hl
  have := h c hc
  unfold renderComment
  cases c.1 <;> simp [this]

theorem newline_not_mem_renderLines (g : DGraph) (lay : Layout) (hl : lay.NoNewlineInComments) :
    ∀ l ∈ renderLines g lay, '\n' ∉ l := by
  intro l h
  unfold renderLines at h
  simp only [List.mem_append, List.mem_singleton, List.mem_flatMap] at h
  rcases h with ((h | h) | ⟨⟨e, i⟩, _, h | h⟩) | h
  · exact newline_not_mem_comments _ hl.1 l h
  · rw [h]; exact newline_not_mem_problemLine _ _ _ _ _
  · refine newline_not_mem_comments _ ?_ l h
    rw [List.getD_eq_getElem?_getD]
    cases hi : lay.between[i]? with
    | none => intro c hc; cases hc
    | some cs => exact hl.2.1 cs (List.mem_of_getElem? hi)
  · rw [h]; exact newline_not_mem_edgeLine _ _ _ _
  · exact newline_not_mem_comments _ hl.2.2 l h

theorem map_classifyL_comments (cs : List (Bool × List Char)) :
    (renderComments cs).map classifyL = List.replicate cs.length DLine.comment := by
  induction cs with
  | nil => rfl
  | cons c cs ih =>
    unfold renderComments at ih ⊢
    rw [List.map_cons, List.map_cons, ih, classifyL_comment, List.length_cons, List.replicate_succ]

theorem getD_map_length (between : List (List (Bool × List Char))) (i : Nat) :
    (between.map List.length).getD i 0 = (between.getD i []).length := by
  rw [List.getD_eq_getElem?_getD, List.getD_eq_getElem?_getD, List.getElem?_map]
  cases between[i]? <;> rfl

theorem flatMap_congr_mem {α β : Type} {l : List α} {f g : α → List β} (h : ∀ a ∈ l, f a = g a) :
    l.flatMap f = l.flatMap g := by
  induction l with
  | nil => rfl
  | cons a l ih =>
    rw [List.flatMap_cons, List.flatMap_cons, h a List.mem_cons_self,
      ih fun b hb => h b (List.mem_cons_of_mem _ hb)]

/-- the classified lines of a rendered text -/
theorem map_classifyL_renderLines (g : DGraph) (lay : Layout) (hw : ∀ e ∈ g.edges, 0 ≤ e.2.2.mant) :
    (renderLines g lay).map classifyL =
      List.replicate lay.pre.length .comment ++ [.problem g.n] ++
      ((g.edges.zipIdx).flatMap fun (e, i) =>
        List.replicate ((lay.between.map List.length).getD i 0) DLine.comment ++
          [DLine.edge (e.1 + 1 : Nat) (e.2.1 + 1 : Nat) e.2.2]) ++
      List.replicate lay.post.length .comment := by
  unfold renderLines
  simp only [List.map_append, List.map_cons, List.map_nil, map_classifyL_comments, classifyL_problemLine,
    List.map_flatMap]
  congr 2
  apply flatMap_congr_mem
  rintro ⟨e, i⟩ he
  have hm : e ∈ g.edges := (List.mem_zipIdx he).2.2 ▸ List.getElem_mem _
  simp only [classifyL_edgeLine _ _ _ _ (hw e hm), getD_map_length]

theorem readDimacs_renderText_eq (g : DGraph) (lay : Layout) (hl : lay.NoNewlineInComments) :
    readDimacs (renderText g lay) = interp ((renderLines g lay).map classifyL) := by
  unfold readDimacs renderText
  congr 1
  rw [List.map_map]
  have : ((fun l : String => classify (String.ofList (stripNewline l.toList))) ∘ String.ofList) =
      classifyL ∘ stripNewline := by
    funext l
    simp [classify]
  rw [this, ← List.map_map, map_stripNewline_withNewlines _ _ (newline_not_mem_renderLines g lay hl)]

/-- text-level round trip -/
theorem readDimacs_renderText (g : DGraph) (lay : Layout)
    (hg : ∀ e ∈ g.edges, e.1 < g.n ∧ e.2.1 < g.n) (hw : ∀ e ∈ g.edges, 0 ≤ e.2.2.mant)
    (hl : lay.NoNewlineInComments) :
    readDimacs (renderText g lay) = some g := by
  rw [readDimacs_renderText_eq g lay hl, map_classifyL_renderLines g lay hw]
  unfold interp
  rw [List.foldlM_append, List.foldlM_append, List.foldlM_append, foldlM_comments]
  simp only [Option.bind_eq_bind, Option.bind_some, List.foldlM_cons, List.foldlM_nil, interpLine,
    Option.pure_def]
  rw [foldlM_edges (lay.between.map List.length) g.edges 0 _ (by simpa using hg)]
  simp [foldlM_comments]

end Parmcb.DimacsL
