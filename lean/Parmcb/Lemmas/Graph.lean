import Parmcb.Model.Graph
import Parmcb.Lemmas.Gf2
import Parmcb.Lemmas.Abstract
/-!
Cycle-space foundations (F1–F5 of DESIGN.md in their algebraic form).

Edge sets are strictly sorted lists of edge ids.  The cycle space of `g` is `EvenSet g`.
A *circuit* is an inclusion-minimal non-empty element of the cycle space — for a graph these are
exactly the edge sets of simple cycles (the circuits of the cycle matroid).
Core Lean only.
-/
namespace Parmcb
open Parmcb.Abstract

/-! ### parity folds -/

theorem par_nil (f : Nat → Bool) : par [] f = false := rfl
theorem par_cons (x : Nat) (l : List Nat) (f : Nat → Bool) : par (x :: l) f = xor (f x) (par l f) := rfl

theorem par_xor_fun (l : List Nat) (f h : Nat → Bool) :
    par l (fun e => xor (f e) (h e)) = xor (par l f) (par l h) := by
  induction l with
  | nil => rfl
  | cons x l ih =>
    simp only [par_cons, ih]
    cases f x <;> cases h x <;> cases par l f <;> cases par l h <;> rfl

theorem par_const_false (l : List Nat) : par l (fun _ => false) = false := by
  induction l with
  | nil => rfl
  | cons x l ih => simp [par_cons, ih]

theorem par_congr (l : List Nat) (f h : Nat → Bool) (hfh : ∀ e ∈ l, f e = h e) : par l f = par l h := by
  induction l with
  | nil => rfl
  | cons x l ih =>
    simp only [par_cons]
    rw [hfh x List.mem_cons_self, ih (fun e he => hfh e (List.mem_cons_of_mem _ he))]

/-- the parity of a merge is the xor of the parities: `operator+` is addition in GF(2)^m under every
linear functional -/
theorem par_xorMerge (a b : List Nat) (f : Nat → Bool) :
    par (xorMerge a b) f = xor (par a f) (par b f) := by
  fun_induction xorMerge a b with
  | case1 b => simp [par_nil]
  | case2 a _ => simp [par_nil]
  | case3 x a y b hgt ih =>
    simp only [par_cons] at ih ⊢
    rw [ih]
    cases f x <;> cases f y <;> cases par a f <;> cases par b f <;> rfl
  | case4 x a y b hgt hlt ih =>
    simp only [par_cons] at ih ⊢
    rw [ih]
    cases f x <;> cases f y <;> cases par a f <;> cases par b f <;> rfl
  | case5 x a y b hgt hlt ih =>
    have hxy : x = y := by omega
    subst hxy
    simp only [par_cons]
    rw [ih]
    cases f x <;> cases par a f <;> cases par b f <;> rfl

/-- `operator*` as a parity fold -/
theorem dotPar_eq_par (a b : List Nat) (ha : StrictSorted a) (hb : StrictSorted b) :
    dotPar a b = par a (fun e => decide (e ∈ b)) := by
  fun_induction dotPar a b with
  | case1 b => rfl
  | case2 a _ =>
    rw [par_congr _ _ (fun _ => false) (by intro e _; simp)]
    exact (par_const_false _).symm
  | case3 x a y b hgt ih =>
    rw [ih ha hb.tail]
    apply par_congr
    intro e he
    have hey : e ≠ y := by
      intro h
      subst h
      rcases List.mem_cons.1 he with e' | e'
      · omega
      · have := ha.head_lt e e'; omega
    simp [hey]
  | case4 x a y b hgt hlt ih =>
    rw [ih ha.tail hb, par_cons]
    have hx : x ∉ y :: b := by
      intro h
      rcases List.mem_cons.1 h with e | e
      · omega
      · have := hb.head_lt x e; omega
    simp [hx]
  | case5 x a y b hgt hlt ih =>
    have hxy : x = y := by omega
    subst hxy
    rw [ih ha.tail hb.tail, par_cons]
    have : par a (fun e => decide (e ∈ x :: b)) = par a (fun e => decide (e ∈ b)) := by
      apply par_congr
      intro e he
      have hex : e ≠ x := by
        intro h; subst h; exact ha.not_mem_head he
      simp [hex]
    rw [this]
    simp

theorem dotPar_comm (a b : List Nat) : dotPar a b = dotPar b a := by
  fun_induction dotPar a b with
  | case1 b => cases b <;> simp [dotPar]
  | case2 a _ => cases a <;> simp [dotPar]
  | case3 x a y b hgt ih =>
    rw [ih]
    conv => rhs; rw [dotPar]
    have h1 : ¬ y > x := by omega
    have h2 : y < x := by omega
    simp [h1, h2]
  | case4 x a y b hgt hlt ih =>
    rw [ih]
    conv => rhs; rw [dotPar]
    have h1 : y > x := by omega
    simp [h1]
  | case5 x a y b hgt hlt ih =>
    rw [ih]
    conv => rhs; rw [dotPar]
    have h1 : ¬ y > x := by omega
    have h2 : ¬ y < x := by omega
    simp [h1, h2]

/-! ### algebra of canonical edge sets -/

theorem xorMerge_nil_right (a : List Nat) : xorMerge a [] = a := by
  cases a <;> simp [xorMerge]
theorem xorMerge_nil_left (a : List Nat) : xorMerge [] a = a := by
  cases a <;> simp [xorMerge]
theorem xorMerge_comm (a b : List Nat) (ha : StrictSorted a) (hb : StrictSorted b) :
    xorMerge a b = xorMerge b a := by
  apply StrictSorted.ext (xorMerge_sorted _ _ ha hb) (xorMerge_sorted _ _ hb ha)
  intro z
  rw [mem_xorMerge _ _ ha hb, mem_xorMerge _ _ hb ha]
  by_cases h1 : z ∈ a <;> by_cases h2 : z ∈ b <;> simp [h1, h2]
theorem xorMerge_assoc (a b c : List Nat) (ha : StrictSorted a) (hb : StrictSorted b)
    (hc : StrictSorted c) : xorMerge (xorMerge a b) c = xorMerge a (xorMerge b c) := by
  have hab := xorMerge_sorted _ _ ha hb
  have hbc := xorMerge_sorted _ _ hb hc
  apply StrictSorted.ext (xorMerge_sorted _ _ hab hc) (xorMerge_sorted _ _ ha hbc)
  intro z
  rw [mem_xorMerge _ _ hab hc, mem_xorMerge _ _ ha hbc, mem_xorMerge _ _ ha hb, mem_xorMerge _ _ hb hc]
  by_cases h1 : z ∈ a <;> by_cases h2 : z ∈ b <;> by_cases h3 : z ∈ c <;> simp [h1, h2, h3]
theorem xorMerge_self (a : List Nat) : xorMerge a a = [] := by
  induction a with
  | nil => simp [xorMerge]
  | cons x a ih => rw [xorMerge]; simp [ih]

/-- canonical GF(2) vectors as a type: the carrier of the abstract theory -/
def SVec := { l : List Nat // StrictSorted l }

def SVec.add (a b : SVec) : SVec := ⟨xorMerge a.1 b.1, xorMerge_sorted a.1 b.1 a.2 b.2⟩
def SVec.zero : SVec := ⟨[], trivial⟩

/-- canonical vectors with `operator+` form an elementary abelian 2-group -/
def svecGroup : XGroup SVec where
  add := SVec.add
  zero := SVec.zero
  add_assoc := by intro a b c; exact Subtype.ext (xorMerge_assoc a.1 b.1 c.1 a.2 b.2 c.2)
  add_comm := by intro a b; exact Subtype.ext (xorMerge_comm a.1 b.1 a.2 b.2)
  add_zero := by intro a; exact Subtype.ext (xorMerge_nil_right a.1)
  add_self := by intro a; exact Subtype.ext (xorMerge_self a.1)

/-- `operator*` is a biadditive pairing -/
def svecPairing : Pairing svecGroup svecGroup where
  dot := fun a s => dotPar a.1 s.1
  dot_add_left := by
    intro a b s
    show dotPar (xorMerge a.1 b.1) s.1 = xor (dotPar a.1 s.1) (dotPar b.1 s.1)
    rw [dotPar_eq_par _ _ (xorMerge_sorted _ _ a.2 b.2) s.2, dotPar_eq_par _ _ a.2 s.2,
      dotPar_eq_par _ _ b.2 s.2, par_xorMerge]
  dot_add_right := by
    intro a s t
    show dotPar a.1 (xorMerge s.1 t.1) = xor (dotPar a.1 s.1) (dotPar a.1 t.1)
    rw [dotPar_eq_par _ _ a.2 (xorMerge_sorted _ _ s.2 t.2), dotPar_eq_par _ _ a.2 s.2,
      dotPar_eq_par _ _ a.2 t.2, ← par_xor_fun]
    apply par_congr
    intro e _
    have := mem_xorMerge s.1 t.1 s.2 t.2 e
    by_cases h1 : e ∈ s.1 <;> by_cases h2 : e ∈ t.1 <;> simp_all

/-! ### the cycle space -/

/-- `Z` is an element of the cycle space of `g`: a canonical set of edge ids with even degree at
every vertex -/
def EvenSet (g : Graph) (Z : List Nat) : Prop :=
  StrictSorted Z ∧ (∀ e ∈ Z, e < g.m) ∧ ∀ v, par Z (g.inc v) = false

theorem evenSet_nil (g : Graph) : EvenSet g [] := by
  refine ⟨trivial, ?_, fun v => rfl⟩
  intro e he; cases he

theorem EvenSet.add {g : Graph} {a b : List Nat} (ha : EvenSet g a) (hb : EvenSet g b) :
    EvenSet g (xorMerge a b) := by
  refine ⟨xorMerge_sorted _ _ ha.1 hb.1, ?_, ?_⟩
  · intro e he
    rcases mem_xorMerge_of _ _ _ he with h | h
    · exact ha.2.1 e h
    · exact hb.2.1 e h
  · intro v
    rw [par_xorMerge, ha.2.2 v, hb.2.2 v]; rfl

theorem par_all_false (l : List Nat) (f : Nat → Bool) (h : ∀ e ∈ l, f e = false) : par l f = false := by
  rw [par_congr l f (fun _ => false) h]; exact par_const_false l

theorem simpleB_facts (g : Graph) (hs : g.simpleB = true) (e : Nat) (he : e < g.m) :
    g.src e < g.n ∧ g.tgt e < g.n ∧ g.src e ≠ g.tgt e := by
  unfold Graph.simpleB at hs
  rw [List.all_eq_true] at hs
  have h := hs e (List.mem_range.2 he)
  simp only [Bool.and_eq_true, decide_eq_true_eq] at h
  exact ⟨h.1.1.1, h.1.1.2, h.1.2⟩

/-- the executable test decides membership in the cycle space (endpoints in range is what makes the
finite vertex scan sufficient) -/
theorem evenSetB_iff (g : Graph) (hs : g.simpleB = true) (Z : List Nat) :
    evenSetB g Z = true ↔ EvenSet g Z := by
  unfold evenSetB EvenSet
  simp only [Bool.and_eq_true, strictSortedB_iff, List.all_eq_true, decide_eq_true_eq,
    List.mem_range, Bool.not_eq_true']
  constructor
  · rintro ⟨⟨h1, h2⟩, h3⟩
    refine ⟨h1, h2, ?_⟩
    intro v
    by_cases hv : v < g.n
    · exact h3 v hv
    · apply par_all_false
      intro e he
      have hf := simpleB_facts g hs e (h2 e he)
      have h4 : (g.src e == v) = false := beq_eq_false_iff_ne.2 (by omega)
      have h5 : (g.tgt e == v) = false := beq_eq_false_iff_ne.2 (by omega)
      unfold Graph.inc
      rw [h4, h5]; rfl
  · rintro ⟨h1, h2, h3⟩
    exact ⟨⟨h1, h2⟩, fun v _ => h3 v⟩

/-- no non-empty element of the cycle space lies inside `F` -/
def Acyclic (g : Graph) (F : List Nat) : Prop :=
  ∀ Z, EvenSet g Z → (∀ e ∈ Z, e ∈ F) → Z = []

/-- inclusion-minimal non-empty element of the cycle space = the edge set of one simple cycle -/
def Circuit (g : Graph) (C : List Nat) : Prop :=
  EvenSet g C ∧ C ≠ [] ∧ ∀ Z, EvenSet g Z → Z ≠ [] → (∀ e ∈ Z, e ∈ C) → Z = C

/-! ### weights -/

theorem wt_nil (g : Graph) : wt g [] = 0 := rfl

theorem wt_cons (g : Graph) (x : Nat) (Z : List Nat) : wt g (x :: Z) = g.weight x + wt g Z := by
  simp [wt]

theorem positiveB_facts (g : Graph) (hp : g.positiveB = true) (e : Nat) (he : e < g.m) :
    0 < g.weight e := by
  unfold Graph.positiveB at hp
  rw [List.all_eq_true] at hp
  have h := hp e (List.mem_range.2 he)
  simpa using h

theorem wt_nonneg (g : Graph) (hp : g.positiveB = true) (Z : List Nat) (hZ : ∀ e ∈ Z, e < g.m) :
    0 ≤ wt g Z := by
  induction Z with
  | nil => simp [wt_nil]
  | cons x Z ih =>
    have h1 := positiveB_facts g hp x (hZ x List.mem_cons_self)
    have h2 := ih (fun e he => hZ e (List.mem_cons_of_mem _ he))
    rw [wt_cons]; omega

theorem wt_pos (g : Graph) (hp : g.positiveB = true) (Z : List Nat) (hZ : ∀ e ∈ Z, e < g.m)
    (hne : Z ≠ []) : 0 < wt g Z := by
  cases Z with
  | nil => exact absurd rfl hne
  | cons x Z =>
    have h1 := positiveB_facts g hp x (hZ x List.mem_cons_self)
    have h2 := wt_nonneg g hp Z (fun e he => hZ e (List.mem_cons_of_mem _ he))
    rw [wt_cons]; omega

/-- removing a sub-set: if `Z ⊆ C` (both canonical) then `C = Z ⊎ (C + Z)` -/
theorem wt_split (g : Graph) (C Z : List Nat) (hC : StrictSorted C) (hZ : StrictSorted Z)
    (hsub : ∀ e ∈ Z, e ∈ C) : wt g C = wt g Z + wt g (xorMerge C Z) := by
  fun_induction xorMerge C Z with
  | case1 b =>
    cases b with
    | nil => simp [wt_nil]
    | cons y b => exact absurd (hsub y List.mem_cons_self) (by simp)
  | case2 a _ => simp [wt_nil]
  | case3 x a y b hgt ih =>
    exfalso
    rcases List.mem_cons.1 (hsub y List.mem_cons_self) with e | e
    · omega
    · have := hC.head_lt y e; omega
  | case4 x a y b hgt hlt ih =>
    have hsub' : ∀ e ∈ y :: b, e ∈ a := by
      intro e he
      rcases List.mem_cons.1 (hsub e he) with h | h
      · exfalso
        subst h
        rcases List.mem_cons.1 he with h | h
        · omega
        · have := hZ.head_lt e h; omega
      · exact h
    have := ih hC.tail hZ hsub'
    simp only [wt_cons] at this ⊢
    omega
  | case5 x a y b hgt hlt ih =>
    have hxy : x = y := by omega
    subst hxy
    have hsub' : ∀ e ∈ b, e ∈ a := by
      intro e he
      rcases List.mem_cons.1 (hsub e (List.mem_cons_of_mem _ he)) with h | h
      · subst h; exact absurd he hZ.not_mem_head
      · exact h
    have := ih hC.tail hZ.tail hsub'
    simp only [wt_cons] at this ⊢
    omega

/-- F5: with strictly positive weights a minimum-weight element of the cycle space that is odd
against `S` is a circuit (a simple cycle). -/
theorem minOdd_circuit (g : Graph) (hp : g.positiveB = true) (S C : List Nat) (hS : StrictSorted S)
    (hC : EvenSet g C) (hodd : dotPar C S = true)
    (hmin : ∀ Z, EvenSet g Z → dotPar Z S = true → wt g C ≤ wt g Z) : Circuit g C := by
  refine ⟨hC, ?_, ?_⟩
  · intro h; subst h; simp [dotPar] at hodd
  · intro Z hZ hZne hsub
    have hR : EvenSet g (xorMerge C Z) := hC.add hZ
    have hw := wt_split g C Z hC.1 hZ.1 hsub
    have hdot : dotPar (xorMerge C Z) S = xor (dotPar C S) (dotPar Z S) := by
      rw [dotPar_eq_par _ _ hR.1 hS, dotPar_eq_par _ _ hC.1 hS, dotPar_eq_par _ _ hZ.1 hS,
        par_xorMerge]
    by_cases hRe : xorMerge C Z = []
    · apply StrictSorted.ext hZ.1 hC.1
      intro z
      constructor
      · exact hsub z
      · intro hz
        apply Classical.byContradiction
        intro hnz
        have hmem : z ∈ xorMerge C Z := (mem_xorMerge _ _ hC.1 hZ.1 z).2 (by simp [hz, hnz])
        rw [hRe] at hmem
        cases hmem
    · exfalso
      have hZpos := wt_pos g hp Z hZ.2.1 hZne
      have hRpos := wt_pos g hp _ hR.2.1 hRe
      cases hzs : dotPar Z S with
      | false =>
        have hodd' : dotPar (xorMerge C Z) S = true := by rw [hdot, hodd, hzs]; rfl
        have := hmin _ hR hodd'
        omega
      | true =>
        have := hmin _ hZ hzs
        omega

theorem par_unique (l : List Nat) (f : Nat → Bool) (e0 : Nat) (hnd : l.Nodup) (he0 : e0 ∈ l)
    (hf0 : f e0 = true) (huniq : ∀ e ∈ l, f e = true → e = e0) : par l f = true := by
  induction l with
  | nil => cases he0
  | cons x l ih =>
    have hnd' := List.nodup_cons.1 hnd
    rw [par_cons]
    by_cases hx : x = e0
    · subst hx
      have : par l f = false := by
        apply par_all_false
        intro e he
        cases hfe : f e with
        | false => rfl
        | true =>
          have := huniq e (List.mem_cons_of_mem _ he) hfe
          subst this
          exact absurd he hnd'.1
      rw [this, hf0]; rfl
    · have hfx : f x = false := by
        cases hfx : f x with
        | false => rfl
        | true => exact absurd (huniq x List.mem_cons_self hfx) hx
      have he0' : e0 ∈ l := by
        rcases List.mem_cons.1 he0 with h | h
        · exact absurd h.symm hx
        · exact h
      rw [hfx, ih hnd'.2 he0' (fun e he => huniq e (List.mem_cons_of_mem _ he))]; rfl

theorem exists_min_rank (rank : Nat → Nat) (l : List Nat) (hl : l ≠ []) :
    ∃ v, v ∈ l ∧ ∀ u ∈ l, rank v ≤ rank u := by
  induction l with
  | nil => exact absurd rfl hl
  | cons x l ih =>
    cases l with
    | nil =>
      refine ⟨x, List.mem_cons_self, ?_⟩
      intro u hu
      rcases List.mem_cons.1 hu with h | h
      · subst h; exact Nat.le_refl _
      · cases h
    | cons y l =>
      obtain ⟨v, hv, hmin⟩ := ih (by simp)
      by_cases hxv : rank x ≤ rank v
      · refine ⟨x, List.mem_cons_self, ?_⟩
        intro u hu
        rcases List.mem_cons.1 hu with h | h
        · subst h; exact Nat.le_refl _
        · exact Nat.le_trans hxv (hmin u h)
      · refine ⟨v, List.mem_cons_of_mem _ hv, ?_⟩
        intro u hu
        rcases List.mem_cons.1 hu with h | h
        · subst h; omega
        · exact hmin u h

/-- F2: if the vertices can be ranked so that every vertex has at most one `F`-edge leading to a
vertex of larger rank (and no `F`-edge to a vertex of equal rank, in particular no loop), then `F`
contains no non-empty element of the cycle space. -/
theorem rank_acyclic (g : Graph) (F : List Nat) (rank : Nat → Nat)
    (hne : ∀ e ∈ F, rank (g.src e) ≠ rank (g.tgt e))
    (hone : ∀ v, ∀ e₁ ∈ F, ∀ e₂ ∈ F, g.inc v e₁ = true → g.inc v e₂ = true →
        rank v < rank (g.other e₁ v) → rank v < rank (g.other e₂ v) → e₁ = e₂) :
    Acyclic g F := by
  intro Z hZ hsub
  apply Classical.byContradiction
  intro hZne
  have hEne : (Z.flatMap fun e => [g.src e, g.tgt e]) ≠ [] := by
    cases Z with
    | nil => exact absurd rfl hZne
    | cons e Z => simp
  obtain ⟨v, hvE, hvmin⟩ := exists_min_rank rank _ hEne
  have hend : ∀ e ∈ Z, rank v ≤ rank (g.src e) ∧ rank v ≤ rank (g.tgt e) := by
    intro e he
    constructor
    · exact hvmin _ (List.mem_flatMap.2 ⟨e, he, by simp⟩)
    · exact hvmin _ (List.mem_flatMap.2 ⟨e, he, by simp⟩)
  obtain ⟨e0, he0, hv0⟩ := List.mem_flatMap.1 hvE
  have hst : ∀ e ∈ Z, g.src e ≠ g.tgt e := by
    intro e he h
    exact hne e (hsub e he) (by rw [h])
  have hinc0 : g.inc v e0 = true := by
    have h := hst e0 he0
    simp only [List.mem_cons, List.not_mem_nil, or_false] at hv0
    rcases hv0 with h' | h'
    · subst h'
      have : g.tgt e0 ≠ g.src e0 := fun h'' => h h''.symm
      simp [Graph.inc, this]
    · subst h'
      simp [Graph.inc, h]
  have hup : ∀ e ∈ Z, g.inc v e = true → rank v < rank (g.other e v) := by
    intro e he hinc
    have h1 := hend e he
    have h2 := hne e (hsub e he)
    unfold Graph.other
    by_cases hs : g.src e = v
    · rw [if_pos hs]
      rw [hs] at h2
      omega
    · rw [if_neg hs]
      have ht : g.tgt e = v := by
        have h4 : (g.src e == v) = false := beq_eq_false_iff_ne.2 hs
        unfold Graph.inc at hinc
        rw [h4] at hinc
        simpa using hinc
      rw [ht] at h2
      omega
  have huniq : ∀ e ∈ Z, g.inc v e = true → e = e0 := by
    intro e he hinc
    exact hone v e (hsub e he) e0 (hsub e0 he0) hinc hinc0 (hup e he hinc) (hup e0 he0 hinc0)
  have := par_unique Z (g.inc v) e0 hZ.1.nodup he0 hinc0 huniq
  rw [hZ.2.2 v] at this
  cases this

end Parmcb
