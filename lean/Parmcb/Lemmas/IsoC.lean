import Parmcb.Lemmas.IsoB
/-! Part C: the links `ISOCyclesBuilder` draws between the representations of one cycle.  Core Lean only. -/
namespace Parmcb

namespace IsoCL
open TreesL LexOptL HortonL Spanner

/-! ### notation for the trees of `hortonCands` -/

/-- the root path of `v` in the tree rooted at `k` (edges from `v` up to `k`) -/
def P (g : Graph) (k v : Nat) : List Nat := rootPath g (buildTree g k) g.n v
/-- `v` has a node in the tree rooted at `k` -/
def Node (g : Graph) (k v : Nat) : Prop := ∃ d, (buildTree g k).dist.getD v none = some d
/-- the `first` label of `a` in the tree rooted at `k` -/
def fst (g : Graph) (k a : Nat) : Nat := (buildTree g k).first.getD a 0
/-- the predecessor edge of `a` in the tree rooted at `k` -/
def prd (g : Graph) (k a : Nat) : Option Nat := (buildTree g k).pred.getD a none

theorem isoTrees_get (g : Graph) (k : Nat) (hk : k < g.n) : (isoTrees g)[k]? = some (buildTree g k) := by
  show ((List.range g.n).map (buildTree g))[k]? = _
  rw [List.getElem?_map, List.getElem?_range hk]; rfl

theorem mem_isoAll (g : Graph) (c : Cand) :
    c ∈ isoAll g ↔ ∃ k, k < g.n ∧ c ∈ createCandidates g (buildTree g k) k (List.range g.m) := by
  show c ∈ (((List.range g.n).map (buildTree g)).zipIdx).flatMap
    (fun (p : SPTree × Nat) => createCandidates g p.1 p.2 (List.range g.m)) ↔ _
  rw [List.mem_flatMap]
  constructor
  · rintro ⟨⟨t, i⟩, hti, hc⟩
    rw [List.mk_mem_zipIdx_iff_getElem?, List.getElem?_map] at hti
    by_cases hi : i < g.n
    · rw [List.getElem?_range hi] at hti
      simp only [Option.map_some, Option.some.injEq] at hti
      subst hti
      exact ⟨i, hi, hc⟩
    · rw [List.getElem?_eq_none (by rw [List.length_range]; omega)] at hti
      cases hti
  · rintro ⟨k, hk, hc⟩
    refine ⟨(buildTree g k, k), ?_, hc⟩
    rw [List.mk_mem_zipIdx_iff_getElem?, List.getElem?_map, List.getElem?_range hk]; rfl

theorem tf (g : Graph) (hs : g.simpleB = true) (hp : g.positiveB = true) (k : Nat) (hk : k < g.n) :
    checkSPT g (buildTree g k) = true ∧ checkFirst g (buildTree g k) = true ∧ (buildTree g k).source = k :=
  ⟨(C12.c12_dijkstra g hs hp k hk).1, (C12.c12_dijkstra g hs hp k hk).2, rfl⟩

theorem opt (g : Graph) (hs : g.simpleB = true) (hp : g.positiveB = true) (k v : Nat) (hk : k < g.n) (hv : v < g.n)
    (h : Node g k v) : LexOpt g v k (P g k v) := by
  obtain ⟨d, hd⟩ := h
  exact buildTree_lexOpt g hs hp k hk v hv d hd

/-- a lexicographically optimal path to `k` is the root path in the tree of `k` -/
theorem P_eq (g : Graph) (hs : g.simpleB = true) (hp : g.positiveB = true) (k v : Nat) (hk : k < g.n) (hv : v < g.n)
    (Q : List Nat) (hQ : LexOpt g v k Q) : Node g k v ∧ P g k v = Q := by
  obtain ⟨h1, _, _⟩ := tf g hs hp k hk
  obtain ⟨d, hd, _⟩ := dist_lower g (buildTree g k) h1 v Q.reverse
    (fun e he => hQ.1.2.1 e (List.mem_reverse.1 he)) (walk_reverse g Q v k hQ.1.1)
  exact ⟨⟨d, hd⟩, lexOpt_unique g hs hp v k _ _ (opt g hs hp k v hk hv ⟨d, hd⟩) hQ⟩

theorem node_self (g : Graph) (hs : g.simpleB = true) (hp : g.positiveB = true) (k : Nat) (hk : k < g.n) :
    Node g k k :=
  ⟨0, (checkSPT_ok g _ (tf g hs hp k hk).1).dist_src⟩

theorem P_self (g : Graph) (hs : g.simpleB = true) (hp : g.positiveB = true) (k : Nat) (hk : k < g.n) :
    P g k k = [] :=
  rootPath_none g _ g.n k (checkSPT_ok g _ (tf g hs hp k hk).1).pred_src

theorem fst_self (g : Graph) (hs : g.simpleB = true) (hp : g.positiveB = true) (k : Nat) (hk : k < g.n) :
    fst g k k = k :=
  (checkFirst_ok g _ (tf g hs hp k hk).2.1).first_src

theorem fst_ne (g : Graph) (hs : g.simpleB = true) (hp : g.positiveB = true) (k v : Nat) (hk : k < g.n) (hv : v < g.n)
    (hne : v ≠ k) (h : Node g k v) : fst g k v ≠ k := by
  obtain ⟨d, hd⟩ := h
  obtain ⟨h1, h2, _⟩ := tf g hs hp k hk
  exact first_ne_source g hs hp (buildTree g k) h1 h2 v hv hne d hd

theorem walk_lt (g : Graph) (hs : g.simpleB = true) : ∀ (es : List Nat) (a b : Nat), a < g.n →
    isWalk g es a b = true → (∀ e ∈ es, e < g.m) → b < g.n
  | [], a, b, ha, h, _ => by rw [walk_nil] at h; omega
  | e :: r, a, b, _, h, hm => by
    rw [walk_cons] at h
    exact walk_lt g hs r _ b (other_lt g hs e a (hm e List.mem_cons_self)) h.2
      (fun f hf => hm f (List.mem_cons_of_mem _ hf))

/-- sub-path closure inside one tree -/
theorem subpath (g : Graph) (hs : g.simpleB = true) (hp : g.positiveB = true) (k v c : Nat) (hk : k < g.n)
    (hv : v < g.n) (h : Node g k v) (Q1 Q2 : List Nat) (hP : P g k v = Q1 ++ Q2) (hw : isWalk g Q1 v c = true) :
    c < g.n ∧ LexOpt g v c Q1 ∧ LexOpt g c k Q2 ∧ Node g k c ∧ P g k c = Q2 := by
  have ho := opt g hs hp k v hk hv h
  rw [hP] at ho
  obtain ⟨o1, o2⟩ := lexOpt_split g hs hp v k c Q1 Q2 ho hw
  have hc : c < g.n := walk_lt g hs Q1 v c hv hw o1.1.2.1
  obtain ⟨n1, n2⟩ := P_eq g hs hp k c hk hc Q2 o2
  exact ⟨hc, o1, o2, n1, n2⟩

theorem node_sym (g : Graph) (hs : g.simpleB = true) (hp : g.positiveB = true) (a b : Nat) (ha : a < g.n)
    (hb : b < g.n) (h : Node g a b) : Node g b a ∧ P g b a = (P g a b).reverse :=
  P_eq g hs hp b a hb ha _ (lexOpt_reverse g hs hp b a _ (opt g hs hp a b ha hb h))

theorem pred_of_P_cons (g : Graph) (k v e : Nat) (r : List Nat) (h : P g k v = e :: r) : prd g k v = some e := by
  unfold P at h
  unfold prd
  cases hn : g.n with
  | zero => rw [hn] at h; cases h
  | succ m =>
    rw [hn] at h
    simp only [rootPath] at h
    cases hq : (buildTree g k).pred.getD v none with
    | none => rw [hq] at h; cases h
    | some f => rw [hq] at h; simp only [List.cons.injEq] at h; rw [h.1]

theorem P_ne_nil (g : Graph) (hs : g.simpleB = true) (hp : g.positiveB = true) (k v : Nat) (hk : k < g.n) (hv : v < g.n)
    (h : Node g k v) (hne : v ≠ k) : P g k v ≠ [] := by
  intro h0
  have := (opt g hs hp k v hk hv h).1.1
  rw [h0, walk_nil] at this
  exact hne this

theorem exists_snoc (l : List Nat) (h : l ≠ []) : ∃ Q e, l = Q ++ [e] := by
  rcases List.eq_nil_or_concat l with h1 | ⟨Q, e, h1⟩
  · exact absurd h1 h
  · exact ⟨Q, e, by rw [h1, List.concat_eq_append]⟩

/-- the `first` label is the vertex before the last edge of the root path -/
theorem first_snoc (g : Graph) (hs : g.simpleB = true) (hp : g.positiveB = true) (k v : Nat) (hk : k < g.n)
    (hv : v < g.n) (h : Node g k v) (Q : List Nat) (e : Nat) (hP : P g k v = Q ++ [e]) :
    isWalk g Q v (fst g k v) = true ∧ e < g.m ∧ (g.src e = fst g k v ∨ g.tgt e = fst g k v) ∧
      g.other e (fst g k v) = k := by
  have ho := opt g hs hp k v hk hv h
  have hne : v ≠ k := by
    intro hh; subst hh
    rw [P_self g hs hp v hk] at hP
    cases Q <;> cases hP
  obtain ⟨h1, h2, h3⟩ := tf g hs hp k hk
  obtain ⟨d, hd⟩ := h
  obtain ⟨e', l1, l2, l3⟩ := first_spec g hs hp (buildTree g k) h1 h2 v hv (by rw [h3]; exact hne) d hd
  have l1' : (P g k v).getLast? = some e' := l1
  rw [hP, List.getLast?_concat] at l1'
  cases l1'
  rw [h3] at l2
  have l2' : g.other e (fst g k v) = k := l2
  have l3' : g.inc (fst g k v) e = true := l3
  rw [hP] at ho
  have hem : e < g.m := ho.1.2.1 e (List.mem_append_right _ List.mem_cons_self)
  have hst := simpleB_facts g hs e hem
  obtain ⟨c, w1, w2⟩ := (walk_app g Q [e] v k).1 ho.1.1
  rw [walk_cons, walk_nil] at w2
  have hinc : g.src e = fst g k v ∨ g.tgt e = fst g k v := by
    unfold Graph.inc at l3'
    by_cases h4 : g.src e = fst g k v
    · exact Or.inl h4
    · right
      rw [beq_false_of_ne h4] at l3'
      simpa using l3'
  have hc : c = fst g k v := by
    have w3 := w2.2
    have w4 := w2.1
    unfold Graph.other at l2' w3
    split at l2' <;> split at w3 <;> omega
  rw [hc] at w1
  exact ⟨w1, hem, hinc, l2'⟩

/-! ### representations -/

/-- the tree of `k` offers the candidate `(k, e)` and it stands for `C` -/
def Rep (g : Graph) (k e : Nat) (C : List Nat) : Prop :=
  k < g.n ∧ ∃ w, (⟨k, e, w⟩ : Cand) ∈ createCandidates g (buildTree g k) k (List.range g.m) ∧
    unfoldCand g (buildTree g k) ⟨k, e, w⟩ = some C

theorem unfoldCand_edge (g : Graph) (t : SPTree) (c1 c2 : Cand) (h : c1.edge = c2.edge) :
    unfoldCand g t c1 = unfoldCand g t c2 := by
  unfold unfoldCand; rw [h]

theorem unfoldCand_eq (g : Graph) (k : Nat) (c : Cand)
    (hnd : (c.edge :: (P g k (g.src c.edge) ++ P g k (g.tgt c.edge))).Nodup) :
    unfoldCand g (buildTree g k) c = some (setOf (c.edge :: (P g k (g.src c.edge) ++ P g k (g.tgt c.edge)))) := by
  unfold unfoldCand
  simp only
  unfold P at hnd
  rw [eraseDups_of_nodup _ hnd, if_pos rfl]
  rfl

theorem candCycle_eq (g : Graph) (c : Cand) (hk : c.tree < g.n) :
    candCycle g c = unfoldCand g (buildTree g c.tree) c := by
  unfold candCycle
  rw [isoTrees_get g _ hk]

/-- `isoLookup` finds a representation of the same cycle as soon as one exists -/
theorem lookup_spec (g : Graph) (k e : Nat) (C : List Nat) (h : Rep g k e C) :
    ∃ c', (isoAll g)[isoLookup (isoAll g) k e]? = some c' ∧ candCycle g c' = some C := by
  obtain ⟨hk, w, hmem, hunf⟩ := h
  have hin : (⟨k, e, w⟩ : Cand) ∈ isoAll g := (mem_isoAll g _).2 ⟨k, hk, hmem⟩
  unfold isoLookup
  cases hfi : (isoAll g).findIdx? (fun c => c.tree == k && c.edge == e) with
  | none =>
    rw [List.findIdx?_eq_none_iff] at hfi
    have := hfi _ hin
    simp at this
  | some idx =>
    rw [List.findIdx?_eq_some_iff_getElem] at hfi
    obtain ⟨hlt, hp, _⟩ := hfi
    simp only [Bool.and_eq_true, beq_iff_eq] at hp
    refine ⟨(isoAll g)[idx], by simp [hlt], ?_⟩
    rw [candCycle_eq g _ (by rw [hp.1]; exact hk), hp.1, ← hunf]
    exact unfoldCand_edge g _ _ _ hp.2

theorem perm_set (l' l : List Nat) (h : l'.Perm l) (hnd : l.Nodup) : l'.Nodup ∧ setOf l' = setOf l := by
  refine ⟨h.nodup_iff.2 hnd, ?_⟩
  apply StrictSorted.ext (setOf_sorted _) (setOf_sorted _)
  intro z
  rw [mem_setOf, mem_setOf, h.mem_iff]

/-- a duplicate-free closed walk through the root is a candidate of the tree -/
theorem rep_of_nodup (g : Graph) (hs : g.simpleB = true) (hp : g.positiveB = true) (k e : Nat) (C : List Nat)
    (hk : k < g.n) (he : e < g.m) (n1 : Node g k (g.src e)) (n2 : Node g k (g.tgt e))
    (hnd : (e :: (P g k (g.src e) ++ P g k (g.tgt e))).Nodup)
    (hC : setOf (e :: (P g k (g.src e) ++ P g k (g.tgt e))) = C) : Rep g k e C := by
  obtain ⟨d1, hd1⟩ := n1
  obtain ⟨d2, hd2⟩ := n2
  obtain ⟨h1, h2, h3⟩ := tf g hs hp k hk
  have ok := checkSPT_ok g _ h1
  have fok := checkFirst_ok g _ h2
  have hst := simpleB_facts g hs e he
  have hnd' := List.nodup_cons.1 hnd
  have hdis := (List.nodup_append.1 hnd'.2).2.2
  refine ⟨hk, g.weight e + d1 + d2, ?_, ?_⟩
  · rw [mem_createCandidates]
    refine ⟨List.mem_range.2 he, rfl, ?_, d1, d2, hd1, hd2, ?_, rfl⟩
    · -- not a tree edge
      intro hte
      unfold treeEdges at hte
      rw [List.mem_filterMap] at hte
      obtain ⟨w, hw, hpw⟩ := hte
      rw [List.mem_range] at hw
      have hpw' : (buildTree g k).pred.getD w none = some e := hpw
      have hws : w ≠ (buildTree g k).source := by
        intro hh; rw [hh, ok.pred_src] at hpw'; cases hpw'
      obtain ⟨_, hinc, hrp⟩ := rootPath_step g hs hp _ ok w e hw hws hpw'
      apply hnd'.1
      rcases hinc with hinc | hinc
      · rw [List.mem_append]; left
        show e ∈ rootPath g (buildTree g k) g.n (g.src e)
        rw [hinc, hrp]; exact List.mem_cons_self
      · rw [List.mem_append]; right
        show e ∈ rootPath g (buildTree g k) g.n (g.tgt e)
        rw [hinc, hrp]; exact List.mem_cons_self
    · -- first labels differ
      show fst g k (g.src e) ≠ fst g k (g.tgt e)
      intro hfe
      by_cases hsk : g.src e = k
      · have : g.tgt e ≠ k := fun hh => hst.2.2 (hsk.trans hh.symm)
        apply fst_ne g hs hp k _ hk hst.2.1 this ⟨d2, hd2⟩
        rw [← hfe, hsk]; exact fst_self g hs hp k hk
      · by_cases htk : g.tgt e = k
        · apply fst_ne g hs hp k _ hk hst.1 hsk ⟨d1, hd1⟩
          rw [hfe, htk]; exact fst_self g hs hp k hk
        · have ch1 := rootPath_isChain g hs hp _ ok _ hst.1 d1 hd1
          have ch2 := rootPath_isChain g hs hp _ ok _ hst.2.1 d2 hd2
          obtain ⟨e1, m1, p1⟩ := chain_first_pred g hs hp _ ok fok _ _ hst.1 (by rw [h3]; exact hsk) ch1
          obtain ⟨e2, m2, p2⟩ := chain_first_pred g hs hp _ ok fok _ _ hst.2.1 (by rw [h3]; exact htk) ch2
          have hfe' : (buildTree g k).first.getD (g.src e) 0 = (buildTree g k).first.getD (g.tgt e) 0 := hfe
          rw [hfe', p2] at p1
          cases p1
          exact hdis e1 m1 e1 m2 rfl
  · rw [unfoldCand_eq g k _ hnd]
    exact congrArg some hC

/-! ### the data of a candidate and the link function -/

structure CandData (g : Graph) (x e : Nat) (C : List Nat) : Prop where
  hx : x < g.n
  he : e < g.m
  hu : g.src e < g.n
  hv : g.tgt e < g.n
  huv : g.src e ≠ g.tgt e
  nu : Node g x (g.src e)
  nv : Node g x (g.tgt e)
  hf : fst g x (g.src e) ≠ fst g x (g.tgt e)
  hnd : (e :: (P g x (g.src e) ++ P g x (g.tgt e))).Nodup
  hC : C = setOf (e :: (P g x (g.src e) ++ P g x (g.tgt e)))

theorem cand_data (g : Graph) (hs : g.simpleB = true) (hp : g.positiveB = true) (c : Cand) (C : List Nat)
    (hmem : c ∈ isoAll g) (hC : candCycle g c = some C) : CandData g c.tree c.edge C := by
  obtain ⟨k, hk, hc⟩ := (mem_isoAll g c).1 hmem
  obtain ⟨h1, h2, h3⟩ := tf g hs hp k hk
  obtain ⟨_, _, he, hnd, _⟩ := cand_core g hs hp _ k h1 h2 c hc
  rw [mem_createCandidates] at hc
  obtain ⟨_, hck, _, dv, du, d1, d2, hfi, _⟩ := hc
  subst hck
  have hst := simpleB_facts g hs c.edge he
  rw [candCycle_eq g c hk, unfoldCand_eq g _ c hnd] at hC
  cases hC
  exact ⟨hk, he, hst.1, hst.2.1, hst.2.2, ⟨dv, d1⟩, ⟨du, d2⟩, hfi, hnd, rfl⟩

theorem isoLink_eq (g : Graph) (c : Cand) (hx : c.tree < g.n) (hv : g.tgt c.edge < g.n)
    (hx' : fst g c.tree (g.src c.edge) < g.n) :
    isoLink g (isoTrees g) (isoAll g) c =
      if c.tree = g.src c.edge then some (isoLookup (isoAll g) (g.tgt c.edge) c.edge)
      else if c.tree = fst g (fst g c.tree (g.src c.edge)) (g.tgt c.edge) then
        some (isoLookup (isoAll g) (fst g c.tree (g.src c.edge)) c.edge)
      else if g.src c.edge = fst g (g.tgt c.edge) (fst g c.tree (g.src c.edge)) then
        some (isoLookup (isoAll g) (g.tgt c.edge) ((prd g c.tree (fst g c.tree (g.src c.edge))).getD 0))
      else none := by
  unfold isoLink
  simp only [isoTrees_get g _ hx, isoTrees_get g _ hv]
  have : (isoTrees g)[(buildTree g c.tree).first.getD (g.src c.edge) 0]? =
      some (buildTree g ((buildTree g c.tree).first.getD (g.src c.edge) 0)) := isoTrees_get g _ hx'
  simp only [this]
  rfl

theorem node_trans (g : Graph) (hs : g.simpleB = true) (hp : g.positiveB = true) (a b c : Nat) (ha : a < g.n)
    (hb : b < g.n) (hc : c < g.n) (h1 : Node g a b) (h2 : Node g a c) : Node g b c := by
  have o1 := opt g hs hp a b ha hb h1
  have o2 := opt g hs hp a c ha hc h2
  obtain ⟨t1, _, _⟩ := tf g hs hp b hb
  obtain ⟨d, hd, _⟩ := dist_lower g (buildTree g b) t1 c (P g a b ++ (P g a c).reverse)
    (by
      intro e he
      rcases List.mem_append.1 he with h | h
      · exact o1.1.2.1 e h
      · exact o2.1.2.1 e (List.mem_reverse.1 h))
    ((walk_app g _ _ b c).2 ⟨a, o1.1.1, walk_reverse g _ c a o2.1.1⟩)
  exact ⟨d, hd⟩

/-- the situation of a candidate `(x, e)` whose root is not the source of `e`: the root path of `u = src e` ends with
the edge `pe` from `x' = first_x(u)` to `x` -/
structure Geom (g : Graph) (x e : Nat) (Q : List Nat) (pe : Nat) : Prop where
  hP : P g x (g.src e) = Q ++ [pe]
  hx' : fst g x (g.src e) < g.n
  hne : fst g x (g.src e) ≠ x
  hQ : isWalk g Q (g.src e) (fst g x (g.src e)) = true
  hpe : pe < g.m
  hinc : g.src pe = fst g x (g.src e) ∨ g.tgt pe = fst g x (g.src e)
  hoth : g.other pe (fst g x (g.src e)) = x
  oQ : LexOpt g (g.src e) (fst g x (g.src e)) Q
  nx' : Node g x (fst g x (g.src e))
  nu' : Node g (fst g x (g.src e)) (g.src e)
  hP' : P g (fst g x (g.src e)) (g.src e) = Q
  hprd : prd g x (fst g x (g.src e)) = some pe
  hnv : fst g x (g.src e) ≠ g.tgt e
  hinc2 : g.src pe = x ∨ g.tgt pe = x
  hoth2 : g.other pe x = fst g x (g.src e)

theorem geom (g : Graph) (hs : g.simpleB = true) (hp : g.positiveB = true) (x e : Nat) (C : List Nat)
    (D : CandData g x e C) (hxu : x ≠ g.src e) : ∃ Q pe, Geom g x e Q pe := by
  obtain ⟨Q, pe, hP⟩ := exists_snoc _ (P_ne_nil g hs hp x _ D.hx D.hu D.nu (fun h => hxu h.symm))
  obtain ⟨f1, f2, f3, f4⟩ := first_snoc g hs hp x _ D.hx D.hu D.nu Q pe hP
  obtain ⟨s1, s2, s3, s4, s5⟩ := subpath g hs hp x _ _ D.hx D.hu D.nu Q [pe] hP f1
  obtain ⟨q1, q2⟩ := P_eq g hs hp _ _ s1 D.hu Q s2
  refine ⟨Q, pe, hP, s1, fst_ne g hs hp x _ D.hx D.hu (fun h => hxu h.symm) D.nu, f1, f2, f3, f4, s2, s4, q1, q2,
    pred_of_P_cons g _ _ pe [] s5, ?_, ?_, ?_⟩
  · intro hh
    apply D.hf
    have := (first_snoc g hs hp x _ D.hx s1 s4 [] pe s5).1
    rw [walk_nil] at this
    rw [← hh, ← this]
  · have := other_inc g pe _ f3
    rw [f4] at this; exact this
  · have := other_other g pe _ f3
    rw [f4] at this; exact this

theorem perm1 (e : Nat) (p2 : List Nat) : (e :: (p2.reverse ++ [])).Perm (e :: ([] ++ p2)) := by
  rw [List.perm_iff_count]; intro a; simp [List.count_cons]

theorem perm2 (e pe : Nat) (Q p2 : List Nat) : (e :: (Q ++ (p2 ++ [pe]))).Perm (e :: ((Q ++ [pe]) ++ p2)) := by
  rw [List.perm_iff_count]; intro a; simp [List.count_cons, List.count_append]

theorem perm3a (e pe : Nat) (Q p2 : List Nat) :
    (pe :: ((Q.reverse ++ [e]) ++ p2.reverse)).Perm (e :: ((Q ++ [pe]) ++ p2)) := by
  rw [List.perm_iff_count]; intro a; simp [List.count_cons, List.count_append]; omega

theorem perm3b (e pe : Nat) (Q p2 : List Nat) :
    (pe :: (p2.reverse ++ (Q.reverse ++ [e]))).Perm (e :: ((Q ++ [pe]) ++ p2)) := by
  rw [List.perm_iff_count]; intro a; simp [List.count_cons, List.count_append]; omega

theorem other_src (g : Graph) (e : Nat) : g.other e (g.src e) = g.tgt e := by
  unfold Graph.other; rw [if_pos rfl]

/-- first case of `isoLink`: the root is the source of the edge -/
theorem branch1 (g : Graph) (hs : g.simpleB = true) (hp : g.positiveB = true) (x e : Nat) (C : List Nat)
    (D : CandData g x e C) (hxu : x = g.src e) : Rep g (g.tgt e) e C := by
  have hnd := D.hnd
  have hC := D.hC
  have nv := D.nv
  rw [← hxu] at hnd hC
  rw [P_self g hs hp x D.hx] at hnd hC
  obtain ⟨m1, m2⟩ := node_sym g hs hp x _ D.hx D.hv nv
  obtain ⟨k1, k2⟩ := perm_set _ _ (perm1 e (P g x (g.tgt e))) hnd
  apply rep_of_nodup g hs hp _ e C D.hv D.he (by rw [← hxu]; exact m1) (node_self g hs hp _ D.hv)
  · rw [← hxu, m2, P_self g hs hp _ D.hv]; exact k1
  · rw [← hxu, m2, P_self g hs hp _ D.hv, hC]; exact k2

/-- second case: the root is the `first` label of `v` in the tree of `x'` -/
theorem branch2 (g : Graph) (hs : g.simpleB = true) (hp : g.positiveB = true) (x e : Nat) (C : List Nat)
    (D : CandData g x e C) (Q : List Nat) (pe : Nat) (G : Geom g x e Q pe)
    (h2 : x = fst g (fst g x (g.src e)) (g.tgt e)) : Rep g (fst g x (g.src e)) e C := by
  have nv' : Node g (fst g x (g.src e)) (g.tgt e) := node_trans g hs hp x _ _ D.hx G.hx' D.hv G.nx' D.nv
  obtain ⟨R, f, hR⟩ := exists_snoc _ (P_ne_nil g hs hp _ _ G.hx' D.hv nv' (fun h => G.hnv h.symm))
  obtain ⟨f1, f2, f3, f4⟩ := first_snoc g hs hp _ _ G.hx' D.hv nv' R f hR
  rw [← h2] at f1 f3 f4
  have hfe : pe = f := edge_unique g hs pe f x G.hpe f2 G.hinc2 f3 (by rw [G.hoth2, f4])
  subst hfe
  obtain ⟨_, s2, _⟩ := subpath g hs hp _ _ _ G.hx' D.hv nv' R [pe] hR f1
  obtain ⟨_, q2⟩ := P_eq g hs hp x _ D.hx D.hv R s2
  have hnd := D.hnd
  have hC := D.hC
  rw [G.hP] at hnd hC
  obtain ⟨k1, k2⟩ := perm_set _ _ (perm2 e pe Q (P g x (g.tgt e))) hnd
  apply rep_of_nodup g hs hp _ e C G.hx' D.he G.nu' nv'
  · rw [G.hP', hR, ← q2]; exact k1
  · rw [G.hP', hR, ← q2, hC]; exact k2

/-- third case: `u` is the `first` label of `x'` in the tree of `v` -/
theorem branch3 (g : Graph) (hs : g.simpleB = true) (hp : g.positiveB = true) (x e : Nat) (C : List Nat)
    (D : CandData g x e C) (Q : List Nat) (pe : Nat) (G : Geom g x e Q pe)
    (h3 : g.src e = fst g (g.tgt e) (fst g x (g.src e))) : Rep g (g.tgt e) pe C := by
  obtain ⟨m1, m2⟩ := node_sym g hs hp x _ D.hx D.hv D.nv
  have nx' : Node g (g.tgt e) (fst g x (g.src e)) := node_trans g hs hp x _ _ D.hx D.hv G.hx' D.nv G.nx'
  obtain ⟨R, f, hR⟩ := exists_snoc _ (P_ne_nil g hs hp _ _ D.hv G.hx' nx' G.hnv)
  obtain ⟨f1, f2, f3, f4⟩ := first_snoc g hs hp _ _ D.hv G.hx' nx' R f hR
  rw [← h3] at f1 f3 f4
  have hfe : e = f := edge_unique g hs e f (g.src e) D.he f2 (Or.inl rfl) f3 (by rw [other_src, f4])
  subst hfe
  obtain ⟨_, s2, _⟩ := subpath g hs hp _ _ _ D.hv G.hx' nx' R [e] hR f1
  have hRQ : R = Q.reverse := lexOpt_unique g hs hp _ _ _ _ s2 (lexOpt_reverse g hs hp _ _ _ G.oQ)
  have hnd := D.hnd
  have hC := D.hC
  rw [G.hP] at hnd hC
  have hoth := G.hoth
  have hinc := G.hinc
  by_cases hsp : g.src pe = fst g x (g.src e)
  · have htp : g.tgt pe = x := by
      unfold Graph.other at hoth; rw [if_pos hsp] at hoth; exact hoth
    obtain ⟨k1, k2⟩ := perm_set _ _ (perm3a e pe Q (P g x (g.tgt e))) hnd
    apply rep_of_nodup g hs hp _ pe C D.hv G.hpe (by rw [hsp]; exact nx') (by rw [htp]; exact m1)
    · rw [hsp, htp, hR, hRQ, m2]; exact k1
    · rw [hsp, htp, hR, hRQ, m2, hC]; exact k2
  · have htp : g.tgt pe = fst g x (g.src e) := by
      rcases hinc with h | h
      · exact absurd h hsp
      · exact h
    have hsp' : g.src pe = x := by
      unfold Graph.other at hoth; rw [if_neg hsp] at hoth; exact hoth
    obtain ⟨k1, k2⟩ := perm_set _ _ (perm3b e pe Q (P g x (g.tgt e))) hnd
    apply rep_of_nodup g hs hp _ pe C D.hv G.hpe (by rw [hsp']; exact m1) (by rw [htp]; exact nx')
    · rw [hsp', htp, hR, hRQ, m2]; exact k1
    · rw [hsp', htp, hR, hRQ, m2, hC]; exact k2

/-! ### the two arcs of a pairwise isometric circuit -/

theorem P_nodup (g : Graph) (hs : g.simpleB = true) (hp : g.positiveB = true) (k v : Nat) (hk : k < g.n) (hv : v < g.n)
    (h : Node g k v) : (P g k v).Nodup := by
  obtain ⟨d, hd⟩ := h
  exact (dist_attained g hs hp _ (tf g hs hp k hk).1 v hv d hd).2.2

theorem edge_verts (g : Graph) : ∀ (es : List Nat) (a b : Nat), isWalk g es a b = true → ∀ e ∈ es,
    g.src e ∈ walkVerts g es a ∧ g.tgt e ∈ walkVerts g es a
  | [], _, _, _, e, he => by cases he
  | f :: r, a, b, h, e, he => by
    rw [walk_cons] at h
    simp only [walkVerts, List.mem_cons]
    rcases List.mem_cons.1 he with h1 | h1
    · subst h1
      have hm := head_mem_walkVerts g r (g.other e a)
      by_cases hsa : g.src e = a
      · have : g.other e a = g.tgt e := by unfold Graph.other; rw [if_pos hsa]
        rw [this] at hm ⊢
        exact ⟨Or.inl hsa, Or.inr hm⟩
      · have : g.other e a = g.src e := by unfold Graph.other; rw [if_neg hsa]
        rw [this] at hm ⊢
        have hta : g.tgt e = a := by
          rcases h.1 with h | h
          · exact absurd h hsa
          · exact h
        exact ⟨Or.inr hm, Or.inl hta⟩
    · obtain ⟨i1, i2⟩ := edge_verts g r _ b h.2 e h1
      exact ⟨Or.inr i1, Or.inr i2⟩

/-- a trail with the edge set and the endpoints of a simple path is that path -/
theorem path_trail_eq (g : Graph) : ∀ (P Q : List Nat) (a b : Nat), SimplePath g P a b → isWalk g Q a b = true →
    Q.Nodup → (∀ z, z ∈ P ↔ z ∈ Q) → P = Q
  | [], Q, a, b, _, _, _, hm => by
    cases Q with
    | nil => rfl
    | cons f Q' => exact absurd ((hm f).2 List.mem_cons_self) (by simp)
  | e :: P', Q, a, b, hP, hQ, hnd, hm => by
    cases Q with
    | nil => exact absurd ((hm e).1 List.mem_cons_self) (by simp)
    | cons f Q' =>
      have hPw := (walk_cons g e P' a b).1 hP.1
      have hQw := (walk_cons g f Q' a b).1 hQ
      have hPnd : a ∉ walkVerts g P' (g.other e a) ∧ (walkVerts g P' (g.other e a)).Nodup := by
        have := hP.2.2
        simp only [walkVerts, List.nodup_cons] at this
        exact this
      have hnotin : ∀ z, z ∈ P' → (g.src z = a ∨ g.tgt z = a) → False := by
        intro z hz hinc
        obtain ⟨i1, i2⟩ := edge_verts g P' _ b hPw.2 z hz
        rcases hinc with h | h
        · rw [h] at i1; exact hPnd.1 i1
        · rw [h] at i2; exact hPnd.1 i2
      have hfe : f = e := by
        rcases List.mem_cons.1 ((hm f).2 List.mem_cons_self) with h | h
        · exact h
        · exact (hnotin f h hQw.1).elim
      subst hfe
      have hnd' := List.nodup_cons.1 hnd
      have : P' = Q' := path_trail_eq g P' Q' _ b
        ⟨hPw.2, fun z hz => hP.2.1 z (List.mem_cons_of_mem _ hz), hPnd.2⟩ hQw.2 hnd'.2 (by
        intro z
        constructor
        · intro hz
          rcases List.mem_cons.1 ((hm z).1 (List.mem_cons_of_mem _ hz)) with h | h
          · subst h; exact (hnotin _ hz hPw.1).elim
          · exact h
        · intro hz
          rcases List.mem_cons.1 ((hm z).2 (List.mem_cons_of_mem _ hz)) with h | h
          · subst h; exact absurd hz hnd'.1
          · exact h)
      rw [this]

theorem mem_vertsOf (g : Graph) (C : List Nat) (z : Nat) :
    z ∈ vertsOf g C ↔ ∃ e ∈ C, z = g.src e ∨ z = g.tgt e := by
  unfold vertsOf
  rw [mem_setOf, List.mem_flatMap]
  simp

theorem permArcs (e pe : Nat) (Q p2 : List Nat) :
    ((Q.reverse ++ [e]) ++ (pe :: p2.reverse)).Perm (e :: ((Q ++ [pe]) ++ p2)) := by
  rw [List.perm_iff_count]; intro a; simp [List.count_cons, List.count_append]; omega

/-- for a pairwise isometric circuit the optimal path from `x'` to `v` is one of the two arcs of the circuit, which
makes the second or the third case of `isoLink` apply -/
theorem arc_choice (g : Graph) (hs : g.simpleB = true) (hp : g.positiveB = true) (x e : Nat) (C : List Nat)
    (D : CandData g x e C) (Q : List Nat) (pe : Nat) (G : Geom g x e Q pe) (hCc : Circuit g C) (hiso : PairIso g C) :
    x = fst g (fst g x (g.src e)) (g.tgt e) ∨ g.src e = fst g (g.tgt e) (fst g x (g.src e)) := by
  have hnd := D.hnd
  have hC := D.hC
  rw [G.hP] at hnd hC
  have memC : ∀ z, z ∈ C ↔ z ∈ (Q.reverse ++ [e]) ∨ z ∈ (pe :: (P g x (g.tgt e)).reverse) := by
    intro z
    rw [hC, mem_setOf, ← List.mem_append]
    exact (permArcs e pe Q (P g x (g.tgt e))).mem_iff.symm
  have hndA := (permArcs e pe Q (P g x (g.tgt e))).nodup_iff.2 hnd
  obtain ⟨ndA1, ndA2, hdis⟩ := List.nodup_append.1 hndA
  have ov := opt g hs hp x _ D.hx D.hv D.nv
  -- the two arcs are walks from x' to v
  have wA1 : isWalk g (Q.reverse ++ [e]) (fst g x (g.src e)) (g.tgt e) = true := by
    rw [walk_app]
    refine ⟨g.src e, walk_reverse g Q _ _ G.hQ, ?_⟩
    rw [walk_cons, walk_nil]
    exact ⟨Or.inl rfl, other_src g e⟩
  have wA2 : isWalk g (pe :: (P g x (g.tgt e)).reverse) (fst g x (g.src e)) (g.tgt e) = true := by
    rw [walk_cons]
    refine ⟨G.hinc, ?_⟩
    rw [G.hoth]
    exact walk_reverse g _ _ _ ov.1.1
  -- the optimal path R from x' to v
  have nx' : Node g (g.tgt e) (fst g x (g.src e)) := node_trans g hs hp x _ _ D.hx D.hv G.hx' D.nv G.nx'
  have oR := opt g hs hp _ _ D.hv G.hx' nx'
  have ndR := P_nodup g hs hp _ _ D.hv G.hx' nx'
  have hx'C : fst g x (g.src e) ∈ vertsOf g C := by
    rw [mem_vertsOf]
    refine ⟨pe, (memC pe).2 (Or.inr List.mem_cons_self), ?_⟩
    rcases G.hinc with h | h
    · exact Or.inl h.symm
    · exact Or.inr h.symm
  have hvC : g.tgt e ∈ vertsOf g C := by
    rw [mem_vertsOf]
    exact ⟨e, (memC e).2 (Or.inl (List.mem_append_right _ List.mem_cons_self)), Or.inr rfl⟩
  have hRC : ∀ z ∈ P g (g.tgt e) (fst g x (g.src e)), z ∈ C := hiso _ _ hx'C hvC _ oR
  -- the symmetric difference of R and the first arc
  have sR := setOf_sorted (P g (g.tgt e) (fst g x (g.src e)))
  have sA := setOf_sorted (Q.reverse ++ [e])
  have hW : EvenSet g (xorMerge (setOf (P g (g.tgt e) (fst g x (g.src e)))) (setOf (Q.reverse ++ [e]))) := by
    refine ⟨xorMerge_sorted _ _ sR sA, ?_, ?_⟩
    · intro z hz
      apply hCc.1.2.1
      rcases mem_xorMerge_of _ _ _ hz with h | h
      · rw [mem_setOf] at h; exact hRC z h
      · rw [mem_setOf] at h; exact (memC z).2 (Or.inl h)
    · intro y
      rw [par_xorMerge, par_setOf _ ndR, par_setOf _ ndA1, walk_boundary g _ _ _ oR.1.1 y,
        walk_boundary g _ _ _ wA1 y]
      cases (y == fst g x (g.src e)) <;> cases (y == g.tgt e) <;> rfl
  have hWC : ∀ z ∈ xorMerge (setOf (P g (g.tgt e) (fst g x (g.src e)))) (setOf (Q.reverse ++ [e])), z ∈ C := by
    intro z hz
    rcases mem_xorMerge_of _ _ _ hz with h | h
    · rw [mem_setOf] at h; exact hRC z h
    · rw [mem_setOf] at h; exact (memC z).2 (Or.inl h)
  have key : ∀ z, z ∈ xorMerge (setOf (P g (g.tgt e) (fst g x (g.src e)))) (setOf (Q.reverse ++ [e])) ↔
      ¬ (z ∈ P g (g.tgt e) (fst g x (g.src e)) ↔ z ∈ Q.reverse ++ [e]) := by
    intro z
    rw [mem_xorMerge _ _ sR sA, mem_setOf, mem_setOf, ne_eq, eq_iff_iff]
  by_cases hW0 : xorMerge (setOf (P g (g.tgt e) (fst g x (g.src e)))) (setOf (Q.reverse ++ [e])) = []
  · -- R is the first arc
    right
    have hm : ∀ z, z ∈ P g (g.tgt e) (fst g x (g.src e)) ↔ z ∈ Q.reverse ++ [e] := by
      intro z
      have := key z
      rw [hW0] at this
      exact Classical.not_not.1 (fun h => List.not_mem_nil (this.2 h))
    have hR := path_trail_eq g _ _ _ _ oR.1 wA1 ndA1 hm
    have f1 := (first_snoc g hs hp _ _ D.hv G.hx' nx' Q.reverse e hR).1
    exact walk_end_unique g _ _ _ _ (walk_reverse g Q _ _ G.hQ) f1
  · -- R is the second arc
    left
    have hWeq := hCc.2.2 _ hW hW0 hWC
    have hm : ∀ z, z ∈ P g (g.tgt e) (fst g x (g.src e)) ↔ z ∈ pe :: (P g x (g.tgt e)).reverse := by
      intro z
      have k1 := key z
      rw [hWeq] at k1
      have k2 := memC z
      have k3 := hRC z
      have k4 := hdis z
      constructor
      · intro hz
        rcases k2.1 (k3 hz) with h | h
        · exact (k1.1 (k3 hz) ⟨fun _ => h, fun _ => hz⟩).elim
        · exact h
      · intro hz
        apply Classical.byContradiction
        intro hnz
        apply k1.1 (k2.2 (Or.inr hz))
        exact ⟨fun h => absurd h hnz, fun h => absurd rfl (k4 h z hz)⟩
    have hR := path_trail_eq g _ _ _ _ oR.1 wA2 ndA2 hm
    obtain ⟨m1, m2⟩ := node_sym g hs hp _ _ D.hv G.hx' nx'
    rw [hR, List.reverse_cons, List.reverse_reverse] at m2
    have f1 := (first_snoc g hs hp _ _ G.hx' D.hv m1 _ pe m2).1
    exact walk_end_unique g _ _ _ _ ov.1.1 f1

theorem link_of_get (g : Graph) (i : Nat) (c : Cand) (hc : (isoAll g)[i]? = some c) :
    (isoLinkOf g)[i]? = some (isoLink g (isoTrees g) (isoAll g) c) := by
  unfold isoLinkOf
  rw [List.getElem?_map, hc]; rfl

end IsoCL

/-- a link leads to a representation of the same cycle -/
theorem link_same (g : Graph) (hs : g.simpleB = true) (hp : g.positiveB = true) (i j : Nat) (c : Cand) (C : List Nat)
    (hc : (isoAll g)[i]? = some c) (hC : candCycle g c = some C) (hl : (isoLinkOf g)[i]? = some (some j)) :
    ∃ c', (isoAll g)[j]? = some c' ∧ candCycle g c' = some C := by
  have D := IsoCL.cand_data g hs hp c C (List.mem_of_getElem? hc) hC
  rw [IsoCL.link_of_get g i c hc] at hl
  have hl' : isoLink g (isoTrees g) (isoAll g) c = some j := Option.some.inj hl
  by_cases hxu : c.tree = g.src c.edge
  · have hx' : IsoCL.fst g c.tree (g.src c.edge) < g.n := by
      rw [← hxu, IsoCL.fst_self g hs hp _ D.hx]; exact D.hx
    rw [IsoCL.isoLink_eq g c D.hx D.hv hx', if_pos hxu] at hl'
    cases hl'
    exact IsoCL.lookup_spec g _ _ C (IsoCL.branch1 g hs hp _ _ C D hxu)
  · obtain ⟨Q, pe, G⟩ := IsoCL.geom g hs hp _ _ C D hxu
    rw [IsoCL.isoLink_eq g c D.hx D.hv G.hx', if_neg hxu] at hl'
    by_cases h2 : c.tree = IsoCL.fst g (IsoCL.fst g c.tree (g.src c.edge)) (g.tgt c.edge)
    · rw [if_pos h2] at hl'
      cases hl'
      exact IsoCL.lookup_spec g _ _ C (IsoCL.branch2 g hs hp _ _ C D Q pe G h2)
    · rw [if_neg h2] at hl'
      by_cases h3 : g.src c.edge = IsoCL.fst g (g.tgt c.edge) (IsoCL.fst g c.tree (g.src c.edge))
      · rw [if_pos h3, G.hprd] at hl'
        cases hl'
        exact IsoCL.lookup_spec g _ _ C (IsoCL.branch3 g hs hp _ _ C D Q pe G h3)
      · rw [if_neg h3] at hl'
        cases hl'

/-- no representation of a pairwise isometric circuit is marked bad -/
theorem link_good (g : Graph) (hs : g.simpleB = true) (hp : g.positiveB = true) (i : Nat) (c : Cand) (C : List Nat)
    (hCc : Circuit g C) (hiso : PairIso g C)
    (hc : (isoAll g)[i]? = some c) (hC : candCycle g c = some C) : (isoLinkOf g)[i]? ≠ some none := by
  have D := IsoCL.cand_data g hs hp c C (List.mem_of_getElem? hc) hC
  rw [IsoCL.link_of_get g i c hc]
  intro hl
  have hl' : isoLink g (isoTrees g) (isoAll g) c = none := Option.some.inj hl
  by_cases hxu : c.tree = g.src c.edge
  · have hx' : IsoCL.fst g c.tree (g.src c.edge) < g.n := by
      rw [← hxu, IsoCL.fst_self g hs hp _ D.hx]; exact D.hx
    rw [IsoCL.isoLink_eq g c D.hx D.hv hx', if_pos hxu] at hl'
    cases hl'
  · obtain ⟨Q, pe, G⟩ := IsoCL.geom g hs hp _ _ C D hxu
    rw [IsoCL.isoLink_eq g c D.hx D.hv G.hx', if_neg hxu] at hl'
    rcases IsoCL.arc_choice g hs hp _ _ C D Q pe G hCc hiso with h2 | h3
    · rw [if_pos h2] at hl'
      cases hl'
    · by_cases h2 : c.tree = IsoCL.fst g (IsoCL.fst g c.tree (g.src c.edge)) (g.tgt c.edge)
      · rw [if_pos h2] at hl'
        cases hl'
      · rw [if_neg h2, if_pos h3] at hl'
        cases hl'

end Parmcb
