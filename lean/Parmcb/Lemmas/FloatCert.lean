import Parmcb.Model.FloatCert
import Parmcb.Lemmas.Float
import Parmcb.Lemmas.RatAlpha
import Parmcb.Lemmas.Cert
/-!
Soundness of the certificates of Model/FloatCert.lean.
-/
namespace Parmcb.Float

theorem relaxedB_step (dist : List (Option Int)) (u v : Nat) (w : Int) (h : relaxedB dist u v w = true)
    (du : Int) (hu : dget dist u = some du) : ∃ dv, dget dist v = some dv ∧ dv ≤ fadd du w := by
  unfold relaxedB at h
  rw [hu] at h
  cases hv : dget dist v with
  | none => rw [hv] at h; simp at h
  | some dv =>
    rw [hv] at h
    exact ⟨dv, rfl, of_decide_eq_true h⟩

/-- what the edge part of the check says -/
def EdgesOK (es : List FEdge) (dist : List (Option Int)) : Prop :=
  ∀ e ∈ es, 0 ≤ e.2.2 ∧ relaxedB dist e.1 e.2.1 e.2.2 = true ∧ relaxedB dist e.2.1 e.1 e.2.2 = true

theorem check_parts (es : List FEdge) (s : Nat) (dist : List (Option Int)) (paths : List (Option (List FEdge)))
    (h : checkFloatSPT es s dist paths = true) :
    dget dist s = some 0 ∧ EdgesOK es dist ∧
    ∀ v, v < dist.length → ∀ d, dget dist v = some d →
      ∃ p, (paths[v]?).getD none = some p ∧ walkOk es s p v = true ∧ fsum (walkW p) = d := by
  unfold checkFloatSPT at h
  rw [Bool.and_eq_true, Bool.and_eq_true] at h
  obtain ⟨⟨h1, h2⟩, h3⟩ := h
  refine ⟨by simpa using h1, ?_, ?_⟩
  · intro e he
    have := List.all_eq_true.1 h2 e he
    rw [Bool.and_eq_true, Bool.and_eq_true] at this
    exact ⟨of_decide_eq_true this.1.1, this.1.2, this.2⟩
  · intro v hv d hd
    have := List.all_eq_true.1 h3 v (List.mem_range.2 hv)
    rw [hd] at this
    cases hq : (paths[v]?).getD none with
    | none => rw [hq] at this; simp at this
    | some p =>
      rw [hq] at this
      simp only [Bool.and_eq_true, beq_iff_eq] at this
      exact ⟨p, rfl, this.1, this.2⟩

/-- a step that is accepted matches an edge in one of the two directions -/
theorem stepOk_edge (es : List FEdge) (st : FEdge) (h : stepOk es st = true) :
    ∃ e ∈ es, e.2.2 = st.2.2 ∧ ((e.1 = st.1 ∧ e.2.1 = st.2.1) ∨ (e.1 = st.2.1 ∧ e.2.1 = st.1)) := by
  unfold stepOk at h
  obtain ⟨e, he, hm⟩ := List.any_eq_true.1 h
  simp only [Bool.or_eq_true, Bool.and_eq_true, beq_iff_eq] at hm
  refine ⟨e, he, ?_⟩
  rcases hm with ⟨⟨a, b⟩, c⟩ | ⟨⟨a, b⟩, c⟩
  · exact ⟨c, Or.inl ⟨a, b⟩⟩
  · exact ⟨c, Or.inr ⟨a, b⟩⟩

theorem lower_gen (es : List FEdge) (dist : List (Option Int)) (hall : EdgesOK es dist) :
    ∀ (P : List FEdge) (a t : Nat) (da acc : Int), dget dist a = some da → da ≤ acc →
      walkOk es a P t = true →
      ∃ d, dget dist t = some d ∧ d ≤ P.foldl (fun x st => fadd x st.2.2) acc := by
  intro P
  induction P with
  | nil =>
    intro a t da acc ha hle hw
    simp only [walkOk, beq_iff_eq] at hw
    subst hw
    exact ⟨da, ha, hle⟩
  | cons st rest ih =>
    intro a t da acc ha hle hw
    simp only [walkOk, Bool.and_eq_true, beq_iff_eq] at hw
    obtain ⟨⟨hst, hsa⟩, hrest⟩ := hw
    obtain ⟨e, he, hw, hdir⟩ := stepOk_edge es st hst
    obtain ⟨_, r1, r2⟩ := hall e he
    have hb : ∃ db, dget dist st.2.1 = some db ∧ db ≤ fadd da st.2.2 := by
      rcases hdir with ⟨e1, e2⟩ | ⟨e1, e2⟩
      · rw [e1, e2, hw, hsa] at r1
        exact relaxedB_step dist _ _ _ r1 da ha
      · rw [e1, e2, hw, hsa] at r2
        exact relaxedB_step dist _ _ _ r2 da ha
    obtain ⟨db, hdb, hle2⟩ := hb
    rw [List.foldl_cons]
    refine ih st.2.1 t db (fadd acc st.2.2) hdb ?_ hrest
    have : fadd da st.2.2 ≤ fadd acc st.2.2 := by
      unfold fadd
      exact rnd_mono (by omega)
    omega

theorem fsum_walkW (P : List FEdge) : fsum (walkW P) = P.foldl (fun x st => fadd x st.2.2) 0 := by
  unfold fsum walkW
  rw [List.foldl_map]

/-- labels that pass the check are lower bounds, IN DOUBLE ARITHMETIC, for every walk from the source: the
generalised Bellman argument needs only that `fadd` is monotone -/
theorem floatSPT_lower (es : List FEdge) (s : Nat) (dist : List (Option Int)) (paths : List (Option (List FEdge)))
    (h : checkFloatSPT es s dist paths = true) (P : List FEdge) (t : Nat) (hP : walkOk es s P t = true) :
    ∃ d, dget dist t = some d ∧ d ≤ fsum (walkW P) := by
  obtain ⟨h0, hall, _⟩ := check_parts es s dist paths h
  rw [fsum_walkW]
  exact lower_gen es dist hall P s t 0 0 h0 (Int.le_refl _) hP

theorem walkOk_nonneg (es : List FEdge) (dist : List (Option Int)) (hall : EdgesOK es dist) :
    ∀ (P : List FEdge) (a t : Nat), walkOk es a P t = true → ∀ w ∈ walkW P, 0 ≤ w := by
  intro P
  induction P with
  | nil => intro a t _ w hw; simp [walkW] at hw
  | cons st rest ih =>
    intro a t hwk w hw
    simp only [walkOk, Bool.and_eq_true, beq_iff_eq] at hwk
    obtain ⟨⟨hst, _⟩, hrest⟩ := hwk
    simp only [walkW, List.map_cons, List.mem_cons] at hw
    rcases hw with rfl | hw
    · obtain ⟨e, he, hw, _⟩ := stepOk_edge es st hst
      rw [← hw]
      exact (hall e he).1
    · exact ih _ _ hrest w hw

theorem fsum_nonneg (ws : List Int) (hpos : ∀ w ∈ ws, 0 ≤ w) : 0 ≤ fsum ws := by
  unfold fsum
  suffices ∀ acc : Int, 0 ≤ acc → 0 ≤ ws.foldl fadd acc from this 0 (Int.le_refl _)
  induction ws with
  | nil => intro acc h; exact h
  | cons w ws ih =>
    intro acc h
    rw [List.foldl_cons]
    apply ih (fun v hv => hpos v (List.mem_cons_of_mem _ hv))
    unfold fadd
    exact rnd_nonneg (by have := hpos w (List.mem_cons_self ..); omega)

/-- the recorded walk of a reached vertex is a `(2^32+1)/(2^32-1)`-approximate shortest walk in exact
arithmetic (walks of up to 2^20 edges) -/
theorem floatSPT_approx (es : List FEdge) (s : Nat) (dist : List (Option Int)) (paths : List (Option (List FEdge)))
    (h : checkFloatSPT es s dist paths = true) (t : Nat) (ht : t < dist.length) (p : List FEdge)
    (hp : (paths[t]?).getD none = some p) (hreach : dget dist t ≠ none) (hplen : p.length ≤ 2 ^ 20)
    (P : List FEdge) (hP : walkOk es s P t = true) (hPlen : P.length ≤ 2 ^ 20) :
    walkOk es s p t = true ∧ (2 ^ 32 - 1) * (walkW p).sum ≤ (2 ^ 32 + 1) * (walkW P).sum := by
  have _ := hreach
  obtain ⟨_, hall, hpaths⟩ := check_parts es s dist paths h
  obtain ⟨d, hd, hle⟩ := floatSPT_lower es s dist paths h P t hP
  obtain ⟨p', hp', hwk, hsum⟩ := hpaths t ht d hd
  rw [hp] at hp'
  cases hp'
  refine ⟨hwk, ?_⟩
  have np := walkOk_nonneg es dist hall p s t hwk
  have nP := walkOk_nonneg es dist hall P s t hP
  have r1 := fsum_rel (walkW p) np (by simpa [walkW] using hplen)
  have r2 := fsum_rel (walkW P) nP (by simpa [walkW] using hPlen)
  have s1 := sum_nonneg_of _ np
  have s2 := sum_nonneg_of _ nP
  rw [hsum] at r1
  generalize fsum (walkW P) = FP at *
  generalize (walkW p).sum = Sp at *
  generalize (walkW P).sum = SP at *
  have e1 : ((2 : Int) ^ 32 + 1) = 4294967297 := by decide
  have e2 : ((2 : Int) ^ 32 - 1) = 4294967295 := by decide
  have e3 : ((2 : Nat) ^ 32) = 4294967296 := by decide
  rw [e1, e2]
  rw [e3] at r1 r2
  omega

end Parmcb.Float

namespace Parmcb

theorem checkRunPotRat_sound (g : Graph) (hs : g.simpleB = true) (hp : g.positiveB = true) (p q : Int) (hp0 : 0 ≤ p)
    (v : Variant) (k : Nat)
    (sup cycles : List (List Nat)) (hsup : ∀ S ∈ sup, StrictSorted S) (cert : List (List Potential × Int))
    (h : checkRunPotRat g p q v k sup cycles cert = true) :
    RunRat g p q v k sup cycles := by
  induction cycles generalizing k sup cert with
  | nil => trivial
  | cons c cs ih =>
    cases cert with
    | nil => simp [checkRunPotRat] at h
    | cons πL rest =>
      obtain ⟨πs, L⟩ := πL
      simp only [checkRunPotRat, checkPhasePotRat, Bool.and_eq_true, decide_eq_true_eq] at h
      obtain ⟨⟨⟨⟨h1, h2⟩, h3⟩, h5⟩, h4⟩ := h
      have hsorted : StrictSorted (phaseSupport v sup k) := by
        obtain ⟨Ss, rfl⟩ := exists_vals sup hsup
        exact phaseSupport_sorted v Ss k
      refine ⟨⟨(evenSetB_iff g hs c).1 h1, h2, ?_⟩,
        ih _ _ (phaseStep_sorted v sup k c hsup) _ h4⟩
      intro Z hZ hodd
      have hL := checkPotential_sound g hs hp _ hsorted πs _ h3 Z hZ hodd
      have := Int.mul_le_mul_of_nonneg_left hL hp0
      omega

end Parmcb
