import Parmcb.Model.FloatDijkstra
import Parmcb.Lemmas.FloatCert
import Parmcb.Lemmas.ApproxAlgo
/-!
`parmcb::dijkstra` run in double arithmetic ALWAYS passes the certificate `checkFloatSPT`: Dijkstra's argument needs only
that the extension operation is monotone (`rnd_mono`) and inflationary on rounded values (`fadd_inflationary`).
-/
namespace Parmcb
open Parmcb.Float

namespace FloatDijkL
open Parmcb.Spanner Parmcb.BiDijL Parmcb.BiSearchL Parmcb.ApproxAlgoL

/-! ### the invariant

`P` = the popped ("settled") vertices, most recent first; `u`, `du` = the vertex scanned last (or being scanned) and its
label; `pend` = the part of its adjacency list not yet relaxed. -/

/-- the predecessor record of `x` points to a vertex of `P` over an edge of `g`, and the label of `x` is the rounded sum -/
def Lk (g : Graph) (f : FrontierP) (x : Nat) (P : List Nat) : Prop :=
  x = f.src ∨ ∃ u e du, f.pred[x]! = some (u, e) ∧ u ∈ P ∧ e < g.m ∧ Jn g e u x ∧
    f.dist[u]! = some du ∧ f.dist[x]! = some (fadd du (g.weight e))

/-- every settled vertex is linked to a vertex settled EARLIER: the records are acyclic -/
def LkL (g : Graph) (f : FrontierP) : List Nat → Prop
  | [] => True
  | x :: P => Lk g f x P ∧ LkL g f P

structure FD (g : Graph) (s : Nat) (f : FrontierP) (P : List Nat) (u : Nat) (du : Int)
    (pend : List (Nat × Int × Nat)) : Prop where
  src : f.src = s
  dsize : f.dist.size = g.n
  psize : f.pred.size = g.n
  srcLab : f.dist[s]! = some 0
  rounded : ∀ (v : Nat) (d : Int), f.dist[v]! = some d → rnd d = d
  nonneg : ∀ (v : Nat) (d : Int), f.dist[v]! = some d → 0 ≤ d
  qLab : ∀ v ∈ f.queue, ∃ d, f.dist[v]! = some d
  pLab : ∀ v ∈ P, ∃ d, f.dist[v]! = some d
  qNd : f.queue.Nodup
  pNd : P.Nodup
  disj : ∀ v ∈ P, v ∉ f.queue
  labPQ : ∀ (v : Nat) (d : Int), f.dist[v]! = some d → v ∈ P ∨ v ∈ f.queue
  top : ∀ a ∈ P, ∀ da, f.dist[a]! = some da → da ≤ du
  mono : ∀ v ∈ f.queue, ∀ d, f.dist[v]! = some d → du ≤ d
  rdu : rnd du = du
  ndu : 0 ≤ du
  edge : ∀ a ∈ P, ∀ da, f.dist[a]! = some da → ∀ p ∈ (plainAdjE g)[a]!, (a = u → p ∉ pend) →
      ∃ dw, f.dist[p.1]! = some dw ∧ dw ≤ fadd da p.2.1
  lkP : LkL g f P
  lkQ : ∀ x ∈ f.queue, Lk g f x P

theorem Lk.mono {g : Graph} {f : FrontierP} {x : Nat} {P P' : List Nat} (h : Lk g f x P) (hsub : ∀ v ∈ P, v ∈ P') :
    Lk g f x P' := by
  rcases h with h | ⟨u, e, du, h1, h2, h3⟩
  · exact Or.inl h
  · exact Or.inr ⟨u, e, du, h1, hsub u h2, h3⟩

theorem Lk.congr {g : Graph} {f f' : FrontierP} {x : Nat} {P : List Nat} (h : Lk g f x P) (hsrc : f'.src = f.src)
    (hx : f'.pred[x]! = f.pred[x]! ∧ f'.dist[x]! = f.dist[x]!)
    (hP : ∀ v ∈ P, f'.dist[v]! = f.dist[v]!) : Lk g f' x P := by
  rcases h with h | ⟨u, e, du, h1, h2, h3, h4, h5, h6⟩
  · exact Or.inl (h.trans hsrc.symm)
  · exact Or.inr ⟨u, e, du, hx.1.trans h1, h2, h3, h4, (hP u h2).trans h5, hx.2.trans h6⟩

theorem LkL.congr {g : Graph} {f f' : FrontierP} (hsrc : f'.src = f.src) : ∀ (P : List Nat), LkL g f P →
    (∀ v ∈ P, f'.pred[v]! = f.pred[v]! ∧ f'.dist[v]! = f.dist[v]!) → LkL g f' P
  | [], _, _ => trivial
  | x :: P, h, hP =>
    ⟨h.1.congr hsrc (hP x List.mem_cons_self) (fun v hv => (hP v (List.mem_cons_of_mem _ hv)).2),
      LkL.congr hsrc P h.2 (fun v hv => hP v (List.mem_cons_of_mem _ hv))⟩

theorem rnd_zero : rnd 0 = 0 := rnd_exact 0 (by decide)

theorem FD.init (g : Graph) (s : Nat) (hs : s < g.n) : FD g s (FrontierP.init g.n s) [] s 0 [] := by
  have hget : ∀ v, (FrontierP.init g.n s).dist[v]! = if s = v then some 0 else none := by
    intro v
    show ((Array.replicate g.n none).set! s (some 0))[v]! = _
    rw [get_setG]
    have hrep : (Array.replicate g.n (none : Option Int))[v]! = none := by
      by_cases hv : v < g.n
      · simp [hv]
      · simp [hv]; rfl
    by_cases hsv : s = v
    · rw [if_pos ⟨hsv, by simpa using hs⟩, if_pos hsv]
    · rw [if_neg (fun hh => hsv hh.1), if_neg hsv, hrep]
  have hlab : ∀ v d, (FrontierP.init g.n s).dist[v]! = some d → s = v ∧ d = 0 := by
    intro v d hd
    rw [hget] at hd
    by_cases hsv : s = v
    · rw [if_pos hsv] at hd; cases hd; exact ⟨hsv, rfl⟩
    · rw [if_neg hsv] at hd; cases hd
  refine { src := rfl, dsize := ?_, psize := ?_, srcLab := (by rw [hget, if_pos rfl]), rounded := ?_, nonneg := ?_,
           qLab := ?_, pLab := fun v hv => (by cases hv), qNd := List.nodup_cons.2 ⟨List.not_mem_nil, List.nodup_nil⟩,
           pNd := List.nodup_nil, disj := fun v hv => (by cases hv), labPQ := ?_, top := fun a ha => (by cases ha),
           mono := ?_, rdu := rnd_zero, ndu := Int.le_refl _, edge := fun a ha => (by cases ha), lkP := trivial,
           lkQ := ?_ }
  · show ((Array.replicate g.n none).set! s (some 0)).size = _
    simp [Array.set!]
  · show (Array.replicate g.n none).size = _
    simp
  · intro v d hd
    rw [(hlab v d hd).2]; exact rnd_zero
  · intro v d hd
    rw [(hlab v d hd).2]
  · intro v hv
    have : v = s := List.mem_singleton.1 hv
    exact ⟨0, by rw [hget, if_pos this.symm]⟩
  · intro v d hd
    exact Or.inr ((hlab v d hd).1 ▸ List.mem_cons_self)
  · intro v _ d hd
    rw [(hlab v d hd).2]
  · intro x hx
    exact Or.inl (List.mem_singleton.1 hx)

variable {g : Graph} {s : Nat}

/-- the head of `pend` needs no change -/
theorem FD.keep {f : FrontierP} {P : List Nat} {u : Nat} {du : Int} {p0 : Nat × Int × Nat}
    {r : List (Nat × Int × Nat)} (h : FD g s f P u du (p0 :: r)) (hdu : f.dist[u]! = some du) {dw : Int}
    (hdw : f.dist[p0.1]! = some dw) (hle : dw ≤ fadd du p0.2.1) : FD g s f P u du r := by
  refine { h with edge := ?_ }
  intro a ha da hda p hp hnp
  by_cases hpe : a = u ∧ p = p0
  · obtain ⟨h1, h2⟩ := hpe
    subst h1; subst h2
    rw [hdu] at hda; cases hda
    exact ⟨dw, hdw, hle⟩
  · refine h.edge a ha da hda p hp (fun hau hmem => ?_)
    rcases List.mem_cons.1 hmem with h1 | h1
    · exact hpe ⟨hau, h1⟩
    · exact hnp hau h1

/-- the head of `pend` gives `w` a new (first or smaller) label -/
theorem FD.change {f : FrontierP} {P : List Nat} {u w e : Nat} {du c : Int} {r : List (Nat × Int × Nat)}
    (h : FD g s f P u du ((w, c, e) :: r)) (huP : u ∈ P) (hdu : f.dist[u]! = some du)
    (hem : e < g.m) (hc : c = g.weight e) (hc0 : 0 ≤ c) (hj : Jn g e u w) (hw : w < g.n) (hws : w ≠ s)
    (F' : FrontierP) (hsrc : F'.src = f.src) (hdist : F'.dist = f.dist.set! w (some (fadd du c)))
    (hpred : F'.pred = f.pred.set! w (some (u, e)))
    (hq : (F'.queue = f.queue ∧ ∃ dw, f.dist[w]! = some dw) ∨ (F'.queue = f.queue ++ [w] ∧ f.dist[w]! = none))
    (hold : ∀ dw, f.dist[w]! = some dw → fadd du c < dw) :
    FD g s F' P u du r ∧ F'.dist[u]! = some du := by
  have hgetd : ∀ v, F'.dist[v]! = if w = v then some (fadd du c) else f.dist[v]! := by
    intro v; rw [hdist, get_setG]; simp [h.dsize, hw]
  have hgetp : ∀ v, F'.pred[v]! = if w = v then some (u, e) else f.pred[v]! := by
    intro v; rw [hpred, get_setG]; simp [h.psize, hw]
  have hinf : du ≤ fadd du c := fadd_inflationary du c h.rdu hc0
  have hwP : w ∉ P := fun hwP => by
    obtain ⟨dw, hdw⟩ := h.pLab w hwP
    have h1 := h.top w hwP dw hdw
    have h2 := hold dw hdw
    omega
  have hneP : ∀ v ∈ P, w ≠ v := fun v hv hh => hwP (hh ▸ hv)
  have hsameD : ∀ v ∈ P, F'.dist[v]! = f.dist[v]! := fun v hv => by rw [hgetd, if_neg (hneP v hv)]
  have hsameP : ∀ v ∈ P, F'.pred[v]! = f.pred[v]! := fun v hv => by rw [hgetp, if_neg (hneP v hv)]
  have hqsub : ∀ v ∈ f.queue, v ∈ F'.queue := by
    intro v hv
    rcases hq with ⟨hq, _⟩ | ⟨hq, _⟩
    · rw [hq]; exact hv
    · rw [hq]; exact List.mem_append_left _ hv
  have hqmem : ∀ v ∈ F'.queue, w = v ∨ v ∈ f.queue := by
    intro v hv
    rcases hq with ⟨hq, _⟩ | ⟨hq, _⟩
    · rw [hq] at hv; exact Or.inr hv
    · rw [hq] at hv
      rcases List.mem_append.1 hv with hv | hv
      · exact Or.inr hv
      · exact Or.inl (List.mem_singleton.1 hv).symm
  have hwq : w ∈ F'.queue := by
    rcases hq with ⟨hq, dw, hdw⟩ | ⟨hq, _⟩
    · rw [hq]
      rcases h.labPQ w dw hdw with hh | hh
      · exact absurd hh hwP
      · exact hh
    · rw [hq]; exact List.mem_append_right _ (List.mem_singleton.2 rfl)
  have hwu : w ≠ u := hneP u huP
  refine ⟨?_, by rw [hgetd, if_neg hwu]; exact hdu⟩
  refine { src := hsrc.trans h.src, dsize := ?_, psize := ?_, srcLab := ?_, rounded := ?_, nonneg := ?_,
           qLab := ?_, pLab := ?_, qNd := ?_, pNd := h.pNd, disj := ?_, labPQ := ?_, top := ?_, mono := ?_,
           rdu := h.rdu, ndu := h.ndu, edge := ?_, lkP := ?_, lkQ := ?_ }
  · rw [hdist]; simp [Array.set!, h.dsize]
  · rw [hpred]; simp [Array.set!, h.psize]
  · rw [hgetd, if_neg hws]; exact h.srcLab
  · intro v d hd
    rw [hgetd] at hd
    by_cases hwv : w = v
    · rw [if_pos hwv] at hd; cases hd; exact rnd_idem _
    · rw [if_neg hwv] at hd; exact h.rounded v d hd
  · intro v d hd
    rw [hgetd] at hd
    by_cases hwv : w = v
    · rw [if_pos hwv] at hd; cases hd; have := h.ndu; omega
    · rw [if_neg hwv] at hd; exact h.nonneg v d hd
  · intro v hv
    by_cases hwv : w = v
    · exact ⟨_, by rw [hgetd, if_pos hwv]⟩
    · rcases hqmem v hv with hh | hh
      · exact absurd hh hwv
      · obtain ⟨d, hd⟩ := h.qLab v hh
        exact ⟨d, by rw [hgetd, if_neg hwv]; exact hd⟩
  · intro v hv
    obtain ⟨d, hd⟩ := h.pLab v hv
    exact ⟨d, (hsameD v hv).trans hd⟩
  · rcases hq with ⟨hq, _⟩ | ⟨hq, hnone⟩
    · rw [hq]; exact h.qNd
    · rw [hq]
      refine List.nodup_append.2 ⟨h.qNd, List.nodup_cons.2 ⟨List.not_mem_nil, List.nodup_nil⟩, ?_⟩
      intro a ha b hb hab
      rw [List.mem_singleton.1 hb] at hab
      obtain ⟨d, hd⟩ := h.qLab a ha
      rw [hab, hnone] at hd; cases hd
  · intro v hv hvq
    rcases hqmem v hvq with hh | hh
    · exact hneP v hv hh
    · exact h.disj v hv hh
  · intro v d hd
    rw [hgetd] at hd
    by_cases hwv : w = v
    · exact Or.inr (hwv ▸ hwq)
    · rw [if_neg hwv] at hd
      rcases h.labPQ v d hd with hh | hh
      · exact Or.inl hh
      · exact Or.inr (hqsub v hh)
  · intro a ha da hda
    rw [hsameD a ha] at hda
    exact h.top a ha da hda
  · intro v hv d hd
    rw [hgetd] at hd
    by_cases hwv : w = v
    · rw [if_pos hwv] at hd; cases hd; exact hinf
    · rw [if_neg hwv] at hd
      rcases hqmem v hv with hh | hh
      · exact absurd hh hwv
      · exact h.mono v hh d hd
  · intro a ha da hda p hp hnp
    rw [hsameD a ha] at hda
    by_cases hpe : a = u ∧ p = (w, c, e)
    · obtain ⟨h1, h2⟩ := hpe
      subst h1; subst h2
      rw [hdu] at hda; cases hda
      exact ⟨_, by rw [hgetd, if_pos rfl], Int.le_refl _⟩
    · obtain ⟨dw, hdw, hle⟩ := h.edge a ha da hda p hp (fun hau hmem => by
        rcases List.mem_cons.1 hmem with h1 | h1
        · exact hpe ⟨hau, h1⟩
        · exact hnp hau h1)
      by_cases hwp : w = p.1
      · have := hold dw (hwp ▸ hdw)
        exact ⟨fadd du c, by rw [hgetd, if_pos hwp], by omega⟩
      · exact ⟨dw, by rw [hgetd, if_neg hwp]; exact hdw, hle⟩
  · exact LkL.congr hsrc P h.lkP (fun v hv => ⟨hsameP v hv, hsameD v hv⟩)
  · intro x hx
    by_cases hwx : w = x
    · subst hwx
      refine Or.inr ⟨u, e, du, by rw [hgetp, if_pos rfl], huP, hem, hj, ?_, ?_⟩
      · rw [hgetd, if_neg hwu]; exact hdu
      · rw [hgetd, if_pos rfl, hc]
    · rcases hqmem x hx with hh | hh
      · exact absurd hh hwx
      · exact (h.lkQ x hh).congr hsrc ⟨by rw [hgetp, if_neg hwx], by rw [hgetd, if_neg hwx]⟩ hsameD

theorem FD.update (hs : g.simpleB = true) (hp : g.positiveB = true) {f : FrontierP} {P : List Nat} {u w e : Nat}
    {du c : Int} {r : List (Nat × Int × Nat)} (h : FD g s f P u du ((w, c, e) :: r)) (huP : u ∈ P)
    (hdu : f.dist[u]! = some du) (he : (w, c, e) ∈ (plainAdjE g)[u]!) :
    FD g s (f.update w (fadd du c) u e) P u du r ∧ (f.update w (fadd du c) u e).dist[u]! = some du := by
  have hu : u < g.n := by rw [← h.dsize]; exact lab_lt _ _ _ hdu
  obtain ⟨hem, hc, _, hj⟩ := (mem_plainAdjE g u hu w c e).1 he
  have hw : w < g.n := (jn_lt' g hs e u w hem hj).2.1
  have hc0 : 0 < c := hc ▸ positiveB_facts g hp e hem
  have hinf : du ≤ fadd du c := fadd_inflationary du c h.rdu (Int.le_of_lt hc0)
  unfold FrontierP.update
  by_cases hws : w = f.src
  · rw [if_pos (by simpa using hws)]
    refine ⟨h.keep hdu (dw := 0) ?_ ?_, hdu⟩
    · show f.dist[w]! = some 0
      rw [hws, h.src]; exact h.srcLab
    · show 0 ≤ fadd du c
      have := h.ndu; omega
  · rw [if_neg (by simpa using hws)]
    have hwr : w ≠ s := fun e => hws (e.trans h.src.symm)
    cases hdw : f.dist[w]! with
    | none =>
      simp only []
      exact h.change huP hdu hem hc (Int.le_of_lt hc0) hj hw hwr _ rfl rfl rfl (Or.inr ⟨rfl, hdw⟩)
        (fun dw hh => by rw [hdw] at hh; cases hh)
    | some dw =>
      simp only []
      by_cases hlt : fadd du c < dw
      · rw [if_pos hlt]
        exact h.change huP hdu hem hc (Int.le_of_lt hc0) hj hw hwr _ rfl rfl rfl (Or.inl ⟨rfl, dw, hdw⟩)
          (fun dw' hh => by rw [hdw] at hh; cases hh; exact hlt)
      · rw [if_neg hlt]
        exact ⟨h.keep hdu (dw := dw) hdw (by show dw ≤ fadd du c; omega), hdu⟩

theorem fdijkScan_cons (u : Nat) (du : Int) (w : Nat) (c : Int) (e : Nat) (r : List (Nat × Int × Nat)) (f : FrontierP) :
    fdijkScan u du ((w, c, e) :: r) f = fdijkScan u du r (f.update w (fadd du c) u e) := rfl

theorem fdijkScan_inv (hs : g.simpleB = true) (hp : g.positiveB = true) {u : Nat} {du : Int} {P : List Nat}
    (huP : u ∈ P) : ∀ (l : List (Nat × Int × Nat)) (f : FrontierP), (∀ p ∈ l, p ∈ (plainAdjE g)[u]!) →
      f.dist[u]! = some du → FD g s f P u du l → FD g s (fdijkScan u du l f) P u du []
  | [], _, _, _, h => h
  | (w, c, e) :: r, f, hsub, hdu, h => by
    rw [fdijkScan_cons]
    obtain ⟨h', hdu'⟩ := h.update hs hp huP hdu (hsub _ List.mem_cons_self)
    exact fdijkScan_inv hs hp huP r _ (fun p hp' => hsub p (List.mem_cons_of_mem _ hp')) hdu' h'

/-- the pop: a queued vertex of minimum label becomes settled -/
theorem FD.pop {f : FrontierP} {P : List Nat} {u0 : Nat} {du0 : Int} (h : FD g s f P u0 du0 []) {u : Nat} {du : Int}
    (hu : u ∈ f.queue) (hdu : f.dist[u]! = some du) (hmin : ∀ v ∈ f.queue, ∀ d, f.dist[v]! = some d → du ≤ d) :
    FD g s { f with queue := f.queue.erase u } (u :: P) u du (plainAdjE g)[u]! := by
  have hle : du0 ≤ du := h.mono u hu du hdu
  have huP : u ∉ P := fun hh => h.disj u hh hu
  refine { src := h.src, dsize := h.dsize, psize := h.psize, srcLab := h.srcLab, rounded := h.rounded,
           nonneg := h.nonneg, qLab := ?_, pLab := ?_, qNd := h.qNd.erase u, pNd := List.nodup_cons.2 ⟨huP, h.pNd⟩,
           disj := ?_, labPQ := ?_, top := ?_, mono := ?_, rdu := h.rounded u du hdu, ndu := h.nonneg u du hdu,
           edge := ?_, lkP := ⟨h.lkQ u hu, LkL.congr (f := f) (f' := { f with queue := f.queue.erase u }) rfl P h.lkP (fun _ _ => ⟨rfl, rfl⟩)⟩, lkQ := ?_ }
  · intro v hv
    exact h.qLab v (List.mem_of_mem_erase hv)
  · intro v hv
    rcases List.mem_cons.1 hv with rfl | hv
    · exact ⟨du, hdu⟩
    · exact h.pLab v hv
  · intro v hv hvq
    rcases List.mem_cons.1 hv with rfl | hv
    · exact ((h.qNd.mem_erase_iff).1 hvq).1 rfl
    · exact h.disj v hv (List.mem_of_mem_erase hvq)
  · intro v d hd
    by_cases hvu : v = u
    · exact Or.inl (hvu ▸ List.mem_cons_self)
    · rcases h.labPQ v d hd with hh | hh
      · exact Or.inl (List.mem_cons_of_mem _ hh)
      · exact Or.inr ((List.mem_erase_of_ne hvu).2 hh)
  · intro a ha da hda
    rcases List.mem_cons.1 ha with rfl | ha
    · have : f.dist[a]! = some da := hda
      rw [hdu] at this; cases this; exact Int.le_refl _
    · have := h.top a ha da hda
      omega
  · intro v hv d hd
    exact hmin v (List.mem_of_mem_erase hv) d hd
  · intro a ha da hda p hp hnp
    rcases List.mem_cons.1 ha with rfl | ha
    · exact absurd hp (hnp rfl)
    · exact h.edge a ha da hda p hp (fun _ => List.not_mem_nil)
  · intro x hx
    exact (h.lkQ x (List.mem_of_mem_erase hx)).mono (fun v hv => List.mem_cons_of_mem _ hv)

theorem fdijkLoop_succ (adjE : Array (List (Nat × Int × Nat))) (pick : Pick) (fuel : Nat) (f : FrontierP) :
    fdijkLoop adjE pick (fuel + 1) f =
      if f.queue.isEmpty then f
      else match f.dist[pick fuel f.toF.minNodes]! with
        | none => f
        | some du => fdijkLoop adjE pick fuel (fdijkScan (pick fuel f.toF.minNodes) du adjE[pick fuel f.toF.minNodes]!
            { f with queue := f.queue.erase (pick fuel f.toF.minNodes) }) := rfl

theorem fdijkLoop_inv (hs : g.simpleB = true) (hp : g.positiveB = true) (pick : Pick) (hpk : PickOK pick) :
    ∀ (fuel : Nat) (f : FrontierP) (P : List Nat) (u : Nat) (du : Int), FD g s f P u du [] →
      g.n + 1 ≤ fuel + P.length →
      ∃ P' u' du', FD g s (fdijkLoop (plainAdjE g) pick fuel f) P' u' du' [] ∧
        (fdijkLoop (plainAdjE g) pick fuel f).queue = []
  | 0, f, P, u, du, h, hf => by
    have := BiDijL.nodup_length_le g.n P h.pNd (fun x hx => by
      obtain ⟨d, hd⟩ := h.pLab x hx
      rw [← h.dsize]; exact lab_lt _ _ _ hd)
    omega
  | fuel + 1, f, P, u0, du0, h, hf => by
    rw [fdijkLoop_succ]
    by_cases hq : f.queue.isEmpty = true
    · rw [if_pos hq]
      exact ⟨P, u0, du0, h, List.isEmpty_iff.1 hq⟩
    · rw [if_neg hq]
      have hne : f.toF.queue ≠ [] := fun e => hq (List.isEmpty_iff.2 e)
      obtain ⟨du, hu, hdu, _, hmin⟩ := pick_spec pick hpk fuel f.toF hne h.qLab
      have hdu' : f.dist[pick fuel f.toF.minNodes]! = some du := hdu
      rw [hdu']
      simp only []
      have hpop := h.pop (u := pick fuel f.toF.minNodes) (du := du) hu hdu' hmin
      have hscan := fdijkScan_inv hs hp (List.mem_cons_self (a := pick fuel f.toF.minNodes) (l := P))
        (plainAdjE g)[pick fuel f.toF.minNodes]! { f with queue := f.queue.erase (pick fuel f.toF.minNodes) }
        (fun p hp' => hp') hdu' hpop
      exact fdijkLoop_inv hs hp pick hpk fuel _ (pick fuel f.toF.minNodes :: P) (pick fuel f.toF.minNodes) du hscan
        (by simp only [List.length_cons]; omega)

/-! ### reading off the certificate -/

theorem dget_toList (a : Array (Option Int)) (v : Nat) : dget a.toList v = a[v]! := by
  unfold dget
  rw [Array.getElem?_toList, Array.getElem!_eq_getD, Array.getD_eq_getD_getElem?]
  rfl

theorem walkOk_snoc (es : List FEdge) : ∀ (p : List FEdge) (a u y : Nat) (c : Int), walkOk es a p u = true →
    stepOk es (u, y, c) = true → walkOk es a (p ++ [(u, y, c)]) y = true
  | [], a, u, y, c, h, hst => by
    simp only [walkOk, beq_iff_eq] at h
    subst h
    simp [walkOk, hst]
  | st :: rest, a, u, y, c, h, hst => by
    simp only [List.cons_append, walkOk, Bool.and_eq_true, beq_iff_eq] at h ⊢
    exact ⟨h.1, walkOk_snoc es rest _ u y c h.2 hst⟩

theorem fsum_snoc (p : List FEdge) (st : FEdge) : fsum (walkW (p ++ [st])) = fadd (fsum (walkW p)) st.2.2 := by
  unfold fsum walkW
  rw [List.map_append, List.foldl_append]
  rfl

theorem stepOk_of_jn (g : Graph) (e u y : Nat) (he : e < g.m) (hj : Jn g e u y) :
    stepOk g.edges (u, y, g.weight e) = true := by
  unfold stepOk
  rw [List.any_eq_true]
  refine ⟨g.edges.getD e (0, 0, 0), ?_, ?_⟩
  · have hlt : e < g.edges.length := he
    rw [List.getD_eq_getElem?_getD, List.getElem?_eq_getElem hlt]; exact List.getElem_mem _
  · simp only [Bool.or_eq_true, Bool.and_eq_true, beq_iff_eq]
    rcases hj with ⟨a, b⟩ | ⟨a, b⟩
    · exact Or.inl ⟨⟨a, b⟩, rfl⟩
    · exact Or.inr ⟨⟨b, a⟩, rfl⟩

/-- the records of the settled vertices, followed back, give for each of them a walk from the source whose double sum
is the label -/
theorem chain_of {f : FrontierP} (hsrc : f.src = s) (hlab : f.dist[s]! = some 0) : ∀ (P : List Nat), LkL g f P →
    ∀ x ∈ P, ∀ d, f.dist[x]! = some d →
      ∃ p : List FEdge, (∀ fuel acc, p.length + 1 ≤ fuel → fwalkBack g f fuel x acc = some (p ++ acc)) ∧
        walkOk g.edges s p x = true ∧ fsum (walkW p) = d ∧ p.length + 1 ≤ P.length
  | [], _, x, hx, _, _ => by cases hx
  | y :: P, h, x, hx, d, hd => by
    by_cases hxP : x ∈ P
    · obtain ⟨p, h1, h2, h3, h4⟩ := chain_of hsrc hlab P h.2 x hxP d hd
      exact ⟨p, h1, h2, h3, by simp only [List.length_cons]; omega⟩
    · have hxy : x = y := by
        rcases List.mem_cons.1 hx with h | h
        · exact h
        · exact absurd h hxP
      subst hxy
      by_cases hxs : x = s
      · refine ⟨[], ?_, ?_, ?_, ?_⟩
        · intro fuel acc hf
          cases fuel with
          | zero => simp at hf
          | succ k => simp [fwalkBack, hsrc, hxs]
        · simp [walkOk, hxs]
        · rw [hxs, hlab] at hd; cases hd; rfl
        · simp
      · rcases h.1 with h0 | ⟨u, e, du, h1, h2, h3, h4, h5, h6⟩
        · exact absurd (h0.trans hsrc) hxs
        · obtain ⟨pu, g1, g2, g3, g4⟩ := chain_of hsrc hlab P h.2 u h2 du h5
          rw [hd] at h6; cases h6
          refine ⟨pu ++ [(u, x, g.weight e)], ?_, walkOk_snoc _ _ _ _ _ _ g2 (stepOk_of_jn g e u x h3 h4), ?_, ?_⟩
          · intro fuel acc hf
            cases fuel with
            | zero => simp at hf
            | succ k =>
              rw [fwalkBack, if_neg (by simpa [hsrc] using hxs), h1]
              simp only []
              rw [g1 k _ (by simp only [List.length_append, List.length_cons, List.length_nil] at hf; omega),
                List.append_assoc]
              rfl
          · rw [fsum_snoc, g3]
          · simp only [List.length_append, List.length_cons, List.length_nil]; omega

/-- at termination no edge can be relaxed -/
theorem relaxed_of (hs : g.simpleB = true) {F : FrontierP} {P : List Nat} {u : Nat} {du : Int}
    (h : FD g s F P u du []) (hq : F.queue = []) (e : Nat) (he : e < g.m) (a b : Nat) (hj : Jn g e a b) :
    relaxedB F.dist.toList a b (g.weight e) = true := by
  unfold relaxedB
  rw [dget_toList, dget_toList]
  cases hda : F.dist[a]! with
  | none => rfl
  | some da =>
    simp only []
    have haP : a ∈ P := by
      rcases h.labPQ a da hda with hh | hh
      · exact hh
      · rw [hq] at hh; cases hh
    obtain ⟨ha, _, hne⟩ := jn_lt' g hs e a b he hj
    have hmem : (b, g.weight e, e) ∈ (plainAdjE g)[a]! :=
      (mem_plainAdjE g a ha b _ e).2 ⟨he, rfl, fun hh => hne hh.symm, hj⟩
    obtain ⟨dw, hdw, hle⟩ := h.edge a haP da hda _ hmem (fun _ => List.not_mem_nil)
    rw [hdw]
    exact decide_eq_true hle

theorem fpaths_get (g : Graph) (F : FrontierP) (v : Nat) (hv : v < g.n) :
    ((fpaths g F)[v]?).getD none = if (F.dist[v]!).isSome then fwalkBack g F (g.n + 1) v [] else none := by
  unfold fpaths
  rw [List.getElem?_map, List.getElem?_range hv]
  rfl

/-- one unit of fuel per step -/
theorem fwalkBack_length (g : Graph) (F : FrontierP) : ∀ (fuel w : Nat) (acc p : List FEdge),
    fwalkBack g F fuel w acc = some p → p.length + 1 ≤ acc.length + fuel
  | 0, _, _, _, h => by simp [fwalkBack] at h
  | fuel + 1, w, acc, p, h => by
    rw [fwalkBack] at h
    split at h
    · cases h; omega
    · split at h
      · cases h
      · have := fwalkBack_length g F fuel _ _ p h
        simp only [List.length_cons] at this
        omega

/-- a recorded walk exists only for a labelled vertex, and has at most `g.n` steps -/
theorem fpaths_some (g : Graph) (F : FrontierP) (v : Nat) (hv : v < g.n) (p : List FEdge)
    (h : ((fpaths g F)[v]?).getD none = some p) : F.dist[v]! ≠ none ∧ p.length ≤ g.n := by
  rw [fpaths_get g F v hv] at h
  split at h
  · rename_i hsome
    refine ⟨fun hn => (by rw [hn] at hsome; cases hsome), ?_⟩
    have := fwalkBack_length g F _ _ _ _ h
    simp only [List.length_nil] at this
    omega
  · cases h

theorem dist_size (hs : g.simpleB = true) (hp : g.positiveB = true) (pick : Pick) (hpick : PickOK pick)
    (hsn : s < g.n) : (fdijkstraP g pick s).dist.toList.length = g.n := by
  obtain ⟨P, u, du, h, _⟩ := fdijkLoop_inv hs hp pick hpick (g.n + 1) _ [] s 0 (FD.init g s hsn) (by simp)
  rw [Array.length_toList]
  exact h.dsize

end FloatDijkL

/-- for every simple graph with positive (scaled double) weights, every heap behaviour and every source: the labels and
predecessor walks that `parmcb::dijkstra` computes in double arithmetic pass the verified certificate -/
theorem fdijkstra_cert (g : Graph) (hs : g.simpleB = true) (hp : g.positiveB = true) (pick : Pick)
    (hpick : PickOK pick) (s : Nat) (hsn : s < g.n) :
    checkFloatSPT g.edges s (fdijkstraP g pick s).dist.toList (fpaths g (fdijkstraP g pick s)) = true := by
  obtain ⟨P, u, du, h, hq⟩ := FloatDijkL.fdijkLoop_inv hs hp pick hpick (g.n + 1) _ [] s 0
    (FloatDijkL.FD.init g s hsn) (by simp)
  have hdef : fdijkstraP g pick s = fdijkLoop (plainAdjE g) pick (g.n + 1) (FrontierP.init g.n s) := rfl
  rw [← hdef] at h hq
  generalize fdijkstraP g pick s = F at h hq ⊢
  have hallP : ∀ (v : Nat) (d : Int), F.dist[v]! = some d → v ∈ P := by
    intro v d hd
    rcases h.labPQ v d hd with hh | hh
    · exact hh
    · rw [hq] at hh; cases hh
  unfold checkFloatSPT
  rw [Bool.and_eq_true, Bool.and_eq_true]
  refine ⟨⟨?_, ?_⟩, ?_⟩
  · rw [FloatDijkL.dget_toList, h.srcLab]
    exact beq_self_eq_true _
  · rw [List.all_eq_true]
    intro ed hed
    obtain ⟨i, hi, rfl⟩ := List.getElem_of_mem hed
    have hget : g.edges.getD i (0, 0, 0) = g.edges[i] := by
      rw [List.getD_eq_getElem?_getD, List.getElem?_eq_getElem hi]; rfl
    have e1 : (g.edges[i]).1 = g.src i := by unfold Graph.src; rw [hget]
    have e2 : (g.edges[i]).2.1 = g.tgt i := by unfold Graph.tgt; rw [hget]
    have e3 : (g.edges[i]).2.2 = g.weight i := by unfold Graph.weight; rw [hget]
    rw [e1, e2, e3, Bool.and_eq_true, Bool.and_eq_true]
    refine ⟨⟨decide_eq_true (Int.le_of_lt (positiveB_facts g hp i hi)), ?_⟩, ?_⟩
    · exact FloatDijkL.relaxed_of hs h hq i hi _ _ (Or.inl ⟨rfl, rfl⟩)
    · exact FloatDijkL.relaxed_of hs h hq i hi _ _ (Or.inr ⟨rfl, rfl⟩)
  · rw [List.all_eq_true]
    intro v hv
    rw [List.mem_range, Array.length_toList, h.dsize] at hv
    rw [FloatDijkL.dget_toList]
    cases hd : F.dist[v]! with
    | none => rfl
    | some d =>
      simp only []
      obtain ⟨p, h1, h2, h3, h4⟩ := FloatDijkL.chain_of h.src h.srcLab P h.lkP v (hallP v d hd) d hd
      have hlen : P.length ≤ g.n := BiDijL.nodup_length_le g.n P h.pNd (fun x hx => by
        obtain ⟨d', hd'⟩ := h.pLab x hx
        rw [← h.dsize]; exact BiSearchL.lab_lt _ _ _ hd')
      have hpath : ((fpaths g F)[v]?).getD none = some p := by
        rw [FloatDijkL.fpaths_get g F v hv, hd]
        have := h1 (g.n + 1) [] (by omega)
        rw [List.append_nil] at this
        exact this
      rw [hpath]
      simp only []
      rw [h2, h3]
      simp

end Parmcb

