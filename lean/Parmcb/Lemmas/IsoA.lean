import Parmcb.Lemmas.IsoDefs
import Parmcb.Lemmas.LexDijkstraOpt
/-! Part A: a label-minimal minimum odd circuit exists and is pairwise isometric.  Core Lean only. -/
namespace Parmcb

namespace IsoAL
open TreesL Spanner LexOptL HortonL

/-! ### generic facts -/

/-- a finite list contains an `R`-minimal element among those satisfying `P` -/
theorem exists_minimal {α : Type} (P : α → Prop) (R : α → α → Prop)
    (hirr : ∀ x, P x → ¬ R x x) (htr : ∀ x y z, P x → P y → P z → R x y → R y z → R x z) :
    ∀ (L : List α), (∃ x ∈ L, P x) → ∃ x ∈ L, P x ∧ ∀ y ∈ L, P y → ¬ R y x
  | [], h => by obtain ⟨x, hx, _⟩ := h; cases hx
  | a :: L, h => by
    by_cases hex : ∃ x ∈ L, P x
    · obtain ⟨m, hm, hPm, hmin⟩ := exists_minimal P R hirr htr L hex
      by_cases ha : P a ∧ R a m
      · refine ⟨a, List.mem_cons_self, ha.1, ?_⟩
        intro y hy hPy hR
        rcases List.mem_cons.1 hy with h1 | h1
        · subst h1; exact hirr _ hPy hR
        · exact hmin y h1 hPy (htr y a m hPy ha.1 hPm hR ha.2)
      · refine ⟨m, List.mem_cons_of_mem _ hm, hPm, ?_⟩
        intro y hy hPy hR
        rcases List.mem_cons.1 hy with h1 | h1
        · subst h1; exact ha ⟨hPy, hR⟩
        · exact hmin y h1 hPy hR
    · obtain ⟨x, hx, hPx⟩ := h
      rcases List.mem_cons.1 hx with h1 | h1
      · subst h1
        refine ⟨x, List.mem_cons_self, hPx, ?_⟩
        intro y hy hPy hR
        rcases List.mem_cons.1 hy with h2 | h2
        · subst h2; exact hirr _ hPy hR
        · exact absurd ⟨y, h2, hPy⟩ hex
      · exact absurd ⟨x, h1, hPx⟩ hex

theorem filter_len (p : Nat → Bool) : ∀ (l : List Nat),
    (l.filter p).length + (l.filter (fun v => !p v)).length = l.length
  | [] => rfl
  | a :: l => by
    have ih := filter_len p l
    cases h : p a <;> simp [h] <;> omega

/-- two duplicate-free lists whose union has two elements less than their sizes add up to share exactly two elements -/
theorem inter_two (VA VP VD : List Nat) (x y : Nat) (hA : VA.Nodup) (hP : VP.Nodup) (hD : VD.Nodup)
    (hmem : ∀ v, v ∈ VD ↔ v ∈ VA ∨ v ∈ VP) (hlen : VD.length + 2 = VA.length + VP.length)
    (hxA : x ∈ VA) (hxP : x ∈ VP) (hyA : y ∈ VA) (hyP : y ∈ VP) (hxy : x ≠ y) :
    ∀ z, z ∈ VA → z ∈ VP → z = x ∨ z = y := by
  have hN : (VA ++ VP.filter (fun v => !decide (v ∈ VA))).Nodup := by
    rw [List.nodup_append]
    refine ⟨hA, hP.sublist List.filter_sublist, ?_⟩
    intro a ha b hb hab
    subst hab
    have := (List.mem_filter.1 hb).2
    simp [ha] at this
  have hperm : VD.Perm (VA ++ VP.filter (fun v => !decide (v ∈ VA))) := by
    rw [List.perm_ext_iff_of_nodup hD hN]
    intro v
    rw [hmem, List.mem_append, List.mem_filter]
    by_cases h1 : v ∈ VA <;> simp [h1]
  have h1 := hperm.length_eq
  rw [List.length_append] at h1
  have h2 := filter_len (fun v => decide (v ∈ VA)) VP
  have hI : (VP.filter (fun v => decide (v ∈ VA))).length ≤ 2 := by omega
  have hsub : ∀ v ∈ [x, y], v ∈ VP.filter (fun v => decide (v ∈ VA)) := by
    intro v hv
    rw [List.mem_filter]
    simp only [List.mem_cons, List.not_mem_nil, or_false] at hv
    rcases hv with hv | hv <;> subst hv <;> simp [*]
  have hp2 := perm_of_subset_length [x, y] _ (by simp [hxy]) hsub hI
  intro z hzA hzP
  have : z ∈ [x, y] := hp2.mem_iff.1 (List.mem_filter.2 ⟨hzP, by simp [hzA]⟩)
  simpa using this

/-! ### labels of cycles: the vertex set has as many elements as the edge set -/

def CycOK (a : LexLabel) : Prop := StrictSorted a.verts ∧ a.verts.length = a.cnt

theorem lexLess_trans_cyc (a b c : LexLabel) (ha : CycOK a) (hb : CycOK b) (hc : CycOK c) :
    lexLess a b = true → lexLess b c = true → lexLess a c = true := by
  intro h1 h2
  rw [lexLess_iff] at h1 h2 ⊢
  rcases h1 with h1 | ⟨e1, h1 | ⟨e2, h1⟩⟩ <;> rcases h2 with h2 | ⟨e3, h2 | ⟨e4, h2⟩⟩
  · left; omega
  · left; omega
  · left; omega
  · left; omega
  · right; exact ⟨by omega, Or.inl (by omega)⟩
  · right; exact ⟨by omega, Or.inl (by omega)⟩
  · left; omega
  · right; exact ⟨by omega, Or.inl (by omega)⟩
  · right
    refine ⟨by omega, Or.inr ⟨by omega, ?_⟩⟩
    have hl1 : a.verts.length = b.verts.length := by rw [ha.2, hb.2, e2]
    have hl2 : b.verts.length = c.verts.length := by rw [hb.2, hc.2, e4]
    rw [setLess_iff _ _ ha.1 hb.1 hl1] at h1
    rw [setLess_iff _ _ hb.1 hc.1 hl2] at h2
    rw [setLess_iff _ _ ha.1 hc.1 (hl1.trans hl2)]
    exact h1.trans h2

/-! ### vertices of walks and of edge sets -/

theorem vertsOf_sorted (g : Graph) (C : List Nat) : StrictSorted (vertsOf g C) := by
  unfold vertsOf; exact setOf_sorted _

theorem mem_vertsOf (g : Graph) (C : List Nat) (v : Nat) :
    v ∈ vertsOf g C ↔ ∃ e ∈ C, g.src e = v ∨ g.tgt e = v := by
  unfold vertsOf
  rw [mem_setOf, List.mem_flatMap]
  constructor
  · rintro ⟨e, he, hv⟩
    simp only [List.mem_cons, List.not_mem_nil, or_false] at hv
    exact ⟨e, he, by rcases hv with h | h <;> simp [h]⟩
  · rintro ⟨e, he, hv⟩
    refine ⟨e, he, ?_⟩
    simp only [List.mem_cons, List.not_mem_nil, or_false]
    rcases hv with h | h <;> simp [h]

theorem endp_cases (g : Graph) (e a v : Nat) (h : g.src e = a ∨ g.tgt e = a) (hv : g.src e = v ∨ g.tgt e = v) :
    v = a ∨ v = g.other e a := by
  unfold Graph.other
  split <;> omega

theorem mem_walkVerts_iff (g : Graph) : ∀ (es : List Nat) (a b v : Nat), isWalk g es a b = true →
    (v ∈ walkVerts g es a ↔ v = a ∨ ∃ e ∈ es, g.src e = v ∨ g.tgt e = v)
  | [], a, b, v, _ => by simp [walkVerts]
  | e :: r, a, b, v, h => by
    rw [walk_cons] at h
    simp only [walkVerts, List.mem_cons]
    rw [mem_walkVerts_iff g r _ b v h.2]
    have ho := other_inc g e a h.1
    constructor
    · rintro (h1 | h1 | ⟨e', he', h1⟩)
      · exact Or.inl h1
      · right; refine ⟨e, Or.inl rfl, ?_⟩; rw [h1]; exact ho
      · right; exact ⟨e', Or.inr he', h1⟩
    · rintro (h1 | ⟨e', he', h1⟩)
      · exact Or.inl h1
      · rcases he' with he' | he'
        · subst he'
          rcases endp_cases g e' a v h.1 h1 with h2 | h2
          · exact Or.inl h2
          · exact Or.inr (Or.inl h2)
        · exact Or.inr (Or.inr ⟨e', he', h1⟩)

theorem walk_head_endp (g : Graph) (A : List Nat) (x y : Nat) (hxy : x ≠ y) (hA : isWalk g A x y = true) :
    ∃ e ∈ A, g.src e = x ∨ g.tgt e = x := by
  cases A with
  | nil => rw [walk_nil] at hA; exact absurd hA hxy
  | cons e r => rw [walk_cons] at hA; exact ⟨e, List.mem_cons_self, hA.1⟩

/-- the edges of a simple path are distinct -/
theorem simple_edges_nodup (g : Graph) : ∀ (es : List Nat) (a b : Nat), isWalk g es a b = true →
    (walkVerts g es a).Nodup → es.Nodup
  | [], _, _, _, _ => List.nodup_nil
  | e :: r, a, b, h, hnd => by
    rw [walk_cons] at h
    simp only [walkVerts, List.nodup_cons] at hnd
    refine List.nodup_cons.2 ⟨?_, simple_edges_nodup g r _ b h.2 hnd.2⟩
    intro her
    apply hnd.1
    rw [mem_walkVerts_iff g r _ b a h.2]
    exact Or.inr ⟨e, her, h.1⟩

/-- a walk contains a simple path with the same endpoints -/
theorem exists_simple_sub (g : Graph) : ∀ (es : List Nat) (a b : Nat), isWalk g es a b = true →
    (∀ e ∈ es, e < g.m) → ∃ es', SimplePath g es' a b ∧ ∀ e ∈ es', e ∈ es
  | [], a, b, h, _ => ⟨[], ⟨h, by simp, by simp [walkVerts]⟩, by simp⟩
  | e :: r, a, b, h, hm => by
    have h' := (walk_cons g e r a b).1 h
    obtain ⟨r', hs', hsub⟩ := exists_simple_sub g r _ b h'.2 (fun f hf => hm f (List.mem_cons_of_mem _ hf))
    by_cases ha : a ∈ walkVerts g r' (g.other e a)
    · obtain ⟨p, q, h1, h2, h3⟩ := walk_split_at g r' _ b a hs'.1 ha
      subst h1
      refine ⟨q, simple_suffix g p q _ b a hs' h2, ?_⟩
      intro f hf
      exact List.mem_cons_of_mem _ (hsub f (List.mem_append_right _ hf))
    · refine ⟨e :: r', ⟨(walk_cons g e r' a b).2 ⟨h'.1, hs'.1⟩, ?_, ?_⟩, ?_⟩
      · intro f hf
        rcases List.mem_cons.1 hf with hf | hf
        · subst hf; exact hm _ List.mem_cons_self
        · exact hs'.2.1 f hf
      · simp only [walkVerts]; exact List.nodup_cons.2 ⟨ha, hs'.2.2⟩
      · intro f hf
        rcases List.mem_cons.1 hf with hf | hf
        · subst hf; exact List.mem_cons_self
        · exact List.mem_cons_of_mem _ (hsub f hf)

/-! ### the cyclic structure of a circuit -/

/-- a circuit is a closed simple walk: removing an edge `f` at `x` leaves a simple path from the other endpoint of `f`
back to `x` -/
theorem circuit_cycle (g : Graph) (hs : g.simpleB = true) (C : List Nat) (hC : Circuit g C) (f x : Nat) (hf : f ∈ C)
    (hx : g.src f = x ∨ g.tgt f = x) :
    ∃ Q, SimplePath g Q (g.other f x) x ∧ f ∉ Q ∧ g.other f x ≠ x ∧ ∀ e, e ∈ C ↔ e = f ∨ e ∈ Q := by
  have hfm := hC.1.2.1 f hf
  have hsf := simpleB_facts g hs f hfm
  have hj : Jn g f x (g.other f x) := by
    unfold Graph.other Jn; split <;> omega
  have hwx : g.other f x ≠ x := by
    unfold Graph.other; split <;> omega
  have hnd : C.Nodup := hC.1.1.nodup
  have hperm := List.perm_cons_erase hf
  have hpar : ∀ v, par (C.erase f) (g.inc v) = xor (v == g.other f x) (v == x) := by
    intro v
    have h1 := par_perm hperm (g.inc v)
    rw [par_cons, hC.1.2.2 v, inc_of_jn g f x _ v hj] at h1
    revert h1
    cases (v == x) <;> cases (v == g.other f x) <;> cases par (C.erase f) (g.inc v) <;> simp
  obtain ⟨es, _, hes2, hes3⟩ := walk_extract_nodup g _ (C.erase f) _ x rfl (hnd.erase f) hwx hpar
  have hesm : ∀ e ∈ es, e < g.m := fun e he => hC.1.2.1 e (List.mem_of_mem_erase (hes2 e he))
  obtain ⟨Q, hQ, hQsub⟩ := exists_simple_sub g es _ x hes3 hesm
  have hfQ : f ∉ Q := by
    intro h
    have := hes2 f (hQsub f h)
    exact ((List.Nodup.mem_erase_iff hnd).1 this).1 rfl
  have hQnd := simple_edges_nodup g Q _ x hQ.1 hQ.2.2
  have hfQnd : (f :: Q).Nodup := List.nodup_cons.2 ⟨hfQ, hQnd⟩
  have hT : EvenSet g (setOf (f :: Q)) := by
    refine ⟨setOf_sorted _, ?_, ?_⟩
    · intro e he
      rw [mem_setOf] at he
      rcases List.mem_cons.1 he with h | h
      · subst h; exact hfm
      · exact hQ.2.1 e h
    · intro v
      rw [par_setOf _ hfQnd, par_cons, walk_boundary g Q _ x hQ.1 v, inc_of_jn g f x _ v hj]
      cases (v == x) <;> cases (v == g.other f x) <;> rfl
  have hTne : setOf (f :: Q) ≠ [] := by
    intro h
    have : f ∈ setOf (f :: Q) := (mem_setOf _ _).2 List.mem_cons_self
    rw [h] at this; cases this
  have hTC := hC.2.2 _ hT hTne (by
    intro e he
    rw [mem_setOf] at he
    rcases List.mem_cons.1 he with h | h
    · subst h; exact hf
    · exact List.mem_of_mem_erase (hes2 e (hQsub e h)))
  refine ⟨Q, hQ, hfQ, hwx, ?_⟩
  intro e
  rw [← hTC, mem_setOf, List.mem_cons]

/-- the vertices of the circuit are the vertices of that path -/
theorem cycle_verts (g : Graph) (C : List Nat) (f x : Nat) (Q : List Nat) (hx : g.src f = x ∨ g.tgt f = x)
    (hQ : isWalk g Q (g.other f x) x = true) (hmem : ∀ e, e ∈ C ↔ e = f ∨ e ∈ Q) (v : Nat) :
    v ∈ vertsOf g C ↔ v ∈ walkVerts g Q (g.other f x) := by
  rw [mem_vertsOf, mem_walkVerts_iff g Q _ x v hQ]
  constructor
  · rintro ⟨e, he, hv⟩
    rcases (hmem e).1 he with h | h
    · subst h
      rcases endp_cases g e x v hx hv with h1 | h1
      · subst h1
        exact (mem_walkVerts_iff g Q _ v v hQ).1 (end_mem_walkVerts g Q _ v hQ)
      · exact Or.inl h1
    · exact Or.inr ⟨e, h, hv⟩
  · rintro (h | ⟨e, he, hv⟩)
    · refine ⟨f, (hmem f).2 (Or.inl rfl), ?_⟩
      rw [h]; exact other_inc g f x hx
    · exact ⟨e, (hmem e).2 (Or.inr he), hv⟩

/-- a circuit touches as many vertices as it has edges -/
theorem circuit_card (g : Graph) (hs : g.simpleB = true) (C : List Nat) (hC : Circuit g C) :
    (vertsOf g C).length = C.length := by
  obtain ⟨f, hf⟩ : ∃ f, f ∈ C := by
    cases C with
    | nil => exact absurd rfl hC.2.1
    | cons f r => exact ⟨f, List.mem_cons_self⟩
  obtain ⟨Q, hQ, hfQ, _, hmem⟩ := circuit_cycle g hs C hC f (g.src f) hf (Or.inl rfl)
  have h1 : vertsOf g C = setOf (walkVerts g Q (g.other f (g.src f))) := by
    apply StrictSorted.ext (vertsOf_sorted g C) (setOf_sorted _)
    intro v
    rw [mem_setOf]
    exact cycle_verts g C f _ Q (Or.inl rfl) hQ.1 hmem v
  have hQnd := simple_edges_nodup g Q _ _ hQ.1 hQ.2.2
  have hperm : C.Perm (f :: Q) := by
    rw [List.perm_ext_iff_of_nodup hC.1.1.nodup (List.nodup_cons.2 ⟨hfQ, hQnd⟩)]
    intro e
    rw [hmem, List.mem_cons]
  rw [h1, setOf_walkVerts_length g Q _ _ hQ, hperm.length_eq]
  rfl

/-- two vertices of a circuit split it into two arcs -/
theorem circuit_arcs (g : Graph) (hs : g.simpleB = true) (C : List Nat) (hC : Circuit g C) (x y : Nat)
    (hx : x ∈ vertsOf g C) (hy : y ∈ vertsOf g C) (hxy : x ≠ y) :
    ∃ A1 A2, SimplePath g A1 x y ∧ SimplePath g A2 x y ∧ (∀ e ∈ A1, e ∉ A2) ∧ ∀ e, e ∈ C ↔ e ∈ A1 ∨ e ∈ A2 := by
  obtain ⟨f, hf, hfx⟩ := (mem_vertsOf g C x).1 hx
  obtain ⟨Q, hQ, hfQ, _, hmem⟩ := circuit_cycle g hs C hC f x hf hfx
  have hyQ := (cycle_verts g C f x Q hfx hQ.1 hmem y).1 hy
  obtain ⟨Q1, Q2, hQ12, hQ1, hQ2⟩ := walk_split_at g Q _ x y hQ.1 hyQ
  subst hQ12
  have hs2 := simple_suffix g Q1 Q2 _ x y hQ hQ1
  have hnd := (nodup_walkVerts_app g Q1 Q2 _ y hQ1).1 hQ.2.2
  have hQnd := simple_edges_nodup g _ _ _ hQ.1 hQ.2.2
  rw [List.nodup_append] at hQnd
  refine ⟨f :: Q1, Q2.reverse, ⟨?_, ?_, ?_⟩, simple_reverse g Q2 y x hs2, ?_, ?_⟩
  · exact (walk_cons g f Q1 x y).2 ⟨hfx, hQ1⟩
  · intro e he
    rcases List.mem_cons.1 he with h | h
    · subst h; exact hC.1.2.1 e hf
    · exact hQ.2.1 e (List.mem_append_left _ h)
  · simp only [walkVerts]
    refine List.nodup_cons.2 ⟨?_, hnd.1⟩
    intro h
    exact hxy (hnd.2.2 x h (end_mem_walkVerts g Q2 y x hQ2))
  · intro e he he2
    rw [List.mem_reverse] at he2
    rcases List.mem_cons.1 he with h | h
    · subst h; exact hfQ (List.mem_append_right _ he2)
    · exact hQnd.2.2 e h e he2 rfl
  · intro e
    rw [hmem, List.mem_append, List.mem_cons, List.mem_reverse, or_assoc]

/-- the vertices of the union of two `x–y` paths -/
theorem verts_union (g : Graph) (Z A B : List Nat) (x y : Nat) (hxy : x ≠ y) (hA : isWalk g A x y = true)
    (hB : isWalk g B x y = true) (hmem : ∀ e, e ∈ Z ↔ e ∈ A ∨ e ∈ B) (v : Nat) :
    v ∈ vertsOf g Z ↔ v ∈ walkVerts g A x ∨ v ∈ walkVerts g B x := by
  rw [mem_vertsOf, mem_walkVerts_iff g A x y v hA, mem_walkVerts_iff g B x y v hB]
  constructor
  · rintro ⟨e, he, hv⟩
    rcases (hmem e).1 he with h | h
    · exact Or.inl (Or.inr ⟨e, h, hv⟩)
    · exact Or.inr (Or.inr ⟨e, h, hv⟩)
  · rintro ((h | ⟨e, he, hv⟩) | (h | ⟨e, he, hv⟩))
    · obtain ⟨e, he, hv⟩ := walk_head_endp g A x y hxy hA
      exact ⟨e, (hmem e).2 (Or.inl he), by rw [h]; exact hv⟩
    · exact ⟨e, (hmem e).2 (Or.inl he), hv⟩
    · obtain ⟨e, he, hv⟩ := walk_head_endp g A x y hxy hA
      exact ⟨e, (hmem e).2 (Or.inl he), by rw [h]; exact hv⟩
    · exact ⟨e, (hmem e).2 (Or.inr he), hv⟩

/-! ### the exchange argument -/

theorem dot_add (a b S : List Nat) (ha : StrictSorted a) (hb : StrictSorted b) (hS : StrictSorted S) :
    dotPar (xorMerge a b) S = xor (dotPar a S) (dotPar b S) := by
  rw [dotPar_eq_par _ _ (xorMerge_sorted _ _ ha hb) hS, dotPar_eq_par _ _ ha hS, dotPar_eq_par _ _ hb hS,
    par_xorMerge]

/-- a simple path between two vertices is optimal, or the optimal path is strictly better -/
theorem strict_of_ne (g : Graph) (hs : g.simpleB = true) (hp : g.positiveB = true) (x y : Nat) (P A : List Nat)
    (hP : LexOpt g x y P) (hA : SimplePath g A x y) (hne : P ≠ A) :
    lexLess (walkLabel g P x) (walkLabel g A x) = true := by
  rcases lexLess_total _ _ (label_ok g P x y hP.1) (label_ok g A x y hA) with h | h | h
  · exact h
  · rw [hP.2 A hA] at h; cases h
  · exfalso
    apply hne
    apply lexOpt_unique g hs hp x y P A hP
    refine ⟨hA, ?_⟩
    intro es hes
    rw [← h]; exact hP.2 es hes

/-- replacing the arc `A'` of a label-minimal minimum odd circuit by a strictly better path `P` cannot give an odd set -/
theorem exchange (g : Graph) (hs : g.simpleB = true) (hp : g.positiveB = true) (S : List Nat) (hS : StrictSorted S)
    (C : List Nat) (hiso : IsoMin g S C) (x y : Nat) (hxy : x ≠ y) (A A' P : List Nat)
    (hA : SimplePath g A x y) (hA' : SimplePath g A' x y) (hP : SimplePath g P x y)
    (hdisj : ∀ e ∈ A, e ∉ A') (hmem : ∀ e, e ∈ C ↔ e ∈ A ∨ e ∈ A')
    (hlt : lexLess (walkLabel g P x) (walkLabel g A' x) = true)
    (hodd : dotPar (xorMerge (setOf A) (setOf P)) S = true) : False := by
  have hCc : Circuit g C := minOdd_circuit g hp S C hS hiso.1 hiso.2.1 hiso.2.2.1
  have hAnd := simple_edges_nodup g A x y hA.1 hA.2.2
  have hA'nd := simple_edges_nodup g A' x y hA'.1 hA'.2.2
  have hPnd := simple_edges_nodup g P x y hP.1 hP.2.2
  have hDs : StrictSorted (xorMerge (setOf A) (setOf P)) := xorMerge_sorted _ _ (setOf_sorted _) (setOf_sorted _)
  have hD : EvenSet g (xorMerge (setOf A) (setOf P)) := by
    refine ⟨hDs, ?_, ?_⟩
    · intro e he
      rcases mem_xorMerge_of _ _ _ he with h | h
      · exact hA.2.1 e ((mem_setOf _ _).1 h)
      · exact hP.2.1 e ((mem_setOf _ _).1 h)
    · intro v
      rw [par_xorMerge, par_setOf _ hAnd, par_setOf _ hPnd, walk_boundary g A x y hA.1 v,
        walk_boundary g P x y hP.1 v]
      cases (v == x) <;> cases (v == y) <;> rfl
  have hw := wt_xorMerge_le g (setOf A) (setOf P)
    (fun e he => positiveB_facts g hp e (hA.2.1 e ((mem_setOf _ _).1 he)))
    (fun e he => positiveB_facts g hp e (hP.2.1 e ((mem_setOf _ _).1 he))) (setOf_sorted _) (setOf_sorted _)
  rw [wt_setOf g A hAnd, wt_setOf g P hPnd] at hw
  have hAA'nd : (A ++ A').Nodup := by
    rw [List.nodup_append]
    exact ⟨hAnd, hA'nd, fun a ha b hb hab => hdisj a ha (hab ▸ hb)⟩
  have hCperm : C.Perm (A ++ A') := by
    rw [List.perm_ext_iff_of_nodup hiso.1.1.nodup hAA'nd]
    intro e; rw [hmem, List.mem_append]
  have hwC : wt g C = wt g A + wt g A' := by rw [wt_perm g hCperm, wt_app]
  have hCD := hiso.2.2.1 _ hD hodd
  rw [lexLess_iff] at hlt
  change wt g P < wt g A' ∨ (wt g P = wt g A' ∧ (P.length < A'.length ∨ (P.length = A'.length ∧
    setLess (setOf (walkVerts g P x)) (setOf (walkVerts g A' x)) = true))) at hlt
  have hw1 := hw.1
  rcases hlt with hlt | ⟨hd, hlt⟩
  · omega
  have hAP : ∀ e ∈ A, e ∉ P := by
    intro e h1 h2
    have h3 := hw.2 e ((mem_setOf _ _).2 h1) ((mem_setOf _ _).2 h2)
    have h4 := positiveB_facts g hp e (hA.2.1 e h1)
    omega
  have hDmem : ∀ e, e ∈ xorMerge (setOf A) (setOf P) ↔ e ∈ A ∨ e ∈ P := by
    intro e
    rw [mem_xorMerge _ _ (setOf_sorted _) (setOf_sorted _), mem_setOf, mem_setOf]
    by_cases h1 : e ∈ A
    · have := hAP e h1; simp [h1, this]
    · simp [h1]
  have hAPnd : (A ++ P).Nodup := by
    rw [List.nodup_append]
    exact ⟨hAnd, hPnd, fun a ha b hb hab => hAP a ha (hab ▸ hb)⟩
  have hDperm : (xorMerge (setOf A) (setOf P)).Perm (A ++ P) := by
    rw [List.perm_ext_iff_of_nodup hDs.nodup hAPnd]
    intro e; rw [hDmem, List.mem_append]
  have hDmin : ∀ Z, EvenSet g Z → dotPar Z S = true → wt g (xorMerge (setOf A) (setOf P)) ≤ wt g Z := by
    intro Z h1 h2
    have := hiso.2.2.1 Z h1 h2
    omega
  have hDc : Circuit g (xorMerge (setOf A) (setOf P)) := minOdd_circuit g hp S _ hS hD hodd hDmin
  have hcardD := circuit_card g hs _ hDc
  have hcardC := circuit_card g hs C hCc
  have hlenD : (xorMerge (setOf A) (setOf P)).length = A.length + P.length := by
    rw [hDperm.length_eq, List.length_append]
  have hlenC : C.length = A.length + A'.length := by
    rw [hCperm.length_eq, List.length_append]
  have hfalse := hiso.2.2.2 _ hDc hodd
  have htrue : lexLess (cycLabel g (xorMerge (setOf A) (setOf P))) (cycLabel g C) = true := by
    rw [lexLess_iff]
    right
    refine ⟨show wt g (xorMerge (setOf A) (setOf P)) = wt g C by omega, ?_⟩
    rcases hlt with hlt | ⟨hc, hset⟩
    · left
      show (xorMerge (setOf A) (setOf P)).length < C.length
      omega
    · right
      refine ⟨show (xorMerge (setOf A) (setOf P)).length = C.length by omega, ?_⟩
      show setLess (vertsOf g (xorMerge (setOf A) (setOf P))) (vertsOf g C) = true
      rw [setLess_iff _ _ (vertsOf_sorted _ _) (vertsOf_sorted _ _) (by rw [hcardD, hcardC]; omega)]
      rw [setLess_iff _ _ (setOf_sorted _) (setOf_sorted _) (by
        rw [setOf_walkVerts_length g P x y hP, setOf_walkVerts_length g A' x y hA', hc])] at hset
      obtain ⟨z, hz1, hz2, hz3⟩ := hset
      rw [mem_setOf] at hz1 hz2
      have hvD := verts_union g _ A P x y hxy hA.1 hP.1 hDmem
      have hvC := verts_union g C A A' x y hxy hA.1 hA'.1 hmem
      have hinter := inter_two (walkVerts g A x) (walkVerts g P x) (vertsOf g (xorMerge (setOf A) (setOf P))) x y
        hA.2.2 hP.2.2 (vertsOf_sorted _ _).nodup hvD
        (by rw [hcardD, hlenD, walkVerts_length, walkVerts_length]; omega)
        (head_mem_walkVerts g A x) (head_mem_walkVerts g P x) (end_mem_walkVerts g A x y hA.1)
        (end_mem_walkVerts g P x y hP.1) hxy
      refine ⟨z, (hvD z).2 (Or.inr hz1), ?_, ?_⟩
      · rw [hvC]
        rintro (h | h)
        · rcases hinter z h hz1 with h' | h'
          · rw [h'] at hz2; exact hz2 (head_mem_walkVerts g A' x)
          · rw [h'] at hz2; exact hz2 (end_mem_walkVerts g A' x y hA'.1)
        · exact hz2 h
      · intro u hu
        have := hz3 u hu
        rw [mem_setOf, mem_setOf] at this
        rw [hvD, hvC, this]
  rw [hfalse] at htrue
  cases htrue

end IsoAL

theorem isoMin_exists (g : Graph) (hs : g.simpleB = true) (hp : g.positiveB = true) (S : List Nat) (hS : StrictSorted S)
    (h : ∃ Z, EvenSet g Z ∧ dotPar Z S = true) : ∃ C, IsoMin g S C := by
  obtain ⟨C0, hC0, hodd0, hmin0⟩ := phaseOK_exists g hp S h
  have hmin0' : ∀ Z, EvenSet g Z → dotPar Z S = true → wt g C0 ≤ wt g Z := by
    intro Z h1 h2
    have := hmin0 Z h1 h2
    rw [Int.one_mul] at this
    exact this
  have hcirc0 : Circuit g C0 := minOdd_circuit g hp S C0 hS hC0 hodd0 hmin0'
  have hcyc : ∀ Z, Circuit g Z → IsoAL.CycOK (cycLabel g Z) := fun Z hZ =>
    ⟨IsoAL.vertsOf_sorted g Z, IsoAL.circuit_card g hs Z hZ⟩
  obtain ⟨C, _, ⟨hCc, hCodd, hCw⟩, hCmin⟩ := IsoAL.exists_minimal
    (fun Z => Circuit g Z ∧ dotPar Z S = true ∧ wt g Z = wt g C0)
    (fun Z Z' => lexLess (cycLabel g Z) (cycLabel g Z') = true)
    (fun Z _ hR => by rw [TreesL.lexLess_irrefl] at hR; cases hR)
    (fun X Y Z hX hY hZ h1 h2 =>
      IsoAL.lexLess_trans_cyc _ _ _ (hcyc X hX.1) (hcyc Y hY.1) (hcyc Z hZ.1) h1 h2)
    (subsetsOf (List.range g.m))
    ⟨C0, CertL.sorted_mem_subsets_range g.m C0 hC0.1 hC0.2.1, hcirc0, hodd0, rfl⟩
  refine ⟨C, hCc.1, hCodd, ?_, ?_⟩
  · intro Z h1 h2
    rw [hCw]; exact hmin0' Z h1 h2
  · intro Z hZ hZodd
    cases hlt : lexLess (cycLabel g Z) (cycLabel g C) with
    | false => rfl
    | true =>
      exfalso
      have hge := hmin0' Z hZ.1 hZodd
      have hlt' := hlt
      rw [TreesL.lexLess_iff] at hlt'
      change wt g Z < wt g C ∨ (wt g Z = wt g C ∧ _) at hlt'
      have hwZ : wt g Z = wt g C0 := by
        rcases hlt' with h3 | ⟨h3, _⟩ <;> omega
      exact hCmin Z (CertL.sorted_mem_subsets_range g.m Z hZ.1.1 hZ.1.2.1) ⟨hZ, hZodd, hwZ⟩ hlt

theorem isoMin_pairwise (g : Graph) (hs : g.simpleB = true) (hp : g.positiveB = true) (S : List Nat) (hS : StrictSorted S)
    (C : List Nat) (h : IsoMin g S C) : PairIso g C := by
  intro x y hx hy P hP e he
  have hCc : Circuit g C := minOdd_circuit g hp S C hS h.1 h.2.1 h.2.2.1
  by_cases hxy : x = y
  · subst hxy
    exfalso
    cases P with
    | nil => cases he
    | cons e' r =>
      have hw := (LexOptL.walk_cons g e' r x x).1 hP.1.1
      have hnd := hP.1.2.2
      simp only [walkVerts, List.nodup_cons] at hnd
      exact hnd.1 (LexOptL.end_mem_walkVerts g r _ x hw.2)
  · obtain ⟨A1, A2, h1, h2, hdisj, hmem⟩ := IsoAL.circuit_arcs g hs C hCc x y hx hy hxy
    by_cases hP1 : P = A1
    · subst hP1; exact (hmem e).2 (Or.inl he)
    by_cases hP2 : P = A2
    · subst hP2; exact (hmem e).2 (Or.inr he)
    exfalso
    have hl1 := IsoAL.strict_of_ne g hs hp x y P A1 hP h1 hP1
    have hl2 := IsoAL.strict_of_ne g hs hp x y P A2 hP h2 hP2
    have hC : C = xorMerge (setOf A1) (setOf A2) := by
      apply StrictSorted.ext h.1.1 (xorMerge_sorted _ _ (setOf_sorted _) (setOf_sorted _))
      intro z
      rw [mem_xorMerge _ _ (setOf_sorted _) (setOf_sorted _), mem_setOf, mem_setOf, hmem]
      by_cases h3 : z ∈ A1
      · have := hdisj z h3; simp [h3, this]
      · simp [h3]
    have hodd := h.2.1
    rw [hC, IsoAL.dot_add _ _ S (setOf_sorted _) (setOf_sorted _) hS] at hodd
    have hd1 := IsoAL.dot_add (setOf A1) (setOf P) S (setOf_sorted _) (setOf_sorted _) hS
    have hd2 := IsoAL.dot_add (setOf A2) (setOf P) S (setOf_sorted _) (setOf_sorted _) hS
    cases h3 : dotPar (xorMerge (setOf A1) (setOf P)) S with
    | true => exact IsoAL.exchange g hs hp S hS C h x y hxy A1 A2 P h1 h2 hP.1 hdisj hmem hl2 h3
    | false =>
      have h4 : dotPar (xorMerge (setOf A2) (setOf P)) S = true := by
        rw [h3] at hd1
        rw [hd2]
        revert hodd hd1
        cases dotPar (setOf A1) S <;> cases dotPar (setOf A2) S <;> cases dotPar (setOf P) S <;> simp
      exact IsoAL.exchange g hs hp S hS C h x y hxy A2 A1 P h2 h1 hP.1
        (fun e h5 h6 => hdisj e h6 h5) (fun e => by rw [hmem e]; exact Or.comm) hl1 h4

end Parmcb
