import Parmcb.Lemmas.Heap
import Parmcb.Lemmas.BiSearch
import Parmcb.Model.ApproxAlgo
/-!
A search run with the literal 4-ary heaps (`Model/Heap.lean`) IS a run of the oracle model (`Model/BiSearch.lean`,
`dijkLoop` of `Model/ApproxAlgo.lean`): the heap's root always carries a minimum label among the queued nodes, so the
sequence of nodes the heaps pop defines an admissible oracle under which the oracle model goes through the same states.
Hence every theorem proved "for every heap behaviour" applies to the runs with the real heap.  Core Lean only.

Both theorems need the adjacency to mention only nodes `< adjE.size` (`hadj`): a node outside the distance map would be
pushed without ever getting a label, the heap would see it with key `0` and stop at it, whereas the oracle model never
hands out an unlabelled node.  Counterexample without `hadj`: `adjE = #[[(9,1,0),(2,1,1),(1,10,2)], [(3,1,3)], [(3,1,4)], []]`,
`s = 0`, `t = 1`, no limit, all weights 1: `biSearchH` returns `some (1, [2])` (the heap of `s` is `[9, 2, 1]` with keys
`0, 1, 10`; its root `9` has no label, so `findMin` is `none`, the stop test fails and the loop leaves through the
"unreachable" exit with `best = 10`), whereas every oracle is forced (all candidate lists are singletons) and
`biSearch` returns `some (3, [1, 3, 4])`.
-/
namespace Parmcb

namespace HeapSimL
open BiDijL HeapL BiSearchL

/-- the heap frontier and the oracle-model frontier agree except for the representation of the queue -/
structure RelF (N : Nat) (fh : FrontierH) (fp : FrontierP) : Prop where
  src : fp.src = fh.src
  dist : fp.dist = fh.dist
  pred : fp.pred = fh.pred
  size : fh.dist.size = N
  perm : fh.heap.toList.Perm fp.queue
  nodup : fh.heap.toList.Nodup
  lab : ∀ x ∈ fh.heap.toList, ∃ d, fh.dist[x]! = some d
  ok : HeapOK fh.dist fh.heap

theorem keyOf_set_ne (d : Array (Option Int)) (w x : Nat) (c : Int) (h : x ≠ w) :
    keyOf (d.set! w (some c)) x = keyOf d x := by
  unfold keyOf
  rw [get_set, if_neg (fun hh => h hh.1.symm)]

/-! ### (a) `update` -/

theorem RelF.update {N : Nat} {fh : FrontierH} {fp : FrontierP} (h : RelF N fh fp) (w : Nat) (c : Int) (u e : Nat)
    (hw : w < N) : RelF N (fh.update w c u e) (fp.update w c u e) := by
  obtain ⟨s, d, p, hp⟩ := fh
  obtain ⟨s', d', p', q⟩ := fp
  obtain ⟨h1, h2, h3, hsz, hperm, hnd, hlab, hok⟩ := h
  dsimp only at h1 h2 h3 hsz hperm hnd hlab hok
  subst h1 h2 h3
  unfold FrontierH.update FrontierP.update
  dsimp only
  by_cases hws : (w == s') = true
  · rw [if_pos hws, if_pos hws]
    exact ⟨rfl, rfl, rfl, hsz, hperm, hnd, hlab, hok⟩
  · rw [if_neg hws, if_neg hws]
    cases hd : d'[w]! with
    | none =>
      dsimp only
      have hnot : w ∉ hp.toList := fun hin => by
        obtain ⟨dd, hdd⟩ := hlab w hin
        rw [hd] at hdd; cases hdd
      have hpp := push_perm (d'.set! w (some c)) hp w
      refine ⟨rfl, rfl, rfl, ?_, ?_, ?_, ?_, ?_⟩
      · dsimp only; rw [size_set]; exact hsz
      · exact hpp.trans ((hperm.cons w).trans (List.perm_append_singleton w q).symm)
      · exact hpp.nodup_iff.2 (List.nodup_cons.2 ⟨hnot, hnd⟩)
      · intro x hx
        dsimp only
        rw [get_set]
        rcases List.mem_cons.1 (hpp.mem_iff.1 hx) with hx | hx
        · subst hx
          rw [if_pos ⟨rfl, by omega⟩]; exact ⟨c, rfl⟩
        · by_cases hc : w = x ∧ w < d'.size
          · rw [if_pos hc]; exact ⟨c, rfl⟩
          · rw [if_neg hc]; exact hlab x hx
      · refine push_ok _ hp w (heapOK_congr d' _ hp (fun x hx => ?_) hok)
        exact keyOf_set_ne d' w x c (fun hxw => hnot (hxw ▸ hx))
    | some dw =>
      dsimp only
      by_cases hc : c < dw
      · rw [if_pos hc, if_pos hc]
        have hup := update_perm (d'.set! w (some c)) hp w
        refine ⟨rfl, rfl, rfl, ?_, ?_, ?_, ?_, ?_⟩
        · dsimp only; rw [size_set]; exact hsz
        · exact hup.trans hperm
        · exact hup.nodup_iff.2 hnd
        · intro x hx
          dsimp only
          rw [get_set]
          by_cases hc : w = x ∧ w < d'.size
          · rw [if_pos hc]; exact ⟨c, rfl⟩
          · rw [if_neg hc]; exact hlab x (hup.mem_iff.1 hx)
        · refine update_ok d' _ hp w hnd (fun x _ hxw => keyOf_set_ne d' w x c hxw) ?_ hok
          unfold keyOf
          rw [get_set, if_pos ⟨rfl, by omega⟩, hd]
          exact Int.le_of_lt hc
      · rw [if_neg hc, if_neg hc]
        exact ⟨rfl, rfl, rfl, hsz, hperm, hnd, hlab, hok⟩

/-! ### (b) `findMin`, the root -/

theorem root_mem (h : Array Nat) (hne : h.size ≠ 0) : h[0]! ∈ h.toList := by
  have h0 : 0 < h.size := by omega
  rw [getElem!_pos h 0 h0]
  exact Array.getElem_mem_toList h0

theorem RelF.isEmpty {N : Nat} {fh : FrontierH} {fp : FrontierP} (h : RelF N fh fp) :
    fp.queue.isEmpty = (fh.heap.size == 0) := by
  rw [← h.perm.isEmpty_eq]
  cases hh : fh.heap.toList with
  | nil =>
    have : fh.heap.size = 0 := by rw [← Array.length_toList, hh]; rfl
    rw [this]; rfl
  | cons a r =>
    have : fh.heap.size = r.length + 1 := by rw [← Array.length_toList, hh]; rfl
    rw [this]; rfl

/-- the root of the heap is one of the oracle model's candidates -/
theorem RelF.root {N : Nat} {fh : FrontierH} {fp : FrontierP} (h : RelF N fh fp) (hne : fh.heap.size ≠ 0) :
    ∃ du, fh.dist[fh.heap[0]!]! = some du ∧ fp.toF.findMin = some du ∧ fh.heap[0]! ∈ fp.toF.minNodes ∧
      fh.heap[0]! ∈ fp.queue := by
  have hr := root_mem fh.heap hne
  obtain ⟨du, hdu⟩ := h.lab _ hr
  have hrq : fh.heap[0]! ∈ fp.toF.queue := h.perm.mem_iff.1 hr
  have hdist : fp.toF.dist = fh.dist := h.dist
  obtain ⟨m, hm, hle⟩ := findMin_le fp.toF _ hrq du (by rw [hdist]; exact hdu)
  obtain ⟨v, hv, hdv⟩ := findMin_attained fp.toF m hm
  rw [hdist] at hdv
  have hvh : v ∈ fh.heap.toList := h.perm.mem_iff.2 hv
  have hmin := top_min fh.dist fh.heap h.ok v hvh
  unfold keyOf at hmin
  rw [hdu, hdv] at hmin
  simp only [Option.getD_some] at hmin
  have hmd : m = du := by omega
  subst hmd
  refine ⟨m, hdu, hm, ?_, hrq⟩
  unfold Frontier.minNodes
  rw [hm]
  refine List.mem_filter.2 ⟨hrq, ?_⟩
  rw [hdist, hdu]
  exact beq_self_eq_true _

theorem RelF.findMin {N : Nat} {fh : FrontierH} {fp : FrontierP} (h : RelF N fh fp) :
    fp.toF.findMin = fh.findMin := by
  unfold FrontierH.findMin
  by_cases hne : fh.heap.size = 0
  · rw [if_pos hne]
    have hnil : fh.heap.toList = [] := List.eq_nil_of_length_eq_zero (by rw [Array.length_toList]; exact hne)
    have hq : fp.queue = [] := by
      have := h.perm; rw [hnil] at this; exact this.nil_eq.symm
    rw [findMin_eq]
    show fp.queue.foldl _ none = none
    rw [hq]; rfl
  · rw [if_neg hne]
    obtain ⟨du, hdu, hm, _⟩ := h.root hne
    rw [hm, hdu]

/-! ### (c) `pop` -/

theorem RelF.pop {N : Nat} {fh : FrontierH} {fp : FrontierP} (h : RelF N fh fp) (hne : fh.heap.size ≠ 0) :
    RelF N { fh with heap := heapPop fh.dist fh.heap } { fp with queue := fp.queue.erase fh.heap[0]! } := by
  have hpp := pop_perm fh.dist fh.heap (by omega)
  have hnd : (fh.heap[0]! :: (heapPop fh.dist fh.heap).toList).Nodup := hpp.nodup_iff.2 h.nodup
  refine ⟨h.src, h.dist, h.pred, h.size, ?_, (List.nodup_cons.1 hnd).2, ?_, pop_ok _ _ h.ok⟩
  · have := (hpp.trans h.perm).erase fh.heap[0]!
    rw [List.erase_cons_head] at this
    exact this
  · intro x hx
    exact h.lab x (hpp.mem_iff.1 (List.mem_cons_of_mem _ hx))

/-! ### the scan -/

structure RelS (N : Nat) (sh : BiStateH) (sp : BiStateP) : Prop where
  f : RelF N sh.f sp.f
  b : RelF N sh.b sp.b
  best : sp.best = sh.best
  common : sp.common = sh.common

def bestUpdH (best : Option Int) (common : Nat) (b : FrontierH) (w : Nat) (cw : Int) : Option Int × Nat :=
  if w == b.src || (b.dist[w]!).isSome then
    match b.dist[w]! with
    | some dbw =>
      let p := cw + dbw
      match best with
      | none => (some p, w)
      | some bb => if p < bb then (some p, w) else (some bb, common)
    | none => (best, common)
  else (best, common)

theorem biScanH_cons (lim : Option Int) (u : Nat) (du : Int) (w : Nat) (c : Int) (e : Nat)
    (r : List (Nat × Int × Nat)) (st : BiStateH) :
    biScanH lim u du ((w, c, e) :: r) st =
      if limB lim (du + c) then biScanH lim u du r st
      else biScanH lim u du r { st with f := st.f.update w (du + c) u e,
                                        best := (bestUpdH st.best st.common st.b w (du + c)).1,
                                        common := (bestUpdH st.best st.common st.b w (du + c)).2 } := rfl

theorem bestUpd_eq {N : Nat} {bh : FrontierH} {bp : FrontierP} (h : RelF N bh bp) (best : Option Int) (common : Nat)
    (w : Nat) (cw : Int) : bestUpdP best common bp w cw = bestUpdH best common bh w cw := by
  unfold bestUpdP bestUpdH Frontier.hasFinite FrontierP.toF
  dsimp only
  rw [h.src, h.dist]
  rfl

theorem scan_rel (N : Nat) (lim : Option Int) (u : Nat) (du : Int) :
    ∀ (l : List (Nat × Int × Nat)) (sh : BiStateH) (sp : BiStateP), (∀ p ∈ l, p.1 < N) → RelS N sh sp →
      RelS N (biScanH lim u du l sh) (biScanP lim u du l sp)
  | [], _, _, _, h => h
  | (w, c, e) :: r, sh, sp, hl, h => by
    have hl' : ∀ p ∈ r, p.1 < N := fun p hp => hl p (List.mem_cons_of_mem _ hp)
    rw [biScanH_cons, biScanP_cons]
    by_cases hb : limB lim (du + c) = true
    · rw [if_pos hb, if_pos hb]
      exact scan_rel N lim u du r sh sp hl' h
    · rw [if_neg hb, if_neg hb]
      refine scan_rel N lim u du r _ _ hl' ⟨h.f.update w (du + c) u e (hl (w, c, e) List.mem_cons_self), h.b, ?_, ?_⟩
      · dsimp only; rw [bestUpd_eq h.b, h.best, h.common]
      · dsimp only; rw [bestUpd_eq h.b, h.best, h.common]

/-! ### the loop -/

def stopG (fe be : Bool) (best fm bm : Option Int) : Bool :=
  fe || be ||
    (match best, fm, bm with
     | some bb, some x, some y => !(x + y < bb)
     | _, _, _ => false)

def nextH (adjE : Array (List (Nat × Int × Nat))) (lim : Option Int) (st : BiStateH) (du : Int) : BiStateH :=
  let u := st.f.heap[0]!
  let st2 := biScanH lim u du adjE[u]! { st with f := { st.f with heap := heapPop st.f.dist st.f.heap } }
  { f := st2.b, b := st2.f, best := st2.best, common := st2.common }

def nextP (adjE : Array (List (Nat × Int × Nat))) (lim : Option Int) (st : BiStateP) (u : Nat) (du : Int) : BiStateP :=
  let st2 := biScanP lim u du adjE[u]! { st with f := { st.f with queue := st.f.queue.erase u } }
  { f := st2.b, b := st2.f, best := st2.best, common := st2.common }

theorem biLoopH_succ (adjE : Array (List (Nat × Int × Nat))) (lim : Option Int) (fuel : Nat) (st : BiStateH)
    (tr : List Nat) :
    biLoopH adjE lim (fuel + 1) st tr =
      if stopG (st.f.heap.size == 0) (st.b.heap.size == 0) st.best st.f.findMin st.b.findMin then some (st, tr)
      else match st.f.dist[st.f.heap[0]!]! with
        | none => some (st, tr)
        | some du =>
          if limB lim du then none
          else biLoopH adjE lim fuel (nextH adjE lim st du) (st.f.heap[0]! :: tr) := rfl

theorem biLoopP_succ' (adjE : Array (List (Nat × Int × Nat))) (lim : Option Int) (pick : Pick) (fuel : Nat)
    (st : BiStateP) :
    biLoopP adjE pick lim (fuel + 1) st =
      if stopG st.f.queue.isEmpty st.b.queue.isEmpty st.best st.f.toF.findMin st.b.toF.findMin then some st
      else match st.f.dist[pick fuel st.f.toF.minNodes]! with
        | none => some st
        | some du =>
          if limB lim du then none
          else biLoopP adjE pick lim fuel (nextP adjE lim st (pick fuel st.f.toF.minNodes) du) := rfl

/-- the node the heap run from `st` with `fuel` pops in the iteration with remaining fuel `f` -/
def popAt (adjE : Array (List (Nat × Int × Nat))) (lim : Option Int) : Nat → BiStateH → Nat → Nat
  | 0, _, _ => 0
  | fuel + 1, st, f =>
    if f = fuel then st.f.heap[0]!
    else match st.f.dist[st.f.heap[0]!]! with
      | none => 0
      | some du => popAt adjE lim fuel (nextH adjE lim st du) f

def RelRes (N : Nat) : Option (BiStateH × List Nat) → Option BiStateP → Prop
  | none, none => True
  | some (sh, _), some sp => RelS N sh sp
  | _, _ => False

theorem stopG_false {fe be : Bool} {best fm bm : Option Int} (h : ¬ stopG fe be best fm bm = true) : fe = false := by
  cases fe with
  | false => rfl
  | true => exact absurd (by simp [stopG]) h

theorem loop_rel (adjE : Array (List (Nat × Int × Nat))) (lim : Option Int) (pick : Pick) (N : Nat)
    (hadj : ∀ u : Nat, ∀ p ∈ adjE[u]!, p.1 < N) :
    ∀ (fuel : Nat) (sh : BiStateH) (sp : BiStateP) (tr : List Nat), RelS N sh sp →
      (∀ f, f < fuel → ∀ l, popAt adjE lim fuel sh f ∈ l → pick f l = popAt adjE lim fuel sh f) →
      RelRes N (biLoopH adjE lim fuel sh tr) (biLoopP adjE pick lim fuel sp)
  | 0, _, _, _, h, _ => h
  | fuel + 1, sh, sp, tr, h, hpick => by
    rw [biLoopH_succ, biLoopP_succ', h.f.isEmpty, h.b.isEmpty, h.best, h.f.findMin, h.b.findMin]
    by_cases hstop : stopG (sh.f.heap.size == 0) (sh.b.heap.size == 0) sh.best sh.f.findMin sh.b.findMin = true
    · rw [if_pos hstop, if_pos hstop]; exact h
    · rw [if_neg hstop, if_neg hstop]
      have hne : sh.f.heap.size ≠ 0 := fun h0 => by
        have := stopG_false hstop
        rw [h0] at this; cases this
      obtain ⟨du, hdu, _, hmem, _⟩ := h.f.root hne
      have hpk : pick fuel sp.f.toF.minNodes = sh.f.heap[0]! := by
        have := hpick fuel (Nat.lt_succ_self _) sp.f.toF.minNodes
        unfold popAt at this
        rw [if_pos rfl] at this
        exact this hmem
      rw [hpk, h.f.dist, hdu]
      dsimp only
      by_cases hb : limB lim du = true
      · rw [if_pos hb, if_pos hb]; trivial
      · rw [if_neg hb, if_neg hb]
        refine loop_rel adjE lim pick N hadj fuel _ _ _ ?_ ?_
        · have hsc := scan_rel N lim sh.f.heap[0]! du adjE[sh.f.heap[0]!]!
            { sh with f := { sh.f with heap := heapPop sh.f.dist sh.f.heap } }
            { sp with f := { sp.f with queue := sp.f.queue.erase sh.f.heap[0]! } } (hadj _)
            ⟨h.f.pop hne, h.b, h.best, h.common⟩
          exact ⟨hsc.b, hsc.f, hsc.best, hsc.common⟩
        · intro f hf l hl
          have := hpick f (by omega) l
          have he : popAt adjE lim (fuel + 1) sh f = popAt adjE lim fuel (nextH adjE lim sh du) f := by
            rw [popAt, if_neg (by omega), hdu]
          rw [he] at this
          exact this hl

/-! ### initial states, the oracle, the post-processing -/

theorem RelF.init (N s : Nat) (hs : s < N) : RelF N (FrontierH.init N s) (FrontierP.init N s) := by
  refine ⟨rfl, rfl, rfl, ?_, List.Perm.refl _, ?_, ?_, ?_⟩
  · show ((Array.replicate N none).set! s (some 0)).size = N
    rw [size_set]; exact Array.size_replicate
  · show [s].Nodup
    exact List.nodup_cons.2 ⟨List.not_mem_nil, List.nodup_nil⟩
  · intro x hx
    have hx' : x ∈ [s] := hx
    have hxs : x = s := List.mem_singleton.1 hx'
    subst hxs
    refine ⟨0, ?_⟩
    show ((Array.replicate N none).set! x (some 0))[x]! = some 0
    rw [get_set, if_pos ⟨rfl, by rw [Array.size_replicate]; exact hs⟩]
  · intro i h0 h1
    have : (FrontierH.init N s).heap.size = 1 := rfl
    omega

/-- the oracle that hands out `g f` in the iteration with remaining fuel `f` whenever that is a candidate -/
def pickOf (g : Nat → Nat) : Pick := fun f l => if g f ∈ l then g f else l.headD 0

theorem pickOf_ok (g : Nat → Nat) : PickOK (pickOf g) := by
  intro f l hl
  unfold pickOf
  by_cases h : g f ∈ l
  · rw [if_pos h]; exact h
  · rw [if_neg h]
    cases l with
    | nil => exact absurd rfl hl
    | cons a r => exact List.mem_cons_self

theorem pickOf_spec (g : Nat → Nat) (f : Nat) (l : List Nat) (h : g f ∈ l) : pickOf g f l = g f := if_pos h

theorem adj_range (adjE : Array (List (Nat × Int × Nat)))
    (hadj : ∀ u, u < adjE.size → ∀ p ∈ adjE[u]!, p.1 < adjE.size) : ∀ u : Nat, ∀ p ∈ adjE[u]!, p.1 < adjE.size := by
  intro u p hp
  by_cases hu : u < adjE.size
  · exact hadj u hu p hp
  · rw [getElem!_neg _ u hu] at hp
    exact absurd hp List.not_mem_nil

theorem tracePath_congr (f g : FrontierP) (h1 : f.src = g.src) (h2 : f.pred = g.pred) :
    ∀ (fuel cur : Nat) (acc : List Nat), tracePath f fuel cur acc = tracePath g fuel cur acc
  | 0, _, _ => rfl
  | fuel + 1, cur, acc => by
    unfold tracePath
    rw [h1, h2]
    by_cases hc : (cur == g.src) = true
    · rw [if_pos hc, if_pos hc]
    · rw [if_neg hc, if_neg hc]
      cases g.pred[cur]! with
      | none => rfl
      | some ue =>
        obtain ⟨u, e⟩ := ue
        dsimp only
        rw [tracePath_congr f g h1 h2 fuel]

def initH (N s t : Nat) : BiStateH := { f := FrontierH.init N s, b := FrontierH.init N t, best := none, common := 0 }

/-- what `biSearchH` does after the loop -/
def finishH (adjE : Array (List (Nat × Int × Nat))) (wOf : Nat → Int) (lim : Option Int) (st : BiStateH) :
    Option (Int × List Nat) :=
  match st.best with
  | none => none
  | some b =>
    if limB lim b then none
    else
      match tracePath st.f.toP (adjE.size + 1) st.common [] with
      | none => none
      | some acc1 =>
        match tracePath st.b.toP (adjE.size + 1) st.common acc1 with
        | none => none
        | some acc2 => some ((acc2.map wOf).sum, setOf acc2)

theorem biSearchH_unfold (adjE : Array (List (Nat × Int × Nat))) (wOf : Nat → Int) (lim : Option Int) (s t : Nat) :
    biSearchH adjE wOf lim s t =
      match biLoopH adjE lim (2 * adjE.size + 2) (initH adjE.size s t) [] with
      | none => none
      | some (st, _) => finishH adjE wOf lim st := rfl

theorem finish_eq {N : Nat} {sh : BiStateH} {sp : BiStateP} (h : RelS N sh sp)
    (adjE : Array (List (Nat × Int × Nat))) (wOf : Nat → Int) (lim : Option Int) :
    finishH adjE wOf lim sh = finishP adjE wOf lim sp := by
  have e1 : tracePath sp.f = tracePath sh.f.toP :=
    funext fun a => funext fun b => funext fun c => tracePath_congr sp.f sh.f.toP h.f.src h.f.pred a b c
  have e2 : tracePath sp.b = tracePath sh.b.toP :=
    funext fun a => funext fun b => funext fun c => tracePath_congr sp.b sh.b.toP h.b.src h.b.pred a b c
  unfold finishH finishP
  rw [h.best, h.common, e1, e2]
  rfl

/-! ### `parmcb::dijkstra` -/

theorem dscan_rel (N : Nat) (u : Nat) (du : Int) :
    ∀ (l : List (Nat × Int × Nat)) (fh : FrontierH) (fp : FrontierP), (∀ p ∈ l, p.1 < N) → RelF N fh fp →
      RelF N (dijkScanH u du l fh) (dijkScan u du l fp)
  | [], _, _, _, h => h
  | (w, c, e) :: r, _, _, hl, h =>
    dscan_rel N u du r _ _ (fun p hp => hl p (List.mem_cons_of_mem _ hp))
      (h.update w (du + c) u e (hl (w, c, e) List.mem_cons_self))

def nextD (adjE : Array (List (Nat × Int × Nat))) (f : FrontierH) (du : Int) : FrontierH :=
  dijkScanH f.heap[0]! du adjE[f.heap[0]!]! { f with heap := heapPop f.dist f.heap }

theorem dijkLoopH_succ (adjE : Array (List (Nat × Int × Nat))) (fuel : Nat) (f : FrontierH) :
    dijkLoopH adjE (fuel + 1) f =
      if (f.heap.size == 0) = true then f
      else match f.dist[f.heap[0]!]! with
        | none => f
        | some du => dijkLoopH adjE fuel (nextD adjE f du) := rfl

theorem dijkLoop_succ (adjE : Array (List (Nat × Int × Nat))) (pick : Pick) (fuel : Nat) (f : FrontierP) :
    dijkLoop adjE pick (fuel + 1) f =
      if f.queue.isEmpty = true then f
      else match f.dist[pick fuel f.toF.minNodes]! with
        | none => f
        | some du => dijkLoop adjE pick fuel (dijkScan (pick fuel f.toF.minNodes) du adjE[pick fuel f.toF.minNodes]!
            { f with queue := f.queue.erase (pick fuel f.toF.minNodes) }) := rfl

/-- the node the heap run from `f` with `fuel` pops in the iteration with remaining fuel `k` -/
def popAtD (adjE : Array (List (Nat × Int × Nat))) : Nat → FrontierH → Nat → Nat
  | 0, _, _ => 0
  | fuel + 1, f, k =>
    if k = fuel then f.heap[0]!
    else match f.dist[f.heap[0]!]! with
      | none => 0
      | some du => popAtD adjE fuel (nextD adjE f du) k

theorem dloop_rel (adjE : Array (List (Nat × Int × Nat))) (pick : Pick) (N : Nat)
    (hadj : ∀ u : Nat, ∀ p ∈ adjE[u]!, p.1 < N) :
    ∀ (fuel : Nat) (fh : FrontierH) (fp : FrontierP), RelF N fh fp →
      (∀ k, k < fuel → ∀ l, popAtD adjE fuel fh k ∈ l → pick k l = popAtD adjE fuel fh k) →
      RelF N (dijkLoopH adjE fuel fh) (dijkLoop adjE pick fuel fp)
  | 0, _, _, h, _ => h
  | fuel + 1, fh, fp, h, hpick => by
    rw [dijkLoopH_succ, dijkLoop_succ, h.isEmpty]
    by_cases he : (fh.heap.size == 0) = true
    · rw [if_pos he, if_pos he]; exact h
    · rw [if_neg he, if_neg he]
      have hne : fh.heap.size ≠ 0 := fun h0 => he (by rw [h0]; rfl)
      obtain ⟨du, hdu, _, hmem, _⟩ := h.root hne
      have hpk : pick fuel fp.toF.minNodes = fh.heap[0]! := by
        have := hpick fuel (Nat.lt_succ_self _) fp.toF.minNodes
        unfold popAtD at this
        rw [if_pos rfl] at this
        exact this hmem
      have hdp : fp.dist[fh.heap[0]!]! = some du := by rw [h.dist]; exact hdu
      rw [hpk, hdp, hdu]
      dsimp only
      refine dloop_rel adjE pick N hadj fuel (nextD adjE fh du) _ (dscan_rel N _ du _ _ _ (hadj _) (h.pop hne)) ?_
      intro k hk l hl
      have := hpick k (by omega) l
      have he : popAtD adjE (fuel + 1) fh k = popAtD adjE fuel (nextD adjE fh du) k := by
        rw [popAtD, if_neg (by omega), hdu]
      rw [he] at this
      exact this hl

end HeapSimL

/-- `bidirectional_signed_dijkstra` on two literal heaps = the oracle model under some admissible oracle.
`hadj`: the adjacency mentions only nodes `< adjE.size` (without it the statement is false, see the header). -/
theorem biSearchH_eq (adjE : Array (List (Nat × Int × Nat))) (wOf : Nat → Int) (limit : Option Int) (s t : Nat)
    (hs : s < adjE.size) (ht : t < adjE.size)
    (hadj : ∀ u, u < adjE.size → ∀ p ∈ adjE[u]!, p.1 < adjE.size) :
    ∃ pick : Pick, PickOK pick ∧ biSearchH adjE wOf limit s t = biSearch adjE pick wOf limit s t := by
  open HeapSimL in
  refine ⟨pickOf (popAt adjE limit (2 * adjE.size + 2) (initH adjE.size s t)), pickOf_ok _, ?_⟩
  have h := loop_rel adjE limit (pickOf (popAt adjE limit (2 * adjE.size + 2) (initH adjE.size s t))) adjE.size
    (adj_range adjE hadj) (2 * adjE.size + 2) (initH adjE.size s t)
    { f := FrontierP.init adjE.size s, b := FrontierP.init adjE.size t, best := none, common := 0 } []
    ⟨RelF.init _ s hs, RelF.init _ t ht, rfl, rfl⟩ (fun f _ l hl => pickOf_spec _ f l hl)
  rw [biSearchH_unfold, BiSearchL.biSearch_eq]
  generalize biLoopH adjE limit (2 * adjE.size + 2) (initH adjE.size s t) [] = rh at h
  generalize biLoopP adjE _ limit (2 * adjE.size + 2) _ = rp at h
  cases rh with
  | none =>
    cases rp with
    | none => rfl
    | some sp => exact absurd h id
  | some x =>
    obtain ⟨sh, trr⟩ := x
    cases rp with
    | none => exact absurd h id
    | some sp => exact finish_eq h adjE wOf limit

/-- `parmcb::dijkstra` on a literal heap = the oracle model under some admissible oracle (same labels, same predecessor
records).  `hadj`: the adjacency mentions only nodes `< adjE.size`. -/
theorem dijkstraH_eq (adjE : Array (List (Nat × Int × Nat))) (s : Nat) (hs : s < adjE.size)
    (hadj : ∀ u, u < adjE.size → ∀ p ∈ adjE[u]!, p.1 < adjE.size) :
    ∃ pick : Pick, PickOK pick ∧
      (dijkstraH adjE s).toP.src = (dijkLoop adjE pick (adjE.size + 1) (FrontierP.init adjE.size s)).src ∧
      (dijkstraH adjE s).toP.dist = (dijkLoop adjE pick (adjE.size + 1) (FrontierP.init adjE.size s)).dist ∧
      (dijkstraH adjE s).toP.pred = (dijkLoop adjE pick (adjE.size + 1) (FrontierP.init adjE.size s)).pred := by
  open HeapSimL in
  refine ⟨pickOf (popAtD adjE (adjE.size + 1) (FrontierH.init adjE.size s)), pickOf_ok _, ?_⟩
  have h := dloop_rel adjE (pickOf (popAtD adjE (adjE.size + 1) (FrontierH.init adjE.size s))) adjE.size
    (adj_range adjE hadj) (adjE.size + 1) (FrontierH.init adjE.size s) (FrontierP.init adjE.size s)
    (RelF.init _ s hs) (fun k _ l hl => pickOf_spec _ k l hl)
  exact ⟨h.src.symm, h.dist.symm, h.pred.symm⟩

end Parmcb
