import Parmcb.Model.Fp
import Mathlib.Data.Nat.Prime.Basic
import Mathlib.Tactic.Ring
import Mathlib.Tactic.Linarith
import Mathlib.Data.Int.GCD
import Mathlib.Data.Nat.Sqrt
/-!
# Helper lemmas for C18 (fp, primes, SpVecFP)
-/
namespace Parmcb

/-! ### ext_gcd -/

theorem egLoop_spec (A B : Int) (ai aj xi xj yi yj : Int)
    (h1 : ai = xi * A + yi * B) (h2 : aj = xj * A + yj * B) (h0 : 0 ≤ ai) (hj : 0 < aj) :
    (egLoop ai aj xi xj yi yj).1 = (Int.gcd ai aj : Int) ∧
    (egLoop ai aj xi xj yi yj).1 =
      (egLoop ai aj xi xj yi yj).2.1 * A + (egLoop ai aj xi xj yi yj).2.2 * B := by
  fun_induction egLoop ai aj xi xj yi yj with
  | case1 ai aj xi xj yi yj h hmod =>
    refine ⟨?_, h2⟩
    exact (Int.gcd_eq_right (Int.le_of_lt h) (Int.dvd_of_tmod_eq_zero hmod)).symm
  | case2 ai aj xi xj yi yj h hmod _ ih =>
    have hnn : 0 ≤ Int.tmod ai aj := Int.tmod_nonneg aj h0
    have hpos : 0 < Int.tmod ai aj := lt_of_le_of_ne hnn (Ne.symm hmod)
    have hdef : Int.tmod ai aj = ai - aj * Int.tdiv ai aj := Int.tmod_def ai aj
    have ih' := ih h2 (by rw [hdef, h1, h2]; ring) (Int.le_of_lt h) hpos
    refine ⟨?_, ih'.2⟩
    rw [ih'.1, hdef, mul_comm aj, Int.gcd_sub_mul_right_right, Int.gcd_comm]
  | case3 ai aj xi xj yi yj h => exact absurd hj h
theorem absSign (a : Int) : 0 ≤ (if a < 0 then -a else a) ∧
    (if a < 0 then -a else a) = a * (if decide (a < 0) = true then -1 else 1) ∧
    ((if a < 0 then -a else a) = 0 ↔ a = 0) ∧
    (∀ c : Int, Int.gcd (if a < 0 then -a else a) c = Int.gcd a c) ∧
    (∀ c : Int, Int.gcd c (if a < 0 then -a else a) = Int.gcd c a) := by
  by_cases h : a < 0
  · rw [if_pos h, if_pos (decide_eq_true h)]
    exact ⟨by omega, by ring, by omega, fun c => Int.neg_gcd, fun c => Int.gcd_neg⟩
  · rw [if_neg h, if_neg (by simpa using h)]
    exact ⟨by omega, by ring, Iff.rfl, fun _ => rfl, fun _ => rfl⟩

theorem extGcd_spec (a b : Int) (h : ¬(a = 0 ∧ b = 0)) :
    (extGcd a b).1 = (Int.gcd a b : Int) ∧
    a * (extGcd a b).2.1 + b * (extGcd a b).2.2 = (extGcd a b).1 := by
  generalize hr : extGcd a b = r
  unfold extGcd at hr
  simp only [] at hr
  obtain ⟨ha0, ha1, ha2, ha3, _⟩ := absSign a
  obtain ⟨hb0, hb1, hb2, _, hb3⟩ := absSign b
  have hsa : (if decide (a < 0) = true then (-1:Int) else 1) * (if decide (a < 0) = true then (-1:Int) else 1) = 1 := by
    split <;> norm_num
  have hsb : (if decide (b < 0) = true then (-1:Int) else 1) * (if decide (b < 0) = true then (-1:Int) else 1) = 1 := by
    split <;> norm_num
  have hg : Int.gcd (if a < 0 then -a else a) (if b < 0 then -b else b) = Int.gcd a b := by
    rw [ha3, hb3]
  generalize (if decide (a < 0) = true then (-1:Int) else 1) = sa at *
  generalize (if decide (b < 0) = true then (-1:Int) else 1) = sb at *
  generalize (if a < 0 then -a else a) = a' at *
  generalize (if b < 0 then -b else b) = b' at *
  have ha4 : a = a' * sa := by rw [ha1, mul_assoc, hsa, mul_one]
  have hb4 : b = b' * sb := by rw [hb1, mul_assoc, hsb, mul_one]
  split_ifs at hr with h1 h2 h3
  · subst hr
    have : a = 0 := ha2.1 h1
    subst this
    simp only [Int.gcd_zero_left, zero_mul, zero_add]
    have := hb3 0
    simp only [Int.gcd_zero_left] at this
    exact ⟨by omega, hb1.symm⟩
  · subst hr
    have : b = 0 := hb2.1 h2
    subst this
    simp only [Int.gcd_zero_right, zero_mul, add_zero]
    have := ha3 0
    simp only [Int.gcd_zero_right] at this
    exact ⟨by omega, ha1.symm⟩
  · subst hr
    have h3' : b' > a' := by simpa using h3
    have hs := egLoop_spec b' a' b' a' 1 0 0 1 (by ring) (by ring) hb0 (by omega)
    simp only []
    refine ⟨?_, ?_⟩
    · rw [hs.1, Int.gcd_comm, hg]
    · conv_rhs => rw [hs.2]
      rw [ha4, hb4]
      generalize egLoop b' a' 1 0 0 1 = e
      have e1 : sa ^ 2 = 1 := by rw [pow_two]; exact hsa
      have e2 : sb ^ 2 = 1 := by rw [pow_two]; exact hsb
      ring_nf
      rw [e1, e2]
      ring
  · subst hr
    have h3' : ¬ b' > a' := by simpa using h3
    have hs := egLoop_spec a' b' a' b' 1 0 0 1 (by ring) (by ring) ha0 (by omega)
    simp only []
    refine ⟨?_, ?_⟩
    · rw [hs.1, hg]
    · conv_rhs => rw [hs.2]
      rw [ha4, hb4]
      generalize egLoop a' b' 1 0 0 1 = e
      have e1 : sa ^ 2 = 1 := by rw [pow_two]; exact hsa
      have e2 : sb ^ 2 = 1 := by rw [pow_two]; exact hsb
      ring_nf
      rw [e1, e2]
      ring
theorem multInverse_spec (a p : Int) (hp : 0 < p) :
    (Int.gcd a p = 1 → ∃ x, multInverse a p = some x ∧ (a * x) % p = 1 % p) ∧
    (Int.gcd a p ≠ 1 → multInverse a p = none) := by
  have hs := extGcd_spec a p (by omega)
  unfold multInverse
  rw [if_neg (by omega)]
  simp only []
  generalize extGcd a p = r at hs ⊢ 
  obtain ⟨h1, h2⟩ := hs
  constructor
  · intro hg
    have h3 : r.1 = 1 := by rw [h1, hg]; rfl
    refine ⟨r.2.1, by simp [h3], ?_⟩
    have : a * r.2.1 = 1 - p * r.2.2 := by linarith
    rw [this, Int.sub_mul_emod_self_left]
  · intro hg
    have : r.1 ≠ 1 := by rw [h1]; exact_mod_cast hg
    simp [this]
theorem trialLoop_iff (p t s : Int) :
    trialLoop p t s = true ↔ ∀ u : Int, t ≤ u → u ≤ s → Int.tmod p u ≠ 0 := by
  fun_induction trialLoop p t s with
  | case1 t h hmod =>
    simp only [Bool.false_eq_true, false_iff, not_forall]
    exact ⟨t, le_refl t, h, fun hc => hc hmod⟩
  | case2 t h hmod ih =>
    rw [ih]
    constructor
    · intro H u hu1 hu2
      by_cases hut : u = t
      · subst hut; exact hmod
      · exact H u (by omega) hu2
    · intro H u hu1 hu2
      exact H u (by omega) hu2
  | case3 t h =>
    simp only [true_iff]
    intro u h1 h2
    omega

theorem tmod_natCast_ne_zero (p m : Nat) : Int.tmod (p : Int) (m : Int) ≠ 0 ↔ ¬ m ∣ p := by
  rw [← Int.ofNat_tmod, Nat.dvd_iff_mod_eq_zero]
  exact_mod_cast Iff.rfl

theorem trialLoop_nat (p s t : Nat) :
    trialLoop (p : Int) (t : Int) (s : Int) = true ↔ ∀ m : Nat, t ≤ m → m ≤ s → ¬ m ∣ p := by
  rw [trialLoop_iff]
  constructor
  · intro H m h1 h2
    exact (tmod_natCast_ne_zero p m).1 (H m (by exact_mod_cast h1) (by exact_mod_cast h2))
  · intro H u h1 h2
    have hu : u = ((u.toNat : Nat) : Int) := by omega
    rw [hu]
    exact (tmod_natCast_ne_zero p u.toNat).2 (H u.toNat (by omega) (by omega))

theorem isPrimeWith_spec (p s : Nat) (hp : 3 ≤ p) (hs1 : p ≤ s * s) (hs2 : s < p) :
    isPrimeWith (p : Int) (s : Int) = true ↔ Nat.Prime p := by
  unfold isPrimeWith
  rw [if_neg (by omega), if_neg (by omega)]
  have htm : Int.tmod (p : Int) 2 = ((p % 2 : Nat) : Int) := (Int.ofNat_tmod p 2).symm
  by_cases hev : p % 2 = 0
  · rw [if_pos (by rw [htm, hev]; rfl)]
    simp only [Bool.false_eq_true, false_iff]
    intro hpr
    have := (Nat.prime_def_lt'.1 hpr).2 2 (le_refl 2) (by omega)
    exact this (Nat.dvd_of_mod_eq_zero hev)
  · rw [if_neg (by rw [htm]; exact_mod_cast hev)]
    have h2 : ((2 : Nat) : Int) = 2 := rfl
    rw [← h2, trialLoop_nat]
    have hsq : Nat.sqrt p ≤ s := by
      have := Nat.sqrt_le_sqrt hs1
      rwa [Nat.sqrt_eq] at this
    constructor
    · intro H
      exact Nat.prime_def_le_sqrt.2 ⟨by omega, fun m hm1 hm2 => H m hm1 (hm2.trans hsq)⟩
    · intro hpr m hm1 hm2
      exact (Nat.prime_def_lt'.1 hpr).2 m hm1 (by omega)

theorem isPrime_spec (p : Nat) (hp : 2 ≤ p) : isPrime (p : Int) = true ↔ Nat.Prime p := by
  unfold isPrime
  by_cases h2 : p = 2
  · subst h2
    simp [isPrimeWith, Nat.prime_two]
  · have hp3 : 3 ≤ p := by omega
    have hc : Int.ofNat (Nat.sqrt (p : Int).toNat) + 1 = ((Nat.sqrt p + 1 : Nat) : Int) := by
      rw [Int.toNat_natCast]; rfl
    rw [hc]
    apply isPrimeWith_spec p _ hp3 (le_of_lt (Nat.lt_succ_sqrt p))
    have h1 := Nat.sqrt_le' p
    by_contra hcon
    have hr2 : 2 ≤ Nat.sqrt p := by omega
    nlinarith
/-! ### SpVecFP -/

theorem normUp_eq (v p : Int) (hp : 0 < p) : normUp v p = if v < 0 then v % p else v := by
  fun_induction normUp v p with
  | case1 v h ih =>
    rw [ih, if_pos h.1]
    split
    · exact Int.add_emod_right v p
    · rw [← Int.add_emod_right v p]
      exact (Int.emod_eq_of_lt (by omega) (by omega)).symm
  | case2 v h =>
    rw [if_neg (by omega)]

theorem normDown_eq (v p : Int) (hp : 0 < p) (hv : 0 ≤ v) : normDown v p = v % p := by
  fun_induction normDown v p with
  | case1 v h ih =>
    rw [ih (by omega), Int.sub_emod_right]
  | case2 v h =>
    exact (Int.emod_eq_of_lt hv (by omega)).symm

theorem normalise_eq (v p : Int) (hp : 0 < p) : normalise v p = v % p := by
  unfold normalise
  rw [normUp_eq v p hp]
  split
  · rw [normDown_eq _ p hp (Int.emod_nonneg v (by omega)), Int.emod_emod_of_dvd v (dvd_refl p)]
  · rw [normDown_eq _ p hp (by omega)]

theorem normalise_tmod (z p : Int) (hp : 0 < p) : normalise (Int.tmod z p) p = z % p := by
  rw [normalise_eq _ p hp, Int.tmod_def, Int.sub_mul_emod_self_left]

/-- mirror of `C18.FpCanon` (definitionally the same body) -/
def FpCanonL (p : Int) (v : FpVec) : Prop :=
  (v.map (·.1)).Pairwise (· < ·) ∧ ∀ e ∈ v, 1 ≤ e.2 ∧ e.2 < p

/-- mirror of `C18.fpDense` (definitionally the same body) -/
def fpDenseL (v : FpVec) (i : Nat) : Int :=
  match v.find? (fun e => e.1 == i) with
  | some e => e.2
  | none => 0

theorem fpCanonL_nil (p : Int) : FpCanonL p [] := by simp [FpCanonL]

theorem fpCanonL_cons (p : Int) (i : Nat) (x : Int) (a : FpVec) :
    FpCanonL p ((i, x) :: a) ↔ (∀ e ∈ a, i < e.1) ∧ (1 ≤ x ∧ x < p) ∧ FpCanonL p a := by
  simp only [FpCanonL, List.map_cons, List.pairwise_cons, List.mem_map, List.mem_cons,
    forall_eq_or_imp, forall_exists_index, and_imp]
  constructor
  · rintro ⟨⟨h1, h2⟩, h3, h4⟩
    exact ⟨fun e he => h1 e.1 e he rfl, h3, h2, h4⟩
  · rintro ⟨h1, h3, h2, h4⟩
    exact ⟨⟨fun k e he hk => hk ▸ h1 e he, h2⟩, h3, h4⟩

theorem fpDenseL_nil (k : Nat) : fpDenseL [] k = 0 := rfl

theorem fpDenseL_cons (i : Nat) (x : Int) (a : FpVec) (k : Nat) :
    fpDenseL ((i, x) :: a) k = if i = k then x else fpDenseL a k := by
  unfold fpDenseL
  by_cases h : i = k
  · simp [h]
  · simp [h]

theorem fpDenseL_of_lt (a : FpVec) (k : Nat) (h : ∀ e ∈ a, k < e.1) : fpDenseL a k = 0 := by
  induction a with
  | nil => rfl
  | cons e a ih =>
    obtain ⟨i, x⟩ := e
    rw [fpDenseL_cons, if_neg, ih (fun e he => h e (List.mem_cons_of_mem _ he))]
    have := h (i, x) List.mem_cons_self
    simp only at this
    omega

theorem fpDenseL_range (p : Int) (hp : 2 ≤ p) (a : FpVec) (ha : FpCanonL p a) (k : Nat) :
    0 ≤ fpDenseL a k ∧ fpDenseL a k < p := by
  induction a with
  | nil => rw [fpDenseL_nil]; omega
  | cons e a ih =>
    obtain ⟨i, x⟩ := e
    rw [fpCanonL_cons] at ha
    rw [fpDenseL_cons]
    split
    · omega
    · exact ih ha.2.2

theorem fpDenseL_emod (p : Int) (hp : 2 ≤ p) (a : FpVec) (ha : FpCanonL p a) (k : Nat) :
    fpDenseL a k % p = fpDenseL a k :=
  Int.emod_eq_of_lt (fpDenseL_range p hp a ha k).1 (fpDenseL_range p hp a ha k).2

theorem fpAdd_lb (p : Int) (k : Nat) (a b : FpVec) (ha : ∀ e ∈ a, k < e.1) (hb : ∀ e ∈ b, k < e.1) :
    ∀ e ∈ fpAdd p a b, k < e.1 := by
  fun_induction fpAdd p a b with
  | case1 b => exact hb
  | case2 a _ => exact ha
  | case3 i x a j y b hij ih =>
    intro e he
    rcases List.mem_cons.1 he with rfl | he
    · exact hb _ List.mem_cons_self
    · exact ih ha (fun e he => hb e (List.mem_cons_of_mem _ he)) e he
  | case4 i x a j y b _ hij ih =>
    intro e he
    rcases List.mem_cons.1 he with rfl | he
    · exact ha _ List.mem_cons_self
    · exact ih (fun e he => ha e (List.mem_cons_of_mem _ he)) hb e he
  | case5 i x a j y b _ _ v hv ih =>
    intro e he
    rcases List.mem_cons.1 he with rfl | he
    · exact ha (i, x) List.mem_cons_self
    · exact ih (fun e he => ha e (List.mem_cons_of_mem _ he))
        (fun e he => hb e (List.mem_cons_of_mem _ he)) e he
  | case6 i x a j y b _ _ v hv ih =>
    exact ih (fun e he => ha e (List.mem_cons_of_mem _ he))
        (fun e he => hb e (List.mem_cons_of_mem _ he))

theorem add_canon (p : Int) (hp : 2 ≤ p) (a b : FpVec) (ha : FpCanonL p a) (hb : FpCanonL p b) :
    FpCanonL p (fpAdd p a b) := by
  fun_induction fpAdd p a b with
  | case1 b => exact hb
  | case2 a _ => exact ha
  | case3 i x a j y b hij ih =>
    have hb' := (fpCanonL_cons ..).1 hb
    have ha' := (fpCanonL_cons ..).1 ha
    refine (fpCanonL_cons ..).2 ⟨?_, hb'.2.1, ih ha hb'.2.2⟩
    apply fpAdd_lb
    · intro e he
      rcases List.mem_cons.1 he with rfl | he
      · exact hij
      · exact lt_trans hij (ha'.1 e he)
    · exact hb'.1
  | case4 i x a j y b _ hij ih =>
    have hb' := (fpCanonL_cons ..).1 hb
    have ha' := (fpCanonL_cons ..).1 ha
    refine (fpCanonL_cons ..).2 ⟨?_, ha'.2.1, ih ha'.2.2 hb⟩
    apply fpAdd_lb
    · exact ha'.1
    · intro e he
      rcases List.mem_cons.1 he with rfl | he
      · exact hij
      · exact lt_trans hij (hb'.1 e he)
  | case5 i x a j y b h1 h2 v hv ih =>
    have hb' := (fpCanonL_cons ..).1 hb
    have ha' := (fpCanonL_cons ..).1 ha
    have hij : i = j := by omega
    subst hij
    have hv' : v = (x + y) % p := normalise_tmod _ p (by omega)
    have h3 := Int.emod_nonneg (x + y) (show p ≠ 0 by omega)
    have h4 := Int.emod_lt_of_pos (x + y) (show 0 < p by omega)
    refine (fpCanonL_cons ..).2 ⟨?_, by omega, ih ha'.2.2 hb'.2.2⟩
    exact fpAdd_lb p i a b ha'.1 hb'.1
  | case6 i x a j y b _ _ v hv ih =>
    have hb' := (fpCanonL_cons ..).1 hb
    have ha' := (fpCanonL_cons ..).1 ha
    exact ih ha'.2.2 hb'.2.2
theorem add_dense (p : Int) (hp : 2 ≤ p) (a b : FpVec) (ha : FpCanonL p a) (hb : FpCanonL p b)
    (k : Nat) : fpDenseL (fpAdd p a b) k = (fpDenseL a k + fpDenseL b k) % p := by
  fun_induction fpAdd p a b with
  | case1 b => rw [fpDenseL_nil, zero_add, fpDenseL_emod p hp b hb]
  | case2 a _ => rw [fpDenseL_nil, add_zero, fpDenseL_emod p hp a ha]
  | case3 i x a j y b hij ih =>
    have hb' := (fpCanonL_cons ..).1 hb
    have ha' := (fpCanonL_cons ..).1 ha
    rw [fpDenseL_cons j y, fpDenseL_cons j y]
    split
    · subst_vars
      rw [fpDenseL_of_lt ((i, x) :: a) j, zero_add, Int.emod_eq_of_lt (by omega) (by omega)]
      intro e he
      rcases List.mem_cons.1 he with rfl | he
      · exact hij
      · exact lt_trans hij (ha'.1 e he)
    · exact ih ha hb'.2.2
  | case4 i x a j y b _ hij ih =>
    have hb' := (fpCanonL_cons ..).1 hb
    have ha' := (fpCanonL_cons ..).1 ha
    rw [fpDenseL_cons i x, fpDenseL_cons i x]
    split
    · subst_vars
      rw [fpDenseL_of_lt ((j, y) :: b) i, add_zero, Int.emod_eq_of_lt (by omega) (by omega)]
      intro e he
      rcases List.mem_cons.1 he with rfl | he
      · exact hij
      · exact lt_trans hij (hb'.1 e he)
    · exact ih ha'.2.2 hb
  | case5 i x a j y b h1 h2 v hv ih =>
    have hb' := (fpCanonL_cons ..).1 hb
    have ha' := (fpCanonL_cons ..).1 ha
    have hij : i = j := by omega
    subst hij
    have hv' : v = (x + y) % p := normalise_tmod _ p (by omega)
    rw [fpDenseL_cons, fpDenseL_cons, fpDenseL_cons]
    split
    · exact hv'
    · exact ih ha'.2.2 hb'.2.2
  | case6 i x a j y b h1 h2 v hv ih =>
    have hb' := (fpCanonL_cons ..).1 hb
    have ha' := (fpCanonL_cons ..).1 ha
    have hij : i = j := by omega
    subst hij
    have hv' : v = (x + y) % p := normalise_tmod _ p (by omega)
    have hv0 : v = 0 := by simpa using hv
    rw [fpDenseL_cons, fpDenseL_cons]
    split
    · subst_vars
      rw [fpDenseL_of_lt _ _ (fpAdd_lb p i a b ha'.1 hb'.1), ← hv', hv0]
    · exact ih ha'.2.2 hb'.2.2

theorem fpScale_lb (p c : Int) (k : Nat) (a : FpVec) (ha : ∀ e ∈ a, k < e.1) :
    ∀ e ∈ fpScale p c a, k < e.1 := by
  induction a with
  | nil => intro e he; simp [fpScale] at he
  | cons e0 a ih =>
    obtain ⟨i, x⟩ := e0
    have ih' := ih (fun e he => ha e (List.mem_cons_of_mem _ he))
    unfold fpScale
    simp only []
    split
    · intro e he
      rcases List.mem_cons.1 he with rfl | he
      · exact ha (i, x) List.mem_cons_self
      · exact ih' e he
    · exact ih'

theorem scale_canon (p : Int) (hp : 2 ≤ p) (c : Int) (a : FpVec) (ha : FpCanonL p a) :
    FpCanonL p (fpScale p c a) := by
  induction a with
  | nil => exact ha
  | cons e0 a ih =>
    obtain ⟨i, x⟩ := e0
    have ha' := (fpCanonL_cons ..).1 ha
    unfold fpScale
    simp only []
    have hv' : normalise (Int.tmod (x * c) p) p = (x * c) % p := normalise_tmod _ p (by omega)
    have h3 := Int.emod_nonneg (x * c) (show p ≠ 0 by omega)
    have h4 := Int.emod_lt_of_pos (x * c) (show 0 < p by omega)
    split
    · refine (fpCanonL_cons ..).2 ⟨fpScale_lb p c i a ha'.1, by omega, ih ha'.2.2⟩
    · exact ih ha'.2.2

theorem scale_dense (p : Int) (hp : 2 ≤ p) (c : Int) (a : FpVec) (ha : FpCanonL p a) (k : Nat) :
    fpDenseL (fpScale p c a) k = (fpDenseL a k * c) % p := by
  induction a with
  | nil => simp [fpScale, fpDenseL_nil]
  | cons e0 a ih =>
    obtain ⟨i, x⟩ := e0
    have ha' := (fpCanonL_cons ..).1 ha
    unfold fpScale
    simp only []
    have hv' : normalise (Int.tmod (x * c) p) p = (x * c) % p := normalise_tmod _ p (by omega)
    rw [fpDenseL_cons i x]
    split
    · rw [fpDenseL_cons]
      split
      · exact hv'
      · exact ih ha'.2.2
    · rename_i hv0
      have hv0 : normalise (Int.tmod (x * c) p) p = 0 := by simpa using hv0
      split
      · subst_vars
        rw [fpDenseL_of_lt _ _ (fpScale_lb p c i a ha'.1), ← hv', hv0]
      · exact ih ha'.2.2
theorem dotSum_congr (a b b' : FpVec) (h : ∀ e ∈ a, fpDenseL b e.1 = fpDenseL b' e.1) :
    (a.map (fun e => e.2 * fpDenseL b e.1)).sum = (a.map (fun e => e.2 * fpDenseL b' e.1)).sum := by
  congr 1
  apply List.map_congr_left
  intro e he
  rw [h e he]

theorem dotSum_nil (a : FpVec) : (a.map (fun e => e.2 * fpDenseL [] e.1)).sum = 0 := by
  induction a with
  | nil => rfl
  | cons e a ih => rw [List.map_cons, List.sum_cons, ih, fpDenseL_nil, mul_zero, add_zero]

theorem dotAcc_spec (p : Int) (hp : 2 ≤ p) (res : Int) (a b : FpVec) (ha : FpCanonL p a)
    (hb : FpCanonL p b) (h0 : 0 ≤ res) (h1 : res < p) :
    fpDotAcc p res a b = (res + (a.map (fun e => e.2 * fpDenseL b e.1)).sum) % p := by
  fun_induction fpDotAcc p res a b with
  | case1 res b => rw [List.map_nil, List.sum_nil, add_zero, Int.emod_eq_of_lt h0 h1]
  | case2 res a _ => rw [dotSum_nil, add_zero, Int.emod_eq_of_lt h0 h1]
  | case3 res i x a j y b hij ih =>
    have hb' := (fpCanonL_cons ..).1 hb
    have ha' := (fpCanonL_cons ..).1 ha
    rw [ih ha hb'.2.2 h0 h1]
    congr 2
    apply dotSum_congr
    intro e he
    rw [fpDenseL_cons, if_neg]
    rcases List.mem_cons.1 he with rfl | he
    · exact Nat.ne_of_lt hij
    · exact Nat.ne_of_lt (lt_trans hij (ha'.1 e he))
  | case4 res i x a j y b _ hij ih =>
    have hb' := (fpCanonL_cons ..).1 hb
    have ha' := (fpCanonL_cons ..).1 ha
    rw [ih ha'.2.2 hb h0 h1, List.map_cons, List.sum_cons, fpDenseL_of_lt ((j, y) :: b) i,
      mul_zero, zero_add]
    intro e he
    rcases List.mem_cons.1 he with rfl | he
    · exact hij
    · exact lt_trans hij (hb'.1 e he)
  | case5 res i x a j y b h2 h3 ih =>
    have hb' := (fpCanonL_cons ..).1 hb
    have ha' := (fpCanonL_cons ..).1 ha
    have hij : i = j := by omega
    subst hij
    have hxy : 0 ≤ x * y := Int.mul_nonneg (by omega) (by omega)
    have e1 : Int.tmod (x * y) p = (x * y) % p := Int.tmod_eq_emod_of_nonneg hxy
    have h5 := Int.emod_nonneg (x * y) (show p ≠ 0 by omega)
    have e2 : Int.tmod (res + Int.tmod (x * y) p) p = (res + (x * y) % p) % p := by
      rw [e1, Int.tmod_eq_emod_of_nonneg (by omega)]
    have h6 := Int.emod_nonneg (res + (x * y) % p) (show p ≠ 0 by omega)
    have h7 := Int.emod_lt_of_pos (res + (x * y) % p) (show 0 < p by omega)
    rw [ih ha'.2.2 hb'.2.2 (by rw [e2]; exact h6) (by rw [e2]; exact h7), e2, List.map_cons,
      List.sum_cons, fpDenseL_cons, if_pos rfl, Int.emod_add_emod, add_assoc,
      add_comm ((x * y) % p), ← add_assoc, Int.add_emod_emod, add_assoc, add_comm _ (x * y)]
    congr 3
    apply dotSum_congr
    intro e he
    rw [fpDenseL_cons, if_neg]
    exact Nat.ne_of_lt (ha'.1 e he)

theorem dot_spec (p : Int) (hp : 2 ≤ p) (a b : FpVec) (ha : FpCanonL p a) (hb : FpCanonL p b) :
    fpDot p a b = ((a.map (fun e => e.2 * fpDenseL b e.1)).sum) % p := by
  unfold fpDot
  rw [dotAcc_spec p hp 0 a b ha hb (le_refl 0) (by omega), zero_add]

theorem fpStep_canon (p : Int) (hp : 2 ≤ p) (s : List FpVec) (hs : ∀ v ∈ s, FpCanonL p v)
    (op : FpOp) : ∀ v ∈ (fpStep p s op).1, FpCanonL p v := by
  have hget : ∀ (a : Nat) (v : FpVec), s[a]? = some v → FpCanonL p v :=
    fun a v h => hs v (List.mem_of_getElem? h)
  have happ : ∀ w : FpVec, FpCanonL p w → ∀ v ∈ s ++ [w], FpCanonL p v := by
    intro w hw v hv
    rcases List.mem_append.1 hv with hv | hv
    · exact hs v hv
    · rw [List.mem_singleton.1 hv]; exact hw
  have hset : ∀ (a : Nat) (w : FpVec), FpCanonL p w → ∀ v ∈ s.set a w, FpCanonL p v := by
    intro a w hw v hv
    rcases List.mem_or_eq_of_mem_set hv with hv | hv
    · exact hs v hv
    · rw [hv]; exact hw
  have hunit : ∀ i, FpCanonL p (fpUnit i) := by
    intro i
    exact (fpCanonL_cons ..).2 ⟨by simp, by omega, fpCanonL_nil p⟩
  cases op with
  | unit a i =>
    simp only [fpStep]; split
    · exact hset a _ (hunit i)
    · exact hs
  | new => exact happ [] (fpCanonL_nil p)
  | copy a =>
    simp only [fpStep]; split
    · rename_i v h; exact happ v (hget a v h)
    · exact hs
  | add a b =>
    simp only [fpStep]; split
    · rename_i va vb h1 h2
      exact happ _ (add_canon p hp va vb (hget a va h1) (hget b vb h2))
    · exact hs
  | addAssign a b =>
    simp only [fpStep]; split
    · rename_i va vb h1 h2
      exact hset a _ (add_canon p hp va vb (hget a va h1) (hget b vb h2))
    · exact hs
  | scale a c =>
    simp only [fpStep]; split
    · rename_i va h1
      exact happ _ (scale_canon p hp c va (hget a va h1))
    · exact hs
  | scaleAssign a c =>
    simp only [fpStep]; split
    · rename_i va h1
      exact hset a _ (scale_canon p hp c va (hget a va h1))
    · exact hs
  | assign a b =>
    simp only [fpStep]; split
    · rename_i va vb h1 h2
      exact hset a _ (hget b vb h2)
    · exact hs
  | clear a =>
    simp only [fpStep]; split
    · exact hset a _ (fpCanonL_nil p)
    · exact hs
  | dot a b =>
    simp only [fpStep]; split
    · exact hs
    · exact hs
  | size a =>
    simp only [fpStep]; split
    · exact hs
    · exact hs

theorem fpFold_canon (p : Int) (hp : 2 ≤ p) (ops : List FpOp) (s : List FpVec)
    (hs : ∀ v ∈ s, FpCanonL p v) :
    ∀ v ∈ ops.foldl (fun s op => (fpStep p s op).1) s, FpCanonL p v := by
  induction ops generalizing s with
  | nil => exact hs
  | cons op ops ih =>
    rw [List.foldl_cons]
    exact ih _ (fpStep_canon p hp s hs op)

theorem fpRun_canon (p : Int) (hp : 2 ≤ p) (ops : List FpOp) : ∀ v ∈ fpRun p ops, FpCanonL p v :=
  fpFold_canon p hp ops [] (by simp)

end Parmcb
