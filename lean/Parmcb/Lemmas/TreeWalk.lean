import Parmcb.Model.TreeWalk
import Parmcb.Lemmas.Trees
import Parmcb.Props.C12
/-!
The explicit-stack walks of `SPTree` (`Model/TreeWalk.lean`) compute the functional labels of `Model/Lex.lean`.
Core Lean only.
-/
namespace Parmcb

namespace TreeWalkL
open Parmcb.TreesL

/-! ### a generic explicit-stack walk -/

/-- both walks: pop `(info, v)`, store `out info v` at `v`, push the children `c` of `v` with `lab info v c` -/
def gWalk {α : Type} (g : Graph) (t : SPTree) (lab : α → Nat → Nat → α) (out : α → Nat → α) :
    Nat → List (α × Nat) → List α → List α
  | 0, _, a => a
  | _, [], a => a
  | fuel + 1, (info, v) :: stack, a =>
    gWalk g t lab out fuel (pushChildren (lab info v) (treeChildren g t v) stack) (a.set v (out info v))

theorem firstWalk_eq_gWalk (g : Graph) (t : SPTree) : ∀ (fuel : Nat) (stack : List (Nat × Nat)) (a : List Nat),
    firstWalk g t fuel stack a =
      gWalk g t (fun info v c => if v = t.source then c else info) (fun info v => if v = t.source then v else info)
        fuel stack a := by
  intro fuel
  induction fuel with
  | zero => intro stack a; rfl
  | succ fuel ih =>
    intro stack a
    cases stack with
    | nil => rfl
    | cons x stack =>
      obtain ⟨info, v⟩ := x
      simp only [firstWalk, gWalk]
      by_cases h : v = t.source
      · simp only [if_pos h]; exact ih _ _
      · simp only [if_neg h]; exact ih _ _

theorem parityWalk_eq_gWalk (g : Graph) (t : SPTree) (signed : List Nat) :
    ∀ (fuel : Nat) (stack : List (Bool × Nat)) (a : List Bool),
    parityWalk g t signed fuel stack a =
      gWalk g t (fun info _ c => xor info (signed.contains ((t.pred.getD c none).getD 0))) (fun info _ => info)
        fuel stack a := by
  intro fuel
  induction fuel with
  | zero => intro stack a; rfl
  | succ fuel ih =>
    intro stack a
    cases stack with
    | nil => rfl
    | cons x stack =>
      obtain ⟨info, v⟩ := x
      simp only [parityWalk, gWalk]
      exact ih _ _

/-! ### children -/

theorem mem_treeChildren (g : Graph) (t : SPTree) (u c : Nat) :
    c ∈ treeChildren g t u ↔ c < g.n ∧ c ≠ t.source ∧ ∃ e, t.pred.getD c none = some e ∧ g.other e c = u := by
  unfold treeChildren treeParent
  rw [List.mem_filter, List.mem_range]
  cases h : t.pred.getD c none with
  | none => simp
  | some e => simp

theorem treeChildren_nodup (g : Graph) (t : SPTree) (u : Nat) : (treeChildren g t u).Nodup := by
  unfold treeChildren
  exact List.Nodup.sublist List.filter_sublist List.nodup_range

theorem mem_pushChildren {α : Type} (f : Nat → α) (cs : List Nat) (stack : List (α × Nat)) (x : α × Nat) :
    x ∈ pushChildren f cs stack ↔ (x.2 ∈ cs ∧ x.1 = f x.2) ∨ x ∈ stack := by
  unfold pushChildren
  rw [List.mem_append, List.mem_map]
  constructor
  · rintro (⟨c, hc, rfl⟩ | h)
    · exact Or.inl ⟨List.mem_reverse.1 hc, rfl⟩
    · exact Or.inr h
  · rintro (⟨h1, h2⟩ | h)
    · refine Or.inl ⟨x.2, List.mem_reverse.2 h1, ?_⟩
      rw [← h2]
    · exact Or.inr h

theorem map_snd_pushChildren {α : Type} (f : Nat → α) (cs : List Nat) (stack : List (α × Nat)) :
    (pushChildren f cs stack).map Prod.snd = cs.reverse ++ stack.map Prod.snd := by
  unfold pushChildren
  rw [List.map_append, List.map_map]
  congr 1
  induction cs.reverse with
  | nil => rfl
  | cons x r ih => rw [List.map_cons, ih]; rfl

/-! ### the invariant -/

/-- the invariant of the walk: `vis` is the (ghost) list of the nodes popped so far -/
structure Inv {α : Type} (g : Graph) (t : SPTree) (out : α → Nat → α) (I : Nat → α) (d0 : α)
    (stack : List (α × Nat)) (a : List α) (vis : List Nat) : Prop where
  nd_stack : (stack.map Prod.snd).Nodup
  nd_vis : vis.Nodup
  disj : ∀ x ∈ stack.map Prod.snd, x ∉ vis
  par : ∀ u, u ∈ stack.map Prod.snd ∨ u ∈ vis →
    u < g.n ∧ (u = t.source ∨ ∃ e, t.pred.getD u none = some e ∧ g.other e u ∈ vis)
  root : t.source ∈ stack.map Prod.snd ∨ t.source ∈ vis
  closed : ∀ u ∈ vis, ∀ c ∈ treeChildren g t u, c ∈ stack.map Prod.snd ∨ c ∈ vis
  lab_ok : ∀ x ∈ stack, x.1 = I x.2
  done : ∀ x ∈ vis, a.getD x d0 = out (I x) x
  todo : ∀ x, x ∉ vis → a.getD x d0 = d0
  len : a.length = g.n

theorem getD_set_self {α : Type} (a : List α) (v : Nat) (x d : α) (h : v < a.length) : (a.set v x).getD v d = x := by
  simp [List.getD, h]

theorem getD_set_ne {α : Type} (a : List α) (v w : Nat) (x d : α) (h : v ≠ w) : (a.set v x).getD w d = a.getD w d := by
  simp [List.getD, List.getElem?_set_ne h]

theorem inv_step {α : Type} (g : Graph) (t : SPTree) (lab : α → Nat → Nat → α) (out : α → Nat → α) (I : Nat → α)
    (d0 : α) (hI : ∀ v c, c ∈ treeChildren g t v → I c = lab (I v) v c)
    (info : α) (v : Nat) (stack : List (α × Nat)) (a : List α) (vis : List Nat)
    (inv : Inv g t out I d0 ((info, v) :: stack) a vis) :
    Inv g t out I d0 (pushChildren (lab info v) (treeChildren g t v) stack) (a.set v (out info v)) (v :: vis) := by
  obtain ⟨nd_stack, nd_vis, disj, par, root, closed, lab_ok, done, todo, len⟩ := inv
  simp only [List.map_cons] at nd_stack disj par root closed
  rw [List.nodup_cons] at nd_stack
  have hv_vis : v ∉ vis := disj v List.mem_cons_self
  have hinfo : info = I v := lab_ok (info, v) List.mem_cons_self
  have hvn : v < g.n := (par v (Or.inl List.mem_cons_self)).1
  -- a child of `v` is new
  have hnew : ∀ c ∈ treeChildren g t v, c ≠ v ∧ c ∉ stack.map Prod.snd ∧ c ∉ vis := by
    intro c hc
    rw [mem_treeChildren] at hc
    obtain ⟨_, hcs, e, hpe, hoe⟩ := hc
    have key : ¬ (c ∈ v :: stack.map Prod.snd ∨ c ∈ vis) := by
      intro h
      rcases (par c h).2 with h1 | ⟨e', h1, h2⟩
      · exact hcs h1
      · rw [hpe] at h1; cases h1
        rw [hoe] at h2; exact hv_vis h2
    refine ⟨?_, ?_, ?_⟩
    · intro h; exact key (Or.inl (h ▸ List.mem_cons_self))
    · intro h; exact key (Or.inl (List.mem_cons_of_mem _ h))
    · intro h; exact key (Or.inr h)
  refine ⟨?_, ?_, ?_, ?_, ?_, ?_, ?_, ?_, ?_, ?_⟩
  · rw [map_snd_pushChildren, List.nodup_append]
    refine ⟨(List.reverse_perm _).nodup_iff.2 (treeChildren_nodup g t v), nd_stack.2, ?_⟩
    intro x hx y hy hxy
    subst hxy
    exact (hnew x (List.mem_reverse.1 hx)).2.1 hy
  · exact List.nodup_cons.2 ⟨hv_vis, nd_vis⟩
  · intro x hx hxv
    rw [map_snd_pushChildren, List.mem_append, List.mem_reverse] at hx
    rcases List.mem_cons.1 hxv with h | h
    · subst h
      rcases hx with hx | hx
      · exact (hnew x hx).1 rfl
      · exact nd_stack.1 hx
    · rcases hx with hx | hx
      · exact (hnew x hx).2.2 h
      · exact disj x (List.mem_cons_of_mem _ hx) h
  · intro u hu
    rw [map_snd_pushChildren, List.mem_append, List.mem_reverse] at hu
    have old : (u ∈ v :: stack.map Prod.snd ∨ u ∈ vis) →
        u < g.n ∧ (u = t.source ∨ ∃ e, t.pred.getD u none = some e ∧ g.other e u ∈ v :: vis) := by
      intro h
      obtain ⟨h1, h2⟩ := par u h
      refine ⟨h1, ?_⟩
      rcases h2 with h2 | ⟨e, h2, h3⟩
      · exact Or.inl h2
      · exact Or.inr ⟨e, h2, List.mem_cons_of_mem _ h3⟩
    rcases hu with (hu | hu) | hu
    · rw [mem_treeChildren] at hu
      obtain ⟨h1, _, e, h2, h3⟩ := hu
      exact ⟨h1, Or.inr ⟨e, h2, h3 ▸ List.mem_cons_self⟩⟩
    · exact old (Or.inl (List.mem_cons_of_mem _ hu))
    · rcases List.mem_cons.1 hu with h | h
      · subst h; exact old (Or.inl List.mem_cons_self)
      · exact old (Or.inr h)
  · rw [map_snd_pushChildren, List.mem_append]
    rcases root with h | h
    · rcases List.mem_cons.1 h with h | h
      · exact Or.inr (h ▸ List.mem_cons_self)
      · exact Or.inl (Or.inr h)
    · exact Or.inr (List.mem_cons_of_mem _ h)
  · intro u hu c hc
    rw [map_snd_pushChildren, List.mem_append, List.mem_reverse]
    rcases List.mem_cons.1 hu with h | h
    · subst h; exact Or.inl (Or.inl hc)
    · rcases closed u h c hc with h1 | h1
      · rcases List.mem_cons.1 h1 with h2 | h2
        · exact Or.inr (h2 ▸ List.mem_cons_self)
        · exact Or.inl (Or.inr h2)
      · exact Or.inr (List.mem_cons_of_mem _ h1)
  · intro x hx
    rw [mem_pushChildren] at hx
    rcases hx with ⟨h1, h2⟩ | h
    · rw [h2, hI v x.2 h1, hinfo]
    · exact lab_ok x (List.mem_cons_of_mem _ h)
  · intro x hx
    rcases List.mem_cons.1 hx with h | h
    · subst h
      rw [getD_set_self _ _ _ _ (by omega), hinfo]
    · have : v ≠ x := fun e => hv_vis (e ▸ h)
      rw [getD_set_ne _ _ _ _ _ this]
      exact done x h
  · intro x hx
    have h1 : v ≠ x := fun e => hx (e ▸ List.mem_cons_self)
    rw [getD_set_ne _ _ _ _ _ h1]
    exact todo x (fun h => hx (List.mem_cons_of_mem _ h))
  · rw [List.length_set]; exact len

theorem gWalk_inv {α : Type} (g : Graph) (t : SPTree) (lab : α → Nat → Nat → α) (out : α → Nat → α) (I : Nat → α)
    (d0 : α) (hI : ∀ v c, c ∈ treeChildren g t v → I c = lab (I v) v c) :
    ∀ (fuel : Nat) (stack : List (α × Nat)) (a : List α) (vis : List Nat),
    Inv g t out I d0 stack a vis → g.n < fuel + vis.length →
    ∃ vis', Inv g t out I d0 [] (gWalk g t lab out fuel stack a) vis' := by
  intro fuel
  induction fuel with
  | zero =>
    intro stack a vis inv hf
    exfalso
    have := nodup_length_le vis g.n inv.nd_vis (fun u hu => (inv.par u (Or.inr hu)).1)
    omega
  | succ fuel ih =>
    intro stack a vis inv hf
    cases stack with
    | nil => exact ⟨vis, inv⟩
    | cons x stack =>
      obtain ⟨info, v⟩ := x
      simp only [gWalk]
      apply ih _ _ (v :: vis) (inv_step g t lab out I d0 hI info v stack a vis inv)
      simp only [List.length_cons]; omega

/-- the walk from the root -/
theorem gWalk_root {α : Type} (g : Graph) (t : SPTree) (lab : α → Nat → Nat → α) (out : α → Nat → α) (I : Nat → α)
    (d0 i0 : α) (hI : ∀ v c, c ∈ treeChildren g t v → I c = lab (I v) v c) (hsn : t.source < g.n)
    (h0 : i0 = I t.source) :
    ∃ vis, Inv g t out I d0 [] (gWalk g t lab out (g.n + 1) [(i0, t.source)] (List.replicate g.n d0)) vis := by
  apply gWalk_inv g t lab out I d0 hI (g.n + 1) _ _ []
  · refine ⟨by simp, List.nodup_nil, by simp, ?_, by simp, by simp, ?_, by simp, ?_, by simp⟩
    · intro u hu
      simp only [List.map_cons, List.map_nil, List.mem_singleton, List.not_mem_nil, or_false] at hu
      subst hu
      exact ⟨hsn, Or.inl rfl⟩
    · intro x hx
      rw [List.mem_singleton] at hx
      subst hx; exact h0
    · intro x _
      simp [List.getD, List.getElem?_replicate]
      split <;> rfl
  · simp

/-- at the end every vertex with a predecessor chain has been visited -/
theorem inv_complete {α : Type} (g : Graph) (hs : g.simpleB = true) (hp : g.positiveB = true) (t : SPTree)
    (ok : SPTOk g t) (out : α → Nat → α) (I : Nat → α) (d0 : α)
    (a : List α) (vis : List Nat) (inv : Inv g t out I d0 [] a vis) :
    ∀ (p : List Nat) (x : Nat), x < g.n → IsChain g t x p → x ∈ vis := by
  have hroot : t.source ∈ vis := by
    rcases inv.root with h | h
    · cases h
    · exact h
  intro p
  induction p with
  | nil => intro x _ hch; have : x = t.source := hch; exact this ▸ hroot
  | cons e r ih =>
    intro x hx hch
    obtain ⟨hne, hpe, hch'⟩ := hch
    have hlt : g.other e x < g.n := by
      rcases node_facts g hp t ok x hx hne with ⟨_, h⟩ | ⟨dv, e1, dp, a1, a2, a3, _⟩
      · rw [hpe] at h; cases h
      · rw [hpe] at a2; cases a2
        exact other_lt g hs e x a3
    have hp' := ih (g.other e x) hlt hch'
    have hc : x ∈ treeChildren g t (g.other e x) := (mem_treeChildren g t _ x).2 ⟨hx, hne, e, hpe, rfl⟩
    rcases inv.closed _ hp' x hc with h | h
    · cases h
    · exact h

theorem chain_unique (g : Graph) (t : SPTree) : ∀ (p p' : List Nat) (v : Nat),
    IsChain g t v p → IsChain g t v p' → p = p' := by
  intro p
  induction p with
  | nil =>
    intro p' v h h'
    cases p' with
    | nil => rfl
    | cons e r => exact absurd h h'.1
  | cons e r ih =>
    intro p' v h h'
    cases p' with
    | nil => exact absurd h' h.1
    | cons e' r' =>
      obtain ⟨_, h1, h2⟩ := h
      obtain ⟨_, h1', h2'⟩ := h'
      rw [h1] at h1'; cases h1'
      rw [ih r' _ h2 h2']

theorem rootPath_step (g : Graph) (hs : g.simpleB = true) (hp : g.positiveB = true) (t : SPTree)
    (ok : SPTOk g t) (w f : Nat) (hw : w < g.n) (hne : w ≠ t.source) (hpw : t.pred.getD w none = some f) :
    rootPath g t g.n w = f :: rootPath g t g.n (g.other f w) := by
  rcases node_facts g hp t ok w hw hne with ⟨_, h⟩ | ⟨dv, e, dp, a1, a2, a3, a4, a5, a6, a7⟩
  · rw [hpw] at h; cases h
  rw [hpw] at a2; cases a2
  have ch := rootPath_isChain g hs hp t ok (g.other f w) (other_lt g hs f w a3) dp a5
  have chw := rootPath_isChain g hs hp t ok w hw dv a1
  exact chain_unique g t _ _ w chw ⟨hne, hpw, ch⟩

theorem buildTree_first_length (g : Graph) (s : Nat) : (buildTree g s).first.length = g.n := by
  simp [buildTree]

theorem buildTree_first_none (g : Graph) (s x : Nat) (hx : x < g.n) (hne : x ≠ s)
    (hpx : (buildTree g s).pred.getD x none = none) : (buildTree g s).first.getD x 0 = 0 := by
  have hpx' : (lexDijkstra g s).pred.getD x none = none := hpx
  show ((List.range g.n).map fun v => if v = s then s else match (lexDijkstra g s).pred.getD v none with
    | some _ => firstInPath g s (lexDijkstra g s).pred g.n v
    | none => 0).getD x 0 = 0
  rw [List.getD_eq_getElem?_getD, List.getElem?_map, List.getElem?_range hx]
  simp only [Option.map_some, Option.getD_some, if_neg hne]
  rw [hpx']

/-- the first walk on a certified tree -/
theorem firstByWalk_of_ok (g : Graph) (hs : g.simpleB = true) (hp : g.positiveB = true) (t : SPTree)
    (ok : SPTOk g t) (fok : FirstOk g t) (hlen : t.first.length = g.n)
    (hnone : ∀ x, x < g.n → x ≠ t.source → t.pred.getD x none = none → t.first.getD x 0 = 0) :
    firstByWalk g t = t.first := by
  unfold firstByWalk
  rw [firstWalk_eq_gWalk]
  obtain ⟨vis, inv⟩ := gWalk_root g t (fun info v c => if v = t.source then c else info)
    (fun info v => if v = t.source then v else info) (fun x => t.first.getD x 0) 0 t.source (by
      intro v c hc
      rw [mem_treeChildren] at hc
      obtain ⟨h1, h2, e, h3, h4⟩ := hc
      have hst := fok.step c e h1 h2 h3
      by_cases h : v = t.source
      · rw [if_pos h]; exact hst.1 (h4.trans h)
      · rw [if_neg h, ← h4]; exact hst.2 (fun h' => h (h4.symm.trans h')))
    ok.src_lt fok.first_src.symm
  have key : ∀ x, x < g.n → (gWalk g t (fun info v c => if v = t.source then c else info)
      (fun info v => if v = t.source then v else info) (g.n + 1) [(t.source, t.source)]
      (List.replicate g.n 0)).getD x 0 = t.first.getD x 0 := by
    intro x hx
    by_cases hv : x ∈ vis
    · rw [inv.done x hv]
      by_cases h : x = t.source
      · rw [if_pos h, h, fok.first_src]
      · rw [if_neg h]
    · rw [inv.todo x hv]
      have hd : t.dist.getD x none = none := by
        cases hd : t.dist.getD x none with
        | none => rfl
        | some d =>
          exact absurd (inv_complete g hs hp t ok _ _ _ _ vis inv _ x hx (rootPath_isChain g hs hp t ok x hx d hd)) hv
      have hne : x ≠ t.source := by
        intro h; rw [h, ok.dist_src] at hd; cases hd
      rcases ok.node x hx hne with ⟨_, h⟩ | ⟨dv, _, _, h, _⟩
      · exact (hnone x hx hne h).symm
      · rw [hd] at h; cases h
  apply List.ext_getElem
  · rw [inv.len, hlen]
  · intro i h1 h2
    have := key i (by rw [← inv.len]; exact h1)
    simpa [List.getD, h1, h2] using this

/-- the parity walk on a certified tree -/
theorem parityByWalk_of_ok (g : Graph) (hs : g.simpleB = true) (hp : g.positiveB = true) (t : SPTree)
    (ok : SPTOk g t) (signed : List Nat) (v : Nat) (hv : v < g.n) (d : Int) (hd : t.dist.getD v none = some d) :
    (parityByWalk g t signed).getD v false = treeParity g t signed v := by
  unfold parityByWalk
  rw [parityWalk_eq_gWalk]
  obtain ⟨vis, inv⟩ := gWalk_root g t (fun info _ c => xor info (signed.contains ((t.pred.getD c none).getD 0)))
    (fun info _ => info) (fun x => treeParity g t signed x) false false (by
      intro u c hc
      rw [mem_treeChildren] at hc
      obtain ⟨h1, h2, e, h3, h4⟩ := hc
      unfold treeParity
      rw [rootPath_step g hs hp t ok c e h1 h2 h3, par_cons, h3, h4, Bool.xor_comm]
      rfl)
    ok.src_lt (by
      unfold treeParity
      have ch := rootPath_isChain g hs hp t ok t.source ok.src_lt 0 ok.dist_src
      rw [chain_source_nil g t _ ch]
      rfl)
  have hmem := inv_complete g hs hp t ok _ _ _ _ vis inv _ v hv (rootPath_isChain g hs hp t ok v hv d hd)
  exact inv.done v hmem

end TreeWalkL

/-- **`compute_first_in_path`**: for the tree the literal lexicographic Dijkstra builds, the stack walk fills
`_first_in_path` with exactly the labels of the model (`buildTree … .first`: the child of the root the root path passes
through; the root itself for the root; vertex 0 for vertices without a node) -/
theorem firstByWalk_eq (g : Graph) (hs : g.simpleB = true) (hp : g.positiveB = true) (s : Nat) (hsn : s < g.n) :
    firstByWalk g (buildTree g s) = (buildTree g s).first := by
  obtain ⟨hc, hf⟩ := C12.c12_dijkstra g hs hp s hsn
  exact TreeWalkL.firstByWalk_of_ok g hs hp _ (TreesL.checkSPT_ok _ _ hc) (TreesL.checkFirst_ok _ _ hf)
    (TreeWalkL.buildTree_first_length g s) (fun x hx hne h => TreeWalkL.buildTree_first_none g s x hx hne h)

/-- **`update_parities`**: for every vertex with a node the stack walk stores the parity of the number of signed edges on
its root path (`treeParity`), for every set of signed edges -/
theorem parityByWalk_eq (g : Graph) (hs : g.simpleB = true) (hp : g.positiveB = true) (s : Nat) (hsn : s < g.n)
    (signed : List Nat) (v : Nat) (hv : v < g.n) (hnode : (buildTree g s).hasNode v = true) :
    (parityByWalk g (buildTree g s) signed).getD v false = treeParity g (buildTree g s) signed v := by
  obtain ⟨hc, _⟩ := C12.c12_dijkstra g hs hp s hsn
  cases hd : (buildTree g s).dist.getD v none with
  | none => unfold SPTree.hasNode at hnode; rw [hd] at hnode; cases hnode
  | some d => exact TreeWalkL.parityByWalk_of_ok g hs hp _ (TreesL.checkSPT_ok _ _ hc) signed v hv d hd

end Parmcb
