import Parmcb.Model.Cert
import Parmcb.Lemmas.DePina
import Parmcb.Lemmas.Spanner
/-!
Soundness of the trace-validation certificates (Model/Cert.lean): what the compiled driver checks on the
implementation's runs IMPLIES the relational contract `Run` that the theorems of C01/C02 are about.
Core Lean only.
-/
namespace Parmcb

namespace CertL
open Parmcb.Spanner

/-! ### the enumeration oracle -/

theorem mem_subsetsOf_of_sublist {Z l : List Nat} (h : Z.Sublist l) : Z ∈ subsetsOf l := by
  induction h with
  | slnil => simp [subsetsOf]
  | cons a _ ih =>
    simp only [subsetsOf]
    exact List.mem_append_left _ ih
  | cons_cons a _ ih =>
    simp only [subsetsOf]
    exact List.mem_append_right _ (List.mem_map.2 ⟨_, ih, rfl⟩)

theorem sorted_sublist_range' : ∀ (k a : Nat) (Z : List Nat), StrictSorted Z →
    (∀ z ∈ Z, a ≤ z ∧ z < a + k) → Z.Sublist (List.range' a k) := by
  intro k
  induction k with
  | zero =>
    intro a Z _ hb
    cases Z with
    | nil => exact List.Sublist.slnil
    | cons x r => have := hb x List.mem_cons_self; omega
  | succ k ih =>
    intro a Z hZ hb
    rw [List.range'_succ]
    cases Z with
    | nil => exact List.nil_sublist _
    | cons x r =>
      have hx := hb x List.mem_cons_self
      by_cases hxa : x = a
      · subst hxa
        apply List.Sublist.cons_cons
        apply ih (x + 1) r hZ.tail
        intro z hz
        have h1 := hZ.head_lt z hz
        have h2 := hb z (List.mem_cons_of_mem _ hz)
        omega
      · apply List.Sublist.cons
        apply ih (a + 1) (x :: r) hZ
        intro z hz
        have h2 := hb z hz
        rcases List.mem_cons.1 hz with h | h
        · subst h; omega
        · have h1 := hZ.head_lt z h; omega

theorem sorted_mem_subsets_range (m : Nat) (Z : List Nat) (hZ : StrictSorted Z) (hb : ∀ z ∈ Z, z < m) :
    Z ∈ subsetsOf (List.range m) := by
  apply mem_subsetsOf_of_sublist
  rw [List.range_eq_range']
  apply sorted_sublist_range' m 0 Z hZ
  intro z hz
  have := hb z hz
  omega

/-- the fold step of `minOddBrute` -/
def minStep (g : Graph) (best : Option Int) (Z : List Nat) : Option Int :=
  match best with
  | none => some (wt g Z)
  | some b => if wt g Z < b then some (wt g Z) else some b

theorem foldl_minStep_lower (g : Graph) : ∀ (l : List (List Nat)) (init : Option Int) (μ : Int),
    l.foldl (minStep g) init = some μ →
    (∀ b, init = some b → μ ≤ b) ∧ ∀ Z ∈ l, μ ≤ wt g Z := by
  intro l
  induction l with
  | nil =>
    intro init μ h
    simp only [List.foldl_nil] at h
    refine ⟨?_, ?_⟩
    · intro b hb
      rw [hb] at h
      injection h with h
      omega
    · intro Z hZ; cases hZ
  | cons X l ih =>
    intro init μ h
    rw [List.foldl_cons] at h
    obtain ⟨h1, h2⟩ := ih _ μ h
    cases init with
    | none =>
      have h3 := h1 (wt g X) rfl
      refine ⟨?_, ?_⟩
      · intro b hb; cases hb
      · intro Z hZ
        rcases List.mem_cons.1 hZ with e | e
        · subst e; exact h3
        · exact h2 Z e
    | some b0 =>
      by_cases hlt : wt g X < b0
      · have h3 := h1 (wt g X) (by simp [minStep, hlt])
        refine ⟨?_, ?_⟩
        · intro b hb
          injection hb with hb
          omega
        · intro Z hZ
          rcases List.mem_cons.1 hZ with e | e
          · subst e; exact h3
          · exact h2 Z e
      · have h3 := h1 b0 (by simp [minStep, hlt])
        refine ⟨?_, ?_⟩
        · intro b hb
          injection hb with hb
          omega
        · intro Z hZ
          rcases List.mem_cons.1 hZ with e | e
          · subst e; omega
          · exact h2 Z e

theorem minOddBrute_eq (g : Graph) (S : List Nat) :
    minOddBrute g S =
      ((subsetsOf (List.range g.m)).filter (fun Z => evenSetB g Z && dotPar Z S)).foldl (minStep g) none :=
  rfl

/-! ### potentials along walks (F4) -/

theorem arcOk_use (π : Potential) (x y : Nat) (c a : Int) (h : arcOk π x y c = true)
    (hx : potGet π x = some a) : ∃ b, potGet π y = some b ∧ b ≤ a + c := by
  unfold arcOk at h
  rw [hx] at h
  cases hy : potGet π y with
  | none => rw [hy] at h; cases h
  | some b =>
    rw [hy] at h
    exact ⟨b, rfl, by simpa using h⟩

/-- feasibility gives the arc inequality along an edge, in the direction it is traversed, with the level
flipping exactly on the edges of `S` -/
theorem feasible_arc (g : Graph) (S : List Nat) (π : Potential) (hf : potFeasible g S π = true)
    (e : Nat) (he : e < g.m) (a c : Nat) (hj : Jn g e a c) (s : Bool) :
    arcOk π (sgNode g.n a s) (sgNode g.n c (xor s (S.contains e))) (g.weight e) = true := by
  unfold potFeasible at hf
  rw [List.all_eq_true] at hf
  have h := hf e (List.mem_range.2 he)
  simp only [List.all_cons, List.all_nil, Bool.and_true, Bool.and_eq_true] at h
  obtain ⟨⟨h1, h2⟩, ⟨h3, h4⟩⟩ := h
  rcases hj with ⟨ha, hc⟩ | ⟨ha, hc⟩
  · subst ha; subst hc
    cases s <;> cases hsg : S.contains e <;> simp only [hsg] at h1 h2 h3 h4 <;> simpa using (by assumption)
  · subst ha; subst hc
    cases s <;> cases hsg : S.contains e <;> simp only [hsg] at h1 h2 h3 h4 <;> simpa using (by assumption)

theorem walk_potential (g : Graph) (S : List Nat) (π : Potential) (hf : potFeasible g S π = true) :
    ∀ (es : List Nat) (x0 x1 : Nat) (s : Bool) (d0 : Int), (∀ e ∈ es, e < g.m) →
      isWalk g es x0 x1 = true → potGet π (sgNode g.n x0 s) = some d0 →
      ∃ d1, potGet π (sgNode g.n x1 (xor s (par es (fun e => S.contains e)))) = some d1 ∧
        d1 ≤ d0 + wt g es := by
  intro es
  induction es with
  | nil =>
    intro x0 x1 s d0 _ hw h0
    rw [isWalk_nil] at hw; subst hw
    refine ⟨d0, ?_, ?_⟩
    · rw [par_nil, Bool.xor_false]; exact h0
    · rw [wt_nil]; omega
  | cons e r ih =>
    intro x0 x1 s d0 hm hw h0
    rw [isWalk_cons] at hw
    obtain ⟨c, hj, hw'⟩ := hw
    have harc := feasible_arc g S π hf e (hm e List.mem_cons_self) x0 c hj s
    obtain ⟨b, hb, hle⟩ := arcOk_use π _ _ _ d0 harc h0
    obtain ⟨d1, hd1, hle1⟩ := ih c x1 _ b (fun f hf' => hm f (List.mem_cons_of_mem _ hf')) hw' hb
    refine ⟨d1, ?_, ?_⟩
    · rw [par_cons, ← Bool.xor_assoc]; exact hd1
    · rw [wt_cons]; omega

/-- a closed walk through `v` with odd `S`-parity weighs at least `L` -/
theorem closed_walk_bound (g : Graph) (hs : g.simpleB = true) (S : List Nat) (πs : List Potential) (L : Int)
    (h : checkPotential g S πs L = true) (T : List Nat) (v : Nat) (hne : T ≠ [])
    (hm : ∀ e ∈ T, e < g.m) (hw : isWalk g T v v = true)
    (hodd : par T (fun e => S.contains e) = true) : L ≤ wt g T := by
  have hv : v < g.n := by
    cases T with
    | nil => exact absurd rfl hne
    | cons e r =>
      rw [isWalk_cons] at hw
      obtain ⟨c, hj, _⟩ := hw
      have hf := simpleB_facts g hs e (hm e List.mem_cons_self)
      rcases hj with ⟨h1, _⟩ | ⟨h1, _⟩
      · rw [← h1]; exact hf.1
      · rw [← h1]; exact hf.2.1
  unfold checkPotential at h
  rw [Bool.and_eq_true, List.all_eq_true] at h
  have h1 := h.2 v (List.mem_range.2 hv)
  cases hπ : πs[v]? with
  | none => rw [hπ] at h1; cases h1
  | some π =>
    rw [hπ] at h1
    simp only [Bool.and_eq_true, beq_iff_eq] at h1
    obtain ⟨⟨hf, h0⟩, hL⟩ := h1
    obtain ⟨d1, hd1, hle⟩ := walk_potential g S π hf T v v true 0 hm hw h0
    rw [hodd] at hd1
    have hd1' : potGet π (sgNode g.n v false) = some d1 := hd1
    rw [hd1'] at hL
    have : L ≤ d1 := by simpa using hL
    omega

/-! ### trail extraction -/

/-- `walk_extract` with the extracted walk duplicate-free -/
theorem trail_extract (g : Graph) : ∀ (n : Nat) (Z : List Nat) (a b : Nat), Z.length = n → Z.Nodup → a ≠ b →
    (∀ x, par Z (g.inc x) = xor (x == a) (x == b)) →
    ∃ es, es.Nodup ∧ (∀ e ∈ es, e ∈ Z) ∧ isWalk g es a b = true := by
  intro n
  induction n with
  | zero =>
    intro Z a b hl _ hab hpar
    have : Z = [] := List.eq_nil_of_length_eq_zero hl
    subst this
    have := hpar a
    simp [par_nil, hab] at this
  | succ n ih =>
    intro Z a b hl hnd hab hpar
    have hpa : par Z (g.inc a) = true := by
      rw [hpar a]; simp [hab]
    have hex : ∃ f ∈ Z, g.inc a f = true := by
      apply Classical.byContradiction
      intro hno
      have : par Z (g.inc a) = false := by
        apply par_all_false
        intro e he
        cases hh : g.inc a e with
        | false => rfl
        | true => exact absurd ⟨e, he, hh⟩ hno
      rw [this] at hpa; cases hpa
    obtain ⟨f, hfZ, hfa⟩ := hex
    have hj : ∃ a', Jn g f a a' ∧ a' ≠ a := by
      unfold Graph.inc at hfa
      by_cases h1 : g.src f = a
      · refine ⟨g.tgt f, Or.inl ⟨h1, rfl⟩, ?_⟩
        intro h2
        rw [beq_iff_eq.2 h1, beq_iff_eq.2 h2] at hfa; cases hfa
      · by_cases h2 : g.tgt f = a
        · exact ⟨g.src f, Or.inr ⟨h2, rfl⟩, h1⟩
        · rw [beq_eq_false_iff_ne.2 h1, beq_eq_false_iff_ne.2 h2] at hfa; cases hfa
    obtain ⟨a', hj, ha'⟩ := hj
    have hperm := List.perm_cons_erase hfZ
    have hnd' : (Z.erase f).Nodup := hnd.erase f
    have hlen : (Z.erase f).length = n := by rw [List.length_erase_of_mem hfZ, hl]; rfl
    have hpar' : ∀ x, par (Z.erase f) (g.inc x) = xor (x == a') (x == b) := by
      intro x
      have h1 := par_perm hperm (g.inc x)
      rw [par_cons, hpar x, inc_of_jn g f a a' x hj] at h1
      revert h1
      cases (x == a) <;> cases (x == a') <;> cases (x == b) <;> cases par (Z.erase f) (g.inc x) <;> simp
    by_cases hab' : a' = b
    · subst hab'
      refine ⟨[f], ?_, ?_, ?_⟩
      · simp
      · intro e he; rw [List.mem_singleton] at he; subst he; exact hfZ
      · rw [isWalk_cons]; exact ⟨a', hj, (isWalk_nil g _ _).2 rfl⟩
    · obtain ⟨es, h1, h2, h3⟩ := ih (Z.erase f) a' b hlen hnd' hab' hpar'
      refine ⟨f :: es, ?_, ?_, ?_⟩
      · rw [List.nodup_cons]
        refine ⟨?_, h1⟩
        intro hmem
        have := (hnd.mem_erase_iff).1 (h2 f hmem)
        exact this.1 rfl
      · intro e he
        rcases List.mem_cons.1 he with h | h
        · subst h; exact hfZ
        · exact List.mem_of_mem_erase (h2 e h)
      · rw [isWalk_cons]; exact ⟨a', hj, h3⟩

theorem wt_perm (g : Graph) {l l' : List Nat} (h : l.Perm l') : wt g l = wt g l' := by
  induction h with
  | nil => rfl
  | cons x _ ih => rw [wt_cons, wt_cons, ih]
  | swap x y l => rw [wt_cons, wt_cons, wt_cons, wt_cons]; omega
  | trans _ _ ih1 ih2 => rw [ih1, ih2]

theorem wt_setOf (g : Graph) (l : List Nat) (hnd : l.Nodup) : wt g (setOf l) = wt g l := by
  apply wt_perm
  rw [List.perm_ext_iff_of_nodup (setOf_sorted l).nodup hnd]
  intro z; exact mem_setOf l z

theorem dotPar_nil_left (S : List Nat) : dotPar [] S = false := by
  simp [dotPar]

/-- the decomposition argument: strong induction on the size of `Z` -/
theorem potential_bound (g : Graph) (hs : g.simpleB = true) (hp : g.positiveB = true) (S : List Nat)
    (hS : StrictSorted S) (πs : List Potential) (L : Int) (h : checkPotential g S πs L = true) :
    ∀ (n : Nat) (Z : List Nat), Z.length ≤ n → EvenSet g Z → dotPar Z S = true → L ≤ wt g Z := by
  intro n
  induction n with
  | zero =>
    intro Z hl _ hodd
    have : Z = [] := List.eq_nil_of_length_eq_zero (by omega)
    subst this
    rw [dotPar_nil_left] at hodd; cases hodd
  | succ n ih =>
    intro Z hl hZ hodd
    cases Z with
    | nil => rw [dotPar_nil_left] at hodd; cases hodd
    | cons e r =>
      have hem : e < g.m := hZ.2.1 e List.mem_cons_self
      have hfe := simpleB_facts g hs e hem
      have hnd : (e :: r).Nodup := hZ.1.nodup
      have hnd' := List.nodup_cons.1 hnd
      have hje : Jn g e (g.src e) (g.tgt e) := Or.inl ⟨rfl, rfl⟩
      have hparr : ∀ x, par r (g.inc x) = xor (x == g.src e) (x == g.tgt e) := by
        intro x
        have h1 := hZ.2.2 x
        rw [par_cons, inc_of_jn g e _ _ x hje] at h1
        revert h1
        cases (x == g.src e) <;> cases (x == g.tgt e) <;> cases par r (g.inc x) <;> simp
      obtain ⟨es, hesnd, hessub, hesw⟩ := trail_extract g r.length r _ _ rfl hnd'.2 hfe.2.2 hparr
      -- the closed trail through `tgt e`
      have hTw : isWalk g (e :: es) (g.tgt e) (g.tgt e) = true := by
        rw [isWalk_cons]; exact ⟨g.src e, hje.symm, hesw⟩
      have hTnd : (e :: es).Nodup := by
        rw [List.nodup_cons]
        exact ⟨fun hmem => hnd'.1 (hessub e hmem), hesnd⟩
      have hTsub : ∀ f ∈ e :: es, f ∈ e :: r := by
        intro f hf
        rcases List.mem_cons.1 hf with h1 | h1
        · subst h1; exact List.mem_cons_self
        · exact List.mem_cons_of_mem _ (hessub f h1)
      have hTm : ∀ f ∈ e :: es, f < g.m := fun f hf => hZ.2.1 f (hTsub f hf)
      have hTZ : EvenSet g (setOf (e :: es)) := by
        refine ⟨setOf_sorted _, ?_, ?_⟩
        · intro f hf; exact hTm f ((mem_setOf _ f).1 hf)
        · intro x
          rw [par_setOf _ hTnd, walk_boundary g _ _ _ hTw x]
          cases (x == g.tgt e) <;> rfl
      have hTZsub : ∀ f ∈ setOf (e :: es), f ∈ e :: r := fun f hf => hTsub f ((mem_setOf _ f).1 hf)
      have hR : EvenSet g (xorMerge (e :: r) (setOf (e :: es))) := hZ.add hTZ
      have hw := wt_split g (e :: r) _ hZ.1 hTZ.1 hTZsub
      have hwT := wt_nonneg g hp _ hTZ.2.1
      have hwR := wt_nonneg g hp _ hR.2.1
      have hdot : dotPar (xorMerge (e :: r) (setOf (e :: es))) S
          = xor (dotPar (e :: r) S) (dotPar (setOf (e :: es)) S) := by
        rw [dotPar_eq_par _ _ hR.1 hS, dotPar_eq_par _ _ hZ.1 hS, dotPar_eq_par _ _ hTZ.1 hS,
          par_xorMerge]
      cases hts : dotPar (setOf (e :: es)) S with
      | true =>
        have hpT : par (e :: es) (fun f => S.contains f) = true := by
          rw [dotPar_eq_par _ _ hTZ.1 hS, par_setOf _ hTnd] at hts
          rw [← hts]
          apply par_congr
          intro f _
          simp
        have := closed_walk_bound g hs S πs L h (e :: es) (g.tgt e) (by simp) hTm hTw hpT
        rw [wt_setOf g _ hTnd] at hw hwT
        omega
      | false =>
        have hRodd : dotPar (xorMerge (e :: r) (setOf (e :: es))) S = true := by
          rw [hdot, hodd, hts]; rfl
        have hRlen : (xorMerge (e :: r) (setOf (e :: es))).length ≤ n := by
          have hsub : ∀ f ∈ xorMerge (e :: r) (setOf (e :: es)), f ∈ r := by
            intro f hf
            have h1 := (mem_xorMerge _ _ hZ.1 hTZ.1 f).1 hf
            have hfe' : f ≠ e := by
              intro hfe'
              subst hfe'
              have h2 : f ∈ setOf (f :: es) := (mem_setOf _ f).2 List.mem_cons_self
              have h3 : f ∈ f :: r := List.mem_cons_self
              simp [h2, h3] at h1
            have h4 : f ∈ e :: r := by
              rcases mem_xorMerge_of _ _ _ hf with h4 | h4
              · exact h4
              · exact hTZsub f h4
            rcases List.mem_cons.1 h4 with h5 | h5
            · exact absurd h5 hfe'
            · exact h5
          have := List.Nodup.length_le_of_subset hR.1.nodup hsub
          simp only [List.length_cons] at hl
          omega
        have := ih _ hRlen hR hRodd
        omega

end CertL

open CertL in
/-- the definitional optimum: `minOddBrute g S = some μ` bounds every odd element of the cycle space from
below, and `none` means there is none -/
theorem minOddBrute_lower (g : Graph) (hs : g.simpleB = true) (S : List Nat) (μ : Int)
    (h : minOddBrute g S = some μ) : ∀ Z, EvenSet g Z → dotPar Z S = true → μ ≤ wt g Z := by
  intro Z hZ hodd
  rw [minOddBrute_eq] at h
  apply (foldl_minStep_lower g _ _ μ h).2 Z
  rw [List.mem_filter]
  refine ⟨sorted_mem_subsets_range g.m Z hZ.1 hZ.2.1, ?_⟩
  rw [(evenSetB_iff g hs Z).2 hZ, hodd]
  rfl

theorem checkRunBrute_sound (g : Graph) (hs : g.simpleB = true) (v : Variant) (k : Nat)
    (sup cycles : List (List Nat)) (h : checkRunBrute g v k sup cycles = true) :
    Run g 1 v k sup cycles := by
  induction cycles generalizing k sup with
  | nil => trivial
  | cons c cs ih =>
    simp only [checkRunBrute, checkPhaseBrute, Bool.and_eq_true, beq_iff_eq] at h
    obtain ⟨⟨⟨h1, h2⟩, h3⟩, h4⟩ := h
    refine ⟨⟨(evenSetB_iff g hs c).1 h1, h2, ?_⟩, ih _ _ h4⟩
    intro Z hZ hodd
    rw [Int.one_mul]
    exact minOddBrute_lower g hs _ _ h3 Z hZ hodd

/-- **F4**: the potential certificate is sound.  If the check passes with bound `L`, every element of the
cycle space with odd intersection with `S` weighs at least `L` (positive weights). -/
theorem checkPotential_sound (g : Graph) (hs : g.simpleB = true) (hp : g.positiveB = true) (S : List Nat)
    (hS : StrictSorted S) (πs : List Potential) (L : Int) (h : checkPotential g S πs L = true) :
    ∀ Z, EvenSet g Z → dotPar Z S = true → L ≤ wt g Z := by
  intro Z hZ hodd
  exact CertL.potential_bound g hs hp S hS πs L h Z.length Z (Nat.le_refl _) hZ hodd

theorem checkRunPot_sound (g : Graph) (hs : g.simpleB = true) (hp : g.positiveB = true) (v : Variant) (k : Nat)
    (sup cycles : List (List Nat)) (hsup : ∀ S ∈ sup, StrictSorted S) (πss : List (List Potential))
    (h : checkRunPot g v k sup cycles πss = true) :
    Run g 1 v k sup cycles := by
  induction cycles generalizing k sup πss with
  | nil => trivial
  | cons c cs ih =>
    cases πss with
    | nil => simp [checkRunPot] at h
    | cons πs rest =>
      simp only [checkRunPot, checkPhasePot, Bool.and_eq_true] at h
      obtain ⟨⟨⟨h1, h2⟩, h3⟩, h4⟩ := h
      have hsorted : StrictSorted (phaseSupport v sup k) := by
        obtain ⟨Ss, rfl⟩ := exists_vals sup hsup
        exact phaseSupport_sorted v Ss k
      refine ⟨⟨(evenSetB_iff g hs c).1 h1, h2, ?_⟩,
        ih _ _ (phaseStep_sorted v sup k c hsup) _ h4⟩
      intro Z hZ hodd
      rw [Int.one_mul]
      exact checkPotential_sound g hs hp _ hsorted πs _ h3 Z hZ hodd

end Parmcb
