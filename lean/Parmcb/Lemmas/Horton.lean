import Parmcb.Props.C14
import Parmcb.Props.C13
import Parmcb.Props.C12
import Parmcb.Props.C02
/-!
Sufficiency of the Horton and FVS candidate collections (C14).  Core Lean only.

Every phase of de Pina's algorithm needs a minimum-weight element of the cycle space that is odd against the
support vector `S`.  `cand_sufficient`: whenever the roots of a family of certified shortest-path trees hit
every cycle of the graph, such an element is found among the cycles the trees offer
(`create_candidate_cycles`): no uniqueness of shortest paths is needed.
-/
namespace Parmcb
open Parmcb.C01 Parmcb.C02

/-- `C` is (the edge set of) a candidate offered by the `i`-th tree of the family -/
def InCollection (g : Graph) (trees : List SPTree) (C : List Nat) : Prop :=
  ∃ (i : Nat) (t : SPTree) (c : Cand), trees[i]? = some t ∧ c ∈ createCandidates g t i (List.range g.m) ∧
    unfoldCand g t c = some C

namespace HortonL
open Parmcb.Spanner Parmcb.TreesL

/-! ### generic parity / walk helpers -/

theorem par_and_const (l : List Nat) (b : Bool) (f : Nat → Bool) :
    par l (fun e => b && f e) = (b && par l f) := by
  cases b with
  | false => simpa using par_const_false l
  | true => simp

/-- handshake: for any vertex labelling `q`, the xor over an even-degree edge set of `q(src) ⊕ q(tgt)` vanishes -/
theorem handshake (g : Graph) (Z : List Nat) (hlt : ∀ e ∈ Z, g.src e < g.n ∧ g.tgt e < g.n)
    (hev : ∀ v, par Z (g.inc v) = false) (q : Nat → Bool) :
    par Z (fun e => xor (q (g.src e)) (q (g.tgt e))) = false := by
  have key : ∀ k, par Z (fun e => xor (q (g.src e) && decide (g.src e < k)) (q (g.tgt e) && decide (g.tgt e < k))) = false := by
    intro k
    induction k with
    | zero => simpa using par_const_false Z
    | succ k ih =>
      have : ∀ e ∈ Z, xor (q (g.src e) && decide (g.src e < k + 1)) (q (g.tgt e) && decide (g.tgt e < k + 1)) =
          xor (xor (q (g.src e) && decide (g.src e < k)) (q (g.tgt e) && decide (g.tgt e < k))) (q k && g.inc k e) := by
        intro e _
        unfold Graph.inc
        by_cases h1 : g.src e = k
        · by_cases h2 : g.tgt e = k
          · rw [h1, h2]; simp
          · have a1 : (g.tgt e == k) = false := beq_eq_false_iff_ne.2 h2
            have a2 : decide (g.tgt e < k + 1) = decide (g.tgt e < k) := by
              apply decide_eq_decide.2; omega
            rw [a1, a2, h1]; simp [Bool.xor_comm]
        · have a1 : (g.src e == k) = false := beq_eq_false_iff_ne.2 h1
          have a2 : decide (g.src e < k + 1) = decide (g.src e < k) := by
            apply decide_eq_decide.2; omega
          by_cases h2 : g.tgt e = k
          · rw [a1, a2, h2]; simp
          · have b1 : (g.tgt e == k) = false := beq_eq_false_iff_ne.2 h2
            have b2 : decide (g.tgt e < k + 1) = decide (g.tgt e < k) := by
              apply decide_eq_decide.2; omega
            rw [a1, a2, b1, b2]; simp
      rw [par_congr _ _ _ this, par_xor_fun, ih, par_and_const, hev k]; simp
  rw [← key g.n]
  apply par_congr
  intro e he
  have := hlt e he
  simp [this.1, this.2]

theorem exists_of_par_true (l : List Nat) (f : Nat → Bool) (h : par l f = true) : ∃ e ∈ l, f e = true := by
  apply Classical.byContradiction
  intro hno
  have : par l f = false := by
    apply par_all_false
    intro e he
    cases hh : f e with
    | false => rfl
    | true => exact absurd ⟨e, he, hh⟩ hno
  rw [this] at h; cases h

theorem isWalk_reverse (g : Graph) (es : List Nat) : ∀ (a b : Nat), isWalk g es a b = true →
    isWalk g es.reverse b a = true := by
  induction es with
  | nil => intro a b h; rw [isWalk_nil] at h; subst h; exact (isWalk_nil g _ _).2 rfl
  | cons e r ih =>
    intro a b h
    rw [isWalk_cons] at h
    obtain ⟨c, hj, hw⟩ := h
    rw [List.reverse_cons]
    exact isWalk_snoc g _ e b c a (ih c b hw) hj.symm

/-- a walk that touches `r` splits at `r` -/
theorem walk_split (g : Graph) (r : Nat) (es : List Nat) : ∀ (a b : Nat), isWalk g es a b = true →
    (r = a ∨ r = b ∨ ∃ e ∈ es, g.src e = r ∨ g.tgt e = r) →
    ∃ es1 es2, es = es1 ++ es2 ∧ isWalk g es1 a r = true ∧ isWalk g es2 r b = true := by
  induction es with
  | nil =>
    intro a b h hr
    rw [isWalk_nil] at h; subst h
    have : r = a := by
      rcases hr with h | h | ⟨e, he, _⟩
      · exact h
      · exact h
      · cases he
    subst this
    exact ⟨[], [], rfl, (isWalk_nil g _ _).2 rfl, (isWalk_nil g _ _).2 rfl⟩
  | cons e rest ih =>
    intro a b h hr
    by_cases hra : r = a
    · subst hra
      exact ⟨[], e :: rest, rfl, (isWalk_nil g _ _).2 rfl, h⟩
    · rw [isWalk_cons] at h
      obtain ⟨c, hj, hw⟩ := h
      have hr' : r = c ∨ r = b ∨ ∃ e' ∈ rest, g.src e' = r ∨ g.tgt e' = r := by
        rcases hr with h1 | h1 | ⟨e', he', h1⟩
        · exact absurd h1 hra
        · exact Or.inr (Or.inl h1)
        · rcases List.mem_cons.1 he' with h2 | h2
          · subst h2
            left
            rcases hj with ⟨j1, j2⟩ | ⟨j1, j2⟩ <;> rcases h1 with h1 | h1 <;> omega
          · exact Or.inr (Or.inr ⟨e', h2, h1⟩)
      obtain ⟨es1, es2, h1, h2, h3⟩ := ih c b hw hr'
      refine ⟨e :: es1, es2, by rw [h1]; rfl, ?_, h3⟩
      rw [isWalk_cons]; exact ⟨c, hj, h2⟩

/-- `walk_extract`, also returning that the walk repeats no edge -/
theorem walk_extract_nodup (g : Graph) : ∀ (n : Nat) (Z : List Nat) (a b : Nat), Z.length = n → Z.Nodup → a ≠ b →
    (∀ x, par Z (g.inc x) = xor (x == a) (x == b)) →
    ∃ es, es.Nodup ∧ (∀ e ∈ es, e ∈ Z) ∧ isWalk g es a b = true := by
  intro n
  induction n with
  | zero =>
    intro Z a b hl _ hab hpar
    have : Z = [] := List.eq_nil_of_length_eq_zero hl
    subst this
    have := hpar a
    simp [par_nil, hab] at this
  | succ n ih =>
    intro Z a b hl hnd hab hpar
    have hpa : par Z (g.inc a) = true := by
      rw [hpar a]; simp [hab]
    obtain ⟨f, hfZ, hfa⟩ := exists_of_par_true _ _ hpa
    have hj : ∃ a', Jn g f a a' ∧ a' ≠ a := by
      unfold Graph.inc at hfa
      by_cases h1 : g.src f = a
      · refine ⟨g.tgt f, Or.inl ⟨h1, rfl⟩, ?_⟩
        intro h2
        rw [beq_iff_eq.2 h1, beq_iff_eq.2 h2] at hfa; cases hfa
      · by_cases h2 : g.tgt f = a
        · exact ⟨g.src f, Or.inr ⟨h2, rfl⟩, h1⟩
        · rw [beq_eq_false_iff_ne.2 h1, beq_eq_false_iff_ne.2 h2] at hfa; cases hfa
    obtain ⟨a', hj, ha'⟩ := hj
    have hperm := List.perm_cons_erase hfZ
    have hnd' : (Z.erase f).Nodup := hnd.erase f
    have hlen : (Z.erase f).length = n := by rw [List.length_erase_of_mem hfZ, hl]; rfl
    have hpar' : ∀ x, par (Z.erase f) (g.inc x) = xor (x == a') (x == b) := by
      intro x
      have h1 := par_perm hperm (g.inc x)
      rw [par_cons, hpar x, inc_of_jn g f a a' x hj] at h1
      revert h1
      cases (x == a) <;> cases (x == a') <;> cases (x == b) <;> cases par (Z.erase f) (g.inc x) <;> simp
    by_cases hab' : a' = b
    · subst hab'
      refine ⟨[f], by simp, ?_, ?_⟩
      · intro e he; rw [List.mem_singleton] at he; subst he; exact hfZ
      · rw [isWalk_cons]; exact ⟨a', hj, (isWalk_nil g _ _).2 rfl⟩
    · obtain ⟨es, h1, h2, h3⟩ := ih (Z.erase f) a' b hlen hnd' hab' hpar'
      refine ⟨f :: es, ?_, ?_, ?_⟩
      · refine List.nodup_cons.2 ⟨?_, h1⟩
        intro hf
        exact (List.Nodup.mem_erase_iff hnd).1 (h2 f hf) |>.1 rfl
      · intro e he
        rcases List.mem_cons.1 he with h | h
        · subst h; exact hfZ
        · exact List.mem_of_mem_erase (h2 e h)
      · rw [isWalk_cons]; exact ⟨a', hj, h3⟩

/-- weight of a symmetric difference: never more than the sum, and twice a common element less -/
theorem wt_xorMerge_le (g : Graph) (a b : List Nat) (ha : ∀ e ∈ a, 0 < g.weight e) (hb : ∀ e ∈ b, 0 < g.weight e)
    (hsa : StrictSorted a) (hsb : StrictSorted b) :
    wt g (xorMerge a b) ≤ wt g a + wt g b ∧
    ∀ e, e ∈ a → e ∈ b → wt g (xorMerge a b) + 2 * g.weight e ≤ wt g a + wt g b := by
  fun_induction xorMerge a b with
  | case1 b => refine ⟨by simp [wt_nil], ?_⟩; intro e he; cases he
  | case2 a _ => refine ⟨by simp [wt_nil], ?_⟩; intro e _ he; cases he
  | case3 x a y b hgt ih =>
    have ih' := ih ha (fun e he => hb e (List.mem_cons_of_mem _ he)) hsa hsb.tail
    simp only [wt_cons] at ih' ⊢
    refine ⟨by omega, ?_⟩
    intro e h1 h2
    rcases List.mem_cons.1 h2 with h | h
    · exfalso; subst h
      rcases List.mem_cons.1 h1 with h | h
      · omega
      · have := hsa.head_lt e h; omega
    · have := ih'.2 e h1 h; omega
  | case4 x a y b hgt hlt ih =>
    have ih' := ih (fun e he => ha e (List.mem_cons_of_mem _ he)) hb hsa.tail hsb
    simp only [wt_cons] at ih' ⊢
    refine ⟨by omega, ?_⟩
    intro e h1 h2
    rcases List.mem_cons.1 h1 with h | h
    · exfalso; subst h
      rcases List.mem_cons.1 h2 with h | h
      · omega
      · have := hsb.head_lt e h; omega
    · have := ih'.2 e h h2; omega
  | case5 x a y b hgt hlt ih =>
    have hxy : x = y := by omega
    subst hxy
    have ih' := ih (fun e he => ha e (List.mem_cons_of_mem _ he)) (fun e he => hb e (List.mem_cons_of_mem _ he))
      hsa.tail hsb.tail
    have hx := ha x List.mem_cons_self
    simp only [wt_cons] at ih' ⊢
    refine ⟨by omega, ?_⟩
    intro e h1 h2
    rcases List.mem_cons.1 h1 with h | h
    · subst h; omega
    · rcases List.mem_cons.1 h2 with h' | h'
      · subst h'; exact absurd h hsa.not_mem_head
      · have := ih'.2 e h h'; omega

/-! ### facts about a certified tree -/

theorem chain_unique (g : Graph) (t : SPTree) : ∀ (p p' : List Nat) (v : Nat),
    IsChain g t v p → IsChain g t v p' → p = p' := by
  intro p
  induction p with
  | nil =>
    intro p' v h h'
    cases p' with
    | nil => rfl
    | cons e r => exact absurd h h'.1
  | cons e r ih =>
    intro p' v h h'
    cases p' with
    | nil => exact absurd h' h.1
    | cons e' r' =>
      obtain ⟨_, h2, h3⟩ := h
      obtain ⟨_, h2', h3'⟩ := h'
      rw [h2] at h2'; cases h2'
      rw [ih r' _ h3 h3']

theorem rootPath_step (g : Graph) (hs : g.simpleB = true) (hp : g.positiveB = true) (t : SPTree)
    (ok : SPTOk g t) (w f : Nat) (hw : w < g.n) (hne : w ≠ t.source) (hpw : t.pred.getD w none = some f) :
    f < g.m ∧ (g.src f = w ∨ g.tgt f = w) ∧
    rootPath g t g.n w = f :: rootPath g t g.n (g.other f w) := by
  rcases node_facts g hp t ok w hw hne with ⟨_, h⟩ | ⟨dv, e, dp, a1, a2, a3, a4, a5, a6, a7⟩
  · rw [hpw] at h; cases h
  rw [hpw] at a2; cases a2
  refine ⟨a3, a4, ?_⟩
  have ch := rootPath_isChain g hs hp t ok (g.other f w) (other_lt g hs f w a3) dp a5
  have chw := rootPath_isChain g hs hp t ok w hw dv a1
  exact chain_unique g t _ _ w chw ⟨hne, hpw, ch⟩

theorem chain_first_pred (g : Graph) (hs : g.simpleB = true) (hp : g.positiveB = true) (t : SPTree)
    (ok : SPTOk g t) (fok : FirstOk g t) : ∀ (p : List Nat) (v : Nat), v < g.n → v ≠ t.source →
    IsChain g t v p → ∃ e, e ∈ p ∧ t.pred.getD (t.first.getD v 0) none = some e := by
  intro p
  induction p with
  | nil => intro v _ hne hch; exact absurd hch hne
  | cons e r ih =>
    intro v hv hne hch
    obtain ⟨_, hpe, hch'⟩ := hch
    rcases node_facts g hp t ok v hv hne with ⟨_, h⟩ | ⟨dv, e1, dp, a1, a2, a3, a4, a5, a6, a7⟩
    · rw [hpe] at h; cases h
    rw [hpe] at a2; cases a2
    have hst := fok.step v e hv hne hpe
    by_cases hps : g.other e v = t.source
    · refine ⟨e, List.mem_cons_self, ?_⟩
      rw [hst.1 hps]; exact hpe
    · obtain ⟨e', h1, h2⟩ := ih (g.other e v) (other_lt g hs e v a3) hps hch'
      refine ⟨e', List.mem_cons_of_mem _ h1, ?_⟩
      rw [hst.2 hps]; exact h2

theorem first_ne_source (g : Graph) (hs : g.simpleB = true) (hp : g.positiveB = true) (t : SPTree)
    (hc : checkSPT g t = true) (hf : checkFirst g t = true) (v : Nat) (hv : v < g.n) (hne : v ≠ t.source)
    (d : Int) (hd : t.dist.getD v none = some d) : t.first.getD v 0 ≠ t.source := by
  obtain ⟨e, _, h1, h2⟩ := first_spec g hs hp t hc hf v hv hne d hd
  intro h
  rw [h] at h1 h2
  unfold Graph.other at h1
  unfold Graph.inc at h2
  by_cases h3 : g.src e = t.source
  · rw [if_pos h3] at h1
    rw [beq_iff_eq.2 h3, beq_iff_eq.2 h1] at h2; cases h2
  · rw [if_neg h3] at h1; exact h3 h1

/-- parity of the signed edges on the root path of `v` -/
def pq (g : Graph) (t : SPTree) (S : List Nat) (v : Nat) : Bool :=
  par (rootPath g t g.n v) (fun e => decide (e ∈ S))

/-- the parity label of the edge `f` -/
def lab (g : Graph) (t : SPTree) (S : List Nat) (f : Nat) : Bool :=
  xor (xor (pq g t S (g.src f)) (pq g t S (g.tgt f))) (decide (f ∈ S))

theorem candOdd_eq (g : Graph) (t : SPTree) (S : List Nat) (c : Cand) : candOdd g t S c = lab g t S c.edge := by
  unfold candOdd treeParity lab pq
  have hfun : (fun e => S.contains e) = (fun e => decide (e ∈ S)) := by
    funext e; simp
  rw [hfun, List.contains_eq_mem]

/-- some non-tree edge of an odd element of the cycle space carries an odd label -/
theorem odd_nontree (g : Graph) (hs : g.simpleB = true) (hp : g.positiveB = true) (t : SPTree)
    (hc : checkSPT g t = true) (S : List Nat) (hS : StrictSorted S) (Z : List Nat) (hZ : EvenSet g Z)
    (hodd : dotPar Z S = true) : ∃ f, f ∈ Z ∧ f ∉ treeEdges g t ∧ lab g t S f = true := by
  have ok := checkSPT_ok g t hc
  have h1 : par Z (lab g t S) = true := by
    have e1 : lab g t S = fun e => xor ((fun e => xor (pq g t S (g.src e)) (pq g t S (g.tgt e))) e)
        ((fun e => decide (e ∈ S)) e) := rfl
    rw [e1, par_xor_fun, handshake g Z ?_ hZ.2.2, ← dotPar_eq_par _ _ hZ.1 hS, hodd]
    · rfl
    · intro e he
      have := simpleB_facts g hs e (hZ.2.1 e he)
      exact ⟨this.1, this.2.1⟩
  obtain ⟨f, hfZ, hlab⟩ := exists_of_par_true _ _ h1
  refine ⟨f, hfZ, ?_, hlab⟩
  intro hte
  unfold treeEdges at hte
  rw [List.mem_filterMap] at hte
  obtain ⟨w, hw, hpw⟩ := hte
  rw [List.mem_range] at hw
  have hne : w ≠ t.source := by
    intro h; rw [h, ok.pred_src] at hpw; cases hpw
  obtain ⟨_, hend, hrp⟩ := rootPath_step g hs hp t ok w f hw hne hpw
  have hq : pq g t S w = xor (decide (f ∈ S)) (pq g t S (g.other f w)) := by
    unfold pq; rw [hrp, par_cons]
  unfold lab at hlab
  unfold Graph.other at hq
  by_cases h3 : g.src f = w
  · rw [if_pos h3] at hq
    rw [h3, hq] at hlab
    revert hlab
    cases decide (f ∈ S) <;> cases pq g t S (g.tgt f) <;> simp
  · rw [if_neg h3] at hq
    have h4 : g.tgt f = w := by
      rcases hend with h | h
      · exact absurd h h3
      · exact h
    rw [h4, hq] at hlab
    revert hlab
    cases decide (f ∈ S) <;> cases pq g t S (g.src f) <;> simp

/-- the fundamental bound: a circuit through the root `r` and the edge `f = xy` weighs at least
`d(x) + w(f) + d(y)` -/
theorem weight_bound (g : Graph) (hs : g.simpleB = true) (t : SPTree)
    (hc : checkSPT g t = true) (Z : List Nat) (hcirc : Circuit g Z)
    (f0 : Nat) (hf0 : f0 ∈ Z) (hr : g.src f0 = t.source ∨ g.tgt f0 = t.source) (f : Nat) (hfZ : f ∈ Z) :
    ∃ dx dy, t.dist.getD (g.src f) none = some dx ∧ t.dist.getD (g.tgt f) none = some dy ∧
      dx + g.weight f + dy ≤ wt g Z := by
  obtain ⟨hZ, _, hminc⟩ := hcirc
  have hnd := hZ.1.nodup
  have hfm := hZ.2.1 f hfZ
  have hst := simpleB_facts g hs f hfm
  have hperm := List.perm_cons_erase hfZ
  have hnd' : (Z.erase f).Nodup := hnd.erase f
  have hj : Jn g f (g.src f) (g.tgt f) := Or.inl ⟨rfl, rfl⟩
  have hpar' : ∀ x, par (Z.erase f) (g.inc x) = xor (x == g.src f) (x == g.tgt f) := by
    intro x
    have h1 := par_perm hperm (g.inc x)
    rw [par_cons, hZ.2.2 x, inc_of_jn g f _ _ x hj] at h1
    revert h1
    cases (x == g.src f) <;> cases (x == g.tgt f) <;> cases par (Z.erase f) (g.inc x) <;> simp
  obtain ⟨es, hesnd, hessub, hesw⟩ := walk_extract_nodup g _ (Z.erase f) _ _ rfl hnd' hst.2.2 hpar'
  have hfes : f ∉ es := fun h => ((List.Nodup.mem_erase_iff hnd).1 (hessub f h)).1 rfl
  have hnd2 : (f :: es).Nodup := List.nodup_cons.2 ⟨hfes, hesnd⟩
  have hsubZ : ∀ e ∈ f :: es, e ∈ Z := by
    intro e he
    rcases List.mem_cons.1 he with h | h
    · subst h; exact hfZ
    · exact List.mem_of_mem_erase (hessub e h)
  have hA : EvenSet g (setOf (f :: es)) := by
    refine ⟨setOf_sorted _, ?_, ?_⟩
    · intro e he; rw [mem_setOf] at he; exact hZ.2.1 e (hsubZ e he)
    · intro x
      rw [par_setOf _ hnd2, par_cons, walk_boundary g es _ _ hesw x, inc_of_jn g f _ _ x hj]
      cases (x == g.src f) <;> cases (x == g.tgt f) <;> rfl
  have hAne : setOf (f :: es) ≠ [] := by
    intro h
    have : f ∈ setOf (f :: es) := (mem_setOf _ _).2 List.mem_cons_self
    rw [h] at this; cases this
  have hAZ := hminc _ hA hAne (fun e he => hsubZ e ((mem_setOf _ _).1 he))
  have hall : ∀ e ∈ Z.erase f, e ∈ es := by
    intro e he
    have h1 := (List.Nodup.mem_erase_iff hnd).1 he
    have : e ∈ setOf (f :: es) := by rw [hAZ]; exact h1.2
    rw [mem_setOf] at this
    rcases List.mem_cons.1 this with h | h
    · exact absurd h h1.1
    · exact h
  have hpes : es.Perm (Z.erase f) := by
    rw [List.perm_ext_iff_of_nodup hesnd hnd']
    intro e; exact ⟨hessub e, hall e⟩
  have htouch : t.source = g.src f ∨ t.source = g.tgt f ∨
      ∃ e ∈ es, g.src e = t.source ∨ g.tgt e = t.source := by
    by_cases h : f0 = f
    · subst h
      rcases hr with h | h
      · exact Or.inl h.symm
      · exact Or.inr (Or.inl h.symm)
    · exact Or.inr (Or.inr ⟨f0, hall f0 ((List.Nodup.mem_erase_iff hnd).2 ⟨h, hf0⟩), hr⟩)
  obtain ⟨es1, es2, hsplit, hw1, hw2⟩ := walk_split g t.source es _ _ hesw htouch
  have hltes : ∀ e ∈ es, e < g.m := fun e he => hZ.2.1 e (List.mem_of_mem_erase (hessub e he))
  have hlt1 : ∀ e ∈ es1.reverse, e < g.m := by
    intro e he
    apply hltes; rw [hsplit]; exact List.mem_append_left _ (List.mem_reverse.1 he)
  have hlt2 : ∀ e ∈ es2, e < g.m := by
    intro e he
    apply hltes; rw [hsplit]; exact List.mem_append_right _ he
  obtain ⟨dx, hdx, hle1⟩ := dist_lower g t hc (g.src f) es1.reverse hlt1 (isWalk_reverse g es1 _ _ hw1)
  obtain ⟨dy, hdy, hle2⟩ := dist_lower g t hc (g.tgt f) es2 hlt2 hw2
  refine ⟨dx, dy, hdx, hdy, ?_⟩
  have e1 : wt g Z = g.weight f + wt g (Z.erase f) := by rw [wt_perm g hperm, wt_cons]
  have e2 : wt g (Z.erase f) = wt g es1 + wt g es2 := by rw [← wt_perm g hpes, hsplit, wt_app]
  have e3 : wt g es1.reverse = wt g es1 := wt_perm g (List.reverse_perm _)
  omega

/-- two root paths with the same `first` label share the edge at the root: the closed walk through
`f` contains a strictly lighter element of the cycle space with the same parity -/
theorem same_first (g : Graph) (hs : g.simpleB = true) (hp : g.positiveB = true) (t : SPTree)
    (hc : checkSPT g t = true) (hf : checkFirst g t = true) (S : List Nat) (hS : StrictSorted S)
    (f : Nat) (hfm : f < g.m) (dx dy : Int) (hdx : t.dist.getD (g.src f) none = some dx)
    (hdy : t.dist.getD (g.tgt f) none = some dy)
    (hfirst : t.first.getD (g.src f) 0 = t.first.getD (g.tgt f) 0) :
    ∃ A, EvenSet g A ∧ dotPar A S = lab g t S f ∧ wt g A < dx + dy + g.weight f := by
  have ok := checkSPT_ok g t hc
  have fok := checkFirst_ok g t hf
  have hst := simpleB_facts g hs f hfm
  have hxr : g.src f ≠ t.source := by
    intro h
    have hy : g.tgt f ≠ t.source := fun h' => hst.2.2 (h.trans h'.symm)
    apply first_ne_source g hs hp t hc hf _ hst.2.1 hy dy hdy
    rw [← hfirst, h]; exact fok.first_src
  have hyr : g.tgt f ≠ t.source := by
    intro h
    apply first_ne_source g hs hp t hc hf _ hst.1 hxr dx hdx
    rw [hfirst, h]; exact fok.first_src
  have chx := rootPath_isChain g hs hp t ok _ hst.1 dx hdx
  have chy := rootPath_isChain g hs hp t ok _ hst.2.1 dy hdy
  obtain ⟨wx, kx, nx, mx⟩ := chain_spec g hs hp t ok _ _ dx hst.1 hdx chx
  obtain ⟨wy, ky, ny, my⟩ := chain_spec g hs hp t ok _ _ dy hst.2.1 hdy chy
  obtain ⟨e, hex, hpe⟩ := chain_first_pred g hs hp t ok fok _ _ hst.1 hxr chx
  obtain ⟨e', hey, hpe'⟩ := chain_first_pred g hs hp t ok fok _ _ hst.2.1 hyr chy
  rw [← hfirst, hpe] at hpe'
  cases hpe'
  have hj : Jn g f (g.src f) (g.tgt f) := Or.inl ⟨rfl, rfl⟩
  have hPX := setOf_sorted (rootPath g t g.n (g.src f))
  have hPY := setOf_sorted (rootPath g t g.n (g.tgt f))
  have hXY := xorMerge_sorted _ _ hPX hPY
  have hF : StrictSorted [f] := trivial
  have hposX : ∀ a ∈ setOf (rootPath g t g.n (g.src f)), 0 < g.weight a := by
    intro a ha; rw [mem_setOf] at ha; exact positiveB_facts g hp a (mx a ha).1
  have hposY : ∀ a ∈ setOf (rootPath g t g.n (g.tgt f)), 0 < g.weight a := by
    intro a ha; rw [mem_setOf] at ha; exact positiveB_facts g hp a (my a ha).1
  have hposXY : ∀ a ∈ xorMerge (setOf (rootPath g t g.n (g.src f))) (setOf (rootPath g t g.n (g.tgt f))),
      0 < g.weight a := by
    intro a ha
    rcases mem_xorMerge_of _ _ _ ha with h | h
    · exact hposX a h
    · exact hposY a h
  have hposF : ∀ a ∈ [f], 0 < g.weight a := by
    intro a ha; rw [List.mem_singleton] at ha; subst ha; exact positiveB_facts g hp a hfm
  refine ⟨xorMerge (xorMerge (setOf (rootPath g t g.n (g.src f))) (setOf (rootPath g t g.n (g.tgt f)))) [f],
    ⟨xorMerge_sorted _ _ hXY hF, ?_, ?_⟩, ?_, ?_⟩
  · intro a ha
    rcases mem_xorMerge_of _ _ _ ha with h | h
    · rcases mem_xorMerge_of _ _ _ h with h | h
      · rw [mem_setOf] at h; exact (mx a h).1
      · rw [mem_setOf] at h; exact (my a h).1
    · rw [List.mem_singleton] at h; subst h; exact hfm
  · intro x
    rw [par_xorMerge, par_xorMerge, par_setOf _ nx, par_setOf _ ny, walk_boundary g _ _ _ wx x,
      walk_boundary g _ _ _ wy x, par_cons, par_nil, inc_of_jn g f _ _ x hj]
    cases (x == g.src f) <;> cases (x == g.tgt f) <;> cases (x == t.source) <;> rfl
  · rw [dotPar_eq_par _ _ (xorMerge_sorted _ _ hXY hF) hS, par_xorMerge, par_xorMerge, par_setOf _ nx,
      par_setOf _ ny, par_cons, par_nil]
    unfold lab pq
    simp
  · have h1 := (wt_xorMerge_le g _ _ hposXY hposF hXY hF).1
    have h2 := (wt_xorMerge_le g _ _ hposX hposY hPX hPY).2 e ((mem_setOf _ _).2 hex) ((mem_setOf _ _).2 hey)
    have h3 := positiveB_facts g hp e (mx e hex).1
    rw [wt_setOf g _ nx, wt_setOf g _ ny, kx, ky] at h2
    rw [wt_cons, wt_nil] at h1
    omega

/-- the candidate found in a tree whose root lies on the circuit -/
theorem tree_cand (g : Graph) (hs : g.simpleB = true) (hp : g.positiveB = true) (t : SPTree) (i : Nat)
    (hc : checkSPT g t = true) (hf : checkFirst g t = true)
    (S : List Nat) (hS : StrictSorted S) (Z : List Nat) (hcirc : Circuit g Z) (hodd : dotPar Z S = true)
    (hmin : ∀ Z', EvenSet g Z' → dotPar Z' S = true → wt g Z ≤ wt g Z')
    (f0 : Nat) (hf0 : f0 ∈ Z) (hr : g.src f0 = t.source ∨ g.tgt f0 = t.source) :
    ∃ c C, c ∈ createCandidates g t i (List.range g.m) ∧ unfoldCand g t c = some C ∧ EvenSet g C ∧
      dotPar C S = true ∧ wt g C ≤ wt g Z := by
  obtain ⟨f, hfZ, hnt, hlab⟩ := odd_nontree g hs hp t hc S hS Z hcirc.1 hodd
  obtain ⟨dx, dy, hdx, hdy, hle⟩ := weight_bound g hs t hc Z hcirc f0 hf0 hr f hfZ
  have hfm := hcirc.1.2.1 f hfZ
  by_cases hfirst : t.first.getD (g.src f) 0 = t.first.getD (g.tgt f) 0
  · exfalso
    obtain ⟨A, hA, hAodd, hAw⟩ := same_first g hs hp t hc hf S hS f hfm dx dy hdx hdy hfirst
    have := hmin A hA (by rw [hAodd, hlab])
    omega
  · have hmem : (⟨i, f, g.weight f + dx + dy⟩ : Cand) ∈ createCandidates g t i (List.range g.m) := by
      rw [mem_createCandidates]
      exact ⟨List.mem_range.2 hfm, rfl, hnt, dx, dy, hdx, hdy, hfirst, rfl⟩
    obtain ⟨C, hunf, hEv, _, hwt⟩ := cand_sound g hs hp t i hc hf _ hmem
    refine ⟨_, C, hmem, hunf, hEv, ?_, ?_⟩
    · rw [← parity_label g hs hp t i hc hf _ hmem S hS C hunf, candOdd_eq]; exact hlab
    · rw [hwt]; show g.weight f + dx + dy ≤ wt g Z; omega

/-! ### runs -/

/-- a run over a collection whose phases are unrestricted phases is a run of the unrestricted algorithm
(supports stay canonical along the way) -/
theorem runIn_run (g : Graph) (cand : List Nat → Prop) (v : Variant)
    (himp : ∀ S C, StrictSorted S → PhaseOKIn g cand S C → PhaseOK g 1 S C) :
    ∀ (cycles : List (List Nat)) (k : Nat) (Ss : List SVec),
      RunIn g cand v k (vals Ss) cycles → Run g 1 v k (vals Ss) cycles := by
  intro cycles
  induction cycles with
  | nil => intro _ _ _; trivial
  | cons c cs ih =>
    intro k Ss h
    obtain ⟨h1, h2⟩ := h
    refine ⟨himp _ _ (phaseSupport_sorted v Ss k) h1, ?_⟩
    rw [phaseStep_vals] at h2 ⊢
    exact ih _ _ h2

theorem acyclic_of_no_edge (g : Graph) (F : List Nat) (h : ∀ e, e < g.m → e ∉ F) : Acyclic g F := by
  intro Z hZ hsub
  cases Z with
  | nil => rfl
  | cons e Z' =>
    exact absurd (hsub e List.mem_cons_self) (h e (hZ.2.1 e List.mem_cons_self))

end HortonL

/-- **key lemma** -/
theorem cand_sufficient (g : Graph) (hs : g.simpleB = true) (hp : g.positiveB = true) (trees : List SPTree)
    (hck : ∀ t ∈ trees, checkSPT g t = true ∧ checkFirst g t = true)
    (hhit : Acyclic g (C13.survivingEdges g (trees.map (·.source))))
    (S : List Nat) (hS : StrictSorted S) (Z : List Nat) (hZ : EvenSet g Z) (hodd : dotPar Z S = true)
    (hmin : ∀ Z', EvenSet g Z' → dotPar Z' S = true → wt g Z ≤ wt g Z') :
    ∃ C, InCollection g trees C ∧ EvenSet g C ∧ dotPar C S = true ∧ wt g C ≤ wt g Z := by
  have hcirc := minOdd_circuit g hp S Z hS hZ hodd hmin
  have hex : ∃ f0, f0 ∈ Z ∧ f0 ∉ C13.survivingEdges g (trees.map (·.source)) := by
    apply Classical.byContradiction
    intro hno
    apply hcirc.2.1
    apply hhit Z hZ
    intro e he
    apply Classical.byContradiction
    intro h; exact hno ⟨e, he, h⟩
  obtain ⟨f0, hf0, hns⟩ := hex
  have hf0m := hZ.2.1 f0 hf0
  have htree : ∃ t, t ∈ trees ∧ (g.src f0 = t.source ∨ g.tgt f0 = t.source) := by
    apply Classical.byContradiction
    intro hno
    apply hns
    unfold C13.survivingEdges
    rw [List.mem_filter]
    refine ⟨List.mem_range.2 hf0m, ?_⟩
    have ha : ∀ x, (g.src f0 = x ∨ g.tgt f0 = x) → (trees.map (·.source)).contains x = false := by
      intro x hx
      cases h : (trees.map (·.source)).contains x with
      | false => rfl
      | true =>
        rw [List.contains_iff_mem, List.mem_map] at h
        obtain ⟨t, ht, hts⟩ := h
        exfalso
        apply hno
        refine ⟨t, ht, ?_⟩
        rw [hts]; exact hx
    rw [ha _ (Or.inl rfl), ha _ (Or.inr rfl)]; rfl
  obtain ⟨t, ht, hr⟩ := htree
  obtain ⟨i, hi⟩ := List.getElem?_of_mem ht
  obtain ⟨hc, hf⟩ := hck t ht
  obtain ⟨c, C, hmem, hunf, hEv, hCodd, hCw⟩ :=
    HortonL.tree_cand g hs hp t i hc hf S hS Z hcirc hodd hmin f0 hf0 hr
  exact ⟨C, ⟨i, t, c, hi, hmem, hunf⟩, hEv, hCodd, hCw⟩

/-- a phase that minimises over the collection only is a phase of the unrestricted algorithm -/
theorem phaseOKIn_phaseOK (g : Graph) (hs : g.simpleB = true) (hp : g.positiveB = true) (trees : List SPTree)
    (hck : ∀ t ∈ trees, checkSPT g t = true ∧ checkFirst g t = true)
    (hhit : Acyclic g (C13.survivingEdges g (trees.map (·.source))))
    (S : List Nat) (hS : StrictSorted S) (C : List Nat)
    (h : PhaseOKIn g (InCollection g trees) S C) : PhaseOK g 1 S C := by
  obtain ⟨hcand, hE, hodd, hmin⟩ := h
  obtain ⟨Z0, hZ0, hZ0odd, hZ0min⟩ := phaseOK_exists g hp S ⟨C, hE, hodd⟩
  have hmin0 : ∀ Z', EvenSet g Z' → dotPar Z' S = true → wt g Z0 ≤ wt g Z' := by
    intro Z' h1 h2
    have := hZ0min Z' h1 h2
    rwa [Int.one_mul] at this
  obtain ⟨C', hC'in, hC'E, hC'odd, hC'w⟩ :=
    cand_sufficient g hs hp trees hck hhit S hS Z0 hZ0 hZ0odd hmin0
  refine ⟨hE, hodd, ?_⟩
  intro Z hZ hZodd
  have h1 := hmin C' hC'in hC'E hC'odd
  have h2 := hmin0 Z hZ hZodd
  rw [Int.one_mul]; omega

/-- **sufficiency**: a run whose phases look their cycle up in the collection — from any permuted start
state, as the parallel variants have it — yields a minimum cycle basis -/
theorem collection_sufficient (g : Graph) (N : Nat) (trees : List SPTree) (v : Variant)
    (sup0 cycles : List (List Nat)) (hd : ExactDomain g N)
    (hck : ∀ t ∈ trees, checkSPT g t = true ∧ checkFirst g t = true)
    (hhit : Acyclic g (C13.survivingEdges g (trees.map (·.source))))
    (hperm : sup0.Perm (unitSupports N)) (hlen : cycles.length = N)
    (hr : RunIn g (InCollection g trees) v 0 sup0 cycles) : IsMCB g cycles := by
  have hs := hd.simple
  have hp := hd.positive
  obtain ⟨Ss0, hv, _⟩ := DP2.init_exists N sup0 hperm
  subst hv
  have hrun : Run g 1 v 0 (vals Ss0) cycles :=
    HortonL.runIn_run g _ v (fun S C hS h => phaseOKIn_phaseOK g hs hp trees hck hhit S hS C h) cycles 0 Ss0 hr
  have hb := runIn_basis g N _ v _ cycles hd hperm hlen hr
  refine ⟨⟨hb.1, ?_, ?_⟩, ?_⟩
  · intro mask hm; exact hb.2.1 mask (by rw [hm, hlen])
  · intro Z hZ
    obtain ⟨mask, hm, he⟩ := hb.2.2 Z hZ
    exact ⟨mask, by rw [hm, hlen], he⟩
  · intro L hL
    have := runFrom_weight g N 1 (by decide) v _ cycles hd hperm ⟨hlen, hrun⟩ L hL.1 hL.2.2
    simpa [totalWeight] using this

/-- Horton's collection (one tree per vertex) -/
theorem horton_sufficient (g : Graph) (N : Nat) (v : Variant) (sup0 cycles : List (List Nat)) (hd : ExactDomain g N)
    (hperm : sup0.Perm (unitSupports N)) (hlen : cycles.length = N)
    (hr : RunIn g (InCollection g (hortonCands g).1) v 0 sup0 cycles) : IsMCB g cycles := by
  have hs := hd.simple
  have hp := hd.positive
  apply collection_sufficient g N (hortonCands g).1 v sup0 cycles hd ?_ ?_ hperm hlen hr
  · intro t ht
    have ht' : t ∈ (List.range g.n).map (buildTree g) := ht
    rw [List.mem_map] at ht'
    obtain ⟨s, hsn, rfl⟩ := ht'
    exact C12.c12_dijkstra g hs hp s (List.mem_range.1 hsn)
  · apply HortonL.acyclic_of_no_edge
    intro e he hmem
    unfold C13.survivingEdges at hmem
    rw [List.mem_filter] at hmem
    have hsn := (simpleB_facts g hs e he).1
    have : g.src e ∈ ((hortonCands g).1.map (·.source)) :=
      List.mem_map.2 ⟨buildTree g (g.src e), List.mem_map.2 ⟨g.src e, List.mem_range.2 hsn, rfl⟩, rfl⟩
    have hc : ((hortonCands g).1.map (·.source)).contains (g.src e) = true := List.contains_iff_mem.2 this
    rw [hc] at hmem
    exact absurd hmem.2 (by simp)

/-- the FVS collection, for the feedback vertex set `greedy_fvs` emits under any pop order -/
theorem fvs_sufficient (g : Graph) (N : Nat) (picks : List Nat) (hpicks : ∀ x, x < g.n → x ∈ picks)
    (v : Variant) (sup0 cycles : List (List Nat)) (hd : ExactDomain g N)
    (hperm : sup0.Perm (unitSupports N)) (hlen : cycles.length = N)
    (hr : RunIn g (InCollection g (fvsCands g (greedyFvs g picks)).1) v 0 sup0 cycles) : IsMCB g cycles := by
  have hs := hd.simple
  have hp := hd.positive
  have hv := C13.c13_vertices g hs picks
  apply collection_sufficient g N (fvsCands g (greedyFvs g picks)).1 v sup0 cycles hd ?_ ?_ hperm hlen hr
  · intro t ht
    have ht' : t ∈ (greedyFvs g picks).map (buildTree g) := ht
    rw [List.mem_map] at ht'
    obtain ⟨s, hsn, rfl⟩ := ht'
    exact C12.c12_dijkstra g hs hp s (hv.1 s hsn)
  · have hsrc : ∀ X : List Nat, (fvsCands g X).1.map (·.source) = X := by
      intro X
      show (X.map (buildTree g)).map (·.source) = X
      rw [List.map_map]
      induction X with
      | nil => rfl
      | cons a X ih => rw [List.map_cons, ih]; rfl
    rw [hsrc]
    exact C13.c13_fvs g hs picks hpicks

end Parmcb
