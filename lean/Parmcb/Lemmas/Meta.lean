import Parmcb.Props.C02
import Parmcb.Lemmas.DePina2
import Parmcb.Lemmas.Forest
import Parmcb.Lemmas.Spanner
/-! helper lemmas for C08 (metamorphic invariance of the optimum).  Core Lean only. -/
namespace Parmcb.MetaL
open Parmcb Parmcb.C01 Parmcb.C02

/-! ### same cycle space ⇒ same bases -/

theorem isBasis_congr (g g' : Graph) (h : ∀ Z, EvenSet g' Z ↔ EvenSet g Z) (L : List (List Nat)) :
    IsBasis g' L ↔ IsBasis g L := by
  unfold IsBasis
  constructor
  · rintro ⟨h1, h2, h3⟩
    exact ⟨fun C hC => (h C).1 (h1 C hC), h2, fun Z hZ => h3 Z ((h Z).2 hZ)⟩
  · rintro ⟨h1, h2, h3⟩
    exact ⟨fun C hC => (h C).2 (h1 C hC), h2, fun Z hZ => h3 Z ((h Z).1 hZ)⟩

theorem totalWeight_scale (g g' : Graph) (k : Int) (L : List (List Nat))
    (hw : ∀ Z ∈ L, wt g' Z = k * wt g Z) : totalWeight g' L = k * totalWeight g L := by
  unfold totalWeight
  induction L with
  | nil => simp
  | cons C L ih =>
    simp only [List.map_cons, List.sum_cons]
    rw [hw C List.mem_cons_self, ih (fun Z hZ => hw Z (List.mem_cons_of_mem _ hZ)), Int.mul_add]

/-- the transfer principle: same cycle space and weights multiplied by `k > 0` on it -/
theorem isMCB_transfer (g g' : Graph) (k : Int) (hk : 0 < k)
    (hE : ∀ Z, EvenSet g' Z ↔ EvenSet g Z) (hw : ∀ Z, EvenSet g Z → wt g' Z = k * wt g Z)
    (L : List (List Nat)) (h : IsMCB g L) :
    IsMCB g' L ∧ totalWeight g' L = k * totalWeight g L := by
  have hL := totalWeight_scale g g' k L (fun Z hZ => hw Z (h.1.1 Z hZ))
  refine ⟨⟨(isBasis_congr g g' hE L).2 h.1, ?_⟩, hL⟩
  intro L' hL'
  have hb := (isBasis_congr g g' hE L').1 hL'
  rw [hL, totalWeight_scale g g' k L' (fun Z hZ => hw Z (hb.1 Z hZ))]
  exact Int.mul_le_mul_of_nonneg_left (h.2 L' hb) (Int.le_of_lt hk)

theorem isMCB_transfer_one (g g' : Graph)
    (hE : ∀ Z, EvenSet g' Z ↔ EvenSet g Z) (hw : ∀ Z, EvenSet g Z → wt g' Z = wt g Z)
    (L : List (List Nat)) (h : IsMCB g L) :
    IsMCB g' L ∧ totalWeight g' L = totalWeight g L := by
  have := isMCB_transfer g g' 1 (by decide) hE (fun Z hZ => by rw [hw Z hZ, Int.one_mul]) L h
  rwa [Int.one_mul] at this

theorem wt_congr (g g' : Graph) (k : Int) (Z : List Nat)
    (h : ∀ e ∈ Z, g'.weight e = k * g.weight e) : wt g' Z = k * wt g Z := by
  induction Z with
  | nil => simp [wt_nil]
  | cons x Z ih =>
    rw [wt_cons, wt_cons, h x List.mem_cons_self, ih (fun e he => h e (List.mem_cons_of_mem _ he)),
      Int.mul_add]

theorem wt_congr_one (g g' : Graph) (Z : List Nat)
    (h : ∀ e ∈ Z, g'.weight e = g.weight e) : wt g' Z = wt g Z := by
  have := wt_congr g g' 1 Z (fun e he => by rw [h e he, Int.one_mul])
  rwa [Int.one_mul] at this

/-! ### list access -/

theorem getD_map_fix {α β : Type} (f : α → β) (l : List α) (e : Nat) (d : α) (d' : β) (hd : f d = d') :
    (l.map f).getD e d' = f (l.getD e d) := by
  rw [List.getD_eq_getElem?_getD, List.getD_eq_getElem?_getD, List.getElem?_map]
  cases l[e]? <;> simp [hd]

theorem getD_map_lt {α β : Type} (f : α → β) (l : List α) (e : Nat) (d : α) (d' : β) (he : e < l.length) :
    (l.map f).getD e d' = f (l.getD e d) := by
  rw [List.getD_eq_getElem?_getD, List.getD_eq_getElem?_getD, List.getElem?_map,
    List.getElem?_eq_getElem he]
  rfl

theorem getD_append_lt {α : Type} (l r : List α) (e : Nat) (d : α) (he : e < l.length) :
    (l ++ r).getD e d = l.getD e d := by
  rw [List.getD_eq_getElem?_getD, List.getD_eq_getElem?_getD, List.getElem?_append_left he]

theorem getD_append_ge {α : Type} (l r : List α) (e : Nat) (d : α) :
    (l ++ r).getD (e + l.length) d = r.getD e d := by
  rw [List.getD_eq_getElem?_getD, List.getD_eq_getElem?_getD,
    List.getElem?_append_right (Nat.le_add_left _ _), Nat.add_sub_cancel]

/-! ### (f) scaling -/

def scaleG (c : Int) (g : Graph) : Graph := { n := g.n, edges := g.edges.map fun (u, v, w) => (u, v, c * w) }

theorem scale_edge (c : Int) (g : Graph) (e : Nat) :
    (scaleG c g).edges.getD e (0, 0, 0) =
      ((g.edges.getD e (0, 0, 0)).1, (g.edges.getD e (0, 0, 0)).2.1, c * (g.edges.getD e (0, 0, 0)).2.2) := by
  unfold scaleG
  rw [getD_map_fix _ g.edges e (0, 0, 0) (0, 0, 0) (by simp)]

theorem scale_evenSet (c : Int) (g : Graph) (Z : List Nat) : EvenSet (scaleG c g) Z ↔ EvenSet g Z := by
  have hm : (scaleG c g).m = g.m := by simp [Graph.m, scaleG]
  have hinc : ∀ v e, (scaleG c g).inc v e = g.inc v e := by
    intro v e; unfold Graph.inc Graph.src Graph.tgt; rw [scale_edge]
  unfold EvenSet
  rw [hm]
  constructor
  · rintro ⟨h1, h2, h3⟩; exact ⟨h1, h2, fun v => by rw [← h3 v]; exact par_congr _ _ _ (fun e _ => (hinc v e).symm)⟩
  · rintro ⟨h1, h2, h3⟩; exact ⟨h1, h2, fun v => by rw [← h3 v]; exact par_congr _ _ _ (fun e _ => hinc v e)⟩

theorem scale_wt (c : Int) (g : Graph) (Z : List Nat) : wt (scaleG c g) Z = c * wt g Z := by
  apply wt_congr
  intro e _
  unfold Graph.weight; rw [scale_edge]

theorem scale_thm (g : Graph) (c : Int) (hc : 0 < c) (L : List (List Nat)) (h : IsMCB g L) :
    IsMCB (scaleG c g) L ∧ totalWeight (scaleG c g) L = c * totalWeight g L :=
  isMCB_transfer g (scaleG c g) c hc (scale_evenSet c g) (fun Z _ => scale_wt c g Z) L h

/-! ### (c) isolated vertex -/

def addIsolated (g : Graph) : Graph := { n := g.n + 1, edges := g.edges }

theorem isolated_thm (g : Graph) (L : List (List Nat)) (h : IsMCB g L) :
    IsMCB (addIsolated g) L ∧ totalWeight (addIsolated g) L = totalWeight g L :=
  isMCB_transfer_one g (addIsolated g) (fun _ => Iff.rfl) (fun _ _ => rfl) L h

/-! ### (c) pendant vertex -/

theorem inc_false_of_ge (g : Graph) (hs : g.simpleB = true) (v : Nat) (hv : g.n ≤ v) (e : Nat)
    (he : e < g.m) : g.inc v e = false := by
  have hf := simpleB_facts g hs e he
  have h4 : (g.src e == v) = false := beq_eq_false_iff_ne.2 (by omega)
  have h5 : (g.tgt e == v) = false := beq_eq_false_iff_ne.2 (by omega)
  unfold Graph.inc
  rw [h4, h5]; rfl

def addPendant (g : Graph) (u : Nat) (w : Int) : Graph := { n := g.n + 1, edges := g.edges ++ [(u, g.n, w)] }

theorem pendant_edge_lt (g : Graph) (u : Nat) (w : Int) (e : Nat) (he : e < g.m) :
    (addPendant g u w).edges.getD e (0, 0, 0) = g.edges.getD e (0, 0, 0) :=
  getD_append_lt g.edges _ e _ he

theorem pendant_edge_new (g : Graph) (u : Nat) (w : Int) :
    (addPendant g u w).edges.getD g.m (0, 0, 0) = (u, g.n, w) := by
  simp [Graph.m, addPendant]

theorem pendant_evenSet (g : Graph) (hs : g.simpleB = true) (u : Nat) (hu : u < g.n) (w : Int)
    (Z : List Nat) : EvenSet (addPendant g u w) Z ↔ EvenSet g Z := by
  have hm : (addPendant g u w).m = g.m + 1 := by simp [Graph.m, addPendant]
  have hinc : ∀ v e, e < g.m → (addPendant g u w).inc v e = g.inc v e := by
    intro v e he; unfold Graph.inc Graph.src Graph.tgt; rw [pendant_edge_lt g u w e he]
  constructor
  · rintro ⟨h1, h2, h3⟩
    have hnot : g.m ∉ Z := by
      intro hmem
      have hf0 : (addPendant g u w).inc g.n g.m = true := by
        unfold Graph.inc Graph.src Graph.tgt; rw [pendant_edge_new]
        have : (u == g.n) = false := beq_eq_false_iff_ne.2 (by omega)
        simp [this]
      have huniq : ∀ e ∈ Z, (addPendant g u w).inc g.n e = true → e = g.m := by
        intro e he hi
        have hlt := h2 e he; rw [hm] at hlt
        by_cases hlt' : e < g.m
        · rw [hinc _ _ hlt', inc_false_of_ge g hs g.n (Nat.le_refl _) e hlt'] at hi; cases hi
        · omega
      have := par_unique Z _ g.m h1.nodup hmem hf0 huniq
      rw [h3] at this; cases this
    have h2' : ∀ e ∈ Z, e < g.m := by
      intro e he
      have hlt := h2 e he; rw [hm] at hlt
      have : e ≠ g.m := fun h => hnot (h ▸ he)
      omega
    refine ⟨h1, h2', fun v => ?_⟩
    rw [← h3 v]
    exact par_congr _ _ _ (fun e he => (hinc v e (h2' e he)).symm)
  · rintro ⟨h1, h2, h3⟩
    refine ⟨h1, fun e he => by rw [hm]; exact Nat.lt_succ_of_lt (h2 e he), fun v => ?_⟩
    rw [← h3 v]
    exact par_congr _ _ _ (fun e he => hinc v e (h2 e he))

theorem pendant_thm (g : Graph) (hs : g.simpleB = true) (u : Nat) (hu : u < g.n) (w : Int)
    (L : List (List Nat)) (h : IsMCB g L) :
    IsMCB (addPendant g u w) L ∧ totalWeight (addPendant g u w) L = totalWeight g L := by
  apply isMCB_transfer_one g _ (pendant_evenSet g hs u hu w) _ L h
  intro Z hZ
  apply wt_congr_one
  intro e he
  unfold Graph.weight; rw [pendant_edge_lt g u w e (hZ.2.1 e he)]

/-! ### (b) relabelling -/

def relabel (π : Nat → Nat) (g : Graph) : Graph := { n := g.n, edges := g.edges.map fun (u, v, w) => (π u, π v, w) }

theorem relabel_edge (π : Nat → Nat) (g : Graph) (e : Nat) (he : e < g.m) :
    (relabel π g).edges.getD e (0, 0, 0) = (π (g.src e), π (g.tgt e), g.weight e) := by
  unfold relabel
  rw [getD_map_lt _ g.edges e (0, 0, 0) (0, 0, 0) he]
  rfl

theorem beq_inj (π : Nat → Nat) (n : Nat) (hπ : ∀ a b, a < n → b < n → π a = π b → a = b) (a b : Nat)
    (ha : a < n) (hb : b < n) : (π a == π b) = (a == b) := by
  by_cases h : a = b
  · subst h; simp
  · have : π a ≠ π b := fun h' => h (hπ a b ha hb h')
    rw [beq_eq_false_iff_ne.2 this, beq_eq_false_iff_ne.2 h]

theorem relabel_evenSet (g : Graph) (π : Nat → Nat) (hπ : ∀ a b, a < g.n → b < g.n → π a = π b → a = b)
    (hs : g.simpleB = true) (Z : List Nat) : EvenSet (relabel π g) Z ↔ EvenSet g Z := by
  have hm : (relabel π g).m = g.m := by simp [Graph.m, relabel]
  have hinc : ∀ x e, e < g.m → (relabel π g).inc x e = xor (π (g.src e) == x) (π (g.tgt e) == x) := by
    intro x e he
    show xor (((relabel π g).edges.getD e (0, 0, 0)).1 == x) (((relabel π g).edges.getD e (0, 0, 0)).2.1 == x) = _
    rw [relabel_edge π g e he]
  have hinc2 : ∀ a e, a < g.n → e < g.m → (relabel π g).inc (π a) e = g.inc a e := by
    intro a e ha he
    have hf := simpleB_facts g hs e he
    rw [hinc _ _ he, beq_inj π g.n hπ _ _ hf.1 ha, beq_inj π g.n hπ _ _ hf.2.1 ha]
    rfl
  unfold EvenSet
  rw [hm]
  constructor
  · rintro ⟨h1, h2, h3⟩
    refine ⟨h1, h2, fun v => ?_⟩
    by_cases hv : v < g.n
    · rw [← h3 (π v)]
      exact par_congr _ _ _ (fun e he => (hinc2 v e hv (h2 e he)).symm)
    · exact par_all_false _ _ (fun e he => inc_false_of_ge g hs v (by omega) e (h2 e he))
  · rintro ⟨h1, h2, h3⟩
    refine ⟨h1, h2, fun x => ?_⟩
    rcases Classical.em (∃ a, a < g.n ∧ π a = x) with ⟨a, ha, rfl⟩ | hno
    · rw [← h3 a]
      exact par_congr _ _ _ (fun e he => hinc2 a e ha (h2 e he))
    · apply par_all_false
      intro e he
      have hf := simpleB_facts g hs e (h2 e he)
      rw [hinc _ _ (h2 e he)]
      have h4 : (π (g.src e) == x) = false := beq_eq_false_iff_ne.2 (fun h => hno ⟨_, hf.1, h⟩)
      have h5 : (π (g.tgt e) == x) = false := beq_eq_false_iff_ne.2 (fun h => hno ⟨_, hf.2.1, h⟩)
      rw [h4, h5]; rfl

theorem relabel_thm (g : Graph) (π : Nat → Nat) (hπ : ∀ a b, a < g.n → b < g.n → π a = π b → a = b)
    (hs : g.simpleB = true) (L : List (List Nat)) (h : IsMCB g L) :
    IsMCB (relabel π g) L ∧ totalWeight (relabel π g) L = totalWeight g L := by
  apply isMCB_transfer_one g _ (relabel_evenSet g π hπ hs) _ L h
  intro Z hZ
  apply wt_congr_one
  intro e he
  show ((relabel π g).edges.getD e (0, 0, 0)).2.2 = _
  rw [relabel_edge π g e (hZ.2.1 e he)]

/-! ### existence of a minimum cycle basis: the relational run can always be completed -/

theorem run_snoc (g : Graph) (α : Int) (v : Variant) :
    ∀ (cs : List (List Nat)) (k : Nat) (sup : List (List Nat)) (c : List Nat),
      Run g α v k sup cs → PhaseOK g α (phaseSupport v (runSupports v k sup cs) (k + cs.length)) c →
      Run g α v k sup (cs ++ [c]) := by
  intro cs
  induction cs with
  | nil => intro k sup c _ h; exact ⟨by simpa [runSupports] using h, trivial⟩
  | cons d cs ih =>
    intro k sup c hr h
    refine ⟨hr.1, ih _ _ c hr.2 ?_⟩
    have e : k + (d :: cs).length = k + 1 + cs.length := by simp only [List.length_cons]; omega
    rw [e] at h
    simpa [runSupports] using h

theorem run_nth (g : Graph) (α : Int) (v : Variant) :
    ∀ (cs : List (List Nat)) (k : Nat) (sup : List (List Nat)), Run g α v k sup cs →
      ∀ (i : Nat) (c : List Nat), cs[i]? = some c →
        PhaseOK g α (phaseSupport v (runSupports v k sup (cs.take i)) (k + i)) c := by
  intro cs
  induction cs with
  | nil => intro k sup _ i c h; simp at h
  | cons d cs ih =>
    intro k sup hr i c h
    cases i with
    | zero =>
      simp at h; subst h
      simpa [runSupports] using hr.1
    | succ i =>
      have h' : cs[i]? = some c := by simpa using h
      have := ih _ _ hr.2 i c h'
      have e : k + (i + 1) = k + 1 + i := by omega
      rw [e]
      simpa [runSupports] using this

theorem run_exists (g : Graph) (N : Nat) (hd : ExactDomain g N) :
    ∀ j, j ≤ N → ∃ done : List (List Nat), done.length = j ∧ Run g 1 .trees 0 (unitSupports N) done := by
  intro j
  induction j with
  | zero => intro _; exact ⟨[], rfl, trivial⟩
  | succ j ih =>
    intro hj
    obtain ⟨done, hlen, hr⟩ := ih (by omega)
    have hodd : ∀ (k : Nat) (c : List Nat), done[k]? = some c →
        StrictSorted c ∧
          dotPar c (phaseSupport .trees (runSupports .trees 0 (unitSupports N) (done.take k)) k) = true := by
      intro k c hk
      have := run_nth g 1 .trees done 0 _ hr k c hk
      rw [Nat.zero_add] at this
      exact ⟨this.1.1, this.2.1⟩
    obtain ⟨_, hex⟩ := run_progress g N .trees (unitSupports N) done hd (List.Perm.refl _) (by omega) hodd
    obtain ⟨C, hC⟩ := phaseOK_exists g hd.positive _ hex
    refine ⟨done ++ [C], by simp [hlen], run_snoc g 1 .trees done 0 _ C hr ?_⟩
    rw [Nat.zero_add]; exact hC

theorem mcb_exists (g : Graph) (N : Nat) (hd : ExactDomain g N) : ∃ L, IsMCB g L := by
  obtain ⟨L, hlen, hr⟩ := run_exists g N hd N (Nat.le_refl _)
  exact ⟨L, c02_min g N .trees L hd ⟨hlen, hr⟩⟩

/-! ### a spanning family contains a basis; an MCB is no heavier than any spanning family -/

section
open Parmcb.Abstract
variable {V : Type} (G : XGroup V)

theorem exists_subbasis (F : List V) :
    ∃ K : List V, K.Sublist F ∧ IndependentL G K ∧ ∀ x ∈ F, InSpan G K x := by
  induction F with
  | nil =>
    refine ⟨[], List.Sublist.refl _, ?_, fun x hx => by cases hx⟩
    intro mask hl ht
    have : mask = [] := List.eq_nil_of_length_eq_zero hl
    subst this; cases ht
  | cons x F ih =>
    obtain ⟨K, hsub, hind, hsp⟩ := ih
    by_cases hx : InSpan G K x
    · refine ⟨K, hsub.cons x, hind, ?_⟩
      intro y hy
      rcases List.mem_cons.1 hy with h | h
      · subst h; exact hx
      · exact hsp y h
    · refine ⟨x :: K, hsub.cons_cons x, ?_, ?_⟩
      · intro mask hl ht hz
        cases mask with
        | nil => cases ht
        | cons b bs =>
          simp only [List.length_cons, Nat.add_right_cancel_iff] at hl
          cases b with
          | false =>
            have ht' : true ∈ bs := by simpa using ht
            exact hind bs hl ht' (by simpa using hz)
          | true =>
            have hz' : G.add x (sumMask G K bs) = G.zero := by simpa using hz
            exact hx ⟨bs, hl, (G.eq_of_add_eq_zero _ _ hz').symm⟩
      · intro y hy
        rcases List.mem_cons.1 hy with h | h
        · subst h; exact inSpan_mem G List.mem_cons_self
        · obtain ⟨m, hm, rfl⟩ := hsp y h
          exact ⟨false :: m, by simp [hm], by simp⟩

end

theorem sum_sublist_le {α : Type} (w : α → Int) {K F : List α} (h : K.Sublist F)
    (hw : ∀ x ∈ F, 0 ≤ w x) : (K.map w).sum ≤ (F.map w).sum := by
  induction h with
  | slnil => exact Int.le_refl _
  | cons a _ ih =>
    have h1 := hw a List.mem_cons_self
    have h2 := ih (fun x hx => hw x (List.mem_cons_of_mem _ hx))
    simp only [List.map_cons, List.sum_cons]; omega
  | cons_cons a _ ih =>
    have h2 := ih (fun x hx => hw x (List.mem_cons_of_mem _ hx))
    simp only [List.map_cons, List.sum_cons]; omega

theorem subbasis (g : Graph) (F : List (List Nat)) (hF : ∀ X ∈ F, EvenSet g X)
    (hspan : ∀ Z, EvenSet g Z → ∃ mask : List Bool, mask.length = F.length ∧ xorSel F mask = Z) :
    ∃ K, K.Sublist F ∧ IsBasis g K := by
  obtain ⟨Fs, hFs⟩ := exists_vals F (fun X hX => (hF X hX).1)
  subst hFs
  obtain ⟨Ks, hsub, hind, hsp⟩ := exists_subbasis svecGroup Fs
  have hsub' : (vals Ks).Sublist (vals Fs) := hsub.map _
  refine ⟨vals Ks, hsub', ?_, ?_, ?_⟩
  · intro C hC; exact hF C (hsub'.subset hC)
  · intro mask hl ht h0
    rw [vals_length] at hl
    rw [← sumMask_val] at h0
    exact hind mask hl ht (svec_ext h0)
  · intro Z hZ
    obtain ⟨mask, _, hm⟩ := hspan Z hZ
    rw [← sumMask_val] at hm
    obtain ⟨m', hl', hm'⟩ := Abstract.inSpan_sumMask_of svecGroup hsp mask
    exact ⟨m', by rw [vals_length]; exact hl', by rw [← sumMask_val, hm', hm]⟩

theorem mcb_le_spanning (g : Graph) (hp : g.positiveB = true) (L : List (List Nat)) (h : IsMCB g L)
    (F : List (List Nat)) (hF : ∀ X ∈ F, EvenSet g X)
    (hspan : ∀ Z, EvenSet g Z → ∃ mask : List Bool, mask.length = F.length ∧ xorSel F mask = Z) :
    totalWeight g L ≤ totalWeight g F := by
  obtain ⟨K, hsub, hK⟩ := subbasis g F hF hspan
  have h1 := h.2 K hK
  have h2 := sum_sublist_le (wt g) hsub (fun X hX => wt_nonneg g hp X (hF X hX).2.1)
  unfold totalWeight at *
  omega

/-! ### set maps that commute with `xorMerge` -/

theorem strictSorted_iff_pairwise (l : List Nat) : StrictSorted l ↔ l.Pairwise (· < ·) := by
  induction l with
  | nil => simp [StrictSorted]
  | cons x l ih =>
    rw [List.pairwise_cons, ← ih]
    constructor
    · intro h; exact ⟨h.head_lt, h.tail⟩
    · rintro ⟨h1, h2⟩; exact h2.cons h1

/-- `f` acts on canonical sets by `z ∈ f a ↔ P z ∧ φ z ∈ a` -/
structure SetMap (f : List Nat → List Nat) (P : Nat → Prop) (φ : Nat → Nat) : Prop where
  mem : ∀ a z, z ∈ f a ↔ (P z ∧ φ z ∈ a)
  sorted : ∀ a, StrictSorted a → StrictSorted (f a)

theorem SetMap.nil {f P φ} (h : SetMap f P φ) : f [] = [] := by
  apply List.eq_nil_iff_forall_not_mem.2
  intro z hz
  have := ((h.mem [] z).1 hz).2
  cases this

theorem SetMap.xor {f P φ} (h : SetMap f P φ) (a b : List Nat) (ha : StrictSorted a) (hb : StrictSorted b) :
    f (xorMerge a b) = xorMerge (f a) (f b) := by
  apply StrictSorted.ext (h.sorted _ (xorMerge_sorted _ _ ha hb)) (xorMerge_sorted _ _ (h.sorted a ha) (h.sorted b hb))
  intro z
  rw [h.mem, mem_xorMerge _ _ ha hb, mem_xorMerge _ _ (h.sorted a ha) (h.sorted b hb), h.mem, h.mem]
  by_cases h0 : P z <;> by_cases h1 : φ z ∈ a <;> by_cases h2 : φ z ∈ b <;> simp [h0, h1, h2]

theorem SetMap.xorSel {f P φ} (h : SetMap f P φ) : ∀ (L : List (List Nat)) (mask : List Bool),
    (∀ X ∈ L, StrictSorted X) → Parmcb.xorSel (L.map f) mask = f (Parmcb.xorSel L mask) := by
  intro L
  induction L with
  | nil => intro mask _; simp [Parmcb.xorSel, h.nil]
  | cons c cs ih =>
    intro mask hL
    cases mask with
    | nil => simp [Spanner.xorSel_nil_right, h.nil]
    | cons b bs =>
      have ih' := ih bs (fun X hX => hL X (List.mem_cons_of_mem _ hX))
      rw [List.map_cons, Spanner.xorSel_cons, Spanner.xorSel_cons, ih']
      cases b with
      | false => rfl
      | true =>
        simp only [if_true]
        rw [h.xor _ _ (hL c List.mem_cons_self)
          (Spanner.xorSel_sorted cs bs (fun X hX => hL X (List.mem_cons_of_mem _ hX)))]

def shiftSet (k : Nat) (Z : List Nat) : List Nat := Z.map (· + k)
def lo (k : Nat) (Z : List Nat) : List Nat := Z.filter (fun e => decide (e < k))
def hi (k : Nat) (Z : List Nat) : List Nat := (Z.filter (fun e => decide (k ≤ e))).map (· - k)

theorem lo_setMap (k : Nat) : SetMap (lo k) (· < k) id := by
  constructor
  · intro a z; simp [lo, and_comm]
  · intro a ha
    rw [strictSorted_iff_pairwise] at ha ⊢
    exact ha.filter _

theorem hi_setMap (k : Nat) : SetMap (hi k) (fun _ => True) (· + k) := by
  constructor
  · intro a z
    simp only [hi, List.mem_map, List.mem_filter, decide_eq_true_eq, true_and]
    constructor
    · rintro ⟨y, ⟨hy, hk⟩, rfl⟩
      have : y - k + k = y := by omega
      rw [this]; exact hy
    · intro hz; exact ⟨z + k, ⟨hz, by omega⟩, by omega⟩
  · intro a ha
    rw [strictSorted_iff_pairwise] at ha ⊢
    unfold hi
    rw [List.pairwise_map]
    refine List.Pairwise.imp_of_mem ?_ (ha.filter _)
    intro x y hx hy hxy
    have hx' := (List.mem_filter.1 hx).2
    have hy' := (List.mem_filter.1 hy).2
    simp only [decide_eq_true_eq] at hx' hy'
    omega

theorem shift_setMap (k : Nat) : SetMap (shiftSet k) (k ≤ ·) (· - k) := by
  constructor
  · intro a z
    simp only [shiftSet, List.mem_map]
    constructor
    · rintro ⟨y, hy, rfl⟩
      have : y + k - k = y := by omega
      rw [this]; exact ⟨by omega, hy⟩
    · rintro ⟨hk, hz⟩; exact ⟨z - k, hz, by omega⟩
  · intro a ha
    rw [strictSorted_iff_pairwise] at ha ⊢
    unfold shiftSet
    rw [List.pairwise_map]
    exact ha.imp (fun h => by omega)

/-- a canonical set is the sum of its part below `k` and its part from `k` on -/
theorem split_lo_hi (k : Nat) (Z : List Nat) (hZ : StrictSorted Z) :
    xorMerge (lo k Z) (shiftSet k (hi k Z)) = Z := by
  have h1 := (lo_setMap k).sorted Z hZ
  have h2 := (shift_setMap k).sorted _ ((hi_setMap k).sorted Z hZ)
  apply StrictSorted.ext (xorMerge_sorted _ _ h1 h2) hZ
  intro z
  rw [mem_xorMerge _ _ h1 h2, (lo_setMap k).mem, (shift_setMap k).mem, (hi_setMap k).mem]
  by_cases hk : z < k
  · have : ¬ k ≤ z := by omega
    simp [hk, this]
  · have h3 : z - k + k = z := by omega
    have h4 : k ≤ z := by omega
    simp [hk, h3, h4]

theorem hi_shift (k : Nat) (Z : List Nat) : hi k (shiftSet k Z) = Z := by
  unfold hi shiftSet
  rw [List.filter_eq_self.2 (by intro a ha; obtain ⟨y, _, rfl⟩ := List.mem_map.1 ha; simp), List.map_map]
  conv => rhs; rw [← List.map_id Z]
  apply List.map_congr_left
  intro a _; simp

theorem lo_of_lt (k : Nat) (Z : List Nat) (h : ∀ e ∈ Z, e < k) : lo k Z = Z :=
  List.filter_eq_self.2 (fun a ha => by simpa using h a ha)

/-! ### (d) disjoint union -/

def disjointUnion (g₁ g₂ : Graph) : Graph :=
  { n := g₁.n + g₂.n, edges := g₁.edges ++ g₂.edges.map fun (u, v, w) => (u + g₁.n, v + g₁.n, w) }

theorem union_m (g₁ g₂ : Graph) : (disjointUnion g₁ g₂).m = g₁.m + g₂.m := by
  simp [Graph.m, disjointUnion]

theorem union_edge_lo (g₁ g₂ : Graph) (e : Nat) (he : e < g₁.m) :
    (disjointUnion g₁ g₂).edges.getD e (0, 0, 0) = g₁.edges.getD e (0, 0, 0) :=
  getD_append_lt g₁.edges _ e _ he

theorem union_edge_hi (g₁ g₂ : Graph) (e : Nat) (he : e < g₂.m) :
    (disjointUnion g₁ g₂).edges.getD (e + g₁.m) (0, 0, 0)
      = (g₂.src e + g₁.n, g₂.tgt e + g₁.n, g₂.weight e) := by
  unfold disjointUnion
  show (g₁.edges ++ _).getD (e + g₁.edges.length) _ = _
  rw [getD_append_ge, getD_map_lt _ g₂.edges e (0, 0, 0) (0, 0, 0) he]
  rfl

theorem union_inc_lo (g₁ g₂ : Graph) (x e : Nat) (he : e < g₁.m) :
    (disjointUnion g₁ g₂).inc x e = g₁.inc x e := by
  unfold Graph.inc Graph.src Graph.tgt; rw [union_edge_lo g₁ g₂ e he]

theorem union_inc_hi (g₁ g₂ : Graph) (x e : Nat) (he : e < g₂.m) :
    (disjointUnion g₁ g₂).inc x (e + g₁.m) = (decide (g₁.n ≤ x) && g₂.inc (x - g₁.n) e) := by
  show xor (((disjointUnion g₁ g₂).edges.getD (e + g₁.m) (0, 0, 0)).1 == x)
    (((disjointUnion g₁ g₂).edges.getD (e + g₁.m) (0, 0, 0)).2.1 == x) = _
  rw [union_edge_hi g₁ g₂ e he]
  show xor (g₂.src e + g₁.n == x) (g₂.tgt e + g₁.n == x) = _
  unfold Graph.inc
  by_cases hx : g₁.n ≤ x
  · have h1 : (g₂.src e + g₁.n == x) = (g₂.src e == x - g₁.n) := by
      by_cases h : g₂.src e = x - g₁.n
      · have : g₂.src e + g₁.n = x := by omega
        rw [beq_iff_eq.2 h, beq_iff_eq.2 this]
      · have : g₂.src e + g₁.n ≠ x := by omega
        rw [beq_eq_false_iff_ne.2 h, beq_eq_false_iff_ne.2 this]
    have h2 : (g₂.tgt e + g₁.n == x) = (g₂.tgt e == x - g₁.n) := by
      by_cases h : g₂.tgt e = x - g₁.n
      · have : g₂.tgt e + g₁.n = x := by omega
        rw [beq_iff_eq.2 h, beq_iff_eq.2 this]
      · have : g₂.tgt e + g₁.n ≠ x := by omega
        rw [beq_eq_false_iff_ne.2 h, beq_eq_false_iff_ne.2 this]
    rw [h1, h2]; simp [hx]
  · have h1 : (g₂.src e + g₁.n == x) = false := beq_eq_false_iff_ne.2 (by omega)
    have h2 : (g₂.tgt e + g₁.n == x) = false := beq_eq_false_iff_ne.2 (by omega)
    rw [h1, h2]; simp [hx]

theorem union_wt_lo (g₁ g₂ : Graph) (Z : List Nat) (hZ : ∀ e ∈ Z, e < g₁.m) :
    wt (disjointUnion g₁ g₂) Z = wt g₁ Z := by
  apply wt_congr_one
  intro e he
  unfold Graph.weight; rw [union_edge_lo g₁ g₂ e (hZ e he)]

theorem union_wt_hi (g₁ g₂ : Graph) (Z : List Nat) (hZ : ∀ e ∈ Z, e < g₂.m) :
    wt (disjointUnion g₁ g₂) (shiftSet g₁.m Z) = wt g₂ Z := by
  induction Z with
  | nil => rfl
  | cons x Z ih =>
    show wt _ ((x + g₁.m) :: shiftSet g₁.m Z) = _
    rw [wt_cons, wt_cons, ih (fun e he => hZ e (List.mem_cons_of_mem _ he))]
    congr 1
    show ((disjointUnion g₁ g₂).edges.getD (x + g₁.m) (0, 0, 0)).2.2 = _
    rw [union_edge_hi g₁ g₂ x (hZ x List.mem_cons_self)]

/-- parity at a vertex splits into the two components -/
theorem par_split (k : Nat) (Z : List Nat) (hZ : StrictSorted Z) (f : Nat → Bool) :
    par Z f = xor (par (lo k Z) f) (par (hi k Z) (fun e => f (e + k))) := by
  conv => lhs; rw [← split_lo_hi k Z hZ]
  rw [par_xorMerge]
  unfold shiftSet
  rw [par_map]

theorem union_even_of_left (g₁ g₂ : Graph) (hs₁ : g₁.simpleB = true) (Z : List Nat)
    (hZ : EvenSet g₁ Z) : EvenSet (disjointUnion g₁ g₂) Z := by
  refine ⟨hZ.1, fun e he => by rw [union_m]; have := hZ.2.1 e he; omega, fun x => ?_⟩
  by_cases hx : x < g₁.n
  · rw [← hZ.2.2 x]
    exact par_congr _ _ _ (fun e he => union_inc_lo g₁ g₂ x e (hZ.2.1 e he))
  · apply par_all_false
    intro e he
    rw [union_inc_lo g₁ g₂ x e (hZ.2.1 e he)]
    exact inc_false_of_ge g₁ hs₁ x (by omega) e (hZ.2.1 e he)

theorem union_even_of_right (g₁ g₂ : Graph) (Z : List Nat)
    (hZ : EvenSet g₂ Z) : EvenSet (disjointUnion g₁ g₂) (shiftSet g₁.m Z) := by
  refine ⟨(shift_setMap g₁.m).sorted Z hZ.1, ?_, fun x => ?_⟩
  · intro e he
    have := ((shift_setMap g₁.m).mem Z e).1 he
    have h2 := hZ.2.1 _ this.2
    rw [union_m]; omega
  · unfold shiftSet
    rw [par_map]
    by_cases hx : g₁.n ≤ x
    · rw [← hZ.2.2 (x - g₁.n)]
      apply par_congr
      intro e he
      rw [union_inc_hi g₁ g₂ x e (hZ.2.1 e he)]; simp [hx]
    · apply par_all_false
      intro e he
      rw [union_inc_hi g₁ g₂ x e (hZ.2.1 e he)]; simp [hx]

theorem union_hi_lt (g₁ g₂ : Graph) (Z : List Nat) (hZ : ∀ e ∈ Z, e < (disjointUnion g₁ g₂).m) :
    ∀ e ∈ hi g₁.m Z, e < g₂.m := by
  intro e he
  have := hZ _ (((hi_setMap g₁.m).mem Z e).1 he).2
  rw [union_m] at this; omega

theorem union_even_left (g₁ g₂ : Graph) (hs₁ : g₁.simpleB = true) (Z : List Nat)
    (hZ : EvenSet (disjointUnion g₁ g₂) Z) : EvenSet g₁ (lo g₁.m Z) := by
  have hlt : ∀ e ∈ lo g₁.m Z, e < g₁.m := fun e he => (((lo_setMap g₁.m).mem Z e).1 he).1
  refine ⟨(lo_setMap g₁.m).sorted Z hZ.1, hlt, fun v => ?_⟩
  by_cases hv : v < g₁.n
  · have h := par_split g₁.m Z hZ.1 ((disjointUnion g₁ g₂).inc v)
    rw [hZ.2.2 v] at h
    have h2 : par (hi g₁.m Z) (fun e => (disjointUnion g₁ g₂).inc v (e + g₁.m)) = false := by
      apply par_all_false
      intro e he
      have hnv : ¬ g₁.n ≤ v := by omega
      rw [union_inc_hi g₁ g₂ v e (union_hi_lt g₁ g₂ Z hZ.2.1 e he)]; simp [hnv]
    rw [h2, Bool.xor_false] at h
    rw [h]
    exact par_congr _ _ _ (fun e he => (union_inc_lo g₁ g₂ v e (hlt e he)).symm)
  · exact par_all_false _ _ (fun e he => inc_false_of_ge g₁ hs₁ v (by omega) e (hlt e he))

theorem union_even_right (g₁ g₂ : Graph) (hs₁ : g₁.simpleB = true) (Z : List Nat)
    (hZ : EvenSet (disjointUnion g₁ g₂) Z) : EvenSet g₂ (hi g₁.m Z) := by
  have hlt := union_hi_lt g₁ g₂ Z hZ.2.1
  have hlo : ∀ e ∈ lo g₁.m Z, e < g₁.m := fun e he => (((lo_setMap g₁.m).mem Z e).1 he).1
  refine ⟨(hi_setMap g₁.m).sorted Z hZ.1, hlt, fun v => ?_⟩
  have h := par_split g₁.m Z hZ.1 ((disjointUnion g₁ g₂).inc (v + g₁.n))
  rw [hZ.2.2] at h
  have h1 : par (lo g₁.m Z) ((disjointUnion g₁ g₂).inc (v + g₁.n)) = false := by
    apply par_all_false
    intro e he
    rw [union_inc_lo g₁ g₂ _ e (hlo e he)]
    exact inc_false_of_ge g₁ hs₁ _ (by omega) e (hlo e he)
  rw [h1, Bool.false_xor] at h
  rw [h]
  apply par_congr
  intro e he
  have hle : g₁.n ≤ v + g₁.n := by omega
  have hsub : v + g₁.n - g₁.n = v := by omega
  rw [union_inc_hi g₁ g₂ _ e (hlt e he), hsub]; simp [hle]

theorem totalWeight_congr (g g' : Graph) (L : List (List Nat)) (hw : ∀ Z ∈ L, wt g' Z = wt g Z) :
    totalWeight g' L = totalWeight g L := by
  have := totalWeight_scale g g' 1 L (fun Z hZ => by rw [hw Z hZ, Int.one_mul])
  rwa [Int.one_mul] at this

theorem totalWeight_append (g : Graph) (A B : List (List Nat)) :
    totalWeight g (A ++ B) = totalWeight g A + totalWeight g B := by
  unfold totalWeight
  induction A with
  | nil => simp
  | cons a A ih => simp only [List.cons_append, List.map_cons, List.sum_cons, ih]; omega

theorem union_tw_hi (g₁ g₂ : Graph) (L : List (List Nat)) (hL : ∀ X ∈ L, ∀ e ∈ X, e < g₂.m) :
    totalWeight (disjointUnion g₁ g₂) (L.map (shiftSet g₁.m)) = totalWeight g₂ L := by
  unfold totalWeight
  induction L with
  | nil => rfl
  | cons X L ih =>
    simp only [List.map_cons, List.sum_cons]
    rw [union_wt_hi g₁ g₂ X (hL X List.mem_cons_self)]
    have := ih (fun Y hY => hL Y (List.mem_cons_of_mem _ hY))
    simp only [List.map_map] at this ⊢
    rw [this]

theorem union_wt_split (g₁ g₂ : Graph) (Z : List Nat) (hZ : EvenSet (disjointUnion g₁ g₂) Z) :
    wt (disjointUnion g₁ g₂) Z = wt g₁ (lo g₁.m Z) + wt g₂ (hi g₁.m Z) := by
  have hlo := (lo_setMap g₁.m).sorted Z hZ.1
  have hsh := (shift_setMap g₁.m).sorted _ ((hi_setMap g₁.m).sorted Z hZ.1)
  have hsub : ∀ e ∈ lo g₁.m Z, e ∈ Z := fun e he => (((lo_setMap g₁.m).mem Z e).1 he).2
  have hrest : xorMerge Z (lo g₁.m Z) = shiftSet g₁.m (hi g₁.m Z) := by
    conv => lhs; arg 1; rw [← split_lo_hi g₁.m Z hZ.1]
    rw [xorMerge_comm _ _ hlo hsh, xorMerge_assoc _ _ _ hsh hlo hlo, xorMerge_self, xorMerge_nil_right]
  rw [wt_split _ Z (lo g₁.m Z) hZ.1 hlo hsub, hrest,
    union_wt_lo g₁ g₂ _ (fun e he => (((lo_setMap g₁.m).mem Z e).1 he).1),
    union_wt_hi g₁ g₂ _ (union_hi_lt g₁ g₂ Z hZ.2.1)]

theorem union_tw_split (g₁ g₂ : Graph) (L : List (List Nat))
    (hL : ∀ Z ∈ L, EvenSet (disjointUnion g₁ g₂) Z) :
    totalWeight (disjointUnion g₁ g₂) L
      = totalWeight g₁ (L.map (lo g₁.m)) + totalWeight g₂ (L.map (hi g₁.m)) := by
  unfold totalWeight
  induction L with
  | nil => rfl
  | cons X L ih =>
    have := ih (fun Y hY => hL Y (List.mem_cons_of_mem _ hY))
    simp only [List.map_cons, List.sum_cons] at this ⊢
    rw [this, union_wt_split g₁ g₂ X (hL X List.mem_cons_self)]
    omega

theorem union_basis (g₁ g₂ : Graph) (hs₁ : g₁.simpleB = true) (L₁ L₂ : List (List Nat))
    (hB₁ : IsBasis g₁ L₁) (hB₂ : IsBasis g₂ L₂) :
    IsBasis (disjointUnion g₁ g₂) (L₁ ++ L₂.map (shiftSet g₁.m)) := by
  have hA : ∀ X ∈ L₁, StrictSorted X := fun X hX => (hB₁.1 X hX).1
  have hB : ∀ X ∈ L₂, StrictSorted X := fun X hX => (hB₂.1 X hX).1
  have hBs : ∀ X ∈ L₂.map (shiftSet g₁.m), StrictSorted X := by
    intro X hX
    obtain ⟨Y, hY, rfl⟩ := List.mem_map.1 hX
    exact (shift_setMap g₁.m).sorted Y (hB Y hY)
  have key : ∀ mA mB : List Bool, mA.length = L₁.length →
      xorSel (L₁ ++ L₂.map (shiftSet g₁.m)) (mA ++ mB)
        = xorMerge (xorSel L₁ mA) (shiftSet g₁.m (xorSel L₂ mB)) := by
    intro mA mB hl
    rw [Spanner.xorSel_append _ _ _ _ hA hBs hl, (shift_setMap g₁.m).xorSel L₂ mB hB]
  refine ⟨?_, ?_, ?_⟩
  · intro C hC
    rcases List.mem_append.1 hC with h | h
    · exact union_even_of_left g₁ g₂ hs₁ C (hB₁.1 C h)
    · obtain ⟨Y, hY, rfl⟩ := List.mem_map.1 h
      exact union_even_of_right g₁ g₂ Y (hB₂.1 Y hY)
  · intro mask hl ht h0
    rw [List.length_append, List.length_map] at hl
    have hsplit : mask = mask.take L₁.length ++ mask.drop L₁.length := (List.take_append_drop _ _).symm
    have hlA : (mask.take L₁.length).length = L₁.length := by rw [List.length_take]; omega
    have hlB : (mask.drop L₁.length).length = L₂.length := by rw [List.length_drop]; omega
    generalize mask.take L₁.length = mA at hsplit hlA
    generalize mask.drop L₁.length = mB at hsplit hlB
    subst hsplit
    rw [key _ _ hlA] at h0
    have hAe : EvenSet g₁ (xorSel L₁ mA) := Spanner.xorSel_even g₁ L₁ _ hB₁.1
    have hBe : EvenSet g₂ (xorSel L₂ mB) := Spanner.xorSel_even g₂ L₂ _ hB₂.1
    have hsh := (shift_setMap g₁.m).sorted _ hBe.1
    have hA0 : xorSel L₁ mA = [] := by
      apply List.eq_nil_iff_forall_not_mem.2
      intro z hz
      have hzlt := hAe.2.1 z hz
      have hnB : z ∉ shiftSet g₁.m (xorSel L₂ mB) := by
        intro h
        have := ((shift_setMap g₁.m).mem _ z).1 h
        omega
      have : z ∈ xorMerge (xorSel L₁ mA) (shiftSet g₁.m (xorSel L₂ mB)) :=
        (mem_xorMerge _ _ hAe.1 hsh z).2 (by simp [hz, hnB])
      rw [h0] at this; cases this
    have hB0 : xorSel L₂ mB = [] := by
      apply List.eq_nil_iff_forall_not_mem.2
      intro z hz
      have hzsh : z + g₁.m ∈ shiftSet g₁.m (xorSel L₂ mB) := List.mem_map.2 ⟨z, hz, rfl⟩
      have hnA : z + g₁.m ∉ xorSel L₁ mA := by
        intro h
        have := hAe.2.1 _ h
        omega
      have : z + g₁.m ∈ xorMerge (xorSel L₁ mA) (shiftSet g₁.m (xorSel L₂ mB)) :=
        (mem_xorMerge _ _ hAe.1 hsh _).2 (by simp [hzsh, hnA])
      rw [h0] at this; cases this
    rcases List.mem_append.1 ht with h | h
    · exact hB₁.2.1 _ hlA h hA0
    · exact hB₂.2.1 _ hlB h hB0
  · intro Z hZ
    obtain ⟨mA, hlA, hmA⟩ := hB₁.2.2 _ (union_even_left g₁ g₂ hs₁ Z hZ)
    obtain ⟨mB, hlB, hmB⟩ := hB₂.2.2 _ (union_even_right g₁ g₂ hs₁ Z hZ)
    refine ⟨mA ++ mB, by simp [hlA, hlB], ?_⟩
    rw [key _ _ hlA, hmA, hmB, split_lo_hi g₁.m Z hZ.1]

theorem union_thm (g₁ g₂ : Graph) (hs₁ : g₁.simpleB = true)
    (hp₁ : g₁.positiveB = true) (hp₂ : g₂.positiveB = true)
    (L₁ L₂ : List (List Nat)) (h₁ : IsMCB g₁ L₁) (h₂ : IsMCB g₂ L₂) :
    IsMCB (disjointUnion g₁ g₂) (L₁ ++ L₂.map (shiftSet g₁.m)) ∧
    totalWeight (disjointUnion g₁ g₂) (L₁ ++ L₂.map (shiftSet g₁.m))
      = totalWeight g₁ L₁ + totalWeight g₂ L₂ := by
  have htw : totalWeight (disjointUnion g₁ g₂) (L₁ ++ L₂.map (shiftSet g₁.m))
      = totalWeight g₁ L₁ + totalWeight g₂ L₂ := by
    rw [totalWeight_append, union_tw_hi g₁ g₂ L₂ (fun X hX => (h₂.1.1 X hX).2.1),
      totalWeight_congr g₁ _ L₁ (fun Z hZ => union_wt_lo g₁ g₂ Z (h₁.1.1 Z hZ).2.1)]
  refine ⟨⟨union_basis g₁ g₂ hs₁ L₁ L₂ h₁.1 h₂.1, ?_⟩, htw⟩
  intro L' hL'
  have hsorted : ∀ X ∈ L', StrictSorted X := fun X hX => (hL'.1 X hX).1
  have hF₁ : ∀ X ∈ L'.map (lo g₁.m), EvenSet g₁ X := by
    intro X hX
    obtain ⟨Y, hY, rfl⟩ := List.mem_map.1 hX
    exact union_even_left g₁ g₂ hs₁ Y (hL'.1 Y hY)
  have hF₂ : ∀ X ∈ L'.map (hi g₁.m), EvenSet g₂ X := by
    intro X hX
    obtain ⟨Y, hY, rfl⟩ := List.mem_map.1 hX
    exact union_even_right g₁ g₂ hs₁ Y (hL'.1 Y hY)
  have hsp₁ : ∀ Y, EvenSet g₁ Y → ∃ mask : List Bool,
      mask.length = (L'.map (lo g₁.m)).length ∧ xorSel (L'.map (lo g₁.m)) mask = Y := by
    intro Y hY
    obtain ⟨mask, hl, hm⟩ := hL'.2.2 Y (union_even_of_left g₁ g₂ hs₁ Y hY)
    refine ⟨mask, by rw [List.length_map]; exact hl, ?_⟩
    rw [(lo_setMap g₁.m).xorSel L' mask hsorted, hm, lo_of_lt g₁.m Y hY.2.1]
  have hsp₂ : ∀ Y, EvenSet g₂ Y → ∃ mask : List Bool,
      mask.length = (L'.map (hi g₁.m)).length ∧ xorSel (L'.map (hi g₁.m)) mask = Y := by
    intro Y hY
    obtain ⟨mask, hl, hm⟩ := hL'.2.2 _ (union_even_of_right g₁ g₂ Y hY)
    refine ⟨mask, by rw [List.length_map]; exact hl, ?_⟩
    rw [(hi_setMap g₁.m).xorSel L' mask hsorted, hm, hi_shift]
  have le₁ := mcb_le_spanning g₁ hp₁ L₁ h₁ _ hF₁ hsp₁
  have le₂ := mcb_le_spanning g₂ hp₂ L₂ h₂ _ hF₂ hsp₂
  rw [htw, union_tw_split g₁ g₂ L' hL'.1]
  omega

end Parmcb.MetaL
