/-
Abstract de Pina theory (F6 / F7 of DESIGN.md).

Everything here is code-independent mathematics over an explicit elementary abelian 2-group
(`XGroup`): independence by the triangular pattern, spanning by back-substitution, the
α-robust exchange argument against an arbitrary spanning family, and the invariants of the
support-vector update rule.  Core Lean only, no Mathlib.
-/
namespace Parmcb.Abstract

/-- An elementary abelian 2-group given by explicit operations (no type classes, so that the
same carrier can be used with several structures). -/
structure XGroup (V : Type) where
  add : V → V → V
  zero : V
  add_assoc : ∀ a b c, add (add a b) c = add a (add b c)
  add_comm : ∀ a b, add a b = add b a
  add_zero : ∀ a, add a zero = a
  add_self : ∀ a, add a a = zero

/-- a pairing `V × W → GF(2)` that is additive in both arguments -/
structure Pairing {V W : Type} (G : XGroup V) (H : XGroup W) where
  dot : V → W → Bool
  dot_add_left : ∀ a b s, dot (G.add a b) s = xor (dot a s) (dot b s)
  dot_add_right : ∀ a s t, dot a (H.add s t) = xor (dot a s) (dot a t)

section
variable {V : Type} (G : XGroup V)

/-- sum of the sub-family selected by a Bool mask (positions beyond the shorter list are ignored) -/
def sumMask : List V → List Bool → V
  | [], _ => G.zero
  | _, [] => G.zero
  | x :: xs, b :: bs => if b then G.add x (sumMask xs bs) else sumMask xs bs

/-- `L` spans `P`: every element satisfying `P` is the sum of a sub-family of `L` -/
def SpansP (L : List V) (P : V → Prop) : Prop :=
  ∀ z, P z → ∃ mask : List Bool, mask.length = L.length ∧ sumMask G L mask = z

/-- no non-empty sub-family sums to zero -/
def IndependentL (L : List V) : Prop :=
  ∀ mask : List Bool, mask.length = L.length → true ∈ mask → sumMask G L mask ≠ G.zero

/-! ### group helpers -/

theorem XGroup.zero_add (a : V) : G.add G.zero a = a := by rw [G.add_comm, G.add_zero]

theorem XGroup.add_left_comm (a b c : V) : G.add a (G.add b c) = G.add b (G.add a c) := by
  rw [← G.add_assoc, G.add_comm a b, G.add_assoc]

theorem XGroup.add_self_left (a b : V) : G.add a (G.add a b) = b := by
  rw [← G.add_assoc, G.add_self, G.zero_add]

theorem XGroup.eq_of_add_eq_zero (a b : V) (h : G.add a b = G.zero) : a = b := by
  have h2 : G.add (G.add a b) b = G.add G.zero b := by rw [h]
  rw [G.add_assoc, G.add_self, G.add_zero, G.zero_add] at h2
  exact h2

/-! ### `sumMask` helpers -/

@[simp] theorem sumMask_nil_left (m : List Bool) : sumMask G [] m = G.zero := by
  cases m <;> rfl

@[simp] theorem sumMask_nil_right (L : List V) : sumMask G L [] = G.zero := by
  cases L <;> rfl

@[simp] theorem sumMask_cons (x : V) (xs : List V) (b : Bool) (bs : List Bool) :
    sumMask G (x :: xs) (b :: bs)
      = if b then G.add x (sumMask G xs bs) else sumMask G xs bs := rfl

theorem sumMask_of_not_mem (L : List V) (m : List Bool) (h : true ∉ m) :
    sumMask G L m = G.zero := by
  induction L generalizing m with
  | nil => simp
  | cons x xs ih =>
    cases m with
    | nil => simp
    | cons b bs =>
      simp only [List.mem_cons, not_or] at h
      have hb : b = false := by cases b <;> simp_all
      subst hb
      simp [ih bs h.2]

theorem sumMask_zipWith_xor (L : List V) (m1 m2 : List Bool)
    (h1 : m1.length = L.length) (h2 : m2.length = L.length) :
    sumMask G L (List.zipWith xor m1 m2) = G.add (sumMask G L m1) (sumMask G L m2) := by
  induction L generalizing m1 m2 with
  | nil => simp [G.add_zero]
  | cons x xs ih =>
    cases m1 with
    | nil => simp at h1
    | cons b1 t1 =>
      cases m2 with
      | nil => simp at h2
      | cons b2 t2 =>
        simp only [List.length_cons, Nat.add_right_cancel_iff] at h1 h2
        have := ih t1 t2 h1 h2
        cases b1 <;> cases b2 <;>
          simp [this, G.add_assoc, G.add_left_comm, G.add_self_left]

/-- `x` is the sum of a sub-family of `L` -/
def InSpan (L : List V) (x : V) : Prop :=
  ∃ mask : List Bool, mask.length = L.length ∧ sumMask G L mask = x

theorem inSpan_zero (L : List V) : InSpan G L G.zero :=
  ⟨List.replicate L.length false, by simp, sumMask_of_not_mem G L _ (by simp)⟩

theorem inSpan_add {L : List V} {a b : V} (ha : InSpan G L a) (hb : InSpan G L b) :
    InSpan G L (G.add a b) := by
  obtain ⟨m1, h1, rfl⟩ := ha
  obtain ⟨m2, h2, rfl⟩ := hb
  exact ⟨List.zipWith xor m1 m2, by simp [h1, h2], sumMask_zipWith_xor G L m1 m2 h1 h2⟩

theorem inSpan_getElem? {L : List V} {i : Nat} {x : V} (h : L[i]? = some x) : InSpan G L x := by
  induction L generalizing i with
  | nil => simp at h
  | cons y ys ih =>
    cases i with
    | zero =>
      simp at h
      subst h
      exact ⟨true :: List.replicate ys.length false, by simp,
        by simp [sumMask_of_not_mem G ys (List.replicate ys.length false) (by simp), G.add_zero]⟩
    | succ i =>
      simp at h
      obtain ⟨m, hm, rfl⟩ := ih h
      exact ⟨false :: m, by simp [hm], by simp⟩

theorem inSpan_mem {L : List V} {x : V} (h : x ∈ L) : InSpan G L x := by
  obtain ⟨i, hi⟩ := List.mem_iff_getElem?.1 h
  exact inSpan_getElem? G hi

/-- everything built from `L` lies in the span of `L'` as soon as the members of `L` do -/
theorem inSpan_sumMask_of {L L' : List V} (h : ∀ x ∈ L, InSpan G L' x) (m : List Bool) :
    InSpan G L' (sumMask G L m) := by
  induction L generalizing m with
  | nil => simpa using inSpan_zero G L'
  | cons x xs ih =>
    cases m with
    | nil => simpa using inSpan_zero G L'
    | cons b bs =>
      have hxs := ih (fun y hy => h y (List.mem_cons_of_mem _ hy)) bs
      cases b
      · simpa using hxs
      · simpa using inSpan_add G (h x (List.mem_cons_self)) hxs

theorem inSpan_sumMask (L : List V) (m : List Bool) : InSpan G L (sumMask G L m) :=
  inSpan_sumMask_of G (fun _ hx => inSpan_mem G hx) m

theorem inSpan_trans {L L' : List V} (h : ∀ x ∈ L, InSpan G L' x) {z : V} (hz : InSpan G L z) :
    InSpan G L' z := by
  obtain ⟨m, _, rfl⟩ := hz
  exact inSpan_sumMask_of G h m

theorem spansP_of_inSpan {L L' : List V} {Q : V → Prop} (hs : SpansP G L Q)
    (h : ∀ x ∈ L, InSpan G L' x) : SpansP G L' Q :=
  fun z hz => inSpan_trans G h (hs z hz)

/-- splitting off a selected position, after replacing it by anything -/
theorem sumMask_set_true (L : List V) (m : List Bool) (q : Nat) (x y : V)
    (hL : L[q]? = some y) (hm : m[q]? = some true) :
    sumMask G L m = G.add y (sumMask G (L.set q x) (m.set q false)) := by
  induction L generalizing m q with
  | nil => simp at hL
  | cons x0 xs ih =>
    cases m with
    | nil => simp at hm
    | cons b bs =>
      cases q with
      | zero =>
        simp at hL hm
        subst hL; subst hm
        simp
      | succ q =>
        simp at hL hm
        have := ih bs q hL hm
        cases b <;> simp [this, G.add_left_comm]

theorem sum_or_space (space : V → Prop)
    (space_add : ∀ a b, space a → space b → space (G.add a b))
    (L : List V) (hL : ∀ C ∈ L, space C) (m : List Bool) :
    sumMask G L m = G.zero ∨ space (sumMask G L m) := by
  induction L generalizing m with
  | nil => simp
  | cons x xs ih =>
    cases m with
    | nil => simp
    | cons b bs =>
      have hx : space x := hL x (List.mem_cons_self)
      have := ih (fun y hy => hL y (List.mem_cons_of_mem _ hy)) bs
      cases b
      · simpa using this
      · rcases this with h0 | hs
        · right; simpa [h0, G.add_zero] using hx
        · right; simpa using space_add _ _ hx hs

end


section
variable {V W : Type} {G : XGroup V} {H : XGroup W} (P : Pairing G H)

/-- the triangular pattern between the emitted elements `Cs` and their witnesses `Ss` -/
structure Triangular (Cs : List V) (Ss : List W) : Prop where
  len : Cs.length = Ss.length
  diag : ∀ (i : Nat) C S, Cs[i]? = some C → Ss[i]? = some S → P.dot C S = true
  lower : ∀ (i j : Nat) C S, j < i → Cs[j]? = some C → Ss[i]? = some S → P.dot C S = false


theorem Pairing.dot_zero_left (s : W) : P.dot G.zero s = false := by
  have h := P.dot_add_left G.zero G.zero s
  rw [G.add_zero] at h
  simpa using h

/-- a selected element is odd against `S` whenever the whole sum is -/
theorem dot_sumMask_true (L : List V) (m : List Bool) (S : W)
    (h : P.dot (sumMask G L m) S = true) :
    ∃ (q : Nat) (y : V), L[q]? = some y ∧ m[q]? = some true ∧ P.dot y S = true := by
  induction L generalizing m with
  | nil => simp [P.dot_zero_left] at h
  | cons x xs ih =>
    cases m with
    | nil => simp [P.dot_zero_left] at h
    | cons b bs =>
      cases b
      · simp at h
        obtain ⟨q, y, h1, h2, h3⟩ := ih bs h
        exact ⟨q + 1, y, by simpa using h1, by simpa using h2, h3⟩
      · simp [P.dot_add_left] at h
        by_cases hx : P.dot x S = true
        · exact ⟨0, x, by simp, by simp, hx⟩
        · have hr : P.dot (sumMask G xs bs) S = true := by
            cases h1 : P.dot x S <;> cases h2 : P.dot (sumMask G xs bs) S <;> simp_all
          obtain ⟨q, y, h1, h2, h3⟩ := ih bs hr
          exact ⟨q + 1, y, by simpa using h1, by simpa using h2, h3⟩

/-- list-recursive form of the triangular pattern -/
def Tri : List V → List W → Prop
  | [], [] => True
  | C :: Cs, S :: Ss => P.dot C S = true ∧ (∀ S' ∈ Ss, P.dot C S' = false) ∧ Tri Cs Ss
  | _, _ => False

theorem Triangular.tail {C : V} {Cs : List V} {S : W} {Ss : List W}
    (h : Triangular P (C :: Cs) (S :: Ss)) : Triangular P Cs Ss where
  len := by simpa using h.len
  diag := fun i C' S' h1 h2 => h.diag (i + 1) C' S' (by simpa using h1) (by simpa using h2)
  lower := fun i j C' S' hji h1 h2 =>
    h.lower (i + 1) (j + 1) C' S' (by omega) (by simpa using h1) (by simpa using h2)

theorem Triangular.toTri {Cs : List V} {Ss : List W} (h : Triangular P Cs Ss) : Tri P Cs Ss := by
  induction Cs generalizing Ss with
  | nil =>
    cases Ss with
    | nil => trivial
    | cons S Ss => have := h.len; simp at this
  | cons C Cs ih =>
    cases Ss with
    | nil => have := h.len; simp at this
    | cons S Ss =>
      refine ⟨h.diag 0 C S (by simp) (by simp), ?_, ih h.tail⟩
      intro S' hS'
      obtain ⟨i, hi⟩ := List.mem_iff_getElem?.1 hS'
      exact h.lower (i + 1) 0 C S' (by omega) (by simp) (by simpa using hi)

theorem tri_indep {Cs : List V} {Ss : List W} (h : Tri P Cs Ss) (mask : List Bool)
    (hlen : mask.length = Cs.length) (hm : true ∈ mask) :
    ∃ S ∈ Ss, P.dot (sumMask G Cs mask) S = true := by
  induction Cs generalizing Ss mask with
  | nil =>
    cases mask with
    | nil => simp at hm
    | cons b bs => simp at hlen
  | cons C Cs ih =>
    cases Ss with
    | nil => exact absurd h (by simp [Tri])
    | cons S Ss =>
      obtain ⟨hd, hlow, ht⟩ := h
      cases mask with
      | nil => simp at hm
      | cons b bs =>
        simp only [List.length_cons, Nat.add_right_cancel_iff] at hlen
        by_cases hbs : true ∈ bs
        · obtain ⟨S', hS', hdot⟩ := ih ht bs hlen hbs
          refine ⟨S', List.mem_cons_of_mem _ hS', ?_⟩
          cases b
          · simpa using hdot
          · simp [P.dot_add_left, hlow S' hS', hdot]
        · have hb : b = true := by
            rcases List.mem_cons.1 hm with h1 | h1
            · exact h1.symm
            · exact absurd h1 hbs
          subst hb
          refine ⟨S, List.mem_cons_self, ?_⟩
          simp [sumMask_of_not_mem G Cs bs hbs, G.add_zero, hd]

theorem tri_backsubst {Cs : List V} {Ss : List W} (h : Tri P Cs Ss) (z : V) :
    ∃ mask : List Bool, mask.length = Cs.length ∧
      ∀ S ∈ Ss, P.dot (G.add z (sumMask G Cs mask)) S = false := by
  induction Cs generalizing Ss z with
  | nil =>
    cases Ss with
    | nil => exact ⟨[], rfl, by simp⟩
    | cons S Ss => exact absurd h (by simp [Tri])
  | cons C Cs ih =>
    cases Ss with
    | nil => exact absurd h (by simp [Tri])
    | cons S Ss =>
      obtain ⟨hd, hlow, ht⟩ := h
      obtain ⟨m, hm, horth⟩ := ih ht z
      refine ⟨P.dot (G.add z (sumMask G Cs m)) S :: m, by simp [hm], ?_⟩
      intro S' hS'
      rcases List.mem_cons.1 hS' with rfl | hS'
      · cases hb : P.dot (G.add z (sumMask G Cs m)) S'
        · simpa using hb
        · simp only [sumMask_cons, if_true]
          rw [G.add_left_comm, P.dot_add_left, hd, hb]; rfl
      · have := horth S' hS'
        cases hb : P.dot (G.add z (sumMask G Cs m)) S
        · simpa using this
        · simp only [sumMask_cons, if_true]
          rw [G.add_left_comm, P.dot_add_left, hlow S' hS', this]; rfl

/-- F6(a): a triangular family is independent (look at the largest selected index). -/
theorem triangular_independent {Cs : List V} {Ss : List W} (h : Triangular P Cs Ss) :
    IndependentL G Cs := by
  intro mask hlen hm h0
  obtain ⟨S, _, hS⟩ := tri_indep P h.toTri mask hlen hm
  rw [h0, P.dot_zero_left] at hS
  exact Bool.noConfusion hS

/-- F6(b): back-substitution.  If only zero (within `space`) is orthogonal to all witnesses,
a triangular family inside `space` spans `space`. -/
theorem triangular_spans {Cs : List V} {Ss : List W} (space : V → Prop)
    (space_add : ∀ a b, space a → space b → space (G.add a b))
    (hC : ∀ C ∈ Cs, space C)
    (h : Triangular P Cs Ss)
    (hker : ∀ z, space z → (∀ S ∈ Ss, P.dot z S = false) → z = G.zero) :
    SpansP G Cs space := by
  intro z hz
  obtain ⟨mask, hlen, horth⟩ := tri_backsubst P h.toTri z
  refine ⟨mask, hlen, ?_⟩
  rcases sum_or_space G space space_add Cs hC mask with h0 | hs
  · rw [h0, G.add_zero] at horth
    rw [h0]
    exact (hker z hz horth).symm
  · have := hker _ (space_add _ _ hz hs) horth
    exact (G.eq_of_add_eq_zero _ _ this).symm


/-- replacing a selected summand `B[q]` of `C = sumMask B m` by `C` itself keeps the span -/
theorem inSpan_exchange (B : List V) (m : List Bool) (q : Nat) (y : V)
    (hBq : B[q]? = some y) (hmq : m[q]? = some true) :
    ∀ x ∈ B, InSpan G (B.set q (sumMask G B m)) x := by
  intro x hx
  obtain ⟨i, hi⟩ := List.mem_iff_getElem?.1 hx
  have hq : q < B.length := by
    rcases Nat.lt_or_ge q B.length with h | h
    · exact h
    · rw [List.getElem?_eq_none h] at hBq; cases hBq
  by_cases hiq : i = q
  · subst hiq
    have hxy : x = y := by rw [hi] at hBq; exact Option.some.inj hBq
    subst hxy
    have hsplit := sumMask_set_true G B m i (sumMask G B m) x hBq hmq
    have hC : InSpan G (B.set i (sumMask G B m)) (sumMask G B m) :=
      inSpan_getElem? G (i := i) (by simp [hq])
    have hR := inSpan_sumMask G (B.set i (sumMask G B m)) (m.set i false)
    have hx' : x = G.add (sumMask G B m)
        (sumMask G (B.set i (sumMask G B m)) (m.set i false)) := by
      have := congrArg (G.add x) hsplit
      rw [G.add_self_left] at this
      rw [← this, G.add_left_comm, G.add_self, G.add_zero]
    rw [hx']
    exact inSpan_add G hC hR
  · exact inSpan_getElem? G (i := i) (by
      rw [List.getElem?_set]
      simp [Ne.symm hiq, hi])

/-- invariant of the exchange argument after `n` steps -/
structure ExInv (G : XGroup V) (space : V → Prop) (w : V → Int) (α : Int) (Cs L : List V)
    (n : Nat) (B : List V) (p : List Nat) : Prop where
  plen : p.length = n
  nodup : p.Nodup
  range : ∀ q ∈ p, q < L.length
  blen : B.length = L.length
  bspace : ∀ D ∈ B, space D
  bspan : SpansP G B space
  bp : ∀ (j q : Nat), p[j]? = some q → B[q]? = Cs[j]?
  bl : ∀ (q : Nat), q ∉ p → B[q]? = L[q]?
  wt : ∀ (i : Nat) C (q : Nat) D, Cs[i]? = some C → p[i]? = some q → L[q]? = some D →
    w C ≤ α * w D

theorem exInv_step {Cs : List V} {Ss : List W} (space : V → Prop) (w : V → Int) (α : Int)
    (h : Triangular P Cs Ss)
    (hC : ∀ C ∈ Cs, space C)
    (hmin : ∀ (i : Nat) C S, Cs[i]? = some C → Ss[i]? = some S →
        ∀ z, space z → P.dot z S = true → w C ≤ α * w z)
    (L : List V) (n : Nat) (hn : n < Cs.length) (B : List V) (p : List Nat)
    (inv : ExInv G space w α Cs L n B p) :
    ∃ B' p', ExInv G space w α Cs L (n + 1) B' p' := by
  obtain ⟨C, hCn⟩ : ∃ C, Cs[n]? = some C := ⟨Cs[n], by simp [hn]⟩
  obtain ⟨S, hSn⟩ : ∃ S, Ss[n]? = some S :=
    ⟨Ss[n]'(by rw [← h.len]; exact hn), by simp [← h.len, hn]⟩
  have hCs : space C := hC C (List.mem_of_getElem? hCn)
  obtain ⟨m, hmlen, hm⟩ := inv.bspan C hCs
  have hdot : P.dot C S = true := h.diag n C S hCn hSn
  rw [← hm] at hdot
  obtain ⟨q, y, hBq, hmq, hy⟩ := dot_sumMask_true P B m S hdot
  have hqB : q < B.length := by
    rcases Nat.lt_or_ge q B.length with h | h
    · exact h
    · rw [List.getElem?_eq_none h] at hBq; cases hBq
  have hqp : q ∉ p := by
    intro hq
    obtain ⟨j, hj⟩ := List.mem_iff_getElem?.1 hq
    have hjn : j < n := by
      rw [← inv.plen]
      rcases Nat.lt_or_ge j p.length with h | h
      · exact h
      · rw [List.getElem?_eq_none h] at hj; cases hj
    have h1 := inv.bp j q hj
    have h2 := h.lower n j y S hjn (by rw [← h1]; exact hBq) hSn
    rw [hy] at h2; cases h2
  have hLq : L[q]? = some y := by rw [← inv.bl q hqp]; exact hBq
  have hys : space y := inv.bspace y (List.mem_of_getElem? hBq)
  have hwy : w C ≤ α * w y := hmin n C S hCn hSn y hys hy
  refine ⟨B.set q C, p ++ [q], ?_⟩
  refine
    { plen := by simp [inv.plen]
      nodup := ?_
      range := ?_
      blen := by simp [inv.blen]
      bspace := ?_
      bspan := ?_
      bp := ?_
      bl := ?_
      wt := ?_ }
  · rw [List.nodup_append]
    refine ⟨inv.nodup, by simp, ?_⟩
    intro a ha b hb hab
    simp at hb
    subst hb; subst hab
    exact hqp ha
  · intro q' hq'
    rcases List.mem_append.1 hq' with h1 | h1
    · exact inv.range q' h1
    · simp at h1; subst h1; rw [← inv.blen]; exact hqB
  · intro D hD
    rcases List.mem_or_eq_of_mem_set hD with h1 | h1
    · exact inv.bspace D h1
    · subst h1; exact hCs
  · have := inSpan_exchange (G := G) B m q y hBq hmq
    rw [hm] at this
    exact spansP_of_inSpan G inv.bspan this
  · intro j q' hj
    rw [List.getElem?_append] at hj
    split at hj
    · next hlt =>
      have hne : q' ≠ q := by
        intro he; subst he
        exact hqp (List.mem_of_getElem? hj)
      rw [List.getElem?_set]
      simp [Ne.symm hne]
      exact inv.bp j q' hj
    · next hge =>
      have hjn : j = n := by
        rcases Nat.lt_or_ge (j - p.length) 1 with h1 | h1
        · have := inv.plen; omega
        · rw [List.getElem?_eq_none (by simpa using h1)] at hj; cases hj
      subst hjn
      have : j - p.length = 0 := by have := inv.plen; omega
      rw [this] at hj
      simp at hj
      subst hj
      rw [List.getElem?_set]
      simp [hqB, hCn]
  · intro q' hq'
    simp only [List.mem_append, List.mem_singleton, not_or] at hq'
    rw [List.getElem?_set]
    simp [Ne.symm hq'.2]
    exact inv.bl q' hq'.1
  · intro i C' q' D hCi hpi hLD
    rw [List.getElem?_append] at hpi
    split at hpi
    · exact inv.wt i C' q' D hCi hpi hLD
    · next hge =>
      have hin : i = n := by
        rcases Nat.lt_or_ge (i - p.length) 1 with h1 | h1
        · have := inv.plen; omega
        · rw [List.getElem?_eq_none (by simpa using h1)] at hpi; cases hpi
      subst hin
      have : i - p.length = 0 := by have := inv.plen; omega
      rw [this] at hpi
      simp at hpi
      subst hpi
      rw [hCn] at hCi; cases hCi
      rw [hLq] at hLD; cases hLD
      exact hwy

theorem exInv_exists {Cs : List V} {Ss : List W} (space : V → Prop) (w : V → Int) (α : Int)
    (h : Triangular P Cs Ss)
    (hC : ∀ C ∈ Cs, space C)
    (hmin : ∀ (i : Nat) C S, Cs[i]? = some C → Ss[i]? = some S →
        ∀ z, space z → P.dot z S = true → w C ≤ α * w z)
    (L : List V) (hL : ∀ D ∈ L, space D) (hspan : SpansP G L space)
    (n : Nat) (hn : n ≤ Cs.length) :
    ∃ B p, ExInv G space w α Cs L n B p := by
  induction n with
  | zero =>
    exact ⟨L, [],
      { plen := rfl
        nodup := List.nodup_nil
        range := by simp
        blen := rfl
        bspace := hL
        bspan := hspan
        bp := by simp
        bl := by simp
        wt := by simp }⟩
  | succ n ih =>
    obtain ⟨B, p, inv⟩ := ih (by omega)
    exact exInv_step P space w α h hC hmin L n (by omega) B p inv

/-- F6(c): the α-robust exchange argument.  Against ANY family `L ⊆ space` that spans `space`
there is an injection `i ↦ p[i]` of the emitted elements into the positions of `L` with
`w C_i ≤ α * w L[p i]`.  No dimension theory, no independence of `L` needed. -/
theorem exchange_injection {Cs : List V} {Ss : List W} (space : V → Prop) (w : V → Int) (α : Int)
    (h : Triangular P Cs Ss)
    (hC : ∀ C ∈ Cs, space C)
    (hmin : ∀ (i : Nat) C S, Cs[i]? = some C → Ss[i]? = some S →
        ∀ z, space z → P.dot z S = true → w C ≤ α * w z)
    (L : List V) (hL : ∀ D ∈ L, space D) (hspan : SpansP G L space) :
    ∃ p : List Nat, p.length = Cs.length ∧ p.Nodup ∧ (∀ q ∈ p, q < L.length) ∧
      ∀ (i : Nat) C (q : Nat) D, Cs[i]? = some C → p[i]? = some q → L[q]? = some D → w C ≤ α * w D := by
  obtain ⟨B, p, inv⟩ := exInv_exists P space w α h hC hmin L hL hspan Cs.length (Nat.le_refl _)
  exact ⟨p, inv.plen, inv.nodup, inv.range, inv.wt⟩


theorem sum_nonneg_of (ws : List Int) (hws : ∀ a ∈ ws, 0 ≤ a) : 0 ≤ ws.sum := by
  induction ws with
  | nil => simp
  | cons a as ih =>
    have h1 := hws a List.mem_cons_self
    have h2 := ih (fun b hb => hws b (List.mem_cons_of_mem _ hb))
    simp only [List.sum_cons]
    omega

theorem sum_set_zero (ws : List Int) (q : Nat) :
    ws.sum = ws[q]?.getD 0 + (ws.set q 0).sum := by
  induction ws generalizing q with
  | nil => simp
  | cons a as ih =>
    cases q with
    | zero => simp
    | succ q =>
      have := ih q
      simp only [List.sum_cons, List.getElem?_cons_succ, List.set_cons_succ]
      omega

theorem sum_nodup_le (ws : List Int) (hws : ∀ a ∈ ws, 0 ≤ a) (p : List Nat) (hp : p.Nodup) :
    (p.map (fun q => ws[q]?.getD 0)).sum ≤ ws.sum := by
  induction p generalizing ws with
  | nil => simpa using sum_nonneg_of ws hws
  | cons q p ih =>
    rw [List.nodup_cons] at hp
    have hws' : ∀ a ∈ ws.set q 0, 0 ≤ a := by
      intro a ha
      rcases List.mem_or_eq_of_mem_set ha with h1 | h1
      · exact hws a h1
      · omega
    have hih := ih (ws.set q 0) hws' hp.2
    have hcongr : p.map (fun q' => (ws.set q 0)[q']?.getD 0) = p.map (fun q' => ws[q']?.getD 0) := by
      apply List.map_congr_left
      intro q' hq'
      have hne : q ≠ q' := by intro he; subst he; exact hp.1 hq'
      simp [hne]
    rw [hcongr] at hih
    rw [sum_set_zero ws q]
    simp only [List.map_cons, List.sum_cons]
    omega

theorem sum_map_le_of_pointwise (w : V → Int) (α : Int) (ws : List Int) (Cs : List V)
    (p : List Nat) (hlen : p.length = Cs.length)
    (hw : ∀ (i : Nat) C (q : Nat), Cs[i]? = some C → p[i]? = some q →
      w C ≤ α * (ws[q]?.getD 0)) :
    (Cs.map w).sum ≤ α * (p.map (fun q => ws[q]?.getD 0)).sum := by
  induction Cs generalizing p with
  | nil =>
    cases p with
    | nil => simp
    | cons q p => simp at hlen
  | cons C Cs ih =>
    cases p with
    | nil => simp at hlen
    | cons q p =>
      have h0 := hw 0 C q (by simp) (by simp)
      have h1 := ih p (by simpa using hlen) (fun i C' q' hC' hq' =>
        hw (i + 1) C' q' (by simpa using hC') (by simpa using hq'))
      simp only [List.map_cons, List.sum_cons, Int.mul_add]
      omega

/-- F6(d): total weight bound, `α = 1` is exact minimality. -/
theorem depina_weight {Cs : List V} {Ss : List W} (space : V → Prop) (w : V → Int) (α : Int)
    (hα : 0 ≤ α) (hw : ∀ z, space z → 0 ≤ w z)
    (h : Triangular P Cs Ss)
    (hC : ∀ C ∈ Cs, space C)
    (hmin : ∀ (i : Nat) C S, Cs[i]? = some C → Ss[i]? = some S →
        ∀ z, space z → P.dot z S = true → w C ≤ α * w z)
    (L : List V) (hL : ∀ D ∈ L, space D) (hspan : SpansP G L space) :
    (Cs.map w).sum ≤ α * (L.map w).sum := by
  obtain ⟨p, hplen, hnd, hrange, hwt⟩ :=
    exchange_injection P space w α h hC hmin L hL hspan
  have h1 : (Cs.map w).sum ≤ α * (p.map (fun q => (L.map w)[q]?.getD 0)).sum := by
    apply sum_map_le_of_pointwise w α (L.map w) Cs p hplen
    intro i C q hCi hpi
    have hq : q < L.length := hrange q (List.mem_of_getElem? hpi)
    have hLq : L[q]? = some L[q] := by simp [hq]
    have := hwt i C q L[q] hCi hpi hLq
    simpa [hq] using this
  have h2 : (p.map (fun q => (L.map w)[q]?.getD 0)).sum ≤ (L.map w).sum := by
    apply sum_nodup_le _ _ p hnd
    intro a ha
    obtain ⟨D, hD, rfl⟩ := List.mem_map.1 ha
    exact hw D (hL D hD)
  exact Int.le_trans h1 (Int.mul_le_mul_of_nonneg_left h2 hα)

/-! ### F7: the support-vector machine -/

/-- exchange rows `k` and `r` (the sparsest-support heuristic; any `r`) -/
def swapRows (Ss : List W) (k r : Nat) : List W :=
  match Ss[k]?, Ss[r]? with
  | some a, some b => (Ss.set k b).set r a
  | _, _ => Ss

/-- the update loop `for l > k: if <S_l, C> = 1 then S_l += S_k`, `hit S = <C, S>` -/
def updateRows (H : XGroup W) (hit : W → Bool) (k : Nat) (Ss : List W) : List W :=
  match Ss[k]? with
  | none => Ss
  | some Sk => Ss.mapIdx (fun l S => if k < l ∧ hit S = true then H.add S Sk else S)

theorem mem_swapRows (Ss : List W) (k r : Nat) (x : W) (hx : x ∈ Ss) : x ∈ swapRows Ss k r := by
  unfold swapRows
  split
  · next a b ha hb =>
    obtain ⟨i, hi⟩ := List.mem_iff_getElem?.1 hx
    have hk : k < Ss.length := by
      rcases Nat.lt_or_ge k Ss.length with h | h
      · exact h
      · rw [List.getElem?_eq_none h] at ha; cases ha
    have hr : r < Ss.length := by
      rcases Nat.lt_or_ge r Ss.length with h | h
      · exact h
      · rw [List.getElem?_eq_none h] at hb; cases hb
    by_cases hik : i = k
    · subst hik
      rw [hi] at ha; cases ha
      exact List.mem_of_getElem? (i := r) (by simp [hr])
    · by_cases hir : i = r
      · subst hir
        rw [hi] at hb; cases hb
        exact List.mem_of_getElem? (i := k) (by
          rw [List.getElem?_set]
          simp [hik, hk])
      · exact List.mem_of_getElem? (i := i) (by
          rw [List.getElem?_set, List.getElem?_set]
          simp [Ne.symm hik, Ne.symm hir, hi])
  · exact hx

theorem getElem?_updateRows (hit : W → Bool) (k l : Nat) (Ss : List W) (Sk x : W)
    (hk : Ss[k]? = some Sk) (hl : Ss[l]? = some x) :
    (updateRows H hit k Ss)[l]? = some (if k < l ∧ hit x = true then H.add x Sk else x) := by
  simp [updateRows, hk, List.getElem?_mapIdx, hl]

theorem swapRows_length (Ss : List W) (k r : Nat) : (swapRows Ss k r).length = Ss.length := by
  unfold swapRows
  split <;> simp

theorem updateRows_length (hit : W → Bool) (k : Nat) (Ss : List W) :
    (updateRows H hit k Ss).length = Ss.length := by
  unfold updateRows
  split <;> simp

/-- rows at positions `≤ k` are not touched by the update of phase `k` -/
theorem updateRows_prefix (hit : W → Bool) (k l : Nat) (Ss : List W) (hl : l ≤ k) :
    (updateRows H hit k Ss)[l]? = Ss[l]? := by
  unfold updateRows
  split
  · rfl
  · have hkl : ¬ k < l := by omega
    simp [List.getElem?_mapIdx, hkl]

/-- rows at positions `< k` are not touched by a swap of `k` with `r ≥ k` -/
theorem swapRows_prefix (Ss : List W) (k r l : Nat) (hk : k ≤ r) (hl : l < k) :
    (swapRows Ss k r)[l]? = Ss[l]? := by
  unfold swapRows
  split
  · have h1 : r ≠ l := by omega
    have h2 : k ≠ l := by omega
    simp [h1, h2]
  · rfl

/-- spanning (of anything) survives a swap -/
theorem span_swapRows (Ss : List W) (k r : Nat) (Q : W → Prop) (hs : SpansP H Ss Q) :
    SpansP H (swapRows Ss k r) Q := by
  apply spansP_of_inSpan H hs
  intro x hx
  exact inSpan_mem H (mem_swapRows Ss k r x hx)

/-- spanning (of anything) survives the update loop -/
theorem span_updateRows (hit : W → Bool) (k : Nat) (Ss : List W) (Q : W → Prop)
    (hs : SpansP H Ss Q) : SpansP H (updateRows H hit k Ss) Q := by
  apply spansP_of_inSpan H hs
  intro x hx
  obtain ⟨l, hl⟩ := List.mem_iff_getElem?.1 hx
  cases hk : Ss[k]? with
  | none => simpa [updateRows, hk] using inSpan_mem H hx
  | some Sk =>
    have hnk : (updateRows H hit k Ss)[k]? = some Sk := by
      rw [updateRows_prefix hit k k Ss (Nat.le_refl _)]; exact hk
    have hnl := getElem?_updateRows (H := H) hit k l Ss Sk x hk hl
    by_cases hc : k < l ∧ hit x = true
    · rw [if_pos hc] at hnl
      have : x = H.add (H.add x Sk) Sk := by
        rw [H.add_assoc, H.add_self, H.add_zero]
      rw [this]
      exact inSpan_add H (inSpan_getElem? H hnl) (inSpan_getElem? H hnk)
    · rw [if_neg hc] at hnl
      exact inSpan_getElem? H hnl

/-- the abstract run: phase `k` swaps row `k` with row `r`, emits `C`, updates the later rows -/
def runPhases : Nat → List W → List (Nat × V) → List W
  | _, Ss, [] => Ss
  | k, Ss, (r, C) :: rest =>
      runPhases (k + 1) (updateRows H (fun S => P.dot C S) k (swapRows Ss k r)) rest

/-- the contract of a run: at every phase the swap index is legal and the emitted element is
odd against the row that sits at position `k` after the swap; `good k S C` is any extra fact
recorded about that row and element (minimality, in the applications). -/
def PhasesOK (good : Nat → W → V → Prop) : Nat → List W → List (Nat × V) → Prop
  | _, _, [] => True
  | k, Ss, (r, C) :: rest =>
      k ≤ r ∧ r < Ss.length ∧
      (∃ S, (swapRows Ss k r)[k]? = some S ∧ P.dot C S = true ∧ good k S C) ∧
      PhasesOK good (k + 1) (updateRows H (fun S => P.dot C S) k (swapRows Ss k r)) rest

theorem runPhases_length (k : Nat) (Ss : List W) (ph : List (Nat × V)) :
    (runPhases P k Ss ph).length = Ss.length := by
  induction ph generalizing k Ss with
  | nil => rfl
  | cons a rest ih =>
    obtain ⟨r, C⟩ := a
    simp only [runPhases]
    rw [ih, updateRows_length, swapRows_length]

/-- spanning of anything survives the whole run (F7 ii) -/
theorem span_runPhases (k : Nat) (Ss : List W) (ph : List (Nat × V)) (Q : W → Prop)
    (hs : SpansP H Ss Q) : SpansP H (runPhases P k Ss ph) Q := by
  induction ph generalizing k Ss with
  | nil => exact hs
  | cons a rest ih =>
    obtain ⟨r, C⟩ := a
    simp only [runPhases]
    exact ih _ _ (span_updateRows _ _ _ _ (span_swapRows _ _ _ _ hs))

/-- rows at positions `< k` are final once phase `k` starts -/
theorem runPhases_prefix (good : Nat → W → V → Prop) (k : Nat) (Ss : List W)
    (ph : List (Nat × V)) (hok : PhasesOK P good k Ss ph) (l : Nat) (hl : l < k) :
    (runPhases P k Ss ph)[l]? = Ss[l]? := by
  induction ph generalizing k Ss with
  | nil => rfl
  | cons a rest ih =>
    obtain ⟨r, C⟩ := a
    obtain ⟨hkr, _, _, hrest⟩ := hok
    simp only [runPhases]
    rw [ih _ _ hrest (by omega), updateRows_prefix _ _ _ _ (by omega),
      swapRows_prefix _ _ _ _ hkr hl]

/-- all rows at positions `≥ k` satisfy `T` -/
def RowsGe (T : W → Prop) (k : Nat) (Ss : List W) : Prop :=
  ∀ (l : Nat) (S : W), k ≤ l → Ss[l]? = some S → T S

theorem rowsGe_swapRows (T : W → Prop) (k r : Nat) (Ss : List W) (hkr : k ≤ r)
    (h : RowsGe T k Ss) : RowsGe T k (swapRows Ss k r) := by
  intro l S hl hS
  unfold swapRows at hS
  split at hS
  · next a b ha hb =>
    rw [List.getElem?_set] at hS
    split at hS
    · split at hS
      · cases hS; exact h k S (Nat.le_refl _) ha
      · cases hS
    · rw [List.getElem?_set] at hS
      split at hS
      · split at hS
        · cases hS; exact h r S hkr hb
        · cases hS
      · exact h l S hl hS
  · exact h l S hl hS

theorem rowsGe_updateRows (T : W → Prop) (hT : ∀ a b, T a → T b → T (H.add a b))
    (hit : W → Bool) (k : Nat) (Ss : List W)
    (h : RowsGe T k Ss) : RowsGe T k (updateRows H hit k Ss) := by
  intro l S hl hS
  cases hk : Ss[k]? with
  | none =>
    simp only [updateRows, hk] at hS
    exact h l S hl hS
  | some Sk =>
    cases hx : Ss[l]? with
    | none =>
      simp [updateRows, hk, List.getElem?_mapIdx, hx] at hS
    | some x =>
      rw [getElem?_updateRows (H := H) hit k l Ss Sk x hk hx] at hS
      cases hS
      have hTx := h l x hl hx
      have hTk := h k Sk (Nat.le_refl _) hk
      split
      · exact hT _ _ hTx hTk
      · exact hTx

theorem rowsGe_mono (T : W → Prop) {k k' : Nat} (hkk : k ≤ k') (Ss : List W)
    (h : RowsGe T k Ss) : RowsGe T k' Ss :=
  fun l S hl hS => h l S (by omega) hS

theorem rowsGe_runPhases (T : W → Prop) (hT : ∀ a b, T a → T b → T (H.add a b))
    (good : Nat → W → V → Prop) (k : Nat) (Ss : List W)
    (ph : List (Nat × V)) (hok : PhasesOK P good k Ss ph) (h : RowsGe T k Ss) :
    RowsGe T k (runPhases P k Ss ph) := by
  induction ph generalizing k Ss with
  | nil => exact h
  | cons a rest ih =>
    obtain ⟨r, C⟩ := a
    obtain ⟨hkr, _, _, hrest⟩ := hok
    have h1 := rowsGe_updateRows T hT (fun S => P.dot C S) k _ (rowsGe_swapRows T k r Ss hkr h)
    have h2 := ih _ _ hrest (rowsGe_mono T (Nat.le_succ k) _ h1)
    intro l S hl hS
    simp only [runPhases] at hS
    rcases Nat.lt_or_ge k l with hlt | hge
    · exact h2 l S hlt hS
    · have hlk : l = k := by omega
      subst hlk
      rw [runPhases_prefix P good _ _ _ hrest l (by omega)] at hS
      exact h1 l S (Nat.le_refl _) hS

/-- after the update of phase `k` all later rows are even against the emitted element -/
theorem rowsGe_after_update (C : V) (k : Nat) (Ss : List W) (Sk : W)
    (hk : Ss[k]? = some Sk) (hdot : P.dot C Sk = true) :
    RowsGe (fun S => P.dot C S = false) (k + 1) (updateRows H (fun S => P.dot C S) k Ss) := by
  intro l S hl hS
  cases hx : Ss[l]? with
  | none =>
    simp [updateRows, hk, List.getElem?_mapIdx, hx] at hS
  | some x =>
    rw [getElem?_updateRows (H := H) _ k l Ss Sk x hk hx] at hS
    cases hS
    split
    · next hc =>
      show P.dot C (H.add x Sk) = false
      rw [P.dot_add_right, hc.2, hdot]; rfl
    · next hc =>
      show P.dot C x = false
      cases hcx : P.dot C x
      · rfl
      · exact absurd ⟨by omega, hcx⟩ hc

theorem run_triangular_gen (good : Nat → W → V → Prop) (k : Nat) (Ss : List W)
    (ph : List (Nat × V)) (hok : PhasesOK P good k Ss ph) :
    (∀ (i : Nat) r C S, ph[i]? = some (r, C) → (runPhases P k Ss ph)[k + i]? = some S →
        P.dot C S = true ∧ good (k + i) S C) ∧
    (∀ (i j : Nat) r C S, j < i → ph[j]? = some (r, C) →
        (runPhases P k Ss ph)[k + i]? = some S → P.dot C S = false) := by
  induction ph generalizing k Ss with
  | nil => simp
  | cons a rest ih =>
    obtain ⟨r0, C0⟩ := a
    obtain ⟨hkr, hr, ⟨S0, hS0, hdot0, hgood0⟩, hrest⟩ := hok
    obtain ⟨ihA, ihB⟩ := ih _ _ hrest
    simp only [runPhases]
    refine ⟨?_, ?_⟩
    · intro i r C S hph hS
      cases i with
      | zero =>
        simp at hph
        obtain ⟨rfl, rfl⟩ := hph
        replace hS : (runPhases P (k + 1) _ rest)[k]? = some S := hS
        show P.dot C0 S = true ∧ good k S C0
        rw [runPhases_prefix P good _ _ _ hrest k (by omega),
          updateRows_prefix _ _ _ _ (Nat.le_refl _), hS0] at hS
        cases hS
        exact ⟨hdot0, hgood0⟩
      | succ i =>
        simp at hph
        have e : k + (i + 1) = k + 1 + i := by omega
        rw [e] at hS ⊢
        exact ihA i r C S hph hS
    · intro i j r C S hji hph hS
      cases i with
      | zero => omega
      | succ i =>
        have e : k + (i + 1) = k + 1 + i := by omega
        rw [e] at hS
        cases j with
        | zero =>
          simp at hph
          obtain ⟨rfl, rfl⟩ := hph
          have h1 := rowsGe_after_update P C0 k _ S0 hS0 hdot0
          have hT : ∀ a b : W, P.dot C0 a = false → P.dot C0 b = false →
              P.dot C0 (H.add a b) = false := by
            intro a b ha hb
            rw [P.dot_add_right, ha, hb]; rfl
          exact rowsGe_runPhases P (fun S => P.dot C0 S = false) hT good (k + 1) _ rest hrest h1
            (k + 1 + i) S (by omega) hS
        | succ j =>
          simp at hph
          exact ihB i j r C S (by omega) hph hS

/-- F7 (i) + bookkeeping: a full run (as many phases as rows, started at phase 0) yields a
triangular pattern between the emitted elements and the FINAL rows, and `good` holds between
each emitted element and the final row at its position. -/
theorem run_triangular (good : Nat → W → V → Prop) (Ss0 : List W) (ph : List (Nat × V))
    (hlen : ph.length = Ss0.length) (hok : PhasesOK P good 0 Ss0 ph) :
    Triangular P (ph.map (·.2)) (runPhases P 0 Ss0 ph) ∧
    ∀ (i : Nat) r C S, ph[i]? = some (r, C) → (runPhases P 0 Ss0 ph)[i]? = some S → good i S C := by
  obtain ⟨hA, hB⟩ := run_triangular_gen P good 0 Ss0 ph hok
  refine ⟨⟨?_, ?_, ?_⟩, ?_⟩
  · rw [List.length_map, runPhases_length, hlen]
  · intro i C S hC hS
    rw [List.getElem?_map] at hC
    cases hp : ph[i]? with
    | none => rw [hp] at hC; cases hC
    | some a =>
      obtain ⟨r, C'⟩ := a
      rw [hp] at hC
      cases hC
      exact (hA i r C' S hp (by rw [Nat.zero_add]; exact hS)).1
  · intro i j C S hji hC hS
    rw [List.getElem?_map] at hC
    cases hp : ph[j]? with
    | none => rw [hp] at hC; cases hC
    | some a =>
      obtain ⟨r, C'⟩ := a
      rw [hp] at hC
      cases hC
      exact hB i j r C' S hji hp (by rw [Nat.zero_add]; exact hS)
  · intro i r C S hp hS
    have := (hA i r C S hp (by rw [Nat.zero_add]; exact hS)).2
    rw [Nat.zero_add] at this
    exact this

end


end Parmcb.Abstract
