import Parmcb.Model.FloatSigned
import Parmcb.Lemmas.Float
import Parmcb.Lemmas.Trees
import Parmcb.Lemmas.LexOpt
/-!
What a search of `mcb_sva_signed` in double arithmetic reports as the weight of the walk it found (Model/FloatSigned.lean).
-/
namespace Parmcb
open Parmcb.Float

theorem tracePath_nodup_len (f : FrontierP) : ∀ (fuel cur : Nat) (acc r : List Nat), acc.Nodup →
    tracePath f fuel cur acc = some r → r.Nodup ∧ r.length ≤ acc.length + fuel
  | 0, _, acc, r, hnd, h => by
    simp only [tracePath, Option.some.injEq] at h
    subst h; exact ⟨hnd, by omega⟩
  | fuel + 1, cur, acc, r, hnd, h => by
    unfold tracePath at h
    split at h
    · simp only [Option.some.injEq] at h
      subst h; exact ⟨hnd, by omega⟩
    · split at h
      · simp only [Option.some.injEq] at h
        subst h; exact ⟨hnd, by omega⟩
      · rename_i u e _
        split at h
        · cases h
        · rename_i hc
          have hne : e ∉ acc := by simpa using hc
          obtain ⟨a, b⟩ := tracePath_nodup_len f fuel u (e :: acc) r (List.nodup_cons.2 ⟨hne, hnd⟩) h
          refine ⟨a, ?_⟩
          simp only [List.length_cons] at b
          omega

theorem perm_sum_int {l l' : List Int} (h : l.Perm l') : l.sum = l'.sum := by
  induction h with
  | nil => rfl
  | cons x _ ih => simp only [List.sum_cons, ih]
  | swap x y l => simp only [List.sum_cons]; omega
  | trans _ _ ih1 ih2 => exact ih1.trans ih2

theorem biSearchHF_tail (N : Nat) (wOf : Nat → Int) (F B : FrontierP) (c : Nat) (w : Int) (Z : List Nat)
    (h : (match tracePath F (N + 1) c [] with
      | none => none
      | some acc1 =>
        match tracePath B (N + 1) c acc1 with
        | none => none
        | some acc2 => some (fsum (acc2.reverse.map wOf), setOf acc2)) = some (w, Z))
    (hw : ∀ e, 0 ≤ wOf e) (hsz : 2 * N + 2 ≤ 2 ^ 20) :
    2 ^ 32 * (w - (Z.map wOf).sum).natAbs ≤ ((Z.map wOf).sum).natAbs := by
  split at h
  · cases h
  · rename_i acc1 h1
    split at h
    · cases h
    · rename_i acc2 h2
      simp only [Option.some.injEq, Prod.mk.injEq] at h
      obtain ⟨hw', hZ⟩ := h
      obtain ⟨n1, l1⟩ := tracePath_nodup_len _ _ _ _ _ List.nodup_nil h1
      obtain ⟨n2, l2⟩ := tracePath_nodup_len _ _ _ _ _ n1 h2
      simp only [List.length_nil] at l1
      have hrel := fsum_rel (acc2.reverse.map wOf)
        (by intro x hx; obtain ⟨e, _, rfl⟩ := List.mem_map.1 hx; exact hw e)
        (by simp only [List.length_map, List.length_reverse]; omega)
      have hs : (acc2.reverse.map wOf).sum = (Z.map wOf).sum := by
        apply perm_sum_int
        apply List.Perm.map
        rw [← hZ]
        exact (List.reverse_perm acc2).trans (LexOptL.setOf_perm acc2 n2).symm
      rw [hs, hw'] at hrel
      exact hrel

/-- the weight `bidirectional_signed_dijkstra` returns in double arithmetic is the double accumulation of the weights of the
returned edges (each edge once), hence within a relative 2^-32 of the exact weight of the returned edge set — the premise of
`C09.c09_select_partial` for the running best over the searches of a phase -/
theorem biSearchHF_weight (adjE : Array (List (Nat × Int × Nat))) (wOf : Nat → Int) (limit : Option Int) (s t : Nat)
    (w : Int) (Z : List Nat) (h : biSearchHF adjE wOf limit s t = some (w, Z))
    (hw : ∀ e, 0 ≤ wOf e) (hsz : 2 * adjE.size + 2 ≤ 2 ^ 20) :
    2 ^ 32 * (w - (Z.map wOf).sum).natAbs ≤ ((Z.map wOf).sum).natAbs := by
  unfold biSearchHF at h
  split at h
  · cases h
  · rename_i st _
    split at h
    · cases h
    · rename_i b _
      cases limit with
      | none =>
        simp only [Bool.false_eq_true, if_false] at h
        exact biSearchHF_tail _ wOf _ _ _ w Z h hw hsz
      | some l =>
        dsimp only at h
        split at h
        · cases h
        · exact biSearchHF_tail _ wOf _ _ _ w Z h hw hsz

end Parmcb
