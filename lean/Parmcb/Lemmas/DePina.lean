import Parmcb.Model.DePina
import Parmcb.Lemmas.Graph
/-!
Concrete de Pina theory: the literal support-vector model (Model/DePina.lean) refines the abstract
run of Lemmas/Abstract.lean over the group of canonical GF(2) vectors, and the theorems of the
abstract theory are transported to statements about lists of edge ids.  Core Lean only.
-/
namespace Parmcb
open Parmcb.Abstract

/-- the exact domain, in ForestIndex coordinates: a simple graph with strictly positive weights
whose edge ids `≥ N` form a spanning forest (C16 provides this for the real numbering). -/
structure ExactDomain (g : Graph) (N : Nat) : Prop where
  simple : g.simpleB = true
  positive : g.positiveB = true
  N_le : N ≤ g.m
  /-- ids `≥ N` contain no non-empty element of the cycle space -/
  forest_acyclic : Acyclic g (List.range' N (g.m - N))
  /-- every id `< N` closes a cycle with forest edges (its fundamental cycle) -/
  fundamental : ∀ e, e < N → ∃ Z, EvenSet g Z ∧ e ∈ Z ∧ ∀ f ∈ Z, f = e ∨ N ≤ f

/-- the contract of one phase: the emitted set `C` is a minimum-weight element of the cycle space
among those with odd intersection with the phase's support vector `S` (up to the factor `α`;
`α = 1` is exact) -/
def PhaseOK (g : Graph) (α : Int) (S C : List Nat) : Prop :=
  EvenSet g C ∧ dotPar C S = true ∧ ∀ Z, EvenSet g Z → dotPar Z S = true → wt g C ≤ α * wt g Z

/-- a run of the phases `k, k+1, …` from supports `sup`: every emitted cycle meets its contract
against the support vector the literal bookkeeping holds at that moment -/
def Run (g : Graph) (α : Int) (v : Variant) : Nat → List (List Nat) → List (List Nat) → Prop
  | _, _, [] => True
  | k, sup, c :: cs => PhaseOK g α (phaseSupport v sup k) c ∧ Run g α v (k + 1) (phaseStep v sup k c) cs

/-- a full run of the algorithm on `g` with `N = cycle space dimension` -/
def FullRun (g : Graph) (N : Nat) (α : Int) (v : Variant) (cycles : List (List Nat)) : Prop :=
  cycles.length = N ∧ Run g α v 0 (unitSupports N) cycles

/-! ### the swap index -/

theorem sparsestSigned_range (sup : List (List Nat)) (k n : Nat) :
    ∀ cnt r mn, k ≤ mn → mn < n → k ≤ r → r + cnt ≤ n →
      k ≤ sparsestSigned sup cnt r mn ∧ sparsestSigned sup cnt r mn < n := by
  intro cnt
  induction cnt with
  | zero => intro r mn h1 h2 _ _; exact ⟨h1, h2⟩
  | succ cnt ih =>
    intro r mn h1 h2 h3 h4
    rw [sparsestSigned]
    by_cases hlt : supSize sup r < supSize sup mn
    · simp only [hlt, if_true]
      split
      · exact ⟨h3, by omega⟩
      · exact ih (r + 1) r h3 (by omega) (by omega) (by omega)
    · simp only [hlt, if_false]
      split
      · exact ⟨h1, h2⟩
      · exact ih (r + 1) mn h1 h2 (by omega) (by omega)

theorem sparsestFull_range (sup : List (List Nat)) (k n : Nat) :
    ∀ cnt r mn, k ≤ mn → mn < n → k ≤ r → r + cnt ≤ n →
      k ≤ sparsestFull sup cnt r mn ∧ sparsestFull sup cnt r mn < n := by
  intro cnt
  induction cnt with
  | zero => intro r mn h1 h2 _ _; exact ⟨h1, h2⟩
  | succ cnt ih =>
    intro r mn h1 h2 h3 h4
    rw [sparsestFull]
    by_cases hlt : supSize sup r < supSize sup mn
    · simp only [hlt, if_true]
      exact ih (r + 1) r h3 (by omega) (by omega) (by omega)
    · simp only [hlt, if_false]
      exact ih (r + 1) mn h1 h2 (by omega) (by omega)

/-- the swap index chosen by any variant is legal -/
theorem swapIndex_range (v : Variant) (sup : List (List Nat)) (k : Nat) (hk : k < sup.length) :
    k ≤ swapIndex v sup k ∧ swapIndex v sup k < sup.length := by
  cases v
  · exact sparsestSigned_range sup k sup.length _ _ _ (Nat.le_refl _) hk (by omega) (by omega)
  · exact sparsestFull_range sup k sup.length _ _ _ (Nat.le_refl _) hk (by omega) (by omega)
  · exact ⟨Nat.le_refl _, hk⟩
  · exact ⟨Nat.le_refl _, hk⟩

/-! ### the literal model is the image of the abstract machine over `SVec` -/

/-- forget the canonicity proofs -/
def vals (Ss : List SVec) : List (List Nat) := Ss.map (fun S => S.1)

theorem vals_length (Ss : List SVec) : (vals Ss).length = Ss.length := by simp [vals]

theorem vals_getElem? (Ss : List SVec) (i : Nat) :
    (vals Ss)[i]? = Ss[i]?.map (fun S => S.1) := by simp [vals]

theorem mem_vals_sorted (Ss : List SVec) : ∀ S ∈ vals Ss, StrictSorted S := by
  intro S hS
  obtain ⟨T, _, rfl⟩ := List.mem_map.1 hS
  exact T.2

theorem exists_vals (sup : List (List Nat)) (h : ∀ S ∈ sup, StrictSorted S) :
    ∃ Ss : List SVec, vals Ss = sup := by
  induction sup with
  | nil => exact ⟨[], rfl⟩
  | cons S sup ih =>
    obtain ⟨Ss, hSs⟩ := ih (fun T hT => h T (List.mem_cons_of_mem _ hT))
    have hS : StrictSorted S := h S List.mem_cons_self
    exact ⟨(⟨S, hS⟩ : SVec) :: Ss, congrArg (List.cons S) hSs⟩

theorem svec_add_val (a b : SVec) : (svecGroup.add a b).1 = xorMerge a.1 b.1 := rfl
theorem svec_zero_val : (svecGroup.zero).1 = [] := rfl
theorem svec_dot (a s : SVec) : svecPairing.dot a s = dotPar a.1 s.1 := rfl

theorem svec_ext {a b : SVec} (h : a.1 = b.1) : a = b := Subtype.ext h

theorem swapAt_vals (Ss : List SVec) (k r : Nat) :
    swapAt (vals Ss) k r = vals (swapRows Ss k r) := by
  unfold swapAt swapRows
  rw [vals_getElem?, vals_getElem?]
  cases hk : Ss[k]? with
  | none => simp
  | some a =>
    cases hr : Ss[r]? with
    | none => simp
    | some b => simp [vals, List.map_set]

theorem updateSup_vals (Ss : List SVec) (k : Nat) (c : List Nat) :
    updateSup (vals Ss) k c = vals (updateRows svecGroup (fun S => dotPar S.1 c) k Ss) := by
  unfold updateSup updateRows
  rw [vals_getElem?]
  cases hk : Ss[k]? with
  | none => simp
  | some Sk =>
    simp only [Option.map_some, vals]
    apply List.ext_getElem?
    intro i
    simp only [List.getElem?_mapIdx, List.getElem?_map]
    cases Ss[i]? with
    | none => simp
    | some S =>
      simp only [Option.map_some]
      split <;> rfl

theorem phaseStep_vals (v : Variant) (Ss : List SVec) (k : Nat) (c : List Nat) :
    phaseStep v (vals Ss) k c
      = vals (updateRows svecGroup (fun S => dotPar S.1 c) k
          (swapRows Ss k (swapIndex v (vals Ss) k))) := by
  unfold phaseStep
  rw [swapAt_vals, updateSup_vals]

theorem hit_eq (C : SVec) : (fun S : SVec => dotPar S.1 C.1) = fun S => svecPairing.dot C S := by
  funext S
  rw [svec_dot, dotPar_comm]

theorem phaseSupport_vals (v : Variant) (Ss : List SVec) (k : Nat) :
    phaseSupport v (vals Ss) k
      = ((swapRows Ss k (swapIndex v (vals Ss) k))[k]?.map (fun S => S.1)).getD [] := by
  unfold phaseSupport
  rw [swapAt_vals, List.getD_eq_getElem?_getD, vals_getElem?]

/-- all supports stay canonical and inside the non-forest coordinates -/
theorem phaseStep_sorted (v : Variant) (sup : List (List Nat)) (k : Nat) (c : List Nat)
    (h : ∀ S ∈ sup, StrictSorted S) : ∀ S ∈ phaseStep v sup k c, StrictSorted S := by
  obtain ⟨Ss, rfl⟩ := exists_vals sup h
  rw [phaseStep_vals]
  exact mem_vals_sorted _

theorem phaseSupport_sorted (v : Variant) (Ss : List SVec) (k : Nat) :
    StrictSorted (phaseSupport v (vals Ss) k) := by
  rw [phaseSupport_vals]
  cases (swapRows Ss k (swapIndex v (vals Ss) k))[k]? with
  | none => trivial
  | some S => exact S.2

/-! ### bridges between `sumMask` over `SVec` and `xorSel` -/

theorem sumMask_val (Cs : List SVec) (mask : List Bool) :
    (sumMask svecGroup Cs mask).1 = xorSel (vals Cs) mask := by
  induction Cs generalizing mask with
  | nil => cases mask <;> rfl
  | cons C Cs ih =>
    cases mask with
    | nil => rfl
    | cons b bs =>
      cases b
      · simpa [vals, xorSel] using ih bs
      · have := ih bs
        simp only [sumMask_cons, if_true, svec_add_val, this]
        rfl

/-! ### from a literal run to an abstract run -/

/-- what is recorded about phase `k`: the emitted element is `α`-minimal among the cycle-space
elements odd against the row -/
def good (g : Graph) (α : Int) (_k : Nat) (S C : SVec) : Prop :=
  ∀ z : SVec, EvenSet g z.1 → svecPairing.dot z S = true → wt g C.1 ≤ α * wt g z.1

theorem run_evenSet (g : Graph) (α : Int) (v : Variant) :
    ∀ (cycles : List (List Nat)) (k : Nat) (sup : List (List Nat)),
      Run g α v k sup cycles → ∀ c ∈ cycles, EvenSet g c := by
  intro cycles
  induction cycles with
  | nil => intro k sup _ c hc; cases hc
  | cons c0 cs ih =>
    intro k sup hrun c hc
    obtain ⟨hph, hrest⟩ := hrun
    rcases List.mem_cons.1 hc with rfl | hc
    · exact hph.1
    · exact ih _ _ hrest c hc

theorem run_phasesOK (g : Graph) (α : Int) (v : Variant) :
    ∀ (cycles : List (List Nat)) (k : Nat) (Ss : List SVec),
      k + cycles.length = Ss.length → Run g α v k (vals Ss) cycles →
      ∃ ph : List (Nat × SVec), vals (ph.map (·.2)) = cycles ∧
        PhasesOK svecPairing (good g α) k Ss ph := by
  intro cycles
  induction cycles with
  | nil => intro k Ss _ _; exact ⟨[], rfl, trivial⟩
  | cons c cs ih =>
    intro k Ss hlen hrun
    obtain ⟨⟨hE, hodd, hmin⟩, hrest⟩ := hrun
    simp only [List.length_cons] at hlen
    have hk : k < (vals Ss).length := by rw [vals_length]; omega
    have hr := swapIndex_range v (vals Ss) k hk
    rw [vals_length] at hr
    have hstep := phaseStep_vals v Ss k c
    have hsup := phaseSupport_vals v Ss k
    generalize swapIndex v (vals Ss) k = r at hr hstep hsup
    let C : SVec := ⟨c, hE.1⟩
    have hhit := hit_eq C
    change (fun S : SVec => dotPar S.1 c) = _ at hhit
    rw [hhit] at hstep
    rw [hstep] at hrest
    obtain ⟨ph, hph, hok⟩ := ih (k + 1) _
      (by rw [updateRows_length, swapRows_length]; omega) hrest
    refine ⟨(r, C) :: ph, ?_, hr.1, hr.2, ?_, hok⟩
    · simp only [vals, List.map_cons] at hph ⊢
      rw [hph]
    · have hkS : k < (swapRows Ss k r).length := by rw [swapRows_length]; omega
      refine ⟨(swapRows Ss k r)[k], by simp [hkS], ?_, ?_⟩
      · rw [hsup] at hodd
        simpa [hkS, svec_dot] using hodd
      · intro z hz hzS
        apply hmin z.1 hz
        rw [hsup]
        simpa [hkS, svec_dot] using hzS

/-- the initial rows -/
theorem strictSorted_single (k : Nat) : StrictSorted [k] := trivial

def unitVec (k : Nat) : SVec := ⟨[k], strictSorted_single k⟩

def unitS (N : Nat) : List SVec := (List.range N).map unitVec

theorem vals_unitS (N : Nat) : vals (unitS N) = unitSupports N := by
  unfold vals unitS unitSupports
  rw [List.map_map]
  rfl

/-- unit vectors of the non-forest coordinates -/
def UnitQ (N : Nat) (s : SVec) : Prop := ∃ e, e < N ∧ s.1 = [e]

theorem unitS_spans (N : Nat) : SpansP svecGroup (unitS N) (UnitQ N) := by
  intro z hz
  obtain ⟨e, he, hze⟩ := hz
  apply inSpan_mem
  refine List.mem_map.2 ⟨e, List.mem_range.2 he, ?_⟩
  exact svec_ext hze.symm

/-- everything the three F6 theorems need about a full run -/
theorem full_setup (g : Graph) (N : Nat) (α : Int) (v : Variant) (cycles : List (List Nat))
    (hr : FullRun g N α v cycles) :
    ∃ Cs Fs : List SVec, vals Cs = cycles ∧ Cs.length = N ∧ Triangular svecPairing Cs Fs ∧
      (∀ (i : Nat) C S, Cs[i]? = some C → Fs[i]? = some S → good g α i S C) ∧
      (∀ C ∈ Cs, EvenSet g C.1) ∧
      SpansP svecGroup Fs (UnitQ N) := by
  obtain ⟨hlen, hrun⟩ := hr
  rw [← vals_unitS] at hrun
  have hl0 : (unitS N).length = N := by simp [unitS]
  obtain ⟨ph, hph, hok⟩ := run_phasesOK g α v cycles 0 (unitS N) (by omega) hrun
  have hphlen : ph.length = N := by
    have := congrArg List.length hph
    simp only [vals, List.length_map] at this
    omega
  obtain ⟨htri, hgood⟩ := run_triangular svecPairing (good g α) (unitS N) ph (by omega) hok
  refine ⟨ph.map (·.2), runPhases svecPairing 0 (unitS N) ph, hph, by simp [hphlen], htri, ?_, ?_,
    span_runPhases svecPairing 0 (unitS N) ph (UnitQ N) (unitS_spans N)⟩
  · intro i C S hC hS
    rw [List.getElem?_map] at hC
    cases hp : ph[i]? with
    | none => rw [hp] at hC; cases hC
    | some a =>
      obtain ⟨r, C'⟩ := a
      rw [hp] at hC
      cases hC
      exact hgood i r C' S hp hS
  · intro C hC
    apply run_evenSet g α v cycles 0 _ hrun
    rw [← hph]
    exact List.mem_map.2 ⟨C, hC, rfl⟩

/-- F6(a) for the literal model: the emitted cycles are linearly independent over GF(2) -/
theorem run_independent (g : Graph) (N : Nat) (α : Int) (v : Variant) (cycles : List (List Nat))
    (hd : ExactDomain g N) (hr : FullRun g N α v cycles) :
    ∀ mask : List Bool, mask.length = N → true ∈ mask → xorSel cycles mask ≠ [] := by
  have _ := hd
  obtain ⟨Cs, Fs, hCs, hlen, htri, _, _, _⟩ := full_setup g N α v cycles hr
  intro mask hm ht h0
  apply triangular_independent svecPairing htri mask (by omega) ht
  apply svec_ext
  rw [sumMask_val, hCs, h0]
  rfl

/-! ### the kernel of the final rows -/

theorem dot_zero_right (z : SVec) : svecPairing.dot z svecGroup.zero = false := by
  have h := svecPairing.dot_add_right z svecGroup.zero svecGroup.zero
  rw [svecGroup.add_zero] at h
  simpa using h

theorem dot_sumMask_false (z : SVec) (L : List SVec)
    (h : ∀ S ∈ L, svecPairing.dot z S = false) (m : List Bool) :
    svecPairing.dot z (sumMask svecGroup L m) = false := by
  induction L generalizing m with
  | nil => simp [dot_zero_right]
  | cons x xs ih =>
    cases m with
    | nil => simp [dot_zero_right]
    | cons b bs =>
      have h1 := h x List.mem_cons_self
      have h2 := ih (fun S hS => h S (List.mem_cons_of_mem _ hS)) bs
      cases b
      · simpa using h2
      · simp [svecPairing.dot_add_right, h1, h2]

theorem dotPar_single (z : List Nat) (hz : StrictSorted z) (e : Nat) :
    dotPar z [e] = decide (e ∈ z) := by
  rw [dotPar_comm, dotPar_eq_par [e] z trivial hz]
  simp [par]

theorem kernel_zero (g : Graph) (N : Nat) (hd : ExactDomain g N) (Fs : List SVec)
    (hspan : SpansP svecGroup Fs (UnitQ N)) (z : SVec) (hz : EvenSet g z.1)
    (horth : ∀ S ∈ Fs, svecPairing.dot z S = false) : z = svecGroup.zero := by
  apply svec_ext
  rw [svec_zero_val]
  apply hd.forest_acyclic z.1 hz
  intro e he
  have hem : e < g.m := hz.2.1 e he
  rw [List.mem_range'_1]
  refine ⟨?_, by have := hd.N_le; omega⟩
  rcases Nat.lt_or_ge e N with hlt | hge
  · exfalso
    obtain ⟨mask, _, hsum⟩ := hspan (unitVec e) ⟨e, hlt, rfl⟩
    have h1 := dot_sumMask_false z Fs horth mask
    rw [hsum, svec_dot] at h1
    change dotPar z.1 [e] = false at h1
    rw [dotPar_single z.1 z.2 e] at h1
    simp at h1
    exact h1 he
  · exact hge

/-- F6(b) for the literal model: the emitted cycles span the whole cycle space -/
theorem run_spans (g : Graph) (N : Nat) (α : Int) (v : Variant) (cycles : List (List Nat))
    (hd : ExactDomain g N) (hr : FullRun g N α v cycles) :
    ∀ Z, EvenSet g Z → ∃ mask : List Bool, mask.length = N ∧ xorSel cycles mask = Z := by
  obtain ⟨Cs, Fs, hCs, hlen, htri, _, hC, hspan⟩ := full_setup g N α v cycles hr
  have hsp : SpansP svecGroup Cs (fun z => EvenSet g z.1) :=
    triangular_spans svecPairing (fun z => EvenSet g z.1)
      (fun a b ha hb => EvenSet.add ha hb) hC htri
      (fun z hz horth => kernel_zero g N hd Fs hspan z hz horth)
  intro Z hZ
  obtain ⟨mask, hm, hsum⟩ := hsp ⟨Z, hZ.1⟩ hZ
  refine ⟨mask, by omega, ?_⟩
  have := congrArg (fun z : SVec => z.1) hsum
  simp only [sumMask_val, hCs] at this
  exact this

/-- F6(c,d) for the literal model: against ANY family of cycle-space elements that spans the cycle
space, the emitted cycles weigh at most `α` times as much (no independence of `L` needed) -/
theorem run_weight (g : Graph) (N : Nat) (α : Int) (hα : 0 ≤ α) (v : Variant)
    (cycles : List (List Nat)) (hd : ExactDomain g N) (hr : FullRun g N α v cycles)
    (L : List (List Nat)) (hL : ∀ D ∈ L, EvenSet g D)
    (hspan : ∀ Z, EvenSet g Z → ∃ mask : List Bool, mask.length = L.length ∧ xorSel L mask = Z) :
    (cycles.map (wt g)).sum ≤ α * (L.map (wt g)).sum := by
  obtain ⟨Cs, Fs, hCs, hlen, htri, hgood, hC, _⟩ := full_setup g N α v cycles hr
  obtain ⟨Ls, hLs⟩ := exists_vals L (fun D hD => (hL D hD).1)
  have hLsp : SpansP svecGroup Ls (fun z => EvenSet g z.1) := by
    intro z hz
    obtain ⟨mask, hm, hsum⟩ := hspan z.1 hz
    refine ⟨mask, by rw [hm, ← hLs, vals_length], ?_⟩
    apply svec_ext
    rw [sumMask_val, hLs, hsum]
  have hLs' : ∀ D ∈ Ls, EvenSet g D.1 := by
    intro D hD
    apply hL
    rw [← hLs]
    exact List.mem_map.2 ⟨D, hD, rfl⟩
  have key := depina_weight svecPairing (fun z => EvenSet g z.1) (fun z => wt g z.1) α hα
    (fun z hz => wt_nonneg g hd.positive z.1 hz.2.1) htri hC
    (fun i C S h1 h2 z hz hzS => hgood i C S h1 h2 z hz hzS) Ls hLs' hLsp
  have e1 : Cs.map (fun z => wt g z.1) = cycles.map (wt g) := by
    rw [← hCs, vals, List.map_map]; rfl
  have e2 : Ls.map (fun z => wt g z.1) = L.map (wt g) := by
    rw [← hLs, vals, List.map_map]; rfl
  rw [e1, e2] at key
  exact key

theorem run_circuits_aux (g : Graph) (v : Variant) (hp : g.positiveB = true) :
    ∀ (cycles : List (List Nat)) (k : Nat) (Ss : List SVec),
      Run g 1 v k (vals Ss) cycles → ∀ C ∈ cycles, Circuit g C := by
  intro cycles
  induction cycles with
  | nil => intro k Ss _ C hC; cases hC
  | cons c cs ih =>
    intro k Ss hrun C hC
    obtain ⟨⟨hE, hodd, hmin⟩, hrest⟩ := hrun
    rcases List.mem_cons.1 hC with rfl | hC
    · apply minOdd_circuit g hp _ C (phaseSupport_sorted v Ss k) hE hodd
      intro Z hZ hZS
      have := hmin Z hZ hZS
      rwa [Int.one_mul] at this
    · rw [phaseStep_vals] at hrest
      exact ih _ _ hrest C hC

/-- F5 for the literal model: with `α = 1` every emitted cycle is a circuit (one simple cycle) -/
theorem run_circuits (g : Graph) (N : Nat) (v : Variant) (cycles : List (List Nat))
    (hd : ExactDomain g N) (hr : FullRun g N 1 v cycles) : ∀ C ∈ cycles, Circuit g C := by
  obtain ⟨_, hrun⟩ := hr
  rw [← vals_unitS] at hrun
  exact run_circuits_aux g v hd.positive cycles 0 (unitS N) hrun

end Parmcb
