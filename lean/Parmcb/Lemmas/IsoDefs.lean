import Parmcb.Lemmas.LexOpt
import Parmcb.Lemmas.Horton
/-!
Definitions shared by the proofs about the isometric-cycle collection (C14).  Core Lean only.
-/
namespace Parmcb

/-- the vertices an edge set touches, as a canonical set -/
def vertsOf (g : Graph) (C : List Nat) : List Nat := setOf (C.flatMap fun e => [g.src e, g.tgt e])

/-- the label of a cycle, compared with the comparison of `lex_dijkstra.hpp` -/
def cycLabel (g : Graph) (C : List Nat) : LexLabel := { dist := wt g C, cnt := C.length, verts := vertsOf g C }

/-- `C` is a minimum-weight element of the cycle space that is odd against `S`, and among the odd circuits no one has a
smaller label (weight, number of edges, vertex set) -/
def IsoMin (g : Graph) (S C : List Nat) : Prop :=
  EvenSet g C ∧ dotPar C S = true ∧ (∀ Z, EvenSet g Z → dotPar Z S = true → wt g C ≤ wt g Z) ∧
  ∀ Z, Circuit g Z → dotPar Z S = true → lexLess (cycLabel g Z) (cycLabel g C) = false

/-- pairwise isometric: the lexicographically optimal path between any two vertices of `C` runs inside `C` -/
def PairIso (g : Graph) (C : List Nat) : Prop :=
  ∀ x y, x ∈ vertsOf g C → y ∈ vertsOf g C → ∀ P, LexOpt g x y P → ∀ e ∈ P, e ∈ C

/-- connectivity in the undirected graph given by a list of links -/
inductive LinkConn (links : List (Nat × Nat)) : Nat → Nat → Prop
  | refl (a : Nat) : LinkConn links a a
  | step {a b c : Nat} : LinkConn links a b → ((b, c) ∈ links ∨ (c, b) ∈ links) → LinkConn links a c

/-- the Horton candidates of `g` together with what `ISOCyclesBuilder` computes from them (the pieces of `isoCands`) -/
def isoAll (g : Graph) : List Cand := (hortonCands g).2
def isoTrees (g : Graph) : List SPTree := (hortonCands g).1
def isoLinkOf (g : Graph) : List (Option Nat) := (isoAll g).map (isoLink g (isoTrees g) (isoAll g))
def isoLinks (g : Graph) : List (Nat × Nat) := ((isoLinkOf g).zipIdx).filterMap fun (l, i) => l.map fun j => (i, j)

/-- the cycle a Horton candidate stands for -/
def candCycle (g : Graph) (c : Cand) : Option (List Nat) :=
  match (isoTrees g)[c.tree]? with
  | some t => unfoldCand g t c
  | none => none

end Parmcb
