import Parmcb.Model.Demo
/-!
# C11 — demo programs gate bad input, terminate, and print the library's result

Property theorems only (decision logic).  That the printed weight is the minimum (or within (2k-1) of it)
is C02/C03/C04/C06 for the entry point selected; the correspondence check runs the real executables.
-/
namespace Parmcb.C11
open Parmcb

/-- **gate**: a file with a self-loop, parallel edges or a non-positive weight makes EVERY process of EVERY
program return a non-zero status without running an algorithm — for any number of processes -/
theorem c11_gate (p : Prog) (o : DemoOpts) (f : FileFacts) (hbad : f.loops = true ∨ f.multi = true ∨ f.nonpos = true)
    (P rank : Nat) : demoRank p o f P rank = .exit 1 none := by
  have : f.valid = false := by
    rcases hbad with h | h | h <;> simp [FileFacts.valid, h]
  simp [demoRank, this]

/-- no process is ever left waiting in a collective -/
theorem c11_terminates (p : Prog) (o : DemoOpts) (f : FileFacts) (P rank : Nat) :
    ∃ code ran, demoRank p o f P rank = .exit code ran := by
  unfold demoRank
  split
  · exact ⟨_, _, rfl⟩
  · cases p
    · exact ⟨_, _, rfl⟩
    · dsimp only; split <;> exact ⟨_, _, rfl⟩
    · exact ⟨_, _, rfl⟩
    · exact ⟨_, _, rfl⟩

/-- **valid file**: status 0 and exactly one library entry point runs, for every option combination
(the approximate demo additionally insists on `k > 1`) -/
theorem c11_valid (o : DemoOpts) (f : FileFacts) (hv : f.valid = true) (P rank : Nat) :
    demoRank .mcb o f P rank = .exit 0 (some (selectMcb o)) ∧
    demoRank .mpi o f P rank = .exit 0 (some (selectMpi o)) ∧
    demoRank .stats o f P rank = .exit 0 none ∧
    (1 < o.k → demoRank .approx o f P rank = .exit 0 (some (selectApprox o))) := by
  refine ⟨by simp [demoRank, hv], by simp [demoRank, hv], by simp [demoRank, hv], ?_⟩
  intro hk
  have : ¬ o.k ≤ 1 := by omega
  simp [demoRank, hv, this]

/-- all ranks select the same entry point (they parse the same command line), so they enter the same
collectives (C04) -/
theorem c11_ranks_agree (o : DemoOpts) (f : FileFacts) (P r r' : Nat) :
    demoRank .mpi o f P r = demoRank .mpi o f P r' := rfl

/-- the record of the defect: with the pinned gate on rank 0 only, two processes and a rejected file, rank 1
never returns -/
theorem c11_pinned_mpi_hangs (o : DemoOpts) (f : FileFacts) (hbad : f.valid = false) :
    demoRankPinnedMpi o f 2 1 = .blocked (selectMpi o) := by
  simp [demoRankPinnedMpi, hbad]

end Parmcb.C11
