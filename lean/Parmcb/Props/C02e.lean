import Parmcb.Lemmas.KmmTransfer
import Parmcb.Props.C16
/-!
# C02 — from the algorithms' coordinate system back to the caller's edges

The exact algorithms work on the graph with its edges renumbered by `ForestIndex` (`reindex g fi`: edge `i` is the caller's
edge `fi.reverse[i]`); all run theorems (`C01`, `C02.c02_min`, …) are stated in that numbering, where the graph is in the
exact domain (`C16.c16_exact_domain`).  `c02_caller_numbering` carries the result back: the cycles, translated through the
index-to-edge lookup as the implementation does when it emits them, are a minimum cycle basis of the CALLER's graph, with the
same weight.  Property theorems only.
-/
namespace Parmcb.C02eL
open Parmcb

/-- the index-to-edge lookup lists every edge id exactly once -/
theorem reverse_perm (g : Graph) (order : List Nat) (hs : g.simpleB = true)
    (ho : order.Perm (List.range g.n)) : (createIndex g order).reverse.Perm (List.range g.m) := by
  have hinv := C16.c16_index_inverse g order hs ho
  have hpi := perm_inverse _ g.m (ci_index_perm g order hs ho)
  have hlen : (createIndex g order).reverse.length = g.m := by rw [ci_reverse]; simp
  apply Spanner.perm_of_subset_length _ _ List.nodup_range
  · intro x hx
    have hx := List.mem_range.1 hx
    have h1 := hinv.1 x hx
    have h2 := (hpi.1 x hx).1
    rw [← h1]
    exact KmmT.getD_mem _ _ (by rw [hlen]; exact h2)
  · rw [hlen, List.length_range]; exact Nat.le_refl _

end Parmcb.C02eL

namespace Parmcb.C02
open Parmcb Parmcb.C01

/-- the renumbered graph is the caller's graph seen through the index-to-edge lookup -/
theorem reindex_eq (g : Graph) (fi : ForestIdx) : reindex g fi = spannerGraph g fi.reverse := by
  unfold reindex spannerGraph Graph.src Graph.tgt Graph.weight
  rfl

/-- **a run of an exact algorithm, as emitted**: for every simple graph with positive weights and every iteration order of
`spanning_forest`'s `unordered_set`, a run in ForestIndex coordinates, mapped back through the index-to-edge lookup, is a
minimum cycle basis of the caller's graph -/
theorem c02_caller_numbering (g : Graph) (hs : g.simpleB = true) (hp : g.positiveB = true)
    (order : List Nat) (ho : order.Perm (List.range g.n)) (v : Variant) (cycles : List (List Nat))
    (hr : FullRun (reindex g (createIndex g order)) (createIndex g order).dim 1 v cycles) :
    IsMCB g (translateSp (createIndex g order).reverse cycles) ∧
    totalWeight g (translateSp (createIndex g order).reverse cycles) =
      totalWeight (reindex g (createIndex g order)) cycles := by
  have hperm := C02eL.reverse_perm g order hs ho
  have hnd : (createIndex g order).reverse.Nodup := hperm.nodup_iff.2 List.nodup_range
  have hlt : ∀ e ∈ (createIndex g order).reverse, e < g.m :=
    fun e he => List.mem_range.1 (hperm.mem_iff.1 he)
  have hall : ∀ e, e < g.m → e ∈ (createIndex g order).reverse :=
    fun e he => hperm.mem_iff.2 (List.mem_range.2 he)
  have hd := C16.c16_exact_domain g order hs hp ho
  rw [reindex_eq] at hr hd ⊢
  obtain ⟨ha, hb, hc, hmin⟩ := spanner_transfer g _ hnd hlt _ v cycles hd hr
  refine ⟨⟨⟨fun C hC => (ha.1 C hC).1, hb, fun Z hZ => ha.2 Z hZ (fun e he => hall e (hZ.2.1 e he))⟩, ?_⟩, hc⟩
  intro L' hL'
  exact hmin L' ⟨fun C hC => ⟨hL'.1 C hC, fun e he => hall e ((hL'.1 C hC).2.1 e he)⟩,
    fun Z hZ _ => hL'.2.2 Z hZ⟩

end Parmcb.C02
