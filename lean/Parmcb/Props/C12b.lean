import Parmcb.Lemmas.LexDijkstraOpt
/-! # C12 — mutual consistency of the shortest-path trees (property theorems only) -/
namespace Parmcb.C12
open Parmcb

/-- the root path of every node of every tree is THE lexicographically smallest simple path to the root -/
theorem c12_lex_optimal (g : Graph) (hs : g.simpleB = true) (hp : g.positiveB = true) (s : Nat) (hsn : s < g.n)
    (v : Nat) (hv : v < g.n) (d : Int) (hd : (buildTree g s).dist.getD v none = some d) :
    LexOpt g v s (rootPath g (buildTree g s) g.n v) ∧
    ∀ P, LexOpt g v s P → P = rootPath g (buildTree g s) g.n v :=
  ⟨buildTree_lexOpt g hs hp s hsn v hv d hd,
   fun P hP => lexOpt_unique g hs hp v s P _ hP (buildTree_lexOpt g hs hp s hsn v hv d hd)⟩

/-- **mutual consistency**: the trees built for all vertices of a simple graph with positive weights pass the
reversal / sub-path check (`path(a,b)` is the reverse of `path(b,a)`; the last edge of `path(a,b)` is `path(p,b)`) -/
theorem c12_consistency (g : Graph) (hs : g.simpleB = true) (hp : g.positiveB = true) :
    checkConsistent g ((List.range g.n).map (buildTree g)) = true := by
  apply consistent_of_lexOpt g hs hp
  · simp
  · intro a t ht
    simp only [List.getElem?_map] at ht
    cases h : (List.range g.n)[a]? with
    | none => rw [h] at ht; cases ht
    | some a' =>
      rw [h] at ht
      have ha : a' = a ∧ a < g.n := by
        have := List.getElem?_eq_some_iff.1 h
        obtain ⟨h1, h2⟩ := this
        simp at h1 h2
        exact ⟨h2.symm, h1⟩
      obtain ⟨rfl, han⟩ := ha
      cases ht
      exact ⟨rfl, (c12_dijkstra g hs hp a' han).1⟩
  · intro a t ht v hv d hd
    simp only [List.getElem?_map] at ht
    cases h : (List.range g.n)[a]? with
    | none => rw [h] at ht; cases ht
    | some a' =>
      rw [h] at ht
      have ha : a' = a ∧ a < g.n := by
        have := List.getElem?_eq_some_iff.1 h
        obtain ⟨h1, h2⟩ := this
        simp at h1 h2
        exact ⟨h2.symm, h1⟩
      obtain ⟨rfl, han⟩ := ha
      cases ht
      exact buildTree_lexOpt g hs hp a' han v hv d hd

end Parmcb.C12
