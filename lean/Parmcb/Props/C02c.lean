import Parmcb.Lemmas.SignedGraph
/-!
# C02, mechanism — why searching the two-level signed graph yields minimum odd cycles

Property theorems about the search STRATEGY of `mcb_sva_signed` (and of its TBB / MPI counterparts), at the
level of exact signed-graph distances.  That the C++ bidirectional Dijkstra returns those distances is not
proved; it is checked per search by the correspondence (hook: every reported search result equals the model's
signed-graph distance with the hidden edges removed).
-/
namespace Parmcb.C02
open Parmcb

/-- **all-vertices branch** (`|S| ≥ n`): the minimum over the vertices `v` of the signed-graph distance
`v+ → v-` is exactly the minimum weight of an element of the cycle space odd against `S` -/
theorem c02_allVertices (g : Graph) (hs : g.simpleB = true) (hp : g.positiveB = true) (S : List Nat)
    (hS : StrictSorted S) (d : Nat → Option Int)
    (hlow : ∀ v es x, v < g.n → d v = some x → (∀ e ∈ es, e < g.m) → isWalk g es v v = true →
        levelAfter S true es = false → x ≤ listW g es)
    (hnone : ∀ v es, v < g.n → d v = none → (∀ e ∈ es, e < g.m) → isWalk g es v v = true →
        levelAfter S true es = false → False)
    (hatt : ∀ v x, v < g.n → d v = some x → ∃ es, (∀ e ∈ es, e < g.m) ∧ isWalk g es v v = true ∧
        levelAfter S true es = false ∧ listW g es = x)
    (μ : Int) (hμ : ∃ v, v < g.n ∧ d v = some μ) (hmin : ∀ v x, v < g.n → d v = some x → μ ≤ x) :
    (∃ Z, EvenSet g Z ∧ dotPar Z S = true ∧ wt g Z ≤ μ) ∧
    (∀ Z, EvenSet g Z → dotPar Z S = true → μ ≤ wt g Z) :=
  allVertices_eq_minOdd g hs hp S hS d hlow hnone hatt μ hμ hmin

/-- **hidden-edge heuristic loses nothing, for EVERY enumeration order `σ` of the signed edges** (the order is
the address order of the edge nodes in the C++): every odd element of the cycle space is matched by some
position `j` and a same-level walk between the endpoints of `σ[j]` that avoids `σ[j], σ[j+1], …` -/
theorem c02_hiddenEdge_complete (g : Graph) (hs : g.simpleB = true) (hp : g.positiveB = true) (S σ : List Nat)
    (hS : StrictSorted S) (hσ : σ.Perm S) (Z : List Nat) (hZ : EvenSet g Z) (hodd : dotPar Z S = true) :
    ∃ j e es, σ[j]? = some e ∧ (∀ f ∈ es, f < g.m ∧ f ∉ σ.drop j) ∧
      isWalk g es (g.src e) (g.tgt e) = true ∧ levelAfter S true es = true ∧
      listW g es + g.weight e ≤ wt g Z :=
  hiddenEdge_covers g hs hp S σ hS hσ Z hZ hodd

/-- … and whatever such a search returns is the weight of a genuine odd element of the cycle space -/
theorem c02_hiddenEdge_sound (g : Graph) (hs : g.simpleB = true) (hp : g.positiveB = true) (S : List Nat)
    (hS : StrictSorted S) (e : Nat) (heS : e ∈ S) (hem : e < g.m) (es : List Nat)
    (he : ∀ f ∈ es, f < g.m ∧ f ≠ e) (hw : isWalk g es (g.src e) (g.tgt e) = true)
    (hlev : levelAfter S true es = true) :
    ∃ Z, EvenSet g Z ∧ dotPar Z S = true ∧ wt g Z ≤ listW g es + g.weight e :=
  hiddenEdge_sound g hs hp S hS e heS hem es he hw hlev

end Parmcb.C02
