import Parmcb.Props.C02b
import Parmcb.Props.C02c
/-! all property theorems of C02 -/
