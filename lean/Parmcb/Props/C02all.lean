import Parmcb.Props.C02b
import Parmcb.Props.C02c
import Parmcb.Props.C02d
import Parmcb.Props.C02e
import Parmcb.Props.C02f
import Parmcb.Props.C02g
import Parmcb.Props.C02h
/-! all C02 property theorems (C02, C02b … C02h) in one import -/
