import Parmcb.Props.C02b
import Parmcb.Props.C02c
import Parmcb.Props.C02d
import Parmcb.Props.C02e
/-! all property theorems of C02 -/
