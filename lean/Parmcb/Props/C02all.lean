import Parmcb.Props.C02b
import Parmcb.Props.C02c
import Parmcb.Props.C02d
/-! all property theorems of C02 -/
