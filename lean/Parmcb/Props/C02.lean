import Parmcb.Props.C01
import Parmcb.Lemmas.Cert
/-!
# C02 — exact algorithms return a minimum-weight cycle basis and its weight

Property theorems only; same relational model as C01 with `α = 1`.
-/
namespace Parmcb.C02
open Parmcb Parmcb.C01

def totalWeight (g : Graph) (L : List (List Nat)) : Int := (L.map (wt g)).sum

/-- minimum cycle basis: a basis no heavier than any other basis -/
def IsMCB (g : Graph) (L : List (List Nat)) : Prop :=
  IsBasis g L ∧ ∀ L', IsBasis g L' → totalWeight g L ≤ totalWeight g L'

/-- `mcb_weight += std::get<1>(best)` over the phases is the total weight of the emitted cycles -/
theorem c02_ret (g : Graph) (cycles : List (List Nat)) :
    cycles.foldl (fun acc c => acc + wt g c) 0 = totalWeight g cycles := by
  unfold totalWeight
  suffices h : ∀ a : Int, cycles.foldl (fun acc c => acc + wt g c) a = a + (cycles.map (wt g)).sum by
    simpa using h 0
  induction cycles with
  | nil => intro a; simp
  | cons c cs ih => intro a; simp only [List.foldl_cons, ih, List.map_cons, List.sum_cons]; omega

/-- the emitted weight is minimal against EVERY spanning family of cycle-space elements — in particular
against every cycle basis -/
theorem c02_min (g : Graph) (N : Nat) (v : Variant) (cycles : List (List Nat))
    (hd : ExactDomain g N) (hr : FullRun g N 1 v cycles) : IsMCB g cycles := by
  refine ⟨c01_basis g N 1 v cycles hd hr, ?_⟩
  intro L hL
  have := run_weight g N 1 (by decide) v cycles hd hr L hL.1 hL.2.2
  simpa [totalWeight] using this

/-- any two runs — different variants, different tie-breaking — report the same weight: the optimum is
a function of the weighted graph (this is also C08(a)) -/
theorem c02_value_unique (g : Graph) (N : Nat) (v v' : Variant) (cycles cycles' : List (List Nat))
    (hd : ExactDomain g N) (hr : FullRun g N 1 v cycles) (hr' : FullRun g N 1 v' cycles') :
    totalWeight g cycles = totalWeight g cycles' := by
  have h1 := (c02_min g N v cycles hd hr).2 cycles' (c02_min g N v' cycles' hd hr').1
  have h2 := (c02_min g N v' cycles' hd hr').2 cycles (c02_min g N v cycles hd hr).1
  omega

/-- two minimum cycle bases have the same total weight -/
theorem c02_mcb_weight_unique (g : Graph) (L L' : List (List Nat)) (h : IsMCB g L) (h' : IsMCB g L') :
    totalWeight g L = totalWeight g L' := by
  have := h.2 L' h'.1; have := h'.2 L h.1; omega

/- The second sentence of the property ("the sorted list of emitted cycle weights coincides with that of
every minimum cycle basis") is `c02_sorted_weights` in Props/C02b.lean (it needs that two bases have the
same number of elements: Lemmas/Steinitz.lean). -/

/-- **what the trace validation establishes**: when the compiled driver accepts a run of the implementation
(every phase: element of the cycle space, odd against the model's support vector, and a potential
certificate that no odd element is lighter), that run IS a run of the relational model — so all theorems
above apply to the cycles the C++ emitted.  (`checkRunBrute_sound` is the same with the definitional
enumeration for small graphs.) -/
theorem c02_validated_run_is_mcb (g : Graph) (N : Nat) (v : Variant) (cycles : List (List Nat))
    (πss : List (List Potential)) (hd : ExactDomain g N) (hlen : cycles.length = N)
    (hcheck : checkRunPot g v 0 (unitSupports N) cycles πss = true) : IsMCB g cycles := by
  have hsorted : ∀ S ∈ unitSupports N, StrictSorted S := by
    intro S hS
    simp only [unitSupports, List.mem_map] at hS
    obtain ⟨k, _, rfl⟩ := hS
    trivial
  exact c02_min g N v cycles hd ⟨hlen, checkRunPot_sound g hd.simple hd.positive v 0 _ cycles hsorted πss hcheck⟩

end Parmcb.C02
