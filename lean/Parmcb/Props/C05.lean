import Parmcb.Model.Spanner
import Parmcb.Lemmas.Spanner
import Parmcb.Props.C01
/-!
# C05 / C06 — what the approximate algorithms assemble

Property theorems only.  The approximate algorithms emit (i) the cycles of an exact run on the spanner,
translated back to edges of the caller's graph, and (ii) for every dropped edge `e = (u,v)` the edge
plus a shortest `u–v` path in the spanner.  `Bs` is the translated exact basis (C01/C02 apply to the
spanner as a graph of its own), `paths[i]` is the path chosen for the dropped edge `D[i]`.
-/
namespace Parmcb.C05
open Parmcb Parmcb.C01

/-- total weight of an edge LIST (a path) -/
def listWeight (g : Graph) (es : List Nat) : Int := (es.map g.weight).sum

/-- what is known about the two ingredients -/
structure Ingredients (g : Graph) (R D : List Nat) (Bs paths : List (List Nat)) : Prop where
  part : (R ++ D).Perm (List.range g.m)
  /-- `Bs` is a basis of the cycle space of the retained subgraph -/
  bs_even : ∀ C ∈ Bs, EvenSet g C ∧ ∀ e ∈ C, e ∈ R
  bs_indep : ∀ mask : List Bool, mask.length = Bs.length → true ∈ mask → xorSel Bs mask ≠ []
  bs_spans : ∀ Z, EvenSet g Z → (∀ e ∈ Z, e ∈ R) → ∃ mask : List Bool, mask.length = Bs.length ∧ xorSel Bs mask = Z
  /-- one simple spanner path per dropped edge -/
  plen : paths.length = D.length
  pwalk : ∀ (i : Nat) p e, paths[i]? = some p → D[i]? = some e →
      p.Nodup ∧ (∀ f ∈ p, f ∈ R) ∧ isWalk g p (g.src e) (g.tgt e) = true

/-- the emitted family, in canonical form -/
def emitted (Bs paths : List (List Nat)) (D : List Nat) : List (List Nat) :=
  Bs ++ (paths.zip D).map fun (p, e) => setOf (edgeCycle p e)

/-- **C05**: the emitted cycles form a basis of the cycle space of the caller's graph -/
theorem c05_basis (g : Graph) (hs : g.simpleB = true) (R D : List Nat) (Bs paths : List (List Nat))
    (h : Ingredients g R D Bs paths) : IsBasis g (emitted Bs paths D) := by
  have _ := hs
  exact Spanner.assembled_basis g R D Bs paths h.part h.bs_even h.bs_indep h.bs_spans h.plen h.pwalk

/-- every emitted edge is an edge of the caller's graph (ids `< m`): translated through
`_edge_spanner_to_g`, nothing refers to the temporary spanner graph -/
theorem c05_owner (g : Graph) (k : Nat) (R D : List Nat) (exactCycles paths : List (List Nat))
    (hR : ∀ e ∈ R, e < g.m) (hD : ∀ e ∈ D, e < g.m)
    (hex : ∀ c ∈ exactCycles, ∀ i ∈ c, i < R.length) (hp : ∀ p ∈ paths, ∀ f ∈ p, f ∈ R)
    (cycles : List (List Nat)) (ret : Int)
    (hrun : approxRun g k R D exactCycles paths = .ok cycles ret) :
    (∀ c ∈ cycles, ∀ e ∈ c, e < g.m) ∧ ret = (cycles.map (wt g)).sum := by
  exact Spanner.approxRun_owner g k R D exactCycles paths hR hD hex hp cycles ret hrun

/-- **C06, k = 0**: rejected, nothing emitted -/
theorem c06_k0 (g : Graph) (R D : List Nat) (exactCycles paths : List (List Nat)) :
    approxRun g 0 R D exactCycles paths = .error := by
  simp [approxRun]

/-- **C06, per-edge bound**: the cycle closed for a dropped edge `e` by a SHORTEST spanner path weighs at
most `2k · w(e)`, i.e. the path at most `(2k-1) · w(e)` -/
theorem c06_edge_cycle (g : Graph) (hs : g.simpleB = true) (hp : g.positiveB = true) (k : Nat) (hk : 1 ≤ k)
    (scan : List Nat) (hscan : scanOkB g scan = true) (e : Nat) (he : e ∈ (constructSpanner g k scan).2)
    (p : List Nat)
    (hshort : ∀ es : List Nat, (∀ f ∈ es, f ∈ (constructSpanner g k scan).1) →
        isWalk g es (g.src e) (g.tgt e) = true → listWeight g p ≤ listWeight g es) :
    listWeight g (edgeCycle p e) ≤ 2 * (k : Int) * g.weight e := by
  exact Spanner.edge_cycle_bound g hs hp k hk scan hscan e he p hshort

/- The global guarantee `w(emitted) ≤ (2k-1) · w(B)` for every cycle basis `B` of `g` (Kavitha–Mehlhorn–Michail) is
`C06.c06_bound` in Props/C06b.lean. -/

end Parmcb.C05
