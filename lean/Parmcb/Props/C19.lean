import Parmcb.Model.Link
/-!
# C19 — headers are usable from several translation units (link half)

`c19_link` is proved once; its hypothesis — no header defines a strong symbol — is re-established on every
run for the table regenerated from the working tree (`Generated/Link.lean`: `theorem table_clean … := by decide`),
so a new non-inline definition in a header breaks that proof obligation and names the symbol.
The compile half (every header compiles alone and first) is decided by the compiler only.
-/
namespace Parmcb.C19
open Parmcb

theorem flatMap_nil_of_clean (t : SymTable) (h : ∀ e ∈ t, e.2 = []) (hs : List String) :
    hs.flatMap (strongOf t) = [] := by
  induction hs with
  | nil => rfl
  | cons x r ih =>
    simp only [List.flatMap_cons, ih, List.append_nil]
    unfold strongOf
    cases hl : t.lookup x with
    | none => rfl
    | some v =>
      have : (x, v) ∈ t := by
        clear h ih
        induction t with
        | nil => simp [List.lookup] at hl
        | cons e t' ih' =>
          obtain ⟨k, v'⟩ := e
          simp only [List.lookup] at hl
          split at hl
          · rename_i heq
            have hk : x = k := by simpa using heq
            have hv : v' = v := by simpa using hl
            subst hk hv; exact List.mem_cons_self
          · exact List.mem_cons_of_mem _ (ih' hl)
      simpa using h _ this

/-- if no header contributes a strong definition, ANY number of translation units including ANY of the
headers (umbrella headers included) link together -/
theorem c19_link (t : SymTable) (h : ∀ e ∈ t, e.2 = []) (units : List (List String)) :
    links t units = true := by
  have : units.flatMap (objSymbols t) = [] := by
    induction units with
    | nil => rfl
    | cons u r ih =>
      simp only [List.flatMap_cons, ih, List.append_nil]
      exact flatMap_nil_of_clean t h _
  simp [links, this, hasDup]

/-- and conversely a strong definition in a header breaks every program that includes it twice -/
theorem c19_strong_breaks (t : SymTable) (hd s : String) (hs : s ∈ strongOf t hd) :
    links t [[hd], [hd]] = false := by
  have h1 : s ∈ objSymbols t [hd] := by simp [objSymbols, List.eraseDups_cons, hs]
  have : hasDup (objSymbols t [hd] ++ objSymbols t [hd]) = true := by
    generalize objSymbols t [hd] = l at h1
    induction l with
    | nil => cases h1
    | cons x r ih =>
      simp only [List.cons_append, hasDup, Bool.or_eq_true]
      left
      simp
  simp [links, this]

end Parmcb.C19
