import Parmcb.Model.Mpi
import Parmcb.Lemmas.Sched
import Parmcb.Props.C03
/-!
# C04 — MPI entry points are correct for every rank count and memory layout

Property theorems only (helper lemmas: `Parmcb/Lemmas/Sched.lean`).  Quantified over every
communicator size `P ≥ 1`, every amount of work `total` (including `P ∤ total`, `P > total`,
`total = 0`), every per-rank TBB schedule and every combination tree of the MPI reduction.
Open MPI / Boost.MPI themselves are trusted.
-/
namespace Parmcb.C04
open Parmcb Parmcb.C03

variable {C : Type}

/-- the slices of the ranks `0 … P-1`, concatenated in rank order, are exactly `0 … total-1`: every
index is handled by exactly one rank -/
theorem c04_slices_partition (total P : Nat) (hP : 1 ≤ P) :
    (List.range P).flatMap (slice total P) = List.range total := by
  exact slices_partition total P hP

theorem c04_slice_bounds (total P r : Nat) :
    sliceLo total P r ≤ sliceHi total P r ∧ sliceHi total P r ≤ total := by
  exact slice_bounds total P r

/-- consecutive ranks' slices are adjacent, the first starts at 0, the last ends at `total` -/
theorem c04_slices_adjacent (total P : Nat) (hP : 1 ≤ P) :
    sliceLo total P 0 = 0 ∧ sliceHi total P (P - 1) = total ∧
    ∀ r, r + 1 < P → sliceHi total P r = sliceLo total P (r + 1) := by
  exact slices_adjacent total P hP

/-- the MPI minimum operator is associative and commutative on weights, not-found is its identity -/
theorem c04_minop_assoc (a b c : Cyc C) :
    wOf (minOpMpi (minOpMpi a b) c) = wOf (minOpMpi a (minOpMpi b c)) := by
  exact minOpMpi_assoc_w a b c

theorem c04_minop_comm (a b : Cyc C) : wOf (minOpMpi a b) = wOf (minOpMpi b a) := by
  exact minOpMpi_comm_w a b

theorem c04_minop_ident (a : Cyc C) : minOpMpi none a = a ∧ minOpMpi a none = a := by
  exact minOpMpi_ident a

/-- **every rank count, every schedule, every reduction tree**: if the per-index searches meet the
sequential contract on `[0,total)`, the value rank 0 receives has the optimum weight `μ` -/
theorem c04_phase (srch : Nat → Option Int → Cyc C) (total P : Nat) (hP : 1 ≤ P) (μ : Int)
    (hc : SearchContract srch 0 total μ)
    (scheds : Nat → Sched) (hs : ∀ r, r < P → (scheds r).Covers (sliceLo total P r) (sliceHi total P r))
    (t : RTree) (ht : t.leaves.Perm (List.range P)) :
    wOf (mpiPhase srch scheds t) = some μ := by
  exact mpiPhase_w srch total P hP μ hc.sound hc.complete scheds hs t ht

/-- **layout independence after the repair**: when every rank enumerates the signed edges in the same
order (ForestIndex order), the ranks together search exactly the (edge, hidden set) pairs of the
sequential heuristic -/
theorem c04_pairs_same_order (σ : List Nat) (P : Nat) (hP : 1 ≤ P) :
    (List.range P).flatMap (rankPairs (fun _ => σ) σ.length P) = hiddenPairs σ := by
  exact pairs_same_order σ P hP

/-- **the defect of the pinned code**: with per-rank orders (pointer order of the edge descriptors) two
ranks can leave an edge unsearched — `b` below is searched by nobody -/
theorem c04_pairs_layout_counterexample :
    let σ : Nat → List Nat := fun r => if r = 0 then [7, 9] else [9, 7]
    ∀ p ∈ (List.range 2).flatMap (rankPairs σ 2 2), p.1 ≠ 9 := by
  decide

/-- every rank enters the same sequence of collectives (it depends only on broadcast data), so no
rank is left waiting inside a collective -/
theorem c04_collectives_aligned (r r' : Nat) (sizes : List Nat) (N : Nat) :
    signedScript r sizes = signedScript r' sizes ∧ treesScript r N = treesScript r' N := by
  exact ⟨rfl, rfl⟩

end Parmcb.C04
