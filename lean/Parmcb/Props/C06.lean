import Parmcb.Props.C05
import Parmcb.Props.C15
import Parmcb.Props.C02
/-!
# C06 — approximation guarantee: weight ≤ (2k-1) × optimum, exact for k = 1, k = 0 rejected

Property theorems only.  Proved: rejection of `k = 0`; for `k = 1` nothing is dropped, so the algorithm
is the exact algorithm run on (a re-ordering of) the whole graph and C02 applies; the per-edge bound
`w(C_e) ≤ 2k · w(e)`; the spanner part is a minimum basis of the spanner (C02 on the spanner graph).
The global guarantee against every basis of `g` (Kavitha–Mehlhorn–Michail) is `c06_bound` in Props/C06b.lean.
-/
namespace Parmcb.C06
open Parmcb

/-- `k = 0` is rejected and nothing is emitted -/
theorem c06_k0 (g : Graph) (R D : List Nat) (exactCycles paths : List (List Nat)) :
    approxRun g 0 R D exactCycles paths = .error := C05.c06_k0 g R D exactCycles paths

/-- `k = 1`: every edge of a simple graph is retained, no edge is closed by a detour: the emitted basis is
the exact algorithm's basis of the whole graph -/
theorem c06_k1 (g : Graph) (hs : g.simpleB = true) (scan : List Nat) (hscan : scanOkB g scan = true) :
    (constructSpanner g 1 scan).1 = scan ∧ (constructSpanner g 1 scan).2 = [] := by
  rw [C15.c15_k1 g hs scan hscan]; exact ⟨rfl, rfl⟩

/-- the exact phase on the spanner is optimal for the spanner -/
theorem c06_spanner_part (sp : Graph) (N : Nat) (v : Variant) (cycles : List (List Nat))
    (hd : ExactDomain sp N) (hr : FullRun sp N 1 v cycles) : C02.IsMCB sp cycles :=
  C02.c02_min sp N v cycles hd hr

/-- each dropped edge is closed by a cycle of weight at most `2k · w(e)` -/
theorem c06_edge_cycle (g : Graph) (hs : g.simpleB = true) (hp : g.positiveB = true) (k : Nat) (hk : 1 ≤ k)
    (scan : List Nat) (hscan : scanOkB g scan = true) (e : Nat) (he : e ∈ (constructSpanner g k scan).2)
    (p : List Nat)
    (hshort : ∀ es : List Nat, (∀ f ∈ es, f ∈ (constructSpanner g k scan).1) →
        isWalk g es (g.src e) (g.tgt e) = true → C05.listWeight g p ≤ C05.listWeight g es) :
    C05.listWeight g (edgeCycle p e) ≤ 2 * (k : Int) * g.weight e :=
  C05.c06_edge_cycle g hs hp k hk scan hscan e he p hshort

end Parmcb.C06
