import Parmcb.Model.Fp
import Parmcb.Lemmas.Fp
import Mathlib.Data.Nat.Prime.Basic
/-!
# C18 — prime-field arithmetic (fp, primes, SpVecFP) matches arithmetic modulo p

Property theorems only (helper lemmas live in `Parmcb/Lemmas/Fp.lean`).
-/
namespace Parmcb.C18
open Parmcb

/-- **ext_gcd**: for all integers not both zero the returned `g` is the non-negative gcd and the
out-parameters are Bézout coefficients of the ORIGINAL arguments. -/
theorem c18_extgcd (a b : Int) (h : ¬(a = 0 ∧ b = 0)) :
    (extGcd a b).1 = (Int.gcd a b : Int) ∧
    a * (extGcd a b).2.1 + b * (extGcd a b).2.2 = (extGcd a b).1 :=
  extGcd_spec a b h

/-- **get_mult_inverse**: a value congruent to the inverse when gcd(a,p) = 1, an exception otherwise. -/
theorem c18_inverse (a p : Int) (hp : 0 < p) :
    (Int.gcd a p = 1 → ∃ x, multInverse a p = some x ∧ (a * x) % p = 1 % p) ∧
    (Int.gcd a p ≠ 1 → multInverse a p = none) :=
  multInverse_spec a p hp

/-- **is_prime**, for ANY value `s` of the computed square-root bound that satisfies what the code
itself checks (`s*s ≥ p`, PARMCB_INVARIANTS_CHECK) and stays below `p`. -/
theorem c18_isPrimeWith (p s : Nat) (hp : 3 ≤ p) (hs1 : p ≤ s * s) (hs2 : s < p) :
    isPrimeWith (p : Int) (s : Int) = true ↔ Nat.Prime p :=
  isPrimeWith_spec p s hp hs1 hs2

/-- **is_prime** agrees with primality for every integer ≥ 2. -/
theorem c18_isPrime (p : Nat) (hp : 2 ≤ p) : isPrime (p : Int) = true ↔ Nat.Prime p :=
  isPrime_spec p hp

/-! ### SpVecFP -/

/-- canonical form: indices strictly increasing, values reduced to 1..p-1 -/
def FpCanon (p : Int) (v : FpVec) : Prop :=
  (v.map (·.1)).Pairwise (· < ·) ∧ ∀ e ∈ v, 1 ≤ e.2 ∧ e.2 < p

/-- the dense vector a sparse one stands for: coordinate `i` (0 when absent) -/
def fpDense (v : FpVec) (i : Nat) : Int :=
  match v.find? (fun e => e.1 == i) with
  | some e => e.2
  | none => 0

theorem c18_add_canon (p : Int) (hp : 2 ≤ p) (a b : FpVec) (ha : FpCanon p a) (hb : FpCanon p b) :
    FpCanon p (fpAdd p a b) :=
  add_canon p hp a b ha hb

theorem c18_add_dense (p : Int) (hp : 2 ≤ p) (a b : FpVec) (ha : FpCanon p a) (hb : FpCanon p b)
    (i : Nat) : fpDense (fpAdd p a b) i = (fpDense a i + fpDense b i) % p :=
  add_dense p hp a b ha hb i

/-- scalar multiplication by ANY integer (negative ones included) -/
theorem c18_scale_canon (p : Int) (hp : 2 ≤ p) (c : Int) (a : FpVec) (ha : FpCanon p a) :
    FpCanon p (fpScale p c a) :=
  scale_canon p hp c a ha

theorem c18_scale_dense (p : Int) (hp : 2 ≤ p) (c : Int) (a : FpVec) (ha : FpCanon p a) (i : Nat) :
    fpDense (fpScale p c a) i = (fpDense a i * c) % p :=
  scale_dense p hp c a ha i

/-- dot product = the dense sum of products, reduced modulo p -/
theorem c18_dot (p : Int) (hp : 2 ≤ p) (a b : FpVec) (ha : FpCanon p a) (hb : FpCanon p b) :
    fpDot p a b = ((a.map (fun e => e.2 * fpDense b e.1)).sum) % p :=
  dot_spec p hp a b ha hb

/-- **every history**: all live vectors stay canonical -/
theorem c18_canonical (p : Int) (hp : 2 ≤ p) (ops : List FpOp) : ∀ v ∈ fpRun p ops, FpCanon p v :=
  fpRun_canon p hp ops

end Parmcb.C18
