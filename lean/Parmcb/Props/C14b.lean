import Parmcb.Lemmas.Horton
import Parmcb.Lemmas.IsoE
/-!
# C14 — sufficiency of the Horton and FVS candidate collections

Property theorems only (proofs: `Lemmas/Horton.lean`).  Every phase of the tree variants looks its cycle up in a
candidate collection instead of searching the whole cycle space.  `c14_phase_sufficient`: whenever the roots of a
family of certified shortest-path trees hit every cycle of the graph, a minimum-weight odd element of the cycle space
is found among the candidates the trees offer — for ANY choice of shortest paths (no uniqueness or consistency of the
paths is needed, ties may be broken arbitrarily).  Hence a run over the collection is a run of the unrestricted
algorithm and yields a minimum cycle basis (`c14_sufficient`), in particular for Horton's collection
(`c14_sufficient_horton`) and for the collection rooted at the feedback vertex set `greedy_fvs` emits under any pop
order (`c14_sufficient_fvs`).

The ISOMETRIC sub-collection (`ISOCyclesBuilder`: one representative per class of mutually linked representations, classes
with a failed link dropped) is sufficient as well (`c14_phase_sufficient_iso`, `c14_sufficient_iso`): among the minimum odd
circuits one with the smallest label (weight, number of edges, vertex set — the comparison of `lex_dijkstra.hpp`) contains the
lexicographically optimal path between any two of its vertices (exchange argument), so it is represented in the tree of each
of its vertices, every link leads to another representation of the same cycle and none fails (mutual consistency of the trees,
`C12.c12_consistency`'s ingredients), and the label propagation that replaces `boost::connected_components` in the model
computes connected components (`isoComponents_spec`).
-/
namespace Parmcb.C14
open Parmcb Parmcb.C01 Parmcb.C02

/-- one phase: the collection contains a minimum-weight odd element of the cycle space -/
theorem c14_phase_sufficient (g : Graph) (hs : g.simpleB = true) (hp : g.positiveB = true) (trees : List SPTree)
    (hck : ∀ t ∈ trees, checkSPT g t = true ∧ checkFirst g t = true)
    (hhit : Acyclic g (C13.survivingEdges g (trees.map (·.source))))
    (S : List Nat) (hS : StrictSorted S) (Z : List Nat) (hZ : EvenSet g Z) (hodd : dotPar Z S = true)
    (hmin : ∀ Z', EvenSet g Z' → dotPar Z' S = true → wt g Z ≤ wt g Z') :
    ∃ C, InCollection g trees C ∧ EvenSet g C ∧ dotPar C S = true ∧ wt g C ≤ wt g Z :=
  cand_sufficient g hs hp trees hck hhit S hS Z hZ hodd hmin

/-- a run that looks every cycle up in the collection — from any permuted start state — yields a minimum cycle basis -/
theorem c14_sufficient (g : Graph) (N : Nat) (trees : List SPTree) (v : Variant)
    (sup0 cycles : List (List Nat)) (hd : ExactDomain g N)
    (hck : ∀ t ∈ trees, checkSPT g t = true ∧ checkFirst g t = true)
    (hhit : Acyclic g (C13.survivingEdges g (trees.map (·.source))))
    (hperm : sup0.Perm (unitSupports N)) (hlen : cycles.length = N)
    (hr : RunIn g (InCollection g trees) v 0 sup0 cycles) : IsMCB g cycles :=
  collection_sufficient g N trees v sup0 cycles hd hck hhit hperm hlen hr

/-- Horton's collection (one lexicographic tree per vertex, as `HortonCyclesBuilder` builds them) -/
theorem c14_sufficient_horton (g : Graph) (N : Nat) (v : Variant) (sup0 cycles : List (List Nat)) (hd : ExactDomain g N)
    (hperm : sup0.Perm (unitSupports N)) (hlen : cycles.length = N)
    (hr : RunIn g (InCollection g (hortonCands g).1) v 0 sup0 cycles) : IsMCB g cycles :=
  horton_sufficient g N v sup0 cycles hd hperm hlen hr

/-- the FVS collection (`FVSCyclesBuilder`), for the set `greedy_fvs` emits under any pop order that hands out every vertex -/
theorem c14_sufficient_fvs (g : Graph) (N : Nat) (picks : List Nat) (hpicks : ∀ x, x < g.n → x ∈ picks)
    (v : Variant) (sup0 cycles : List (List Nat)) (hd : ExactDomain g N)
    (hperm : sup0.Perm (unitSupports N)) (hlen : cycles.length = N)
    (hr : RunIn g (InCollection g (fvsCands g (greedyFvs g picks)).1) v 0 sup0 cycles) : IsMCB g cycles :=
  fvs_sufficient g N picks hpicks v sup0 cycles hd hperm hlen hr

/-- one phase over the isometric collection -/
theorem c14_phase_sufficient_iso (g : Graph) (hs : g.simpleB = true) (hp : g.positiveB = true)
    (S : List Nat) (hS : StrictSorted S) (Z : List Nat) (hZ : EvenSet g Z) (hodd : dotPar Z S = true)
    (hmin : ∀ Z', EvenSet g Z' → dotPar Z' S = true → wt g Z ≤ wt g Z') :
    ∃ C, InIso g C ∧ EvenSet g C ∧ dotPar C S = true ∧ wt g C ≤ wt g Z :=
  iso_phase_sufficient g hs hp S hS Z hZ hodd hmin

/-- a run that looks every cycle up in the isometric collection — from any permuted start state — yields a minimum cycle
basis -/
theorem c14_sufficient_iso (g : Graph) (N : Nat) (v : Variant) (sup0 cycles : List (List Nat)) (hd : ExactDomain g N)
    (hperm : sup0.Perm (unitSupports N)) (hlen : cycles.length = N)
    (hr : RunIn g (InIso g) v 0 sup0 cycles) : IsMCB g cycles :=
  iso_sufficient g N v sup0 cycles hd hperm hlen hr

end Parmcb.C14
