import Parmcb.Lemmas.TreeWalk
/-!
# C12 / C14 — the explicit-stack tree walks of `SPTree`

Property theorems only (proofs: `Lemmas/TreeWalk.lean`).  `Model/TreeWalk.lean` models `compute_first_in_path` and
`update_parities` literally: child lists in the order `add_child` builds them, a stack of (label, node), the root case of
the first-in-path walk.  `Model/Lex.lean` defines the same labels functionally (climb to the root / parity of the root
path), and all of C12's and C14's theorems are about those.  Here: the walks compute exactly the functional labels.
-/
namespace Parmcb.C12
open Parmcb

/-- `compute_first_in_path` fills `_first_in_path` with the model's `first` labels (root: itself; a node: the child of the
root its root path passes through; no node: vertex 0, the vector's initial value) -/
theorem c12_first_walk (g : Graph) (hs : g.simpleB = true) (hp : g.positiveB = true) (s : Nat) (hsn : s < g.n) :
    firstByWalk g (buildTree g s) = (buildTree g s).first :=
  firstByWalk_eq g hs hp s hsn

/-- `update_parities(signed)` stores at every node the parity of the number of signed edges on its root path -/
theorem c14_parity_walk (g : Graph) (hs : g.simpleB = true) (hp : g.positiveB = true) (s : Nat) (hsn : s < g.n)
    (signed : List Nat) (v : Nat) (hv : v < g.n) (hnode : (buildTree g s).hasNode v = true) :
    (parityByWalk g (buildTree g s) signed).getD v false = treeParity g (buildTree g s) signed v :=
  parityByWalk_eq g hs hp s hsn signed v hv hnode

/-- non-vacuity: the walks on a 6-vertex graph with an unreachable vertex -/
example :
    let g : Graph := { n := 6, edges := [(0, 1, 1), (1, 2, 1), (2, 3, 1), (3, 0, 1), (0, 2, 5), (4, 1, 2)] }
    g.simpleB = true ∧ g.positiveB = true ∧ firstByWalk g (buildTree g 1) = [0, 1, 2, 0, 4, 0] ∧
    parityByWalk g (buildTree g 1) [0, 2] = [true, false, false, true, false, false] := by decide

end Parmcb.C12
