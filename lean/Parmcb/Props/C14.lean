import Parmcb.Model.Iso
import Parmcb.Model.TreeCheck
import Parmcb.Lemmas.Trees
import Parmcb.Lemmas.DePina2
/-!
# C14 — candidate cycle collections are sound, nested and sufficient

Property theorems only (helper lemmas: `Parmcb/Lemmas/Trees.lean`).

Proved: soundness of every candidate produced from a tree that passes the C12 certificate (two root paths
that share no edge plus the non-tree edge: an element of the cycle space through the root whose recorded
weight is its true weight; the parity label used by the look-up is the GF(2) product with the support
vector); the FVS and isometric collections are sub-collections of Horton's; and the TRANSFER of
sufficiency: if a collection contains some minimum cycle basis, the phases that look their cycle up in it
produce a minimum cycle basis (`Lemmas/DePina2.runIn_weight`).
Sufficiency itself (each collection does contain a minimum cycle basis) is in `Props/C14b.lean`: proved for the
Horton and FVS collections, `c14_sufficient_iso_partial` for the isometric one (validated per run: greedy selection
by weight subject to GF(2) independence over the dumped collection reaches the dimension and the independent optimum).
-/
namespace Parmcb.C14
open Parmcb

/-- every candidate of a certified tree unfolds to an element of the cycle space that contains the
non-tree edge, whose recorded weight is its true weight -/
theorem c14_cand_sound (g : Graph) (hs : g.simpleB = true) (hp : g.positiveB = true) (t : SPTree) (i : Nat)
    (hc : checkSPT g t = true) (hf : checkFirst g t = true)
    (c : Cand) (hmem : c ∈ createCandidates g t i (List.range g.m)) :
    ∃ Z, unfoldCand g t c = some Z ∧ EvenSet g Z ∧ c.edge ∈ Z ∧ wt g Z = c.weight :=
  TreesL.cand_sound g hs hp t i hc hf c hmem

/-- the parity label of the look-up is the product of the unfolded cycle with the support vector -/
theorem c14_parity_label (g : Graph) (hs : g.simpleB = true) (hp : g.positiveB = true) (t : SPTree) (i : Nat)
    (hc : checkSPT g t = true) (hf : checkFirst g t = true)
    (c : Cand) (hmem : c ∈ createCandidates g t i (List.range g.m)) (S : List Nat) (hS : StrictSorted S)
    (Z : List Nat) (hZ : unfoldCand g t c = some Z) :
    candOdd g t S c = dotPar Z S :=
  TreesL.parity_label g hs hp t i hc hf c hmem S hS Z hZ

/-- the isometric collection is a sub-collection of Horton's -/
theorem c14_iso_subset (g : Graph) : ∀ c ∈ (isoCands g).2, c ∈ (hortonCands g).2 :=
  TreesL.isoCands_subset g

/-- the FVS collection is Horton's collection restricted to the trees rooted at the feedback vertices
(tree `i` of the FVS builder is the tree of vertex `fvs[i]`) -/
theorem c14_fvs_subset (g : Graph) (fvs : List Nat) (hf : ∀ v ∈ fvs, v < g.n) :
    ∀ c ∈ (fvsCands g fvs).2, ∃ v, fvs[c.tree]? = some v ∧
      { tree := v, edge := c.edge, weight := c.weight : Cand } ∈ (hortonCands g).2 :=
  TreesL.fvsCands_subset g fvs hf

/-- sufficiency transfers: a run whose phases minimise over a collection containing a spanning family `L`
weighs at most as much as `L` (in particular: as much as a minimum cycle basis inside the collection) -/
theorem c14_transfer (g : Graph) (N : Nat) (cand : List Nat → Prop) (v : Variant) (sup0 cycles : List (List Nat))
    (hd : ExactDomain g N) (hperm : sup0.Perm (unitSupports N)) (hlen : cycles.length = N)
    (hr : RunIn g cand v 0 sup0 cycles)
    (L : List (List Nat)) (hL : ∀ D ∈ L, cand D ∧ EvenSet g D)
    (hspan : ∀ Z, EvenSet g Z → ∃ mask : List Bool, mask.length = L.length ∧ xorSel L mask = Z) :
    (cycles.map (wt g)).sum ≤ (L.map (wt g)).sum :=
  runIn_weight g N cand v sup0 cycles hd hperm hlen hr L hL hspan

end Parmcb.C14
