import Parmcb.Model.Knob
/-!
# C20 — the concurrency knob actually limits TBB parallelism

Property theorems only.  oneTBB honouring `active_value` when it sizes its arenas is trusted; the
correspondence check observes `active_value` and the number of distinct worker threads.
-/
namespace Parmcb.C20
open Parmcb

/-- after `set_global_tbb_concurrency(n)` the allowed parallelism is `n` (no client controls) -/
theorem c20_set (hw n : Nat) (s : KnobState) (hc : s.client = []) :
    activeValue hw (setGlobal n s) = n := by
  simp [activeValue, setGlobal, hc]

/-- … for every history of library calls, until it is set again: the active value after any sequence of
calls is the argument of the LAST one -/
theorem c20_history (hw : Nat) (ns : List Nat) (n : Nat) :
    activeValue hw ((ns ++ [n]).foldl (fun s k => knobStep s (.set k)) KnobState.init) = n := by
  rw [List.foldl_append]
  simp only [List.foldl_cons, List.foldl_nil, knobStep]
  apply c20_set
  have : ∀ (s : KnobState), s.client = [] → (ns.foldl (fun s k => knobStep s (.set k)) s).client = [] := by
    induction ns with
    | nil => intro s h; exact h
    | cons k r ih => intro s h; exact ih _ (by simpa [knobStep, setGlobal] using h)
  exact this KnobState.init rfl

/-- with client-side controls alive the library's value still bounds the parallelism from above -/
theorem c20_upper_bound (hw n : Nat) (s : KnobState) : activeValue hw (setGlobal n s) ≤ n := by
  simp only [activeValue, setGlobal, Option.toList, List.cons_append, List.nil_append]
  generalize s.client = l
  induction l generalizing n with
  | nil => simp
  | cons x r ih =>
    simp only [List.foldl_cons]
    exact Nat.le_trans (ih (min n x)) (Nat.min_le_left n x)

/-- the demos' `--cores n` has that effect whenever a parallel algorithm is selected, independent of
`--verbose` -/
theorem c20_demo (hw n : Nat) (hn : 0 < n) (verbose : Bool) :
    activeValue hw (demoKnob hw { parallel := true, verbose := verbose, cores := n } KnobState.init) = n := by
  have : n ≠ 0 := by omega
  simp [demoKnob, this, c20_set, KnobState.init]

theorem c20_demo_default (hw : Nat) (verbose : Bool) :
    activeValue hw (demoKnob hw { parallel := true, verbose := verbose, cores := 0 } KnobState.init) = hw := by
  simp [demoKnob, c20_set, KnobState.init]

/-- the record of the defect: with the pinned body the call changes nothing -/
theorem c20_pinned_has_no_effect (hw n : Nat) :
    activeValue hw (setGlobalPinned n KnobState.init) = hw := by
  simp [activeValue, setGlobalPinned, KnobState.init]

/-- non-vacuity -/
example : activeValue 16 ((([3, 5] : List Nat)).foldl (fun s k => knobStep s (.set k)) KnobState.init) = 5 := by decide

end Parmcb.C20
