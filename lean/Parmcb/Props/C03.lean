import Parmcb.Model.Sched
import Parmcb.Model.DePina
import Parmcb.Lemmas.Sched
/-!
# C03 — TBB-parallel entry points keep their contract under every schedule

Property theorems only (helper lemmas: `Parmcb/Lemmas/Sched.lean`).  Every statement is quantified over
ALL schedules (`Sched`, `ForSched`): any partition of the range, any grouping of sub-ranges into
accumulation runs seeded with the identity, any order-preserving join tree, any execution order.
What oneTBB's runtime does beyond producing such executions (its own correctness, the memory model)
is trusted; the footprints are hand-extracted from the lambdas.
-/
namespace Parmcb.C03
open Parmcb

variable {C : Type}

/-- weight of a result (`none` = not found) -/
def wOf (r : Cyc C) : Option Int := r.map (·.1)

/-- the contract the per-index searches satisfy sequentially (validated against the C++ by the
correspondence check): every result found, under any limit, weighs at least `μ`; and some index `i*`
of the range yields exactly `μ` whenever the limit leaves room for it (`μ < limit`, or no limit). -/
structure SearchContract (srch : Nat → Option Int → Cyc C) (lo hi : Nat) (μ : Int) : Prop where
  sound : ∀ i L r, lo ≤ i → i < hi → srch i L = some r → μ ≤ r.1
  complete : ∃ i, lo ≤ i ∧ i < hi ∧ ∀ L, (∀ l, L = some l → μ < l) → ∃ c, srch i L = some (μ, c)

/-- `cycle_min` is associative on weights, `none` is a two-sided identity, ties keep the left operand -/
theorem c03_join_assoc (a b c : Cyc C) :
    wOf (cycleMin (cycleMin a b) c) = wOf (cycleMin a (cycleMin b c)) := by
  exact cycleMin_assoc_w a b c

theorem c03_join_ident (a : Cyc C) : cycleMin none a = a ∧ cycleMin a none = a := by
  exact cycleMin_ident a

theorem c03_join_prefers_left (a b : Int × C) (h : a.1 = b.1) : cycleMin (some a) (some b) = some a := by
  exact cycleMin_prefers_left a b h

/-- **schedule independence of the minimum search**: under every schedule that tiles `[lo,hi)`, the
parallel reduction finds a cycle of weight exactly `μ` — the same weight as the sequential loop. -/
theorem c03_reduce_min (srch : Nat → Option Int → Cyc C) (lo hi : Nat) (μ : Int)
    (hc : SearchContract srch lo hi μ) (s : Sched) (hs : s.Covers lo hi) :
    wOf (reduceMin srch s) = some μ := by
  exact reduceMin_w hc.sound hc.complete hs

theorem c03_seq_min (srch : Nat → Option Int → Cyc C) (lo hi : Nat) (μ : Int)
    (hc : SearchContract srch lo hi μ) : wOf (seqMin srch lo hi) = some μ := by
  exact seqMin_w hc.sound hc.complete

/-- when no index yields anything, every schedule reports not-found -/
theorem c03_reduce_none (srch : Nat → Option Int → Cyc C) (lo hi : Nat)
    (hn : ∀ i L, lo ≤ i → i < hi → srch i L = none) (s : Sched) (hs : s.Covers lo hi) :
    reduceMin srch s = none := by
  exact evalReduce_none hn hs (Nat.le_refl _) (Nat.le_refl _) none

/-- the weight reduction of the approximate variants returns the sum under every schedule -/
theorem c03_reduce_sum (ws : Nat → Int) (lo hi : Nat) (s : Sched) (hs : s.Covers lo hi) :
    reduceSum ws s = ((List.range' lo (hi - lo)).map ws).sum := by
  exact (evalReduce_sum ws hs 0).trans (Int.zero_add _)

/-- **support update**: for every tiling of `[k+1, N)` executed in any order the parallel update equals
the sequential loop of Model/DePina.lean -/
theorem c03_update_for (sup : List (List Nat)) (k : Nat) (cyc : List Nat) (fs : ForSched)
    (ht : fs.Tiles (k + 1) sup.length) :
    evalFor (updateRow k cyc) fs sup = updateSup sup k cyc := by
  exact evalFor_updateRow sup k cyc fs ht

/-- **support initialisation**: concurrent `push_back`s of the unit vectors in any interleaving give a
permutation of the unit vectors -/
theorem c03_init_perm (N : Nat) (fs : ForSched) (ht : fs.Tiles 0 N) :
    (evalFor (fun i (v : List (List Nat)) => v ++ [[i]]) fs []).Perm (unitSupports N) := by
  exact evalFor_push_perm N fs ht

/-- **no conflicting accesses**: two different tasks of the support-update region touch disjoint rows
and only read row `k` and the cycle -/
theorem c03_update_no_conflict (k lo₁ hi₁ lo₂ hi₂ : Nat) (h1 : k < lo₁) (h2 : k < lo₂)
    (hd : hi₁ ≤ lo₂ ∨ hi₂ ≤ lo₁) :
    conflict (updateFootprint k lo₁ hi₁) (updateFootprint k lo₂ hi₂) = false := by
  exact updateFootprint_no_conflict k lo₁ hi₁ lo₂ hi₂ h1 h2 hd

theorem c03_parity_no_conflict (lo₁ hi₁ lo₂ hi₂ : Nat) (hd : hi₁ ≤ lo₂ ∨ hi₂ ≤ lo₁) :
    conflict (parityFootprint lo₁ hi₁) (parityFootprint lo₂ hi₂) = false := by
  exact parityFootprint_no_conflict lo₁ hi₁ lo₂ hi₂ hd

theorem c03_search_no_conflict (n : Nat) : conflict (searchFootprint n) (searchFootprint n) = false := by
  exact searchFootprint_no_conflict n

end Parmcb.C03
