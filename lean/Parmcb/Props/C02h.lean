import Parmcb.Lemmas.HeapAlgo
/-!
# C01 / C02 / C05 / C06 — the sequential entry points with the REAL priority queues

Property theorems only (proofs: `Lemmas/Heap.lean`, `Lemmas/HeapSim.lean`, `Lemmas/HeapAlgo.lean`).  `Model/Heap.lean` is a
literal model of `boost::d_ary_heap_indirect<…, 4, …>` (array, sift-up with strict comparison, sift-down to the first
smallest child, decrease-key) and of `bidirectional_signed_dijkstra` / `parmcb::dijkstra` run on it; `Model/HeapAlgo.lean`
are `mcb_sva_signed` and the sequential approximate algorithms built from those, with the out-edges of every vertex in the
order in which the caller inserted them.  These models contain NO oracle for the heaps: given the iteration orders the
language leaves open (`order`, `σ`, `scan`, `picks`, `sorter`) they are deterministic, and the correspondence demands that
they emit exactly the cycles the C++ emits, phase by phase.

`c02_heap_*`: heap order is an invariant, the root is a minimum, the operations change the contents as they should.
`c02_heap_search_is_oracle_run`, `c06_heap_dijkstra_is_oracle_run`: a run on the real heaps is a run of the oracle model
under an admissible oracle — so every theorem proved "for every heap behaviour" applies.  `c02_signed_heap_end_to_end`,
`c05_approx_*_heap_end_to_end`: the end-to-end conclusions for the models with the real heaps.
-/
namespace Parmcb.C02
open Parmcb

theorem c02_heap_top_min (dist : Array (Option Int)) (h : Array Nat) (ok : HeapOK dist h) :
    ∀ x ∈ h.toList, keyOf dist h[0]! ≤ keyOf dist x :=
  HeapL.top_min dist h ok

theorem c02_heap_push (dist : Array (Option Int)) (h : Array Nat) (v : Nat) (ok : HeapOK dist h) :
    HeapOK dist (heapPush dist h v) ∧ (heapPush dist h v).toList.Perm (v :: h.toList) :=
  ⟨HeapL.push_ok dist h v ok, HeapL.push_perm dist h v⟩

theorem c02_heap_pop (dist : Array (Option Int)) (h : Array Nat) (hne : 0 < h.size) (ok : HeapOK dist h) :
    HeapOK dist (heapPop dist h) ∧ (h[0]! :: (heapPop dist h).toList).Perm h.toList :=
  ⟨HeapL.pop_ok dist h ok, HeapL.pop_perm dist h hne⟩

theorem c02_heap_decrease_key (dist dist' : Array (Option Int)) (h : Array Nat) (v : Nat) (hnd : h.toList.Nodup)
    (hother : ∀ x ∈ h.toList, x ≠ v → keyOf dist' x = keyOf dist x) (hdec : keyOf dist' v ≤ keyOf dist v)
    (ok : HeapOK dist h) :
    HeapOK dist' (heapUpdate dist' h v) ∧ (heapUpdate dist' h v).toList.Perm h.toList :=
  ⟨HeapL.update_ok dist dist' h v hnd hother hdec ok, HeapL.update_perm dist' h v⟩

/-- the bidirectional search on two real heaps is a run of the oracle model -/
theorem c02_heap_search_is_oracle_run (adjE : Array (List (Nat × Int × Nat))) (wOf : Nat → Int) (limit : Option Int)
    (s t : Nat) (hs : s < adjE.size) (ht : t < adjE.size)
    (hadj : ∀ u, u < adjE.size → ∀ p ∈ adjE[u]!, p.1 < adjE.size) :
    ∃ pick : Pick, PickOK pick ∧ biSearchH adjE wOf limit s t = biSearch adjE pick wOf limit s t :=
  biSearchH_eq adjE wOf limit s t hs ht hadj

/-- `parmcb::dijkstra` on a real heap is a run of the oracle model -/
theorem c06_heap_dijkstra_is_oracle_run (adjE : Array (List (Nat × Int × Nat))) (s : Nat) (hs : s < adjE.size)
    (hadj : ∀ u, u < adjE.size → ∀ p ∈ adjE[u]!, p.1 < adjE.size) :
    ∃ pick : Pick, PickOK pick ∧
      (dijkstraH adjE s).toP.src = (dijkLoop adjE pick (adjE.size + 1) (FrontierP.init adjE.size s)).src ∧
      (dijkstraH adjE s).toP.dist = (dijkLoop adjE pick (adjE.size + 1) (FrontierP.init adjE.size s)).dist ∧
      (dijkstraH adjE s).toP.pred = (dijkLoop adjE pick (adjE.size + 1) (FrontierP.init adjE.size s)).pred :=
  dijkstraH_eq adjE s hs hadj

/-- **`mcb_sva_signed` with the real heaps** -/
theorem c02_signed_heap_end_to_end (g : Graph) (hs : g.simpleB = true) (hp : g.positiveB = true)
    (order : List Nat) (ho : order.Perm (List.range g.n))
    (σ : Nat → List Nat → List Nat) (hσ : ∀ k S, (σ k S).Perm S) :
    McbCorrect g order (mcbSignedH g order σ) :=
  mcbSignedH_correct g hs hp order ho σ hσ

/-- **`mcb_sva_signed_tbb` with the real heaps**, under every execution of every `parallel_reduce` and every push order -/
theorem c03_signed_tbb_heap_end_to_end (g : Graph) (hs : g.simpleB = true) (hp : g.positiveB = true)
    (order : List Nat) (ho : order.Perm (List.range g.n))
    (σ : Nat → List Nat → List Nat) (hσ : ∀ k S, (σ k S).Perm S)
    (perm : List Nat) (hperm : perm.Perm (List.range (createIndex g order).dim))
    (scheds : Nat → List Nat → Sched)
    (hcov : ∀ k S, (scheds k S).Covers 0 (if g.n ≤ S.length then g.n else S.length)) :
    McbCorrect g order (mcbSignedTbbH g order σ perm scheds) :=
  mcbSignedTbbH_correct g hs hp order ho σ hσ perm hperm scheds hcov

/-- **`mcb_sva_signed_mpi` with the real heaps** (rank 0's view), for every rank count, per-rank schedule and reduction tree -/
theorem c04_signed_mpi_heap_end_to_end (g : Graph) (hs : g.simpleB = true) (hp : g.positiveB = true)
    (order : List Nat) (ho : order.Perm (List.range g.n))
    (P : Nat) (hP : 1 ≤ P) (perm : List Nat) (hperm : perm.Perm (List.range (createIndex g order).dim))
    (scheds : Nat → List Nat → Nat → Sched)
    (hcov : ∀ k S, SlicesCovered (if S.length < g.n then S.length else g.n) P (scheds k S))
    (trees : Nat → List Nat → RTree) (ht : ∀ k S, TreeOK P (trees k S)) :
    McbCorrect g order (mcbSignedMpiH g order perm scheds trees) :=
  mcbSignedMpiH_correct g hs hp order ho P hP perm hperm scheds hcov trees ht

theorem c05_approx_signed_heap_end_to_end (g : Graph) (hs : g.simpleB = true) (hp : g.positiveB = true) (k : Nat)
    (hk : 1 ≤ k) (scan : List Nat) (hscan : scanOkB g scan = true) (order : List Nat) (ho : order.Perm (List.range g.n))
    (σ : Nat → List Nat → List Nat) (hσ : ∀ j S, (σ j S).Perm S) :
    ApproxCorrect g k order (approxSignedH g k scan order σ) :=
  approxSignedH_correct g hs hp k hk scan hscan order ho σ hσ

theorem c05_approx_fvs_trees_heap_end_to_end (g : Graph) (hs : g.simpleB = true) (hp : g.positiveB = true) (k : Nat)
    (hk : 1 ≤ k) (scan : List Nat) (hscan : scanOkB g scan = true) (order : List Nat) (ho : order.Perm (List.range g.n))
    (picks : List Nat) (hpicks : ∀ x, x < g.n → x ∈ picks) (sorter : List Cand → List Cand) (hsort : SortOK sorter) :
    ApproxCorrect g k order (approxFvsTreesH g k scan order picks sorter) :=
  approxFvsTreesH_correct g hs hp k hk scan hscan order ho picks hpicks sorter hsort

theorem c05_approx_iso_trees_heap_end_to_end (g : Graph) (hs : g.simpleB = true) (hp : g.positiveB = true) (k : Nat)
    (hk : 1 ≤ k) (scan : List Nat) (hscan : scanOkB g scan = true) (order : List Nat) (ho : order.Perm (List.range g.n))
    (picks : List Nat) (hpicks : ∀ x, x < g.n → x ∈ picks) (sorter : List Cand → List Cand) (hsort : SortOK sorter) :
    ApproxCorrect g k order (approxIsoTreesH g k scan order picks sorter) :=
  approxIsoTreesH_correct g hs hp k hk scan hscan order ho picks hpicks sorter hsort

/-- non-vacuity: the triangle 0-1-2 with weights 1,2,3  on the real heaps -/
example :
    let g : Graph := { n := 3, edges := [(0, 1, 1), (1, 2, 2), (2, 0, 3)] }
    g.simpleB = true ∧ g.positiveB = true ∧
    (mcbSignedH g [0, 1, 2] (fun _ S => S)).cycles = [[0, 1, 2]] ∧
    (mcbSignedH g [2, 0, 1] (fun _ S => S.reverse)).weight = 6 := by decide

end Parmcb.C02
