import Parmcb.Lemmas.Meta2
/-!
C08, remaining transformations (property theorems only; proofs in `Lemmas/Meta2.lean`).

* `c08_bridge`    — joining two components by a new edge changes neither the minimum cycle bases nor their weight;
* `c08_subdivide` — replacing an edge `(u,v,w)` by a path `u — x — v` through a new vertex with `w₁ + w₂ = w`
                    maps every minimum cycle basis to a minimum cycle basis of the same weight.
-/
namespace Parmcb.C08
open Parmcb Parmcb.C01 Parmcb.C02

/-- adding a bridge `(u, v, w)` between two components: a minimum cycle basis of `g` IS one of the new graph, same weight -/
theorem c08_bridge (g : Graph) (hs : g.simpleB = true) (u v : Nat) (hu : u < g.n) (hv : v < g.n) (huv : u ≠ v)
    (w : Int) (hd : Disconnected g u v) (L : List (List Nat)) (h : IsMCB g L) :
    IsMCB (addEdge g u v w) L ∧ totalWeight (addEdge g u v w) L = totalWeight g L :=
  mcb_bridge g hs u v hu hv huv w hd L h

/-- subdividing edge `e0` with `w₁ + w₂ = w(e0)`: the image of a minimum cycle basis (every cycle through `e0` also
takes the new edge) is a minimum cycle basis of the subdivided graph, same weight -/
theorem c08_subdivide (g : Graph) (hs : g.simpleB = true) (e0 : Nat) (he0 : e0 < g.m) (w₁ w₂ : Int)
    (hw : w₁ + w₂ = g.weight e0) (L : List (List Nat)) (h : IsMCB g L) :
    IsMCB (subdivide g e0 w₁ w₂) (L.map (subdivSet g e0)) ∧
    totalWeight (subdivide g e0 w₁ w₂) (L.map (subdivSet g e0)) = totalWeight g L :=
  mcb_subdivide g hs e0 he0 w₁ w₂ hw L h

/-! non-vacuity: in the concrete graph "triangle {0,1,2} plus isolated vertex 3", 2 and 3 are `Disconnected` -/
private def G0 : Graph := ⟨4, [(0,1,1),(1,2,1),(2,0,1)]⟩

private theorem stay (es : List Nat) : ∀ a b, (∀ e ∈ es, e < G0.m) → a < 3 → isWalk G0 es a b = true → b < 3 := by
  induction es with
  | nil => intro a b _ ha h; simp [isWalk] at h; omega
  | cons e r ih =>
    intro a b hm ha h
    have he : e < 3 := by have := hm e (by simp); simpa [G0, Graph.m] using this
    have hr : ∀ x ∈ r, x < G0.m := fun x hx => hm x (by simp [hx])
    simp only [isWalk, Bool.or_eq_true, Bool.and_eq_true] at h
    have hs : G0.src e < 3 ∧ G0.tgt e < 3 := by
      have : e = 0 ∨ e = 1 ∨ e = 2 := by omega
      rcases this with rfl | rfl | rfl <;> decide
    rcases h with ⟨_, h⟩ | ⟨_, h⟩
    · exact ih _ _ hr hs.2 h
    · exact ih _ _ hr hs.1 h

example : Disconnected G0 2 3 := by
  rintro ⟨es, hm, hw⟩
  have := stay es 2 3 hm (by omega) hw
  omega

example : (subdivide ⟨3, [(0,1,1),(1,2,1),(2,0,4)]⟩ 2 1 3).edges = [(0,1,1),(1,2,1),(2,3,1),(3,0,3)] := by decide

end Parmcb.C08
