import Parmcb.Props.C02
import Parmcb.Lemmas.RatAlpha
import Parmcb.Lemmas.Float
import Parmcb.Lemmas.FloatRet
import Parmcb.Lemmas.FloatCert
import Parmcb.Lemmas.FloatDijkstra
import Parmcb.Lemmas.FloatLex
import Parmcb.Lemmas.FloatSigned
/-!
# C09 — exact variants on inexact floating-point weights

Property theorems only.  The FULL statement of the property is

  for every simple graph with positive double weights in [1e-3, 1e3], the cycles that an exact variant emits
  when every weight addition is `Float.fadd` (and every comparison compares those rounded values) form a
  cycle basis, the returned value is `Float.fsum`-close to their true weight, and their true total weight is
  at most `(1 + 1e-9) ×` the weight of a minimum cycle basis.

It is NOT proved: the end-to-end literal models (Model/SignedAlgo, TreesAlgo, …) compute with exact `Int`
weights.  What is proved (hence `_partial`) is every link of the chain except one:

* `c09_rnd_*`, `c09_fsum_*`   the double addition model `Float.rnd` (tied to the hardware by the driver): exact on
                              53-bit values, relative error ≤ 2^-53, monotone, idempotent; an accumulated sum of up
                              to 2^20 non-negative terms is within a relative 2^-32 of the exact sum;
* `c09_select_partial`         choosing, among candidates whose computed weight is within `1 ± a/b` of the true
                              weight, one of minimum COMPUTED weight loses at most the factor `(b+a)/(b-a)`;
* `c09_valid_partial`, `c09_near_min_partial`, `c09_within_1e9_partial`
                              if every phase emits an odd element of the cycle space that is at most `p/q` times
                              as heavy as the lightest one (whatever rounding made the search choose), the output is a
                              cycle basis and weighs at most `p/q` times the minimum; with `p/q = (2^32+1)/(2^32-1)`
                              that is within a relative 1e-9.

MISSING LINK (validated per run in exact rational arithmetic by checks/c09.py, not a theorem): that the
double-arithmetic searches (bidirectional Dijkstra on the signed graph; sorted candidate lookup on trees that
were built by comparing accumulated doubles for equality) do return a per-phase `p/q`-approximation.  For the
isometric-tree variants this link is FALSE on the unchanged code (known finding `iso-trees-inexact-weights`).
-/
namespace Parmcb.C09
open Parmcb Parmcb.C01 Parmcb.C02 Parmcb.Float

theorem c09_rnd_exact (x : Int) (h : x.natAbs < 2 ^ 53) : rnd x = x := rnd_exact x h
theorem c09_rnd_err (x : Int) : 2 ^ 53 * (rnd x - x).natAbs ≤ x.natAbs := rnd_err x
theorem c09_rnd_mono {x y : Int} (h : x ≤ y) : rnd x ≤ rnd y := rnd_mono h
theorem c09_rnd_idem (x : Int) : rnd (rnd x) = rnd x := rnd_idem x
theorem c09_fadd_inflationary (a b : Int) (ha : rnd a = a) (hb : 0 ≤ b) : a ≤ fadd a b :=
  fadd_inflationary a b ha hb

theorem c09_fsum_bounds (ws : List Int) (hpos : ∀ w ∈ ws, 0 ≤ w) :
    (2 ^ 53 - 1) ^ ws.length * ws.sum ≤ 2 ^ (53 * ws.length) * fsum ws ∧
    2 ^ (53 * ws.length) * fsum ws ≤ (2 ^ 53 + 1) ^ ws.length * ws.sum := fsum_bounds ws hpos

theorem c09_fsum_rel (ws : List Int) (hpos : ∀ w ∈ ws, 0 ≤ w) (hlen : ws.length ≤ 2 ^ 20) :
    2 ^ 32 * (fsum ws - ws.sum).natAbs ≤ ws.sum.natAbs := fsum_rel ws hpos hlen

/-- selection by computed weight: `ŵ` within `1 ± a/b` of `w` on the candidates, `C` a candidate of minimum
computed weight ⇒ `C` is at most `(b+a)/(b-a)` times as heavy as any candidate -/
theorem c09_select_partial {κ : Type} (cand : κ → Prop) (w ŵ : κ → Int) (a b : Int) (hb : 0 ≤ b)
    (hlo : ∀ c, cand c → (b - a) * w c ≤ b * ŵ c) (hhi : ∀ c, cand c → b * ŵ c ≤ (b + a) * w c)
    (C : κ) (hC : cand C) (hmin : ∀ c, cand c → ŵ C ≤ ŵ c) :
    ∀ c, cand c → (b - a) * w C ≤ (b + a) * w c := by
  intro c hc
  have h1 := hlo C hC
  have h2 := hhi c hc
  have h3 : b * ŵ C ≤ b * ŵ c := Int.mul_le_mul_of_nonneg_left (hmin c hc) hb
  omega

/-- whatever rounding makes a phase choose, as long as it is an odd element of the cycle space the output is a
cycle basis (the combinatorial part of the algorithm never looks at weights) -/
theorem c09_valid_partial (g : Graph) (N : Nat) (p q : Int) (hq : 0 < q) (v : Variant)
    (cycles : List (List Nat)) (hd : ExactDomain g N) (hr : FullRunRat g N p q v cycles) :
    IsBasis g cycles :=
  c01_basis g N p v cycles hd (fullRunRat_fullRun g N p q hq v cycles hd hr)

/-- a per-phase factor `p/q` is a factor `p/q` on the total, against every minimum cycle basis -/
theorem c09_near_min_partial (g : Graph) (N : Nat) (p q : Int) (hp : 0 ≤ p) (hq : 0 < q) (v : Variant)
    (cycles : List (List Nat)) (hd : ExactDomain g N) (hr : FullRunRat g N p q v cycles)
    (L : List (List Nat)) (hL : IsMCB g L) :
    q * totalWeight g cycles ≤ p * totalWeight g L := by
  have := run_weight_rat g N p q hp hq v cycles hd hr L hL.1.1 hL.1.2.2
  simpa [totalWeight] using this

/-- with the per-phase factor that `c09_fsum_rel` + `c09_select_partial` give for sums of up to 2^20 terms
(`a/b = 2^-32`), the emitted weight is within a relative 1e-9 of the minimum -/
theorem c09_within_1e9_partial (g : Graph) (N : Nat) (v : Variant)
    (cycles : List (List Nat)) (hd : ExactDomain g N)
    (hr : FullRunRat g N (2 ^ 32 + 1) (2 ^ 32 - 1) v cycles)
    (L : List (List Nat)) (hL : IsMCB g L) :
    10 ^ 9 * (totalWeight g cycles - totalWeight g L) ≤ totalWeight g L := by
  have h := c09_near_min_partial g N (2 ^ 32 + 1) (2 ^ 32 - 1) (by decide) (by decide) v cycles hd hr L hL
  have hμ : 0 ≤ totalWeight g L := by
    unfold totalWeight
    apply Parmcb.Abstract.sum_nonneg_of
    intro a ha
    obtain ⟨D, hD, rfl⟩ := List.mem_map.1 ha
    exact wt_nonneg g hd.positive D (hL.1.1 D hD).2.1
  have e1 : ((2 : Int) ^ 32 + 1) = 4294967297 := by decide
  have e2 : ((2 : Int) ^ 32 - 1) = 4294967295 := by decide
  have e3 : ((10 : Int) ^ 9) = 1000000000 := by decide
  rw [e1, e2] at h
  rw [e3]
  omega

end Parmcb.C09

namespace Parmcb.C09
open Parmcb Parmcb.C01 Parmcb.C02 Parmcb.Float

/-- **Dijkstra in double arithmetic, certified**: labels of the real `SPTree` / `parmcb::dijkstra` on double
weights that pass `checkFloatSPT` (evaluated by the driver on every generated run) are lower bounds in double
arithmetic for every walk from the source … -/
theorem c09_float_spt_lower (es : List FEdge) (s : Nat) (dist : List (Option Int)) (paths : List (Option (List FEdge)))
    (h : checkFloatSPT es s dist paths = true) (P : List FEdge) (t : Nat) (hP : walkOk es s P t = true) :
    ∃ d, dget dist t = some d ∧ d ≤ fsum (walkW P) := floatSPT_lower es s dist paths h P t hP

/-- … and the tree path is a `(1 + 4.7e-10)`-approximate shortest walk in exact arithmetic -/
theorem c09_float_spt_approx (es : List FEdge) (s : Nat) (dist : List (Option Int)) (paths : List (Option (List FEdge)))
    (h : checkFloatSPT es s dist paths = true) (t : Nat) (ht : t < dist.length) (p : List FEdge)
    (hp : (paths[t]?).getD none = some p) (hreach : dget dist t ≠ none) (hplen : p.length ≤ 2 ^ 20)
    (P : List FEdge) (hP : walkOk es s P t = true) (hPlen : P.length ≤ 2 ^ 20) :
    walkOk es s p t = true ∧ (2 ^ 32 - 1) * (walkW p).sum ≤ (2 ^ 32 + 1) * (walkW P).sum :=
  floatSPT_approx es s dist paths h t ht p hp hreach hplen P hP hPlen

/-- **what the trace validation of a run on inexact weights establishes**: when the driver accepts a run of the
implementation on double weights (scaled exactly to integers; every phase: element of the cycle space, odd
against the model's support vector, within `(2^32+1)/(2^32-1)` of a lower bound certified by potentials), the
emitted cycles are a cycle basis whose exact weight is within a relative 1e-9 of the minimum -/
theorem c09_validated_run_partial (g : Graph) (N : Nat) (v : Variant) (cycles : List (List Nat))
    (cert : List (List Potential × Int)) (hd : ExactDomain g N) (hlen : cycles.length = N)
    (hcheck : checkRunPotRat g (2 ^ 32 + 1) (2 ^ 32 - 1) v 0 (unitSupports N) cycles cert = true)
    (L : List (List Nat)) (hL : IsMCB g L) :
    IsBasis g cycles ∧ 10 ^ 9 * (totalWeight g cycles - totalWeight g L) ≤ totalWeight g L := by
  have hsorted : ∀ S ∈ unitSupports N, StrictSorted S := by
    intro S hS
    simp only [unitSupports, List.mem_map] at hS
    obtain ⟨k, _, rfl⟩ := hS
    trivial
  have hr : FullRunRat g N (2 ^ 32 + 1) (2 ^ 32 - 1) v cycles :=
    ⟨hlen, checkRunPotRat_sound g hd.simple hd.positive _ _ (by decide) v 0 _ cycles hsorted cert hcheck⟩
  exact ⟨c09_valid_partial g N _ _ (by decide) v cycles hd hr, c09_within_1e9_partial g N v cycles hd hr L hL⟩

/-- non-vacuity: a labelled path 0 –1– 1 –2– 2 with its walks passes the check -/
example : checkFloatSPT [(0, 1, 1), (1, 2, 2)] 0 [some 0, some 1, some 3]
    [some [], some [(0, 1, 1)], some [(0, 1, 1), (1, 2, 2)]] = true := by decide

end Parmcb.C09

namespace Parmcb.C09
open Parmcb Parmcb.Float

/-- **`parmcb::dijkstra` in double arithmetic is (1 + 4.7e-10)-optimal, for every input** (closes the missing link for the
single-source searches: the per-dropped-edge paths of the approximate algorithms, and the distances of the shortest-path
trees): the literal model with `combine = Float.fadd` passes the certificate for every simple positive graph, every heap
behaviour and every source … -/
theorem c09_float_dijkstra_cert (g : Graph) (hs : g.simpleB = true) (hp : g.positiveB = true) (pick : Pick)
    (hpick : PickOK pick) (s : Nat) (hsn : s < g.n) :
    checkFloatSPT g.edges s (fdijkstraP g pick s).dist.toList (fpaths g (fdijkstraP g pick s)) = true :=
  fdijkstra_cert g hs hp pick hpick s hsn

/-- … hence its tree path to any reached vertex weighs, in exact arithmetic, at most `(2^32+1)/(2^32-1)` times any walk
from the source (graphs of up to 2^20 vertices) -/
theorem c09_float_dijkstra_approx (g : Graph) (hs : g.simpleB = true) (hp : g.positiveB = true) (pick : Pick)
    (hpick : PickOK pick) (s : Nat) (hsn : s < g.n) (hn : g.n + 1 ≤ 2 ^ 20) (t : Nat) (htn : t < g.n)
    (p : List FEdge) (hpth : ((fpaths g (fdijkstraP g pick s))[t]?).getD none = some p)
    (P : List FEdge) (hP : walkOk g.edges s P t = true) (hPlen : P.length ≤ 2 ^ 20) :
    walkOk g.edges s p t = true ∧ (2 ^ 32 - 1) * (walkW p).sum ≤ (2 ^ 32 + 1) * (walkW P).sum := by
  obtain ⟨hlab, hlen⟩ := FloatDijkL.fpaths_some g (fdijkstraP g pick s) t htn p hpth
  have hsz := FloatDijkL.dist_size hs hp pick hpick hsn
  exact c09_float_spt_approx g.edges s _ _ (fdijkstra_cert g hs hp pick hpick s hsn) t (by rw [hsz]; exact htn) p hpth
    (by rw [FloatDijkL.dget_toList]; exact hlab) (by omega) P hP hPlen

/-- non-vacuity: the kernel runs the double-arithmetic Dijkstra on a weighted triangle with a tail -/
example :
    let g : Graph := { n := 4, edges := [(0, 1, 3), (1, 2, 4), (2, 0, 9), (2, 3, 1)] }
    (fdijkstraP g pickHead 0).dist.toList = [some 0, some 3, some 7, some 8] := by decide

end Parmcb.C09

namespace Parmcb.C09
open Parmcb Parmcb.Float

/-- **the shortest-path trees (`SPTree`, `lex_dijkstra`) in double arithmetic**: the literal model with the distance component
of `LexDistanceCombine` computed by `Float.fadd` passes the certificate for every simple positive graph and every source —
including inputs on which a tiny weight is absorbed by rounding and an already settled vertex is relabelled through a path
of equal rounded length (the predecessor records stay acyclic because the edge count strictly decreases along them).  With
`c09_float_spt_approx`: every root path of every `SPTree` built on double weights is a `(2^32+1)/(2^32-1)`-approximate
shortest walk. -/
theorem c09_float_lex_dijkstra_cert (g : Graph) (hs : g.simpleB = true) (hp : g.positiveB = true) (s : Nat) (hsn : s < g.n) :
    checkFloatSPT g.edges s (flexDist g s (flexDijkstra g s)) (flexPaths g s (flexDijkstra g s)) = true :=
  flexDijkstra_cert g hs hp s hsn

/-- non-vacuity, with absorption: 2^60 + 1 rounds to 2^60, vertex 2 is reached with the label of vertex 1 -/
example :
    let g : Graph := { n := 3, edges := [(0, 1, 2 ^ 60), (1, 2, 1), (0, 2, 2 ^ 60 + 2 ^ 40)] }
    flexDist g 0 (flexDijkstra g 0) = [some 0, some (2 ^ 60), some (2 ^ 60)] := by decide

end Parmcb.C09

namespace Parmcb.C09
open Parmcb Parmcb.Float

/-- **the returned value on inexact weights**: `mcb_weight` is the double accumulation of the per-phase weights, and the weight a
phase reports is itself a double accumulation of the emitted cycle's edge weights (`cycle_weight += w(e)` along the
reconstructed walk, then `+= w(se)` in the hidden-edge branch: a left fold in some order — Model/FloatSigned.lean).  With at most
2^20 phases and at most 2^20 edges per cycle the returned double is within a relative 2^-30 (9.4e-10) of the exact total weight
of the emitted cycles. -/
theorem c09_ret_partial (phases : List (List Int)) (hpos : ∀ ws ∈ phases, ∀ w ∈ ws, 0 ≤ w)
    (hlen : ∀ ws ∈ phases, ws.length ≤ 2 ^ 20) (hN : phases.length ≤ 2 ^ 20) :
    2 ^ 30 * (fsum (phases.map fsum) - (phases.map List.sum).sum).natAbs ≤ ((phases.map List.sum).sum).natAbs :=
  fsum_fsum_rel phases hpos hlen hN

end Parmcb.C09

namespace Parmcb.C09
open Parmcb Parmcb.Float

/-- **what a search of `mcb_sva_signed` reports on inexact weights** (Model/FloatSigned.lean, the model that is replayed with
equal cycles and equal returned double on every C09 run of the signed variant): the weight `bidirectional_signed_dijkstra`
returns in double arithmetic is the double accumulation of the weights of the returned edges, each once, hence within a
relative 2^-32 of the exact weight of the returned edge set — the premise of `c09_select_partial` (`a/b = 2^-32`) for the
running best over the searches of a phase.  (That the searches together FIND a near-minimum odd cycle is the unproved link.) -/
theorem c09_signed_search_weight_partial (adjE : Array (List (Nat × Int × Nat))) (wOf : Nat → Int) (limit : Option Int)
    (s t : Nat) (w : Int) (Z : List Nat) (h : biSearchHF adjE wOf limit s t = some (w, Z))
    (hw : ∀ e, 0 ≤ wOf e) (hsz : 2 * adjE.size + 2 ≤ 2 ^ 20) :
    2 ^ 32 * (w - (Z.map wOf).sum).natAbs ≤ ((Z.map wOf).sum).natAbs :=
  biSearchHF_weight adjE wOf limit s t w Z h hw hsz

end Parmcb.C09
