import Parmcb.Model.Forest
import Parmcb.Lemmas.Forest
/-!
# C16 — ForestIndex is a bijection that numbers non-forest edges first

Property theorems only (helper lemmas: `Parmcb/Lemmas/Forest.lean`).  Quantified over every simple
graph and every iteration order `order` of the `std::unordered_set` of unreached vertices.
-/
namespace Parmcb.C16
open Parmcb

variable (g : Graph) (order : List Nat)

/-- the forest edges are edges of the graph, each emitted once -/
theorem c16_forest_edges (hs : g.simpleB = true) (ho : order.Perm (List.range g.n)) :
    (∀ e ∈ (spanningForest g order).1, e < g.m) ∧ (spanningForest g order).1.Nodup := by
  have h := forest_facts g order hs ho
  exact ⟨h.2.1, h.1⟩

/-- the remaining (on-forest) edges contain no cycle -/
theorem c16_forest_acyclic (hs : g.simpleB = true) (ho : order.Perm (List.range g.n)) :
    Acyclic g (spanningForest g order).1 := by
  exact (spanningForest_inv g order hs ho).acyc

/-- `n - c` forest edges: together with acyclicity, `c` is the number of connected components -/
theorem c16_forest_card (hs : g.simpleB = true) (ho : order.Perm (List.range g.n)) :
    (spanningForest g order).1.length + (spanningForest g order).2 = g.n := by
  exact (forest_facts g order hs ho).2.2.1

/-- the forest connects every component: every off-forest edge closes a cycle with forest edges -/
theorem c16_forest_spanning (hs : g.simpleB = true) (ho : order.Perm (List.range g.n)) :
    ∀ e, e < g.m → e ∉ (spanningForest g order).1 →
      ∃ Z, EvenSet g Z ∧ e ∈ Z ∧ ∀ f ∈ Z, f = e ∨ f ∈ (spanningForest g order).1 := by
  intro e he hne
  have h := spanningForest_inv g order hs ho
  exact Conn.closes g _ e he (fun f hf => (h.acc_ok f hf).1) hne
    (h.closed e he (Or.inl (by simp))).2.2

/-- edge ↦ index is a bijection onto `0 … m-1` -/
theorem c16_index_bijection (hs : g.simpleB = true) (ho : order.Perm (List.range g.n)) :
    (createIndex g order).index.Perm (List.range g.m) := by
  exact ci_index_perm g order hs ho

/-- the two lookups are inverse to each other -/
theorem c16_index_inverse (hs : g.simpleB = true) (ho : order.Perm (List.range g.n)) :
    (∀ e, e < g.m → (createIndex g order).reverse.getD ((createIndex g order).index.getD e 0) 0 = e) ∧
    (∀ i, i < g.m → (createIndex g order).index.getD ((createIndex g order).reverse.getD i 0) 0 = i) := by
  have h := perm_inverse _ g.m (ci_index_perm g order hs ho)
  rw [ci_reverse]
  exact ⟨fun e he => (h.1 e he).2, fun i hi => (h.2 i hi).2⟩

/-- exactly the edges with index below the dimension are off-forest -/
theorem c16_split (hs : g.simpleB = true) (ho : order.Perm (List.range g.n)) :
    ∀ e, e < g.m →
      ((createIndex g order).isOnForest e = true ↔ e ∈ (spanningForest g order).1) ∧
      ((createIndex g order).index.getD e 0 < (createIndex g order).dim ↔ e ∉ (spanningForest g order).1) := by
  intro e he
  obtain ⟨a, b⟩ := ci_split g order hs ho e he
  unfold ForestIdx.isOnForest
  rw [decide_eq_true_eq]
  constructor
  · exact ⟨fun h => Classical.byContradiction fun hn => by have := b hn; omega, a⟩
  · exact ⟨fun h => Classical.byContradiction fun hn => by have := a (Classical.not_not.1 hn); omega, b⟩

/-- the reported dimension is `m - n + c` (no natural-number underflow: it is `≤ m`) -/
theorem c16_dim (hs : g.simpleB = true) (ho : order.Perm (List.range g.n)) :
    (createIndex g order).k = (spanningForest g order).2 ∧
    ((createIndex g order).dim : Int) = (g.m : Int) - g.n + (spanningForest g order).2 ∧
    (createIndex g order).dim ≤ g.m := by
  have h := forest_facts g order hs ho
  have hd := ci_dim g order hs ho
  refine ⟨rfl, ?_, ?_⟩ <;> omega

/-- in ForestIndex coordinates the graph is in the exact domain of the de Pina theory: the ids
`≥ dim` are an acyclic spanning forest -/
theorem c16_exact_domain (hs : g.simpleB = true) (hp : g.positiveB = true)
    (ho : order.Perm (List.range g.n)) :
    ExactDomain (reindex g (createIndex g order)) (createIndex g order).dim := by
  exact exact_domain g order hs hp ho

end Parmcb.C16
