import Parmcb.Model.Spanner
import Parmcb.Lemmas.Spanner
/-!
# C15 — the intermediate spanner is a weighted (2k-1)-spanner of girth > 2k

Property theorems only (helper lemmas: `Parmcb/Lemmas/Spanner.lean`).  Quantified over every simple
graph, every `k ≥ 1` and every order `scan` the unstable sort may leave among equal weights.
-/
namespace Parmcb.C15
open Parmcb

/-- the hop-bounded search decides "joined by a walk of at most `b` retained edges" -/
theorem c15_bfs_iff (g : Graph) (hs : g.simpleB = true) (R : List Nat) (hR : ∀ e ∈ R, e < g.m)
    (s t b : Nat) (hsn : s < g.n) (htn : t < g.n) :
    isBfsReachable g R s t b = true ↔
      ∃ es : List Nat, es.length ≤ b ∧ (∀ e ∈ es, e ∈ R) ∧ isWalk g es s t = true := by
  have _ := htn
  exact Spanner.bfs_iff g hs R hR s t b hsn

/-- retained and dropped edges partition the edge set (in scan order) -/
theorem c15_partition (g : Graph) (k : Nat) (scan : List Nat) :
    ((constructSpanner g k scan).1 ++ (constructSpanner g k scan).2).Perm scan ∧
    (constructSpanner g k scan).1.Sublist scan ∧ (constructSpanner g k scan).2.Sublist scan := by
  exact Spanner.spanner_partition g k scan

/-- the spanner is a subgraph of the input carrying the input's weights: its i-th edge is the retained
edge `R[i]` with the same endpoints and the same weight -/
theorem c15_weights (g : Graph) (R : List Nat) (i : Nat) (hi : i < R.length) :
    (spannerGraph g R).src i = g.src (R.getD i 0) ∧ (spannerGraph g R).tgt i = g.tgt (R.getD i 0) ∧
    (spannerGraph g R).weight i = g.weight (R.getD i 0) := by
  simp [spannerGraph, Graph.src, Graph.tgt, Graph.weight, List.getD_eq_getElem?_getD, List.getElem?_map,
    List.getElem?_eq_getElem hi]

/-- **stretch**: every dropped edge `(u,v)` has a `u–v` walk of at most `2k-1` retained edges none of
which is heavier than `(u,v)` -/
theorem c15_stretch (g : Graph) (hs : g.simpleB = true) (k : Nat) (hk : 1 ≤ k) (scan : List Nat)
    (hscan : scanOkB g scan = true) :
    ∀ e ∈ (constructSpanner g k scan).2,
      ∃ es : List Nat, es.length ≤ 2 * k - 1 ∧ isWalk g es (g.src e) (g.tgt e) = true ∧
        ∀ f ∈ es, f ∈ (constructSpanner g k scan).1 ∧ g.weight f ≤ g.weight e := by
  exact Spanner.spanner_stretch g hs k hk scan hscan

/-- **girth**: the retained subgraph has no cycle of `2k` or fewer edges -/
theorem c15_girth (g : Graph) (hs : g.simpleB = true) (k : Nat) (hk : 1 ≤ k) (scan : List Nat)
    (hscan : scanOkB g scan = true) :
    ∀ C, Circuit g C → (∀ e ∈ C, e ∈ (constructSpanner g k scan).1) → 2 * k < C.length := by
  exact Spanner.spanner_girth g hs k hk scan hscan

/-- with `k = 1` every edge of a simple graph is retained (C06: the approximation is then exact) -/
theorem c15_k1 (g : Graph) (hs : g.simpleB = true) (scan : List Nat) (hscan : scanOkB g scan = true) :
    constructSpanner g 1 scan = (scan, []) := by
  exact Spanner.spanner_k1 g hs scan hscan

end Parmcb.C15
