import Parmcb.Lemmas.MpiAlgo
/-!
# C04 — the MPI entry points, end to end

Property theorems only (proofs: `Lemmas/MpiAlgo.lean`).  `Model/MpiAlgo.lean` is a literal model of what rank 0 of
`mcb_sva_signed_mpi`, `mcb_sva_fvs_trees_mpi`, `mcb_sva_fvs_trees_tbb_mpi`, `mcb_sva_iso_trees_mpi` and
`mcb_sva_iso_trees_tbb_mpi` computes and emits: broadcast of the support vector, ceil-stride slices of the signed edges
(enumerated in forest-index order on every rank) / the vertices / the scattered candidate chunks, per-rank rebuilding of
trees and candidates, per-rank `std::sort` and lookup (sequential or `tbb::parallel_reduce`), `boost::mpi::reduce` with
`SerializableMinOddCycleMinOp` along an arbitrary tree, support update and emission on rank 0.  Every search is the literal
bidirectional search / candidate builder.  Quantified: the number of ranks `P ≥ 1` (dividing the work or not, exceeding it
or not), every rank's schedules, every phase's reduction tree, every rank's sort order, the heaps, rank 0's `push_back`
order.  The memory layout of a rank does not occur in the model: since the repair 749574e nothing depends on it.

Conclusion (`McbCorrect`): rank 0 emits a minimum cycle basis of the caller's graph, returns its weight, `m - n + c` cycles.
(Termination of all ranks — every rank enters the same collectives — is `C04.c04_collectives_aligned`; that other ranks emit
nothing is immediate from the `if (world.rank() == 0)` guards and is checked per run.)
-/
namespace Parmcb.C04
open Parmcb

theorem c04_signed_mpi_end_to_end (g : Graph) (hs : g.simpleB = true) (hp : g.positiveB = true)
    (order : List Nat) (ho : order.Perm (List.range g.n)) (pick : Nat → PickFam) (hpick : ∀ k i L, PickOK (pick k i L))
    (P : Nat) (hP : 1 ≤ P) (perm : List Nat) (hperm : perm.Perm (List.range (createIndex g order).dim))
    (scheds : Nat → List Nat → Nat → Sched)
    (hcov : ∀ k S, SlicesCovered (if S.length < g.n then S.length else g.n) P (scheds k S))
    (trees : Nat → List Nat → RTree) (ht : ∀ k S, TreeOK P (trees k S)) :
    McbCorrect g order (mcbSignedMpi g order pick perm scheds trees) :=
  mcbSignedMpi_correct g hs hp order ho pick hpick P hP perm hperm scheds hcov trees ht

/-- `mcb_sva_fvs_trees_mpi` (`tbb = false`) and `mcb_sva_fvs_trees_tbb_mpi` (`tbb = true`) -/
theorem c04_fvs_trees_mpi_end_to_end (g : Graph) (hs : g.simpleB = true) (hp : g.positiveB = true)
    (order : List Nat) (ho : order.Perm (List.range g.n)) (picks : List Nat) (hpicks : ∀ x, x < g.n → x ∈ picks)
    (P : Nat) (hP : 1 ≤ P) (tbb : Bool) (sorters : Nat → List Cand → List Cand) (hsort : ∀ r, SortOK (sorters r))
    (scheds : Nat → Nat → Sched)
    (hcov : LocalCovered (reindex g (createIndex g order))
      (fvsCands (reindex g (createIndex g order)) (greedyFvs (reindex g (createIndex g order)) picks)) P scheds)
    (rtrees : Nat → RTree) (ht : ∀ k, TreeOK P (rtrees k)) :
    McbCorrect g order (mcbFvsTreesMpi g order picks P tbb sorters scheds rtrees) :=
  mcbFvsTreesMpi_correct g hs hp order ho picks hpicks P hP tbb sorters hsort scheds hcov rtrees ht

/-- `mcb_sva_iso_trees_mpi` and `mcb_sva_iso_trees_tbb_mpi` -/
theorem c04_iso_trees_mpi_end_to_end (g : Graph) (hs : g.simpleB = true) (hp : g.positiveB = true)
    (order : List Nat) (ho : order.Perm (List.range g.n))
    (P : Nat) (hP : 1 ≤ P) (tbb : Bool) (sorters : Nat → List Cand → List Cand) (hsort : ∀ r, SortOK (sorters r))
    (scheds : Nat → Nat → Sched)
    (hcov : LocalCovered (reindex g (createIndex g order)) (isoCands (reindex g (createIndex g order))) P scheds)
    (rtrees : Nat → RTree) (ht : ∀ k, TreeOK P (rtrees k)) :
    McbCorrect g order (mcbIsoTreesMpi g order P tbb sorters scheds rtrees) :=
  mcbIsoTreesMpi_correct g hs hp order ho P hP tbb sorters hsort scheds hcov rtrees ht

/-- non-vacuity: the triangle on 3 ranks (more ranks than candidates, an empty chunk): rank 0 emits the one cycle -/
example :
    let g : Graph := { n := 3, edges := [(0, 1, 1), (1, 2, 2), (2, 0, 3)] }
    (mcbIsoTreesMpi g [0, 1, 2] 3 false (fun _ => sortByWeight) (fun _ _ => .leaf 0 0)
      (fun _ => .node (.leaf 2) (.node (.leaf 0) (.leaf 1)))).cycles = [[0, 1, 2]] := by decide

end Parmcb.C04
