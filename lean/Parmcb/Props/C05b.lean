import Parmcb.Props.C05
import Parmcb.Lemmas.Steinitz
/-!
# C05, count — the approximate algorithms emit exactly m - n + c cycles

Every cycle basis of a graph in the exact domain has exactly `N` elements, where `N = m - n + c` is the
ForestIndex dimension (C16): a run of the exact model is a basis of size `N` (C01/C08: it exists) and two
bases have the same size (Steinitz).  Hence the family assembled by the approximate algorithms (`c05_basis`)
has exactly `N` members.
-/
namespace Parmcb.C05
open Parmcb Parmcb.C01

/-- every basis of the cycle space has `N` elements -/
theorem c05_every_basis_has_N (g : Graph) (N : Nat) (hd : ExactDomain g N) (L : List (List Nat))
    (hL : IsBasis g L) : L.length = N := by
  obtain ⟨cycles, hlen, hrun⟩ := MetaL.run_exists g N hd N (Nat.le_refl N)
  exact mcb_card g N .trees cycles hd ⟨hlen, hrun⟩ L hL

/-- **count**: the emitted family of the approximate algorithms has exactly `N = m - n + c` members -/
theorem c05_count (g : Graph) (N : Nat) (hd : ExactDomain g N) (R D : List Nat) (Bs paths : List (List Nat))
    (h : Ingredients g R D Bs paths) : (emitted Bs paths D).length = N :=
  c05_every_basis_has_N g N hd _ (c05_basis g hd.simple R D Bs paths h)

end Parmcb.C05
