import Parmcb.Lemmas.BiDijkstra
/-!
# C02 — the odd-cycle searches: `bidirectional_signed_dijkstra` computes the signed-graph distance

Property theorems only (proofs: `Lemmas/BiDijkstra.lean`).  `Model/BiDijkstra.lean` is a literal model of the search up to
the value it computes (two frontiers, alternating scans, running best meeting point, stop test `min_f + min_b ≥ best`,
the weight limit with its two pruning sites and its early exit); the two d-ary heaps are replaced by an arbitrary choice
among the queued nodes of smallest label.  `c02_search_value`: for every such choice, on the signed graph of a simple
graph with positive weights (hidden edges removed), the search returns the distance between the two signed nodes if that
is below the limit and "not found" otherwise.  Together with `C02c` (what the two search loops make of exact searches)
and `C02.c02_min` this closes the chain from the literal searches to the minimum cycle basis; the reconstruction of the
edge set and the "duplicate edge, discard" test are outside this model and are checked per run (a search that returns
nothing although the distance is below the limit must be justified by a shortest walk that repeats an edge).
-/
namespace Parmcb.C02
open Parmcb

theorem c02_search_value (g : Graph) (hs : g.simpleB = true) (hp : g.positiveB = true) (S hidden : List Nat)
    (pick : Pick) (hpick : PickOK pick) (limit : Option Int) (a b : Nat)
    (ha : a < 2 * g.n) (hb : b < 2 * g.n) (hab : a ≠ b) :
    (∀ D, IsDist (sgAdjHidden g S hidden) a b D → (∀ l, limit = some l → D < l) →
        biDijkstra (sgAdjHidden g S hidden) pick limit a b = some D) ∧
    (∀ w, biDijkstra (sgAdjHidden g S hidden) pick limit a b = some w →
        IsDist (sgAdjHidden g S hidden) a b w ∧ ∀ l, limit = some l → w < l) := by
  obtain ⟨hok, hsz⟩ := sgAdjHidden_ok g hs hp S hidden
  exact biDijkstra_correct _ hok pick hpick limit a b (hsz ▸ ha) (hsz ▸ hb) hab

/-- the two concrete heaps the driver executes are admissible -/
theorem c02_picks_ok : PickOK pickHead ∧ PickOK pickLast := by
  constructor
  · intro _ l hl
    cases l with
    | nil => exact absurd rfl hl
    | cons x r => simp [pickHead]
  · intro _ l hl
    unfold pickLast
    rw [List.getLastD_eq_getLast?]
    cases h : l.getLast? with
    | none => exact absurd (List.getLast?_eq_none_iff.1 h) hl
    | some x => simpa using List.mem_of_getLast? h

end Parmcb.C02
