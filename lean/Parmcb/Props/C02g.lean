import Parmcb.Lemmas.SignedAlgo
/-!
# C01 / C02 / C03 — `mcb_sva_signed` and `mcb_sva_signed_tbb`, end to end

Property theorems only (proofs: `Lemmas/BiSearch.lean`, `Lemmas/SignedAlgo.lean`).  `Model/SignedAlgo.lean` with
`Model/BiSearch.lean` is a literal model of the WHOLE signed-graph algorithm: ForestIndex, the sparsest-support swap
(with its early `break`; full scan in the TBB variant), the two search strategies of a phase (one bidirectional search
`v+ → v-` per vertex when `|S| ≥ n`; the hidden-edge heuristic over the `std::set` of signed edges otherwise, with
`hidden_edges.erase(begin())` after every search; the single-edge shortcut of the TBB variant), each search being the
literal `bidirectional_signed_dijkstra` — two frontiers with labels and predecessor records, alternating scans, running
best meeting point, stop test, weight limit with its two pruning sites, reconstruction of the edge set from the meeting
node and the "duplicate edge, discard cycle" test — then the support update and the emission.  No hypothesis about what a
search finds is left.  Open choices, all universally quantified:

* `order` : iteration order of `spanning_forest`'s `unordered_set`,
* `pick`  : behaviour of the two d-ary heaps: `pick k i L step cands` = the node handed out in phase `k`, search `i`
            (vertex / signed edge) with weight limit `L`, at step `step`, among the queued nodes `cands` of minimum label
            (any such rule, `PickOK`; a real heap's history-dependent tie-breaking is an instance),
* `σ`     : per phase, the iteration order of the `std::set<edge_descriptor>` of signed edges (address order of the edge
            nodes — the memory layout),
* `perm`, `scheds` (TBB): the order in which the concurrent `push_back`s filled the support vector, and the execution of
            every phase's `parallel_reduce`.

Conclusion (`McbCorrect`): the emitted cycles, in the caller's edge numbering, are a minimum cycle basis of the caller's
graph; the returned value is their total weight; their number is `m - n + c`.  In particular every phase finds a cycle
(`assert(std::get<2>(best))` holds), and a search that discards a walk with a repeated edge never loses the optimum.
-/
namespace Parmcb.C02
open Parmcb

/-- `mcb_sva_signed` -/
theorem c02_signed_end_to_end (g : Graph) (hs : g.simpleB = true) (hp : g.positiveB = true)
    (order : List Nat) (ho : order.Perm (List.range g.n)) (pick : Nat → PickFam) (hpick : ∀ k i L, PickOK (pick k i L))
    (σ : Nat → List Nat → List Nat) (hσ : ∀ k S, (σ k S).Perm S) :
    McbCorrect g order (mcbSigned g order pick σ) :=
  mcbSigned_correct g hs hp order ho pick hpick σ hσ

/-- `mcb_sva_signed_tbb`, for every execution -/
theorem c03_signed_tbb_end_to_end (g : Graph) (hs : g.simpleB = true) (hp : g.positiveB = true)
    (order : List Nat) (ho : order.Perm (List.range g.n)) (pick : Nat → PickFam) (hpick : ∀ k i L, PickOK (pick k i L))
    (σ : Nat → List Nat → List Nat) (hσ : ∀ k S, (σ k S).Perm S)
    (perm : List Nat) (hperm : perm.Perm (List.range (createIndex g order).dim))
    (scheds : Nat → List Nat → Sched)
    (hcov : ∀ k S, (scheds k S).Covers 0 (if g.n ≤ S.length then g.n else S.length)) :
    McbCorrect g order (mcbSignedTbb g order pick σ perm scheds) :=
  mcbSignedTbb_correct g hs hp order ho pick hpick σ hσ perm hperm scheds hcov

open BiDijL in
/-- one call of the literal `bidirectional_signed_dijkstra` INCLUDING the path reconstruction: what is returned is the
edge set of a walk without repeated edge whose weight is the distance, below the limit … -/
theorem c02_search_sound (adjE : Array (List (Nat × Int × Nat))) (wOf : Nat → Int) (h : AdjEOK adjE wOf)
    (pick : Pick) (hp : PickOK pick) (limit : Option Int) (s t : Nat)
    (hs : s < adjE.size) (ht : t < adjE.size) (hst : s ≠ t) (w : Int) (Z : List Nat)
    (hres : biSearch adjE pick wOf limit s t = some (w, Z)) :
    ∃ es, EWalk adjE s t es ∧ es.Nodup ∧ Z = setOf es ∧ w = (es.map wOf).sum ∧
      IsDist (projAdj adjE) s t w ∧ Below limit w :=
  biSearch_sound adjE wOf h pick hp limit s t hs ht hst w Z hres

open BiDijL in
/-- … and when the distance is below the limit a result of that weight is returned, unless the reconstructed shortest
walk repeats an edge -/
theorem c02_search_complete (adjE : Array (List (Nat × Int × Nat))) (wOf : Nat → Int) (h : AdjEOK adjE wOf)
    (pick : Pick) (hp : PickOK pick) (limit : Option Int) (s t : Nat)
    (hs : s < adjE.size) (ht : t < adjE.size) (hst : s ≠ t) (D : Int)
    (hD : IsDist (projAdj adjE) s t D) (hl : Below limit D) :
    (∃ Z, biSearch adjE pick wOf limit s t = some (D, Z)) ∨
    (biSearch adjE pick wOf limit s t = none ∧
      ∃ es, EWalk adjE s t es ∧ (es.map wOf).sum = D ∧ ¬ es.Nodup) :=
  biSearch_complete adjE wOf h pick hp limit s t hs ht hst D hD hl

/-- one phase, both branches -/
theorem c02_signed_phase (g : Graph) (ord : List Nat) (hs : g.simpleB = true) (hp : g.positiveB = true)
    (pk : PickFam) (hpk : ∀ i L, PickOK (pk i L)) (S : List Nat) (hS : StrictSorted S) (hSm : ∀ e ∈ S, e < g.m)
    (σ : List Nat) (hσ : σ.Perm S) (hex : ∃ Z, EvenSet g Z ∧ dotPar Z S = true) :
    SignedAlgoL.PhaseFound g S (signedPhaseSearch g ord pk σ S) :=
  SignedAlgoL.signedPhaseSearch_ok g ord hs hp pk hpk S hS hSm σ hσ hex

/-- non-vacuity: the triangle 0-1-2 with weights 1,2,3 under the two concrete heaps of the driver -/
example :
    let g : Graph := { n := 3, edges := [(0, 1, 1), (1, 2, 2), (2, 0, 3)] }
    g.simpleB = true ∧ g.positiveB = true ∧
    (mcbSigned g [0, 1, 2] (fun _ _ _ => pickHead) (fun _ S => S)).cycles = [[0, 1, 2]] ∧
    (mcbSigned g [2, 0, 1] (fun _ _ _ => pickLast) (fun _ S => S.reverse)).weight = 6 := by decide

end Parmcb.C02
