import Parmcb.Lemmas.Steinitz
/-!
# C02, second sentence — the sorted list of emitted cycle weights coincides with that of every minimum cycle basis

(kept in a separate file because it needs the dimension theory of Lemmas/Steinitz.lean, which itself builds on
Props/C02.lean)
-/
namespace Parmcb.C02
open Parmcb Parmcb.C01

/-- two cycle bases of the same graph have the same number of elements -/
theorem c02_basis_card (g : Graph) (L L' : List (List Nat)) (h : IsBasis g L) (h' : IsBasis g L') :
    L.length = L'.length := basis_card_eq g L L' h h'

/-- **sorted weights**: the weights of the emitted cycles are a permutation of the weights of ANY minimum
cycle basis of the graph — so the sorted lists coincide -/
theorem c02_sorted_weights (g : Graph) (N : Nat) (v : Variant) (cycles : List (List Nat)) (hd : ExactDomain g N)
    (hr : FullRun g N 1 v cycles) (L' : List (List Nat)) (h' : IsMCB g L') :
    (cycles.map (wt g)).Perm (L'.map (wt g)) := sorted_weights g N v cycles hd hr L' h'

end Parmcb.C02
