import Parmcb.Model.Fvs
import Parmcb.Lemmas.Fvs
/-!
# C13 — greedy_fvs returns a feedback vertex set

Property theorems only (helper lemmas: `Parmcb/Lemmas/Fvs.lean`).  Quantified over every simple graph
and every pop sequence `picks` of the heap that eventually hands out every vertex.
-/
namespace Parmcb.C13
open Parmcb Parmcb.FvsL

/-- the edges of `g` that survive the deletion of the vertex set `X` -/
def survivingEdges (g : Graph) (X : List Nat) : List Nat :=
  (List.range g.m).filter fun e => !(X.contains (g.src e)) && !(X.contains (g.tgt e))

/-- only vertices of the graph, each at most once -/
theorem c13_vertices (g : Graph) (hs : g.simpleB = true) (picks : List Nat) :
    (∀ v ∈ greedyFvs g picks, v < g.n) ∧ (greedyFvs g picks).Nodup :=
  vertices_aux g hs picks

/-- **feedback vertex set**: deleting the emitted vertices leaves no cycle, whatever order the heap
uses, provided it eventually hands out every vertex -/
theorem c13_fvs (g : Graph) (hs : g.simpleB = true) (picks : List Nat)
    (hp : ∀ v, v < g.n → v ∈ picks) :
    Acyclic g (survivingEdges g (greedyFvs g picks)) :=
  fvs_aux g hs picks hp

/-- for a forest nothing is emitted -/
theorem c13_forest (g : Graph) (hs : g.simpleB = true) (picks : List Nat)
    (hf : Acyclic g (List.range g.m)) : greedyFvs g picks = [] :=
  forest_aux g hs picks hf

/-- bookkeeping invariant behind both: `degree[w]` of an existing vertex is the number of its
existing neighbours (so `degree[w]--` never underflows) — stated for the state before the main loop
and preserved by every pick -/
def DegreeAccurate (g : Graph) (s : FvsState) : Prop :=
  ∀ w, w < g.n → s.isAlive w = true →
    s.deg w = ((g.adj w).filter fun p => s.isAlive p.2).length

theorem c13_degree_accurate (g : Graph) (hs : g.simpleB = true) (picks : List Nat) :
    DegreeAccurate g (picks.foldl (fvsPick g (fvsFuel g)) (fvsAfterInit g)) :=
  degree_accurate_aux g hs picks

end Parmcb.C13
