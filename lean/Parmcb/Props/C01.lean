import Parmcb.Lemmas.DePina
import Parmcb.Props.C16
/-!
# C01 — exact algorithms emit a genuine basis of the cycle space

Property theorems only.  `FullRun g N α v cycles` (Lemmas/DePina.lean) is the relational model of a run
of `mcb_sva_signed` (`v = .signed`), `mcb_sva_signed_tbb` (`.signedTbb`), the tree variants (`.trees`)
and the MPI variants (`.mpi`) in ForestIndex coordinates: the support bookkeeping is literal, the
cycle emitted in a phase is ANY set meeting the phase contract `PhaseOK` (a minimum-weight element of
the cycle space with odd intersection with the phase's support vector).  All statements hold for
every simple graph with positive weights, every variant, every forest (`order`) and every choice of
the emitted cycles.  That the C++ search procedures meet `PhaseOK` is validated per run by the
correspondence check (trace validation), not proved.
-/
namespace Parmcb.C01
open Parmcb

/-- a family of cycle-space elements is a basis: independent over GF(2) and spanning -/
def IsBasis (g : Graph) (L : List (List Nat)) : Prop :=
  (∀ C ∈ L, EvenSet g C) ∧
  (∀ mask : List Bool, mask.length = L.length → true ∈ mask → xorSel L mask ≠ []) ∧
  (∀ Z, EvenSet g Z → ∃ mask : List Bool, mask.length = L.length ∧ xorSel L mask = Z)

/-- exactly `N` cycles, where `N = m - n + c` by `C16.c16_dim` (nothing for a forest: `N = 0`) -/
theorem c01_count (g : Graph) (N : Nat) (α : Int) (v : Variant) (cycles : List (List Nat))
    (hr : FullRun g N α v cycles) : cycles.length = N := hr.1

/-- each emitted cycle is non-empty, lists pairwise distinct edges of the graph and forms ONE simple
cycle (an inclusion-minimal non-empty element of the cycle space) -/
theorem c01_cycles (g : Graph) (N : Nat) (v : Variant) (cycles : List (List Nat))
    (hd : ExactDomain g N) (hr : FullRun g N 1 v cycles) :
    ∀ C ∈ cycles, C ≠ [] ∧ C.Nodup ∧ (∀ e ∈ C, e < g.m) ∧ Circuit g C := by
  intro C hC
  have hc := run_circuits g N v cycles hd hr C hC
  exact ⟨hc.2.1, hc.1.1.nodup, hc.1.2.1, hc⟩

/-- the emitted cycles are linearly independent over GF(2) -/
theorem c01_independent (g : Graph) (N : Nat) (α : Int) (v : Variant) (cycles : List (List Nat))
    (hd : ExactDomain g N) (hr : FullRun g N α v cycles) :
    ∀ mask : List Bool, mask.length = N → true ∈ mask → xorSel cycles mask ≠ [] :=
  run_independent g N α v cycles hd hr

/-- together they span the whole cycle space -/
theorem c01_spans (g : Graph) (N : Nat) (α : Int) (v : Variant) (cycles : List (List Nat))
    (hd : ExactDomain g N) (hr : FullRun g N α v cycles) :
    ∀ Z, EvenSet g Z → ∃ mask : List Bool, mask.length = N ∧ xorSel cycles mask = Z :=
  run_spans g N α v cycles hd hr

private theorem run_even (g : Graph) (α : Int) (v : Variant) :
    ∀ (k : Nat) (sup cycles : List (List Nat)), Run g α v k sup cycles → ∀ C ∈ cycles, EvenSet g C := by
  intro k sup cycles
  induction cycles generalizing k sup with
  | nil => intro _ C hC; cases hC
  | cons c cs ih =>
    intro h C hC
    rcases List.mem_cons.1 hC with e | e
    · subst e; exact h.1.1
    · exact ih (k + 1) _ h.2 C e

theorem c01_basis (g : Graph) (N : Nat) (α : Int) (v : Variant) (cycles : List (List Nat))
    (hd : ExactDomain g N) (hr : FullRun g N α v cycles) : IsBasis g cycles := by
  refine ⟨run_even g α v 0 _ cycles hr.2, ?_, ?_⟩
  · intro mask hm; exact c01_independent g N α v cycles hd hr mask (by rw [hm, hr.1])
  · intro Z hZ
    obtain ⟨mask, hm, he⟩ := c01_spans g N α v cycles hd hr Z hZ
    exact ⟨mask, by rw [hm, hr.1], he⟩

/-- end to end in the caller's terms: for every simple positive graph and every iteration order of the
forest construction, a run in the coordinates of ITS OWN ForestIndex emits `m - n + c` simple cycles
forming a basis. -/
theorem c01_of_graph (g : Graph) (order : List Nat) (hs : g.simpleB = true) (hp : g.positiveB = true)
    (ho : order.Perm (List.range g.n)) (v : Variant) (cycles : List (List Nat))
    (hr : FullRun (reindex g (createIndex g order)) (createIndex g order).dim 1 v cycles) :
    ((cycles.length : Int) = (g.m : Int) - g.n + (spanningForest g order).2) ∧
    IsBasis (reindex g (createIndex g order)) cycles ∧
    ∀ C ∈ cycles, Circuit (reindex g (createIndex g order)) C := by
  have hd := C16.c16_exact_domain g order hs hp ho
  refine ⟨?_, c01_basis _ _ 1 v cycles hd hr, fun C hC => (c01_cycles _ _ v cycles hd hr C hC).2.2.2⟩
  rw [hr.1]; exact (C16.c16_dim g order hs ho).2.1

end Parmcb.C01
