import Parmcb.Lemmas.TreesAlgo
/-!
# C01 / C02 / C03 — the tree variants, end to end

Property theorems only (proofs: `Lemmas/TreesAlgo.lean`).  `Model/TreesAlgo.lean` is a literal model of the WHOLE of
`mcb_sva_fvs_trees`, `mcb_sva_iso_trees` and their `_tbb` counterparts: ForestIndex, `greedy_fvs`, the lexicographic
shortest-path trees, the candidate collections, `std::sort` by weight, `CandidateCycleBuilder` (with its weight limit and
its duplicate-edge test), `ShortestOddCycleLookup` (sequential: first candidate that builds; TBB: `parallel_reduce` with
the running minimum as limit), the support update and the emission.  No hypothesis about what a phase finds is left:
the only open choices are the ones the language and the libraries leave open, and every theorem quantifies over them —

* `order`  : iteration order of `spanning_forest`'s `unordered_set`,
* `picks`  : pop order of the feedback-vertex-set heap (any order that eventually offers every vertex),
* `sorter` : what `std::sort` does with candidates of equal weight (any weight-sorted permutation, `SortOK`),
* `scheds` : the execution of every phase's `parallel_reduce` (any partition, accumulation runs, join tree).

Conclusion (`McbCorrect`): the emitted cycles, in the caller's edge numbering, are a minimum cycle basis of the caller's
graph; the returned value is their total weight; their number is `m - n + c`.  In particular no lookup ever fails, so
the "value-initialised tuple" (empty cycle, weight 0) that the C++ would emit in that case never occurs.
-/
namespace Parmcb.C02
open Parmcb

/-- `mcb_sva_fvs_trees` -/
theorem c02_fvs_trees_end_to_end (g : Graph) (hs : g.simpleB = true) (hp : g.positiveB = true)
    (order : List Nat) (ho : order.Perm (List.range g.n)) (picks : List Nat) (hpicks : ∀ x, x < g.n → x ∈ picks)
    (sorter : List Cand → List Cand) (hsort : SortOK sorter) :
    McbCorrect g order (mcbFvsTrees g order picks sorter) :=
  mcbFvsTrees_correct g hs hp order ho picks hpicks sorter hsort

/-- `mcb_sva_iso_trees` -/
theorem c02_iso_trees_end_to_end (g : Graph) (hs : g.simpleB = true) (hp : g.positiveB = true)
    (order : List Nat) (ho : order.Perm (List.range g.n))
    (sorter : List Cand → List Cand) (hsort : SortOK sorter) :
    McbCorrect g order (mcbIsoTrees g order sorter) :=
  mcbIsoTrees_correct g hs hp order ho sorter hsort

/-- `mcb_sva_fvs_trees_tbb`, for every execution of every `parallel_reduce` -/
theorem c03_fvs_trees_tbb_end_to_end (g : Graph) (hs : g.simpleB = true) (hp : g.positiveB = true)
    (order : List Nat) (ho : order.Perm (List.range g.n)) (picks : List Nat) (hpicks : ∀ x, x < g.n → x ∈ picks)
    (sorter : List Cand → List Cand) (hsort : SortOK sorter) (scheds : Nat → Sched)
    (hcov : ∀ k, (scheds k).Covers 0
      (fvsCands (reindex g (createIndex g order)) (greedyFvs (reindex g (createIndex g order)) picks)).2.length) :
    McbCorrect g order (mcbFvsTreesTbb g order picks sorter scheds) :=
  mcbFvsTreesTbb_correct g hs hp order ho picks hpicks sorter hsort scheds hcov

/-- `mcb_sva_iso_trees_tbb` -/
theorem c03_iso_trees_tbb_end_to_end (g : Graph) (hs : g.simpleB = true) (hp : g.positiveB = true)
    (order : List Nat) (ho : order.Perm (List.range g.n))
    (sorter : List Cand → List Cand) (hsort : SortOK sorter) (scheds : Nat → Sched)
    (hcov : ∀ k, (scheds k).Covers 0 (isoCands (reindex g (createIndex g order))).2.length) :
    McbCorrect g order (mcbIsoTreesTbb g order sorter scheds) :=
  mcbIsoTreesTbb_correct g hs hp order ho sorter hsort scheds hcov

/-- the candidate builder in isolation: the duplicate-edge test never fires on a created candidate of a certified tree and
the weight limit rejects exactly the candidates heavier than the limit -/
theorem c14_builder (g : Graph) (hs : g.simpleB = true) (hp : g.positiveB = true) (trees : List SPTree) (t : SPTree)
    (c : Cand) (ht : trees[c.tree]? = some t) (hc : checkSPT g t = true) (hf : checkFirst g t = true)
    (hmem : c ∈ createCandidates g t c.tree (List.range g.m)) (S : List Nat) (L : Option Int) :
    ∃ Z, unfoldCand g t c = some Z ∧ wt g Z = c.weight ∧
      buildCandLim g trees S L c =
        if candOdd g t S c = true ∧ (∀ l, L = some l → c.weight ≤ l) then some (Z, c.weight) else none :=
  TreesAlgoL.buildCandLim_spec g hs hp trees t c ht hc hf hmem S L

/-- non-vacuity: the sorter the driver uses is admissible, and the triangle 0-1-2 with weights 1,2,3 is in the domain and
yields its one cycle -/
theorem c02_sorter_ok : SortOK sortByWeight := sortByWeight_ok

example :
    let g : Graph := { n := 3, edges := [(0, 1, 1), (1, 2, 2), (2, 0, 3)] }
    g.simpleB = true ∧ g.positiveB = true ∧
    (mcbFvsTrees g [0, 1, 2] [0, 1, 2] sortByWeight).cycles = [[0, 1, 2]] ∧
    (mcbFvsTrees g [0, 1, 2] [0, 1, 2] sortByWeight).weight = 6 ∧
    (mcbIsoTrees g [2, 1, 0] sortByWeight).cycles = [[0, 1, 2]] := by decide

end Parmcb.C02
