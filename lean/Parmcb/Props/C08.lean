import Parmcb.Props.C02
import Parmcb.Lemmas.Meta
/-!
# C08 — the reported optimum depends only on the weighted graph

Property theorems only (helper lemmas: `Parmcb/Lemmas/Meta.lean`).  `IsMCB g L` (C02) is "L is a minimum
cycle basis of g"; its total weight is unique (`C02.c02_mcb_weight_unique`) and is what every exact variant
reports (`C02.c02_value_unique`, `C02.c02_min`).  Each theorem says how a minimum cycle basis of a
transformed graph is obtained from one of the original graph, hence how the optimum changes.
Adding a bridge between two components and subdividing an edge are in `Props/C08b.lean` (`c08_bridge`, `c08_subdivide`).
-/
namespace Parmcb.C08
open Parmcb Parmcb.C01 Parmcb.C02

/-- multiply every weight by `c` -/
def scaleG (c : Int) (g : Graph) : Graph := { n := g.n, edges := g.edges.map fun (u, v, w) => (u, v, c * w) }

/-- add an isolated vertex -/
def addIsolated (g : Graph) : Graph := { n := g.n + 1, edges := g.edges }

/-- hang a new vertex `g.n` on the existing vertex `u` by an edge of weight `w` -/
def addPendant (g : Graph) (u : Nat) (w : Int) : Graph := { n := g.n + 1, edges := g.edges ++ [(u, g.n, w)] }

/-- rename the vertices by `π` (edge ids unchanged) -/
def relabel (π : Nat → Nat) (g : Graph) : Graph := { n := g.n, edges := g.edges.map fun (u, v, w) => (π u, π v, w) }

/-- disjoint union: the vertices and edge ids of `g₂` are shifted behind those of `g₁` -/
def disjointUnion (g₁ g₂ : Graph) : Graph :=
  { n := g₁.n + g₂.n, edges := g₁.edges ++ g₂.edges.map fun (u, v, w) => (u + g₁.n, v + g₁.n, w) }

def shiftSet (k : Nat) (Z : List Nat) : List Nat := Z.map (· + k)

/-- a minimum cycle basis exists for every graph in the exact domain (so "the optimum" is well defined):
the relational run of C01/C02 can always be completed -/
theorem c08_mcb_exists (g : Graph) (N : Nat) (hd : ExactDomain g N) : ∃ L, IsMCB g L :=
  MetaL.mcb_exists g N hd

/-- (f) scaling all weights by `c > 0` keeps every minimum basis and scales its weight exactly -/
theorem c08_scale (g : Graph) (c : Int) (hc : 0 < c) (L : List (List Nat)) (h : IsMCB g L) :
    IsMCB (scaleG c g) L ∧ totalWeight (scaleG c g) L = c * totalWeight g L :=
  MetaL.scale_thm g c hc L h

/-- (c) an isolated vertex changes nothing -/
theorem c08_isolated (g : Graph) (L : List (List Nat)) (h : IsMCB g L) :
    IsMCB (addIsolated g) L ∧ totalWeight (addIsolated g) L = totalWeight g L :=
  MetaL.isolated_thm g L h

/-- (c) a pendant vertex (hence, by induction, a pendant tree) changes nothing: its edge lies on no cycle -/
theorem c08_pendant (g : Graph) (hs : g.simpleB = true) (u : Nat) (hu : u < g.n) (w : Int) (L : List (List Nat))
    (h : IsMCB g L) :
    IsMCB (addPendant g u w) L ∧ totalWeight (addPendant g u w) L = totalWeight g L :=
  MetaL.pendant_thm g hs u hu w L h

/-- (b) renumbering the vertices by an injective map changes nothing -/
theorem c08_relabel (g : Graph) (π : Nat → Nat) (hπ : ∀ a b, a < g.n → b < g.n → π a = π b → a = b)
    (hs : g.simpleB = true) (L : List (List Nat)) (h : IsMCB g L) :
    IsMCB (relabel π g) L ∧ totalWeight (relabel π g) L = totalWeight g L :=
  MetaL.relabel_thm g π hπ hs L h

/-- (d) additivity over disjoint unions -/
theorem c08_union (g₁ g₂ : Graph) (hs₁ : g₁.simpleB = true) (hs₂ : g₂.simpleB = true)
    (hp₁ : g₁.positiveB = true) (hp₂ : g₂.positiveB = true)
    (L₁ L₂ : List (List Nat)) (h₁ : IsMCB g₁ L₁) (h₂ : IsMCB g₂ L₂) :
    IsMCB (disjointUnion g₁ g₂) (L₁ ++ L₂.map (shiftSet g₁.m)) ∧
    totalWeight (disjointUnion g₁ g₂) (L₁ ++ L₂.map (shiftSet g₁.m)) = totalWeight g₁ L₁ + totalWeight g₂ L₂ := by
  have _ := hs₂  -- not needed: the vertices of `g₂` only ever occur shifted
  exact MetaL.union_thm g₁ g₂ hs₁ hp₁ hp₂ L₁ L₂ h₁ h₂

end Parmcb.C08
