import Parmcb.Model.Dimacs
import Parmcb.Lemmas.Dimacs
/-!
# C10 — DIMACS reader and input validators describe the file faithfully

Property theorems only (helper lemmas: `Parmcb/Lemmas/Dimacs.lean`).
The theorems are about the newline handling of the line buffer, about the interpretation of the classified
lines, and (last section) about the step from TEXT to classified lines: the tokenisation glue `classify`
(what `sscanf` does on a well-formed line; also exercised by the correspondence check) inverts a text
renderer, which gives a round trip at the level of raw `fgets` lines.
-/
namespace Parmcb.C10
open Parmcb

/-- a line that ends with a newline loses exactly that newline -/
theorem c10_strip_newline (l : List Char) : stripNewline (l ++ ['\n']) = l :=
  DimacsL.stripNewline_append_newline l

/-- a final line WITHOUT a newline is left untouched (whether or not the file ends with a newline) -/
theorem c10_strip_no_newline (l : List Char) (h : l.getLast? ≠ some '\n') : stripNewline l = l :=
  DimacsL.stripNewline_of_ne l h

/-- the record of the defect: the pinned code removed the last character of such a line -/
theorem c10_pinned_strip_counterexample :
    stripLastPinned "e 1 3 35".toList = "e 1 3 3".toList ∧ stripNewline "e 1 3 35".toList = "e 1 3 35".toList := by decide

/-- how a graph is written down: `pre` comment lines, the problem line, and before the i-th edge line
`between[i]` comment lines (missing entries = 0); vertices are 1-based; a weight equal to 1 may be omitted —
at the line level that is the same classified line -/
def render (g : DGraph) (pre : Nat) (between : List Nat) (post : Nat) : List DLine :=
  List.replicate pre .comment ++ [.problem g.n] ++
  ((g.edges.zipIdx).flatMap fun (e, i) =>
      List.replicate (between.getD i 0) .comment ++ [.edge (e.1 + 1 : Nat) (e.2.1 + 1 : Nat) e.2.2]) ++
  List.replicate post .comment

/-- **round trip**: the reader reconstructs exactly the graph a text describes — as many vertices as the
problem line declares, one edge per edge line, in file order, joining the named vertices with the given
weight — wherever the comment lines are -/
theorem c10_roundtrip (g : DGraph) (hg : ∀ e ∈ g.edges, e.1 < g.n ∧ e.2.1 < g.n)
    (pre post : Nat) (between : List Nat) :
    interp (render g pre between post) = some g := by
  unfold interp render
  rw [List.foldlM_append, List.foldlM_append, List.foldlM_append, DimacsL.foldlM_comments]
  simp only [Option.bind_eq_bind, Option.bind_some, List.foldlM_cons, List.foldlM_nil, interpLine,
    Option.pure_def]
  rw [DimacsL.foldlM_edges between g.edges 0 _ (by simpa using hg)]
  simp [DimacsL.foldlM_comments]

/-- an edge naming an undeclared vertex raises an error -/
theorem c10_undeclared (g : DGraph) (u v : Int) (w : Dec) (h : ¬ (1 ≤ u ∧ u ≤ g.n) ∨ ¬ (1 ≤ v ∧ v ≤ g.n)) :
    interpLine g (.edge u v w) = none :=
  DimacsL.interpLine_edge_bad g u v w h

/-- … and then the whole read fails, whatever follows -/
theorem c10_undeclared_read (ls₁ ls₂ : List DLine) (g : DGraph) (u v : Int) (w : Dec)
    (h₁ : interp ls₁ = some g) (h : ¬ (1 ≤ u ∧ u ≤ g.n) ∨ ¬ (1 ≤ v ∧ v ≤ g.n)) :
    interp (ls₁ ++ [.edge u v w] ++ ls₂) = none :=
  DimacsL.interp_fail ls₁ ls₂ g _ h₁ (DimacsL.interpLine_edge_bad g u v w h)

/-- `has_loops` answers true exactly when some edge is a self-loop (arbitrary multigraphs) -/
theorem c10_has_loops (g : Graph) : hasLoops g = true ↔ ∃ e, e < g.m ∧ g.src e = g.tgt e :=
  DimacsL.hasLoops_iff g

/-- `has_non_positive_weights` answers true exactly when some weight is ≤ 0 (arbitrary multigraphs) -/
theorem c10_has_non_positive (g : Graph) : hasNonPositiveWeights g = true ↔ ∃ e, e < g.m ∧ g.weight e ≤ 0 :=
  DimacsL.hasNonPositiveWeights_iff g

/-- `has_multiple_edges` answers true exactly when two different edges join the same vertex pair
(loop-free multigraphs with endpoints in range) -/
theorem c10_has_multiple (g : Graph) (hr : ∀ e, e < g.m → g.src e < g.n ∧ g.tgt e < g.n ∧ g.src e ≠ g.tgt e) :
    hasMultipleEdges g = true ↔
      ∃ e f, e < f ∧ f < g.m ∧
        ((g.src e = g.src f ∧ g.tgt e = g.tgt f) ∨ (g.src e = g.tgt f ∧ g.tgt e = g.src f)) :=
  DimacsL.hasMultipleEdges_iff g hr

/-! ### from text to classified lines

Renderers (`Parmcb/Lemmas/Dimacs.lean`): `renderNat` = decimal digits; `renderDec d` = integer part of
`mant / 10^exp` and, when `exp > 0`, a `'.'` and exactly `exp` zero-padded fractional digits;
`renderEdgeLine st u v w` = tag `e`/`a`, gaps of `gapk + 1` spaces, 1-based endpoints, the weight (left out
when `st.omitOne` and `w = 1`); `renderProblemLine` = `p edge n m`; `renderComment` = `c`/`#` and any text;
`renderText g lay` = the raw lines of a file laid out as `lay : Layout` says (comment lines anywhere, a style
per edge line, final newline or not). -/

open DimacsL in
/-- an edge line `e u v w` / `a u v w` — whatever the tag, however many spaces in the gaps, with the weight
printed as a decimal with any number of fractional digits, or left out when it is 1 — is read as the edge
`u v` with exactly that weight -/
theorem c10_classify_edge_line (st : EdgeStyle) (u v : Nat) (w : Dec) (hw : 0 ≤ w.mant) :
    classify (String.ofList (renderEdgeLine st u v w)) = .edge u v w :=
  DimacsL.classify_edgeLine st u v w hw

open DimacsL in
/-- a problem line `p edge n m` (any spacing) declares `n` vertices -/
theorem c10_classify_problem_line (gap1 gap2 gap3 n m : Nat) :
    classify (String.ofList (renderProblemLine gap1 gap2 gap3 n m)) = .problem n :=
  DimacsL.classify_problemLine gap1 gap2 gap3 n m

open DimacsL in
/-- a line starting with `c` or `#` is a comment, whatever follows -/
theorem c10_classify_comment (hash : Bool) (text : List Char) :
    classify (String.ofList (renderComment hash text)) = .comment :=
  DimacsL.classify_comment hash text

open DimacsL in
/-- **text round trip**: write a graph (endpoints in range, non-negative weights) down as DIMACS text — comment
lines (`c …` / `# …`) before the problem line, between the edge lines and at the end; any spacing; `e` or `a`
tags; weights with any number of decimals, weight 1 possibly omitted; the last line with or without its
`'\n'` — and the reader, fed the raw `fgets` lines, reconstructs exactly that graph -/
theorem c10_text_roundtrip (g : DGraph) (lay : Layout)
    (hg : ∀ e ∈ g.edges, e.1 < g.n ∧ e.2.1 < g.n) (hw : ∀ e ∈ g.edges, 0 ≤ e.2.2.mant)
    (hl : lay.NoNewlineInComments) :
    readDimacs (renderText g lay) = some g :=
  DimacsL.readDimacs_renderText g lay hg hw hl

end Parmcb.C10
