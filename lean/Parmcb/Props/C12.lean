import Parmcb.Model.TreeCheck
import Parmcb.Lemmas.Trees
import Parmcb.Lemmas.Dijkstra
/-!
# C12 — shortest-path trees are exact and mutually consistent

Property theorems only (helper lemmas: `Parmcb/Lemmas/Trees.lean`).

What is proved: the tie-breaking comparison is a strict total order for any numbering (so the heap's
answer is determined); the executable certificate `checkSPT`/`checkFirst` is SOUND — a tree that passes it
reports exactly the true shortest-path distances, has no node for unreachable vertices, its predecessor
edges form root paths of those lengths and `first` is the child of the root on the path.  The driver runs
the certificate on every tree the C++ builds, so exactness is verified per run with a proved checker.
`c12_dijkstra` (below): the literal Dijkstra model always passes its own certificate.
Mutual consistency (reversal, sub-path closure) is `c12_consistency` in Props/C12b.lean.
-/
namespace Parmcb.C12
open Parmcb

/-- labels of simple paths: the vertex list is strictly increasing and has one more entry than the path
has edges (for arbitrary sets of different sizes the comparison is NOT transitive; the labels Dijkstra
creates with positive weights always describe simple paths) -/
def LabelOK (a : LexLabel) : Prop := StrictSorted a.verts ∧ a.verts.length = a.cnt + 1

theorem c12_lexLess_irrefl (a : LexLabel) : lexLess a a = false :=
  TreesL.lexLess_irrefl a

theorem c12_lexLess_asymm (a b : LexLabel) (ha : LabelOK a) (hb : LabelOK b) :
    lexLess a b = true → lexLess b a = false :=
  TreesL.lexLess_asymm a b ha hb

theorem c12_lexLess_trans (a b c : LexLabel) (ha : LabelOK a) (hb : LabelOK b) (hc : LabelOK c) :
    lexLess a b = true → lexLess b c = true → lexLess a c = true :=
  TreesL.lexLess_trans a b c ha hb hc

/-- total: two canonical labels are comparable unless they are equal -/
theorem c12_lexLess_total (a b : LexLabel) (ha : LabelOK a) (hb : LabelOK b) :
    lexLess a b = true ∨ lexLess b a = true ∨ a = b :=
  TreesL.lexLess_total a b ha hb

/-- weight of an edge list -/
def listWeight (g : Graph) (es : List Nat) : Int := (es.map g.weight).sum

set_option linter.unusedVariables false in
/-- **exactness, lower bound**: in a tree that passes the certificate no walk from the root to `v` is
shorter than the reported distance, and a vertex without node cannot be reached at all
(`hs` is not needed for this direction) -/
theorem c12_dist_lower (g : Graph) (hs : g.simpleB = true) (t : SPTree) (hc : checkSPT g t = true)
    (v : Nat) (es : List Nat) (he : ∀ e ∈ es, e < g.m) (hw : isWalk g es t.source v = true) :
    ∃ d, t.dist.getD v none = some d ∧ d ≤ listWeight g es :=
  TreesL.dist_lower g t hc v es he hw

/-- **exactness, attained**: the predecessor edges of a node form a walk from the node back to the root
whose weight is the reported distance (positive weights make the walk end at the root) -/
theorem c12_dist_attained (g : Graph) (hs : g.simpleB = true) (hp : g.positiveB = true) (t : SPTree)
    (hc : checkSPT g t = true) (v : Nat) (hv : v < g.n) (d : Int) (hd : t.dist.getD v none = some d) :
    isWalk g (rootPath g t g.n v) v t.source = true ∧ listWeight g (rootPath g t g.n v) = d ∧
    (rootPath g t g.n v).Nodup :=
  TreesL.dist_attained g hs hp t hc v hv d hd

/-- **first-in-path**: for a node other than the root, `first v` is the child of the root that the root
path of `v` passes through, i.e. the far endpoint of the LAST edge of `rootPath` is the root and its near
endpoint is `first v` -/
theorem c12_first (g : Graph) (hs : g.simpleB = true) (hp : g.positiveB = true) (t : SPTree)
    (hc : checkSPT g t = true) (hf : checkFirst g t = true) (v : Nat) (hv : v < g.n) (hne : v ≠ t.source)
    (d : Int) (hd : t.dist.getD v none = some d) :
    ∃ e, (rootPath g t g.n v).getLast? = some e ∧ g.other e (t.first.getD v 0) = t.source ∧
      g.inc (t.first.getD v 0) e = true :=
  TreesL.first_spec g hs hp t hc hf v hv hne d hd

/-- **the literal Dijkstra model is correct**: for every simple graph with positive weights and every source,
the tree built by the model of `lex_dijkstra` + `SPTree::initialize` passes the certificate — hence (by the
three theorems above) reports exact distances, root paths and first labels.  The C++ trees are compared with
these field by field. -/
theorem c12_dijkstra (g : Graph) (hs : g.simpleB = true) (hp : g.positiveB = true) (s : Nat) (hsn : s < g.n) :
    checkSPT g (buildTree g s) = true ∧ checkFirst g (buildTree g s) = true :=
  ⟨lexDijkstra_checkSPT g hs hp s hsn, lexDijkstra_checkFirst g hs hp s hsn⟩

end Parmcb.C12
