import Parmcb.Lemmas.ApproxAlgo
/-!
# C05 / C06 / C03 — the approximate algorithms, end to end

Property theorems only (proofs: `Lemmas/ApproxAlgo.lean`).  `Model/ApproxAlgo.lean` is a literal model of the WHOLE of
`approx_mcb_sva_signed`, `approx_mcb_sva_fvs_trees`, `approx_mcb_sva_iso_trees` and their `_tbb` counterparts:
`construct_spanner` (sorted scan, hop-bounded BFS), the exact algorithm on the spanner graph (the end-to-end models of
`Model/SignedAlgo.lean` / `Model/TreesAlgo.lean`, run on the spanner with its own ForestIndex), the translation of its
cycles through `_edge_spanner_to_g`, and for every dropped edge the literal `parmcb::dijkstra` on the spanner (labels,
predecessor edges, heap) followed by the walk back along the predecessor edges and the edge itself; the TBB builder pushes
those cycles in an arbitrary order and sums their weights under an arbitrary schedule.  No hypothesis about the exact
phase or about the paths is left.  Open choices, all universally quantified: the scan order among equal weights (`scan`
with `scanOkB`), `order` (unordered_set iteration in the spanner's ForestIndex), the heaps of the exact phase (`pick`, per phase,
search, limit and step) and of Dijkstra (`pickD`, per dropped edge and step), `σ` (address order of the spanner's edge nodes), `picks`, `sorter`, and for TBB `perm`, `scheds`,
`pushOrder`, `s`.

Conclusion (`ApproxCorrect`, for every `k ≥ 1`): the call returns; the emitted cycles are a basis of the cycle space of
the CALLER's graph consisting of the caller's edges (ids `< m`); the returned value is their total weight under the
caller's weights; their number is `m - n + c`; and they weigh at most `(2k-1)` times ANY cycle basis of the graph — in
particular a minimum one; for `k = 1` the result IS a minimum cycle basis; `k = 0` is rejected with nothing emitted.
-/
namespace Parmcb.C05
open Parmcb Parmcb.C01 Parmcb.C02

theorem c05_approx_signed_end_to_end (g : Graph) (hs : g.simpleB = true) (hp : g.positiveB = true) (k : Nat) (hk : 1 ≤ k)
    (scan : List Nat) (hscan : scanOkB g scan = true) (order : List Nat) (ho : order.Perm (List.range g.n))
    (pick : Nat → PickFam) (hpick : ∀ j i L, PickOK (pick j i L)) (σ : Nat → List Nat → List Nat) (hσ : ∀ j S, (σ j S).Perm S)
    (pickD : Nat → Pick) (hpickD : ∀ e, PickOK (pickD e)) :
    ApproxCorrect g k order (approxSigned g k scan order pick σ pickD) :=
  approxSigned_correct g hs hp k hk scan hscan order ho pick hpick σ hσ pickD hpickD

theorem c05_approx_fvs_trees_end_to_end (g : Graph) (hs : g.simpleB = true) (hp : g.positiveB = true) (k : Nat) (hk : 1 ≤ k)
    (scan : List Nat) (hscan : scanOkB g scan = true) (order : List Nat) (ho : order.Perm (List.range g.n))
    (picks : List Nat) (hpicks : ∀ x, x < g.n → x ∈ picks) (sorter : List Cand → List Cand) (hsort : SortOK sorter)
    (pickD : Nat → Pick) (hpickD : ∀ e, PickOK (pickD e)) :
    ApproxCorrect g k order (approxFvsTrees g k scan order picks sorter pickD) :=
  approxFvsTrees_correct g hs hp k hk scan hscan order ho picks hpicks sorter hsort pickD hpickD

/-- `approx_mcb_sva_iso_trees`: the sequential entry point instantiates the FVS-tree exact algorithm
(parmcb_approx_sva_trees.hpp:49), and so does the model — hence the `picks` oracle -/
theorem c05_approx_iso_trees_end_to_end (g : Graph) (hs : g.simpleB = true) (hp : g.positiveB = true) (k : Nat) (hk : 1 ≤ k)
    (scan : List Nat) (hscan : scanOkB g scan = true) (order : List Nat) (ho : order.Perm (List.range g.n))
    (picks : List Nat) (hpicks : ∀ x, x < g.n → x ∈ picks)
    (sorter : List Cand → List Cand) (hsort : SortOK sorter) (pickD : Nat → Pick) (hpickD : ∀ e, PickOK (pickD e)) :
    ApproxCorrect g k order (approxIsoTrees g k scan order picks sorter pickD) :=
  approxIsoTrees_correct g hs hp k hk scan hscan order ho picks hpicks sorter hsort pickD hpickD

theorem c03_approx_signed_tbb_end_to_end (g : Graph) (hs : g.simpleB = true) (hp : g.positiveB = true) (k : Nat) (hk : 1 ≤ k)
    (scan : List Nat) (hscan : scanOkB g scan = true) (order : List Nat) (ho : order.Perm (List.range g.n))
    (pick : Nat → PickFam) (hpick : ∀ j i L, PickOK (pick j i L)) (σ : Nat → List Nat → List Nat) (hσ : ∀ j S, (σ j S).Perm S)
    (perm : List Nat)
    (hperm : perm.Perm (List.range (createIndex (spannerGraph g (constructSpanner g k scan).1) order).dim))
    (scheds : Nat → List Nat → Sched)
    (hcovS : ∀ j S, (scheds j S).Covers 0 (if g.n ≤ S.length then g.n else S.length))
    (pickD : Nat → Pick) (hpickD : ∀ e, PickOK (pickD e))
    (pushOrder : List Nat) (hpush : pushOrder.Perm (List.range (constructSpanner g k scan).2.length))
    (s : Sched) (hcov : s.Covers 0 (constructSpanner g k scan).2.length) :
    ApproxCorrect g k order (approxSignedTbb g k scan order pick σ perm scheds pickD pushOrder s) :=
  approxSignedTbb_correct g hs hp k hk scan hscan order ho pick hpick σ hσ perm hperm scheds hcovS pickD hpickD
    pushOrder hpush s hcov

theorem c03_approx_fvs_trees_tbb_end_to_end (g : Graph) (hs : g.simpleB = true) (hp : g.positiveB = true) (k : Nat)
    (hk : 1 ≤ k) (scan : List Nat) (hscan : scanOkB g scan = true) (order : List Nat) (ho : order.Perm (List.range g.n))
    (picks : List Nat) (hpicks : ∀ x, x < g.n → x ∈ picks) (sorter : List Cand → List Cand) (hsort : SortOK sorter)
    (scheds : Nat → Sched)
    (hcovS : ∀ j, (scheds j).Covers 0
      (fvsCands (reindex (spannerGraph g (constructSpanner g k scan).1)
          (createIndex (spannerGraph g (constructSpanner g k scan).1) order))
        (greedyFvs (reindex (spannerGraph g (constructSpanner g k scan).1)
          (createIndex (spannerGraph g (constructSpanner g k scan).1) order)) picks)).2.length)
    (pickD : Nat → Pick) (hpickD : ∀ e, PickOK (pickD e))
    (pushOrder : List Nat) (hpush : pushOrder.Perm (List.range (constructSpanner g k scan).2.length))
    (s : Sched) (hcov : s.Covers 0 (constructSpanner g k scan).2.length) :
    ApproxCorrect g k order (approxFvsTreesTbb g k scan order picks sorter scheds pickD pushOrder s) :=
  approxFvsTreesTbb_correct g hs hp k hk scan hscan order ho picks hpicks sorter hsort scheds hcovS pickD hpickD
    pushOrder hpush s hcov

theorem c03_approx_iso_trees_tbb_end_to_end (g : Graph) (hs : g.simpleB = true) (hp : g.positiveB = true) (k : Nat)
    (hk : 1 ≤ k) (scan : List Nat) (hscan : scanOkB g scan = true) (order : List Nat) (ho : order.Perm (List.range g.n))
    (sorter : List Cand → List Cand) (hsort : SortOK sorter) (scheds : Nat → Sched)
    (hcovS : ∀ j, (scheds j).Covers 0
      (isoCands (reindex (spannerGraph g (constructSpanner g k scan).1)
          (createIndex (spannerGraph g (constructSpanner g k scan).1) order))).2.length)
    (pickD : Nat → Pick) (hpickD : ∀ e, PickOK (pickD e))
    (pushOrder : List Nat) (hpush : pushOrder.Perm (List.range (constructSpanner g k scan).2.length))
    (s : Sched) (hcov : s.Covers 0 (constructSpanner g k scan).2.length) :
    ApproxCorrect g k order (approxIsoTreesTbb g k scan order sorter scheds pickD pushOrder s) :=
  approxIsoTreesTbb_correct g hs hp k hk scan hscan order ho sorter hsort scheds hcovS pickD hpickD pushOrder hpush s hcov

/-- `k = 0`: rejected, nothing emitted — for every exact phase and both builders -/
theorem c06_k0_end_to_end (g : Graph) (scan : List Nat) (exact : Graph → McbResult) (pickD : Nat → Pick)
    (pushOrder : List Nat) (s : Sched) :
    approxCore g 0 scan exact pickD = .error ∧ approxCoreTbb g 0 scan exact pickD pushOrder s = .error :=
  ⟨approxCore_k0 g scan exact pickD, approxCoreTbb_k0 g scan exact pickD pushOrder s⟩

/-- `k = 1`: a minimum cycle basis -/
theorem c06_k1_end_to_end (g : Graph) (order0 : List Nat) (o : ApproxOutcome) (h : ApproxCorrect g 1 order0 o) :
    ∃ cycles ret, o = .ok cycles ret ∧ IsMCB g cycles ∧ ret = totalWeight g cycles :=
  approxCorrect_k1 g order0 o h

/-- the literal `parmcb::dijkstra` with predecessor edges, for every heap behaviour: the walk back from `t` is a shortest
walk between `t` and `s` without repeated edge -/
theorem c06_dijkstra_path (g : Graph) (hs : g.simpleB = true) (hp : g.positiveB = true) (pick : Pick)
    (hpick : PickOK pick) (s t : Nat) (hsn : s < g.n) (htn : t < g.n) (hst : s ≠ t)
    (hreach : ∃ es, (∀ e ∈ es, e < g.m) ∧ isWalk g es s t = true) :
    let p := pathBack (dijkstraP g pick s) (g.n + 1) t
    p.Nodup ∧ (∀ e ∈ p, e < g.m) ∧ isWalk g p t s = true ∧
    ∀ es : List Nat, (∀ e ∈ es, e < g.m) → isWalk g es s t = true → listWeight g p ≤ listWeight g es :=
  ApproxAlgoL.dijkstraP_path g hs hp pick hpick s t hsn htn hst hreach

/-- non-vacuity: K4 with weights 1..6, `k = 2`: the outcome is `ok` with `m - n + c = 3` cycles -/
example :
    let g : Graph := { n := 4, edges := [(0, 1, 1), (1, 2, 2), (2, 3, 3), (3, 0, 4), (0, 2, 5), (1, 3, 6)] }
    g.simpleB = true ∧ g.positiveB = true ∧ scanOkB g [0, 1, 2, 3, 4, 5] = true ∧
    (match approxSigned g 2 [0, 1, 2, 3, 4, 5] [0, 1, 2, 3] (fun _ _ _ => pickHead) (fun _ S => S) (fun _ => pickHead) with
     | .ok cycles _ => cycles.length
     | .error => 0) = 3 := by decide

end Parmcb.C05
