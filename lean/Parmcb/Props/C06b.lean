import Parmcb.Lemmas.Kmm
import Parmcb.Lemmas.KmmTransfer
/-!
# C06 — the (2k−1) guarantee (Kavitha–Mehlhorn–Michail)

Property theorems only (proofs: `Lemmas/Kmm.lean`, `Lemmas/KmmTransfer.lean`).

`c06_bound`: the family the approximate algorithms emit — an exact run on the spanner (a graph of its own, edge `i`
= `R[i]`), translated to the caller's edges, plus for every dropped edge the edge and a SHORTEST spanner path between
its endpoints — weighs at most `(2k−1)` times ANY cycle basis of the caller's graph, in particular a minimum one.
For every simple graph with positive weights, every `k ≥ 1`, every order `std::sort` may leave among equal weights,
every variant of the exact phase and every choice of shortest spanner paths.
-/
namespace Parmcb.C06
open Parmcb Parmcb.C01 Parmcb.C02

/-- duplicate-freeness and range of the retained edges -/
theorem retained_facts (g : Graph) (k : Nat) (scan : List Nat) (hscan : scanOkB g scan = true) :
    (constructSpanner g k scan).1.Nodup ∧ ∀ e ∈ (constructSpanner g k scan).1, e < g.m := by
  have hp := Spanner.scan_perm g scan hscan
  have hsub := (Spanner.spanner_partition g k scan).2.1
  have hnd : scan.Nodup := hp.nodup_iff.2 List.nodup_range
  refine ⟨hsub.nodup hnd, ?_⟩
  intro e he
  exact List.mem_range.1 (hp.mem_iff.1 (hsub.subset he))

/-- **C06**: weight of the emitted family ≤ (2k−1) × weight of any cycle basis -/
theorem c06_bound (g : Graph) (hs : g.simpleB = true) (hp : g.positiveB = true) (k : Nat) (hk : 1 ≤ k)
    (scan : List Nat) (hscan : scanOkB g scan = true)
    (N' : Nat) (v : Variant) (exactCycles paths : List (List Nat))
    (hd : ExactDomain (spannerGraph g (constructSpanner g k scan).1) N')
    (hr : FullRun (spannerGraph g (constructSpanner g k scan).1) N' 1 v exactCycles)
    (plen : paths.length = (constructSpanner g k scan).2.length)
    (pwalk : ∀ (i : Nat) p e, paths[i]? = some p → (constructSpanner g k scan).2[i]? = some e →
      p.Nodup ∧ (∀ f ∈ p, f ∈ (constructSpanner g k scan).1) ∧ isWalk g p (g.src e) (g.tgt e) = true)
    (pshort : ∀ (i : Nat) p e, paths[i]? = some p → (constructSpanner g k scan).2[i]? = some e →
      ∀ es : List Nat, (∀ f ∈ es, f ∈ (constructSpanner g k scan).1) →
        isWalk g es (g.src e) (g.tgt e) = true → C05.listWeight g p ≤ C05.listWeight g es)
    (B : List (List Nat)) (hB : IsBasis g B) :
    totalWeight g (C05.emitted (translateSp (constructSpanner g k scan).1 exactCycles) paths (constructSpanner g k scan).2)
      ≤ (2 * (k : Int) - 1) * totalWeight g B := by
  obtain ⟨hnd, hm⟩ := retained_facts g k scan hscan
  obtain ⟨h1, _, _, h4⟩ := spanner_transfer g _ hnd hm N' v exactCycles hd hr
  exact kmm_bound g hs hp k hk scan hscan _ paths h1 h4 plen pwalk pshort B hB

/-- … in particular against a minimum cycle basis -/
theorem c06_bound_mcb (g : Graph) (hs : g.simpleB = true) (hp : g.positiveB = true) (k : Nat) (hk : 1 ≤ k)
    (scan : List Nat) (hscan : scanOkB g scan = true)
    (N' : Nat) (v : Variant) (exactCycles paths : List (List Nat))
    (hd : ExactDomain (spannerGraph g (constructSpanner g k scan).1) N')
    (hr : FullRun (spannerGraph g (constructSpanner g k scan).1) N' 1 v exactCycles)
    (plen : paths.length = (constructSpanner g k scan).2.length)
    (pwalk : ∀ (i : Nat) p e, paths[i]? = some p → (constructSpanner g k scan).2[i]? = some e →
      p.Nodup ∧ (∀ f ∈ p, f ∈ (constructSpanner g k scan).1) ∧ isWalk g p (g.src e) (g.tgt e) = true)
    (pshort : ∀ (i : Nat) p e, paths[i]? = some p → (constructSpanner g k scan).2[i]? = some e →
      ∀ es : List Nat, (∀ f ∈ es, f ∈ (constructSpanner g k scan).1) →
        isWalk g es (g.src e) (g.tgt e) = true → C05.listWeight g p ≤ C05.listWeight g es)
    (M : List (List Nat)) (hM : IsMCB g M) :
    totalWeight g (C05.emitted (translateSp (constructSpanner g k scan).1 exactCycles) paths (constructSpanner g k scan).2)
      ≤ (2 * (k : Int) - 1) * totalWeight g M :=
  c06_bound g hs hp k hk scan hscan N' v exactCycles paths hd hr plen pwalk pshort M hM.1

/-- `SpansIn` only depends on which edges are retained, not on their order -/
theorem spansIn_congr (g : Graph) (R R' : List Nat) (h : ∀ e, e ∈ R' ↔ e ∈ R) (L : List (List Nat)) :
    SpansIn g R' L ↔ SpansIn g R L := by
  unfold SpansIn
  constructor
  · rintro ⟨h1, h2⟩
    exact ⟨fun C hC => ⟨(h1 C hC).1, fun e he => (h e).1 ((h1 C hC).2 e he)⟩,
      fun Z hZ hsub => h2 Z hZ (fun e he => (h e).2 (hsub e he))⟩
  · rintro ⟨h1, h2⟩
    exact ⟨fun C hC => ⟨(h1 C hC).1, fun e he => (h e).2 ((h1 C hC).2 e he)⟩,
      fun Z hZ hsub => h2 Z hZ (fun e he => (h e).1 (hsub e he))⟩

/-- **C06, as the implementation runs it**: the exact phase works on the spanner in the numbering of the spanner's OWN
`ForestIndex`, i.e. on `spannerGraph g R'` for a permutation `R'` of the retained edges (in that numbering the spanner is
in the exact domain: `C16.c16_exact_domain`).  The guarantee is the same. -/
theorem c06_bound_renumbered (g : Graph) (hs : g.simpleB = true) (hp : g.positiveB = true) (k : Nat) (hk : 1 ≤ k)
    (scan : List Nat) (hscan : scanOkB g scan = true)
    (R' : List Nat) (hperm : R'.Perm (constructSpanner g k scan).1)
    (N' : Nat) (v : Variant) (exactCycles paths : List (List Nat))
    (hd : ExactDomain (spannerGraph g R') N')
    (hr : FullRun (spannerGraph g R') N' 1 v exactCycles)
    (plen : paths.length = (constructSpanner g k scan).2.length)
    (pwalk : ∀ (i : Nat) p e, paths[i]? = some p → (constructSpanner g k scan).2[i]? = some e →
      p.Nodup ∧ (∀ f ∈ p, f ∈ (constructSpanner g k scan).1) ∧ isWalk g p (g.src e) (g.tgt e) = true)
    (pshort : ∀ (i : Nat) p e, paths[i]? = some p → (constructSpanner g k scan).2[i]? = some e →
      ∀ es : List Nat, (∀ f ∈ es, f ∈ (constructSpanner g k scan).1) →
        isWalk g es (g.src e) (g.tgt e) = true → C05.listWeight g p ≤ C05.listWeight g es)
    (B : List (List Nat)) (hB : IsBasis g B) :
    totalWeight g (C05.emitted (translateSp R' exactCycles) paths (constructSpanner g k scan).2)
      ≤ (2 * (k : Int) - 1) * totalWeight g B := by
  obtain ⟨hnd, hm⟩ := retained_facts g k scan hscan
  have hmem : ∀ e, e ∈ R' ↔ e ∈ (constructSpanner g k scan).1 := fun e => hperm.mem_iff
  have hnd' : R'.Nodup := hperm.nodup_iff.2 hnd
  have hm' : ∀ e ∈ R', e < g.m := fun e he => hm e ((hmem e).1 he)
  obtain ⟨h1, _, _, h4⟩ := spanner_transfer g R' hnd' hm' N' v exactCycles hd hr
  exact kmm_bound g hs hp k hk scan hscan _ paths ((spansIn_congr g _ R' hmem _).1 h1)
    (fun L hL => h4 L ((spansIn_congr g _ R' hmem L).2 hL)) plen pwalk pshort B hB

end Parmcb.C06
