import Parmcb.Lemmas.Kmm
import Parmcb.Lemmas.KmmTransfer
/-!
# C06 — the (2k−1) guarantee (Kavitha–Mehlhorn–Michail)

Property theorems only (proofs: `Lemmas/Kmm.lean`, `Lemmas/KmmTransfer.lean`).

`c06_bound`: the family the approximate algorithms emit — an exact run on the spanner (a graph of its own, edge `i`
= `R[i]`), translated to the caller's edges, plus for every dropped edge the edge and a SHORTEST spanner path between
its endpoints — weighs at most `(2k−1)` times ANY cycle basis of the caller's graph, in particular a minimum one.
For every simple graph with positive weights, every `k ≥ 1`, every order `std::sort` may leave among equal weights,
every variant of the exact phase and every choice of shortest spanner paths.
-/
namespace Parmcb.C06
open Parmcb Parmcb.C01 Parmcb.C02

/-- duplicate-freeness and range of the retained edges -/
theorem retained_facts (g : Graph) (k : Nat) (scan : List Nat) (hscan : scanOkB g scan = true) :
    (constructSpanner g k scan).1.Nodup ∧ ∀ e ∈ (constructSpanner g k scan).1, e < g.m := by
  have hp := Spanner.scan_perm g scan hscan
  have hsub := (Spanner.spanner_partition g k scan).2.1
  have hnd : scan.Nodup := hp.nodup_iff.2 List.nodup_range
  refine ⟨hsub.nodup hnd, ?_⟩
  intro e he
  exact List.mem_range.1 (hp.mem_iff.1 (hsub.subset he))

/-- **C06**: weight of the emitted family ≤ (2k−1) × weight of any cycle basis -/
theorem c06_bound (g : Graph) (hs : g.simpleB = true) (hp : g.positiveB = true) (k : Nat) (hk : 1 ≤ k)
    (scan : List Nat) (hscan : scanOkB g scan = true)
    (N' : Nat) (v : Variant) (exactCycles paths : List (List Nat))
    (hd : ExactDomain (spannerGraph g (constructSpanner g k scan).1) N')
    (hr : FullRun (spannerGraph g (constructSpanner g k scan).1) N' 1 v exactCycles)
    (plen : paths.length = (constructSpanner g k scan).2.length)
    (pwalk : ∀ (i : Nat) p e, paths[i]? = some p → (constructSpanner g k scan).2[i]? = some e →
      p.Nodup ∧ (∀ f ∈ p, f ∈ (constructSpanner g k scan).1) ∧ isWalk g p (g.src e) (g.tgt e) = true)
    (pshort : ∀ (i : Nat) p e, paths[i]? = some p → (constructSpanner g k scan).2[i]? = some e →
      ∀ es : List Nat, (∀ f ∈ es, f ∈ (constructSpanner g k scan).1) →
        isWalk g es (g.src e) (g.tgt e) = true → C05.listWeight g p ≤ C05.listWeight g es)
    (B : List (List Nat)) (hB : IsBasis g B) :
    totalWeight g (C05.emitted (translateSp (constructSpanner g k scan).1 exactCycles) paths (constructSpanner g k scan).2)
      ≤ (2 * (k : Int) - 1) * totalWeight g B := by
  obtain ⟨hnd, hm⟩ := retained_facts g k scan hscan
  obtain ⟨h1, _, _, h4⟩ := spanner_transfer g _ hnd hm N' v exactCycles hd hr
  exact kmm_bound g hs hp k hk scan hscan _ paths h1 h4 plen pwalk pshort B hB

/-- … in particular against a minimum cycle basis -/
theorem c06_bound_mcb (g : Graph) (hs : g.simpleB = true) (hp : g.positiveB = true) (k : Nat) (hk : 1 ≤ k)
    (scan : List Nat) (hscan : scanOkB g scan = true)
    (N' : Nat) (v : Variant) (exactCycles paths : List (List Nat))
    (hd : ExactDomain (spannerGraph g (constructSpanner g k scan).1) N')
    (hr : FullRun (spannerGraph g (constructSpanner g k scan).1) N' 1 v exactCycles)
    (plen : paths.length = (constructSpanner g k scan).2.length)
    (pwalk : ∀ (i : Nat) p e, paths[i]? = some p → (constructSpanner g k scan).2[i]? = some e →
      p.Nodup ∧ (∀ f ∈ p, f ∈ (constructSpanner g k scan).1) ∧ isWalk g p (g.src e) (g.tgt e) = true)
    (pshort : ∀ (i : Nat) p e, paths[i]? = some p → (constructSpanner g k scan).2[i]? = some e →
      ∀ es : List Nat, (∀ f ∈ es, f ∈ (constructSpanner g k scan).1) →
        isWalk g es (g.src e) (g.tgt e) = true → C05.listWeight g p ≤ C05.listWeight g es)
    (M : List (List Nat)) (hM : IsMCB g M) :
    totalWeight g (C05.emitted (translateSp (constructSpanner g k scan).1 exactCycles) paths (constructSpanner g k scan).2)
      ≤ (2 * (k : Int) - 1) * totalWeight g M :=
  c06_bound g hs hp k hk scan hscan N' v exactCycles paths hd hr plen pwalk pshort M hM.1

end Parmcb.C06
