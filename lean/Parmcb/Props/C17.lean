import Parmcb.Lemmas.Gf2
/-!
# C17 — SpVecGF2 implements GF(2) vector arithmetic in canonical form

Property theorems only.  `gf2Run ops` is the literal model of an arbitrary history of
constructions / additions / assignments (Model/Gf2.lean); the dense specification is a store of
characteristic functions `Nat → Bool` with pointwise xor.
-/
namespace Parmcb.C17
open Parmcb

/-- the dense vector a sparse one stands for -/
def dense (l : List Nat) : Nat → Bool := fun i => decide (i ∈ l)

abbrev DVec := Nat → Bool

/-- dense specification of one operation (queries do not change the store) -/
def denseStep (s : List DVec) : Gf2Op → List DVec
  | .unit i => s ++ [(fun j => decide (j = i) : DVec)]
  | .fromSet l => s ++ [(fun j => decide (j ∈ l) : DVec)]
  | .empty => s ++ [(fun _ => false : DVec)]
  | .copy a => match s[a]? with
    | some v => s ++ [v]
    | none => s
  | .add a b => match s[a]?, s[b]? with
    | some va, some vb => s ++ [(fun j => xor (va j) (vb j) : DVec)]
    | _, _ => s
  | .addAssign a b => match s[a]?, s[b]? with
    | some va, some vb => s.set a (fun j => xor (va j) (vb j) : DVec)
    | _, _ => s
  | .assign a b => match s[a]?, s[b]? with
    | some _, some vb => s.set a vb
    | _, _ => s
  | .clear a => match s[a]? with
    | some _ => s.set a (fun _ => false : DVec)
    | none => s
  | .dot _ _ => s
  | .dotSet _ _ => s
  | .size _ => s

def AllSorted (s : Gf2Store) : Prop := ∀ v ∈ s, StrictSorted v

theorem dense_xorMerge {a b : List Nat} (ha : StrictSorted a) (hb : StrictSorted b) :
    dense (xorMerge a b) = fun j => xor (dense a j) (dense b j) := by
  funext j
  have h := mem_xorMerge a b ha hb j
  unfold dense
  by_cases h1 : j ∈ a <;> by_cases h2 : j ∈ b <;> simp_all

private theorem allSorted_append {s : Gf2Store} {v : List Nat} (hs : AllSorted s)
    (hv : StrictSorted v) : AllSorted (s ++ [v]) := by
  intro u hu
  rcases List.mem_append.1 hu with h | h
  · exact hs u h
  · simp at h; subst h; exact hv

private theorem allSorted_set {s : Gf2Store} {v : List Nat} (a : Nat) (hs : AllSorted s)
    (hv : StrictSorted v) : AllSorted (s.set a v) := by
  intro u hu
  rcases List.mem_or_eq_of_mem_set hu with h | h
  · exact hs u h
  · subst h; exact hv

private theorem sorted_of_get {s : Gf2Store} (hs : AllSorted s) {a : Nat} {v : List Nat}
    (h : s[a]? = some v) : StrictSorted v := hs v (List.mem_of_getElem? h)

/-- one step keeps every live vector canonical -/
theorem step_sorted (s : Gf2Store) (op : Gf2Op) (hs : AllSorted s) : AllSorted (gf2Step s op).1 := by
  cases op with
  | unit i => exact allSorted_append hs trivial
  | fromSet l => exact allSorted_append hs (setOf_sorted l)
  | empty => exact allSorted_append hs trivial
  | copy a =>
    simp only [gf2Step]; split
    · rename_i v h; exact allSorted_append hs (sorted_of_get hs h)
    · exact hs
  | add a b =>
    simp only [gf2Step]; split
    · rename_i va vb h1 h2
      exact allSorted_append hs (xorMerge_sorted _ _ (sorted_of_get hs h1) (sorted_of_get hs h2))
    · exact hs
  | addAssign a b =>
    simp only [gf2Step]; split
    · rename_i va vb h1 h2
      exact allSorted_set a hs (xorMerge_sorted _ _ (sorted_of_get hs h1) (sorted_of_get hs h2))
    · exact hs
  | assign a b =>
    simp only [gf2Step]; split
    · rename_i va vb h1 h2; exact allSorted_set a hs (sorted_of_get hs h2)
    · exact hs
  | clear a =>
    simp only [gf2Step]; split
    · exact allSorted_set a hs trivial
    · exact hs
  | dot a b => simp only [gf2Step]; split <;> exact hs
  | dotSet a l => simp only [gf2Step]; split <;> exact hs
  | size a => simp only [gf2Step]; split <;> exact hs

/-- one step refines the dense specification -/
theorem step_refines (s : Gf2Store) (op : Gf2Op) (hs : AllSorted s) :
    (gf2Step s op).1.map dense = denseStep (s.map dense) op := by
  cases op with
  | unit i =>
    simp only [gf2Step, denseStep, List.map_append, List.map_cons, List.map_nil]
    congr 2; funext j; simp [dense]
  | fromSet l =>
    simp only [gf2Step, denseStep, List.map_append, List.map_cons, List.map_nil]
    congr 2; funext j; simp [dense, mem_setOf]
  | empty =>
    simp only [gf2Step, denseStep, List.map_append, List.map_cons, List.map_nil]
    congr 2
  | copy a =>
    simp only [gf2Step, denseStep, List.getElem?_map]
    cases h : s[a]? <;> simp
  | add a b =>
    simp only [gf2Step, denseStep, List.getElem?_map]
    cases h1 : s[a]? <;> cases h2 : s[b]? <;> simp
    rename_i va vb
    exact dense_xorMerge (sorted_of_get hs h1) (sorted_of_get hs h2)
  | addAssign a b =>
    simp only [gf2Step, denseStep, List.getElem?_map]
    cases h1 : s[a]? <;> cases h2 : s[b]? <;> simp
    rename_i va vb
    rw [dense_xorMerge (sorted_of_get hs h1) (sorted_of_get hs h2)]
  | assign a b =>
    simp only [gf2Step, denseStep, List.getElem?_map]
    cases h1 : s[a]? <;> cases h2 : s[b]? <;> simp [List.map_set]
  | clear a =>
    simp only [gf2Step, denseStep, List.getElem?_map]
    cases h1 : s[a]? <;> simp [List.map_set]
    congr 1
  | dot a b => simp only [gf2Step, denseStep]; split <;> rfl
  | dotSet a l => simp only [gf2Step, denseStep]; split <;> rfl
  | size a => simp only [gf2Step, denseStep]; split <;> rfl

/-- **C17 (canonical form), every history**: after any sequence of operations every live vector is
strictly increasing (hence duplicate-free). -/
theorem c17_canonical (ops : List Gf2Op) : AllSorted (gf2Run ops) := by
  unfold gf2Run
  suffices h : ∀ s, AllSorted s → AllSorted (ops.foldl (fun s op => (gf2Step s op).1) s) from
    h [] (by intro v hv; cases hv)
  induction ops with
  | nil => intro s hs; exact hs
  | cons op r ih => intro s hs; exact ih _ (step_sorted s op hs)

/-- **C17 (refinement), every history**: the sparse store lists exactly the coordinates that are 1
in the dense computation. -/
theorem c17_refines_dense (ops : List Gf2Op) :
    (gf2Run ops).map dense = ops.foldl denseStep [] := by
  unfold gf2Run
  suffices h : ∀ s, AllSorted s →
      (ops.foldl (fun s op => (gf2Step s op).1) s).map dense = ops.foldl denseStep (s.map dense) from
    h [] (by intro v hv; cases hv)
  induction ops with
  | nil => intro s _; rfl
  | cons op r ih =>
    intro s hs
    simp only [List.foldl_cons]
    rw [ih _ (step_sorted s op hs), step_refines s op hs]

/-- **C17 (queries)**: `size()` is the number of ones; `*` is the parity of the common ones; `+` is the
symmetric difference — on any vectors that can occur in a history (canonical ones). -/
theorem c17_size (v : List Nat) (hv : StrictSorted v) (n : Nat) (hn : ∀ i ∈ v, i < n) :
    v.Nodup ∧ v.length = ((List.range n).filter (dense v)).length := by
  refine ⟨hv.nodup, ?_⟩
  apply List.Perm.length_eq
  apply (List.perm_ext_iff_of_nodup hv.nodup (List.nodup_range.filter _)).2
  intro i
  simp only [List.mem_filter, List.mem_range, dense, decide_eq_true_eq]
  exact ⟨fun h => ⟨hn i h, h⟩, fun h => h.2⟩

theorem c17_dot (a b : List Nat) (ha : StrictSorted a) (hb : StrictSorted b) :
    dotPar a b = (common a b % 2 == 1) := dotPar_spec a b ha hb

theorem c17_add (a b : List Nat) (ha : StrictSorted a) (hb : StrictSorted b) :
    StrictSorted (xorMerge a b) ∧ ∀ z, z ∈ xorMerge a b ↔ ((z ∈ a) ≠ (z ∈ b)) :=
  ⟨xorMerge_sorted a b ha hb, mem_xorMerge a b ha hb⟩

/-- the product with an index set is the product with the sorted listing of that set -/
theorem c17_dotSet (a l : List Nat) (ha : StrictSorted a) :
    dotPar a (setOf l) = ((a.filter (fun z => decide (z ∈ l))).length % 2 == 1) := by
  rw [dotPar_spec a _ ha (setOf_sorted l)]
  unfold common
  congr 3
  apply List.filter_congr
  intro z _
  simp [mem_setOf]

/-- non-vacuity: a concrete history with non-trivial content -/
example : gf2Run [.unit 3, .fromSet [5, 1, 3], .add 0 1] = [[3], [1, 3, 5], [1, 5]] := by
  simp [gf2Run, gf2Step, setOf, setInsert, xorMerge]

end Parmcb.C17
