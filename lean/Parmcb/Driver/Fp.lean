import Parmcb.Model.Fp
import Parmcb.Driver.Proto
/-! correspondence handler for C18 -/
namespace Parmcb.Driver
open Parmcb

/-- scalar queries: `gcd a b` / `inv a p` / `prime p`, each followed by `r …` from the implementation -/
def handleFp (c : Case) : String := Id.run do
  let mut pending : Option String := none
  let mut k := 0
  for ln in c.body do
    match ln with
    | ["gcd", a, b] =>
      match a.toInt?, b.toInt? with
      | some a, some b =>
        let (g, x, y) := extGcd a b
        pending := some s!"{g} {x} {y}"
      | _, _ => return s!"diff {c.id} parse"
    | ["inv", a, p] =>
      match a.toInt?, p.toInt? with
      | some a, some p =>
        pending := some (match multInverse a p with | some x => s!"ok {x}" | none => "throw")
      | _, _ => return s!"diff {c.id} parse"
    | ["prime", p] =>
      match p.toInt? with
      | some p => pending := some (if isPrime p then "1" else "0")
      | none => return s!"diff {c.id} parse"
    | "r" :: rest =>
      let impl := " ".intercalate rest
      match pending with
      | some m =>
        if m ≠ impl then return s!"diff {c.id} query {k} model=[{m}] impl=[{impl}]"
        pending := none; k := k + 1
      | none => return s!"diff {c.id} protocol"
    | _ => return s!"diff {c.id} protocol"
  return s!"ok {c.id} {k}"

def parseFpOp : List String → Option FpOp
  | ["new"] => some .new
  | ["unit", a, i] => do some (.unit (← a.toNat?) (← i.toNat?))
  | ["copy", a] => a.toNat?.map .copy
  | ["add", a, b] => do some (.add (← a.toNat?) (← b.toNat?))
  | ["addAssign", a, b] => do some (.addAssign (← a.toNat?) (← b.toNat?))
  | ["scale", a, c] => do some (.scale (← a.toNat?) (← c.toInt?))
  | ["scaleAssign", a, c] => do some (.scaleAssign (← a.toNat?) (← c.toInt?))
  | ["assign", a, b] => do some (.assign (← a.toNat?) (← b.toNat?))
  | ["clear", a] => a.toNat?.map .clear
  | ["dot", a, b] => do some (.dot (← a.toNat?) (← b.toNat?))
  | ["size", a] => a.toNat?.map .size
  | _ => none

def showFpVec (p : Int) (v : FpVec) : String :=
  let body := v.foldl (fun s e => s ++ s!" {e.1}:{e.2}") ""
  s!"vec {v.length}{body} mod {p}"

def handleFpVec (c : Case) : String := Id.run do
  let mut s : List FpVec := []
  let mut p : Int := 3
  let mut pending : Option String := none
  let mut k := 0
  for ln in c.body do
    match ln with
    | ["p", v] => match v.toInt? with
      | some v => p := v
      | none => return s!"diff {c.id} parse"
    | "op" :: rest =>
      match parseFpOp rest with
      | none => return s!"diff {c.id} parse op {k}"
      | some op =>
        let (s', out) := fpStep p s op
        let vecAt (i : Nat) := match s'[i]? with
          | some v => showFpVec p v
          | none => "bad"
        pending := some (match out with
          | .bad => "bad"
          | .val v => s!"val {v}"
          | .num n => s!"num {n}"
          | .none => match op with
            | .unit a _ | .addAssign a _ | .scaleAssign a _ | .assign a _ | .clear a => vecAt a
            | _ => vecAt (s'.length - 1))
        s := s'; k := k + 1
    | "r" :: rest =>
      let impl := " ".intercalate rest
      match pending with
      | some m =>
        if m ≠ impl then return s!"diff {c.id} step {k - 1} model=[{m}] impl=[{impl}]"
        pending := none
      | none => return s!"diff {c.id} protocol"
    | _ => return s!"diff {c.id} protocol"
  return s!"ok {c.id} {k}"

end Parmcb.Driver
