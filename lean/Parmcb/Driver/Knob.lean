import Parmcb.Model.Knob
import Parmcb.Driver.Proto
/-! correspondence handler for C20 (library half) -/
namespace Parmcb.Driver
open Parmcb

def handleKnob (c : Case) : String := Id.run do
  let mut s := KnobState.init
  let mut hw := 0
  let mut k := 0
  let mut pending : Option Nat := none
  for ln in c.body do
    match ln with
    | ["hw", v] => hw := v.toNat!
    | ["op", "set", n] => s := knobStep s (.set n.toNat!)
    | ["op", "push", n] => s := knobStep s (.clientPush n.toNat!)
    | ["op", "pop"] => s := knobStep s .clientPop
    | ["op", "query"] => pending := some (activeValue hw s)
    | ["op", "region"] => pending := some (activeValue hw s)
    | ["r", "active", v] =>
      match pending with
      | some a => if toString a ≠ v then return s!"diff {c.id} active step {k} model={a} impl={v}"
                  pending := none; k := k + 1
      | none => return s!"diff {c.id} protocol"
    | ["r", "threads", t, v] =>
      match pending with
      | some a =>
        if toString a ≠ v then return s!"diff {c.id} active step {k} model={a} impl={v}"
        if t.toNat! > a then return s!"viol {c.id} threads {t} exceed allowed parallelism {a}"
        pending := none; k := k + 1
      | none => return s!"diff {c.id} protocol"
    | _ => return s!"diff {c.id} protocol"
  return s!"ok {c.id} {k}"

end Parmcb.Driver
