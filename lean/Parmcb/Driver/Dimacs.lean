import Parmcb.Model.Dimacs
import Parmcb.Driver.Proto
/-! correspondence handler for C10 -/
namespace Parmcb.Driver
open Parmcb

def hexVal (c : Char) : Nat :=
  if '0' ≤ c ∧ c ≤ '9' then c.toNat - '0'.toNat
  else if 'a' ≤ c ∧ c ≤ 'f' then c.toNat - 'a'.toNat + 10 else 0

def unhex (s : String) : String :=
  let rec go : List Char → List Char
    | a :: b :: r => Char.ofNat (hexVal a * 16 + hexVal b) :: go r
    | _ => []
  String.ofList (go s.toList)

/-- weight × 2^20 when that is an integer -/
def decScaled (d : Dec) : Option Int :=
  let num := d.mant * 2 ^ 20
  let den : Int := 10 ^ d.exp
  if num % den = 0 then some (num / den) else none

def handleDimacs (c : Case) : String := Id.run do
  let raws := (c.body.filter (fun l => l.head? == some "raw")).map fun l => unhex (l.getD 1 "")
  let rest := c.body.filter (fun l => l.head? != some "raw")
  let model := readDimacs raws
  match model, rest with
  | none, [["error"]] => return s!"ok {c.id} error"
  | none, _ => return s!"diff {c.id} model-rejects impl-accepts"
  | some _, [["error"]] => return s!"diff {c.id} model-accepts impl-rejects"
  | some dg, _ =>
    let some [n] := (rest.find? (fun l => l.head? == some "n")).bind (fun l => natsOf l.tail) | return s!"diff {c.id} parse-n"
    if n != dg.n then return s!"diff {c.id} n model={dg.n} impl={n}"
    let des := rest.filter (fun l => l.head? == some "de")
    if des.length != dg.edges.length then return s!"diff {c.id} edge-count model={dg.edges.length} impl={des.length}"
    let mut edges : List (Nat × Nat × Int) := []
    for (l, (u, v, w)) in des.zip dg.edges do
      let mw := match decScaled w with | some x => toString x | none => "inexact"
      if l.getD 1 "" != toString u || l.getD 2 "" != toString v || l.getD 3 "" != mw then
        return s!"diff {c.id} edge model=[{u} {v} {mw}] impl=[{l.getD 1 ""} {l.getD 2 ""} {l.getD 3 ""}]"
      -- sign of the weight is all the validators need; keep a scaled or sign-preserving integer
      edges := edges ++ [(u, v, match decScaled w with | some x => x | none => w.mant)]
    let g : Graph := { n := dg.n, edges := edges }
    let flag (key : String) : String := ((rest.find? (fun l => l.head? == some key)).map fun l => l.getD 1 "").getD "?"
    let b2s (b : Bool) := if b then "1" else "0"
    if flag "loops" != b2s (hasLoops g) then return s!"diff {c.id} has_loops model={hasLoops g} impl={flag "loops"}"
    if flag "nonpos" != b2s (hasNonPositiveWeights g) then return s!"diff {c.id} has_non_positive_weights model={hasNonPositiveWeights g} impl={flag "nonpos"}"
    if !(hasLoops g) && flag "multi" != b2s (hasMultipleEdges g) then return s!"diff {c.id} has_multiple_edges model={hasMultipleEdges g} impl={flag "multi"}"
    return s!"ok {c.id} {dg.n} {dg.edges.length}"

end Parmcb.Driver
