import Parmcb.Model.FloatCert
import Parmcb.Model.FloatDijkstra
import Parmcb.Model.FloatLex
import Parmcb.Model.FloatSigned
import Parmcb.Driver.Graph
/-! correspondence / certificate handlers for runs on inexact (double) weights (C09).  The python side converts every
double exactly to an integer (common power-of-two scale per case). -/
namespace Parmcb.Driver
open Parmcb Parmcb.Float

/-- `fsum k x1 … xk r`: the loop `acc = 0; acc += x_i` in double arithmetic gave `r` -/
def handleFsum (c : Case) : String := Id.run do
  let mut k := 0
  for ln in c.body do
    match ln with
    | "fsum" :: rest =>
      match intsOf rest with
      | some xs =>
        if xs.isEmpty then return s!"diff {c.id} parse"
        let ws := xs.dropLast; let r := xs.getLast!
        let m := fsum ws
        if m != r then return s!"diff {c.id} fsum line {k} model={m} impl={r} terms=[{showInts ws}]"
        k := k + 1
      | none => return s!"diff {c.id} parse"
    | _ => return s!"diff {c.id} protocol"
  return s!"ok {c.id} {k}"

/-- labels of a shortest-path tree computed in double arithmetic: `s S`, `e u v w`…, `d v dist pred|-` per reached vertex
(pred = index of the predecessor edge), `u v` per unreached vertex.  The driver reconstructs the tree walks (untrusted) and
evaluates the verified certificate `checkFloatSPT`. -/
def handleFspt (c : Case) : String := Id.run do
  match parseGraph c.body with
  | none => return s!"diff {c.id} parse-graph"
  | some (g, rest) =>
    let es : List FEdge := g.edges
    let mut trees := 0
    -- several trees per case: each starts with an `s` line
    let mut blocks : List ((Nat × Bool) × List (List String)) := []
    for ln in rest do
      match ln with
      | ["s", s] => blocks := ((s.toNat?.getD 0, false), []) :: blocks
      | ["s", s, tag] => blocks := ((s.toNat?.getD 0, tag == "l"), []) :: blocks
      | _ => match blocks with
        | (s, ls) :: bs => blocks := (s, ln :: ls) :: bs
        | [] => pure ()
    for ((s, isLex), lsr) in blocks.reverse do
      let ls := lsr.reverse
      let mut dist : Array (Option Int) := Array.replicate g.n none
      let mut pred : Array (Option Nat) := Array.replicate g.n none
      for ln in ls do
        match ln with
        | ["d", v, d, p] =>
          match v.toNat?, d.toInt? with
          | some v, some d => dist := dist.setIfInBounds v (some d); pred := pred.setIfInBounds v p.toNat?
          | _, _ => return s!"diff {c.id} parse-d"
        | _ => pure ()
      -- walk of v: follow predecessor edges back to s (fuel n)
      let walkOf (v : Nat) : Option (List FEdge) := Id.run do
        let mut cur := v
        let mut acc : List FEdge := []
        for _ in [0:g.n + 1] do
          if cur == s then return some acc
          match pred.getD cur none with
          | none => return none
          | some e =>
            let (a, b, w) := es.getD e (0, 0, 0)
            let from_ := if b == cur then a else b
            if a != cur && b != cur then return none
            acc := (from_, cur, w) :: acc
            cur := from_
        return none
      let paths := (List.range g.n).map fun v => if (dist.getD v none).isSome then walkOf v else none
      if !(checkFloatSPT es s dist.toList paths) then
        -- diagnose
        let dl := dist.toList
        if dget dl s != some 0 then return s!"viol {c.id} source {s} label-not-zero"
        for (u, v, w) in es do
          if !(relaxedB dl u v w) || !(relaxedB dl v u w) then
            return s!"viol {c.id} source {s} edge {u}-{v} can-still-be-relaxed-in-double-arithmetic du={dget dl u} dv={dget dl v} w={w}"
        for v in List.range g.n do
          match dget dl v with
          | none => pure ()
          | some d =>
            match paths.getD v none with
            | none => return s!"viol {c.id} source {s} vertex {v} predecessor-edges-do-not-lead-to-the-source"
            | some p =>
              if !(walkOk es s p v) then return s!"viol {c.id} source {s} vertex {v} predecessor-walk-invalid"
              if fsum (walkW p) != d then return s!"viol {c.id} source {s} vertex {v} label={d} double-sum-along-its-tree-path={fsum (walkW p)}"
        return s!"diff {c.id} source {s} float-spt-certificate-rejected"
      -- the LITERAL model of parmcb::dijkstra with combine = Float.fadd (proved to pass the certificate for every input:
      -- c09_float_dijkstra_cert) must compute exactly the observed labels (labels do not depend on the heap's tie-breaking)
      let f := fdijkstraP g pickHead s
      if f.dist.toList != dist.toList then
        let v := ((List.range g.n).find? fun v => f.dist.getD v none != dist.getD v none).getD 0
        return s!"diff {c.id} source {s} vertex {v} label model={f.dist.getD v none} impl={dist.getD v none} (literal double-arithmetic dijkstra)"
      -- SPTree: the LITERAL lex_dijkstra with the distance component in double arithmetic (c09_float_lex_dijkstra_cert) must
      -- reproduce labels AND predecessor edges (the lexicographic tie-breaking leaves no freedom)
      if isLex then
        let st := flexDijkstra g s
        if flexDist g s st != dist.toList then
          return s!"diff {c.id} source {s} SPTree labels differ from the literal double-arithmetic lex_dijkstra"
        if st.pred != pred.toList then
          let v := ((List.range g.n).find? fun v => st.pred.getD v none != pred.getD v none).getD 0
          return s!"diff {c.id} source {s} vertex {v} SPTree predecessor edge model={st.pred.getD v none} impl={pred.getD v none} (literal double-arithmetic lex_dijkstra)"
      trees := trees + 1
    return s!"ok {c.id} {g.n} {g.m} {trees}"

/-- C09: trace validation of one exact-variant run on inexact weights with the rational factor `p/q`: the verified
`checkPhasePotRat` per phase, lower bound = the model's optimum certified by potentials -/
def handleExactQ (c : Case) : String := Id.run do
  match parseGraph c.body with
  | none => return s!"diff {c.id} parse-graph"
  | some (g, rest) =>
    let var := c.args.getD 2 ""
    let some p := (c.args.getD 3 "").toInt? | return s!"diff {c.id} parse-p"
    let some q := (c.args.getD 4 "").toInt? | return s!"diff {c.id} parse-q"
    match variantOf var, findNats "index" rest, findNats "dim" rest, parseCycles rest with
    | some v, some index, some [dim], some cycles =>
      if index.length != g.m then return s!"diff {c.id} index-length"
      let rev := (List.range g.m).map (fun i => indexOfNat index i)
      let gI : Graph := { n := g.n, edges := rev.map (fun e => g.edges.getD e (0, 0, 0)) }
      if cycles.length != dim then return s!"viol {c.id} count emitted={cycles.length} dim={dim}"
      let cycI := cycles.map (fun cyc => setOf (cyc.map (fun e => index.getD e 0)))
      if (cycles.zip cycI).any (fun (a, b) => a.length != b.length) then return s!"viol {c.id} repeated-edge-in-cycle"
      let sup0 := match findNats "init" rest with
        | some ord => ord.map fun i => [i]
        | none => unitSupports dim
      if sup0.length != dim || !((List.range dim).all fun i => sup0.contains [i]) then
        return s!"viol {c.id} support-initialisation-is-not-a-permutation-of-the-unit-vectors"
      let sups := phaseSupports v 0 sup0 cycI
      let mut total : Int := 0
      let mut opt : Int := 0
      let mut k := 0
      let mut inexact := 0
      for (cyc, S) in cycI.zip sups do
        if !(evenSetB gI cyc) then return s!"viol {c.id} phase {k} not-in-cycle-space"
        if !(dotPar cyc S) then return s!"diff {c.id} phase {k} even-against-model-support S=[{showNats S}] C=[{showNats cyc}]"
        match minOddWeight gI S with
        | none => return s!"diff {c.id} phase {k} model-finds-no-odd-cycle"
        | some mu =>
          let w := wt gI cyc
          if !(checkPhasePotRat gI p q S cyc (dijkstraPotentials gI S) mu) then
            if !(checkPotential gI S (dijkstraPotentials gI S) mu) then
              return s!"diff {c.id} phase {k} lower-bound-certificate-rejected optimum={mu}"
            return s!"viol {c.id} phase {k} not-within-factor weight={w} optimum={mu} p={p} q={q}"
          if w != mu then inexact := inexact + 1
          total := total + w; opt := opt + mu
        k := k + 1
      -- literal replay IN DOUBLE ARITHMETIC of the sequential mcb_sva_signed (Model/FloatSigned.lean): the std::set order of every
      -- hidden-edge phase read off the first reported search of that phase; the model must emit EXACTLY the C++'s cycles and,
      -- when the returned value is passed along (`retx`, exact), exactly the same double
      let mut lit := 0
      let evs := parseSearchEvs rest
      if var == "signed" && (!evs.isEmpty || dim == 0) then
        let sigma := fun (k : Nat) (S : List Nat) =>
          match evs.find? (fun e => e.phase == k && e.hiddenBranch) with
          | some e => e.hidden
          | none => S
        let r := mcbSignedCoreF dim (unitSupports dim) (fun k S => signedPhaseSearchHF gI rev (sigma k S) S)
        let mut kk := 0
        for (a, b) in r.cycles.zip cycI do
          if a != b then return s!"diff {c.id} literal-signed-loop-in-double-arithmetic phase {kk} model=[{showNats a}] impl=[{showNats b}]"
          kk := kk + 1
        if r.cycles.length != cycI.length then return s!"diff {c.id} literal-signed-loop-in-double-arithmetic phases model={r.cycles.length} impl={cycI.length}"
        match findLine "retx" rest with
        | some [x] => if x.toInt? != some r.weight then return s!"diff {c.id} literal-signed-loop-in-double-arithmetic returned value model={r.weight} impl={x}"
        | _ => pure ()
        lit := 1
      return s!"ok {c.id} {g.n} {g.m} {dim} {total} {opt} {inexact} {lit}"
    | _, _, _, _ => return s!"diff {c.id} parse-exactq-lines"

end Parmcb.Driver
