import Parmcb.Model.Demo
import Parmcb.Driver.Proto
/-! correspondence handler for C11: observed exit status / announced algorithm of a demo run vs the model -/
namespace Parmcb.Driver
open Parmcb

def algoName : Algo → String
  | .signed => "MCB_SVA_SIGNED" | .signedTbb => "MCB_SVA_SIGNED_TBB"
  | .fvs => "MCB_SVA_FVS_TREES" | .fvsTbb => "MCB_SVA_FVS_TREES_TBB"
  | .iso => "MCB_SVA_ISO_TREES" | .isoTbb => "MCB_SVA_ISO_TREES_TBB"
  | .approxSigned => "APPROX_MCB_SVA_SIGNED" | .approxSignedTbb => "APPROX_MCB_SVA_SIGNED_TBB"
  | .approxFvs => "APPROX_MCB_SVA_FVS_TREES" | .approxFvsTbb => "APPROX_MCB_SVA_FVS_TREES_TBB"
  | .approxIso => "APPROX_MCB_SVA_ISO_TREES" | .approxIsoTbb => "APPROX_MCB_SVA_ISO_TREES_TBB"
  | .mpiSigned => "PAR_MCB_SVA_SIGNED" | .mpiFvsTbb => "PAR_MCB_SVA_FVS_TREES" | .mpiIsoTbb => "PAR_MCB_SVA_ISO_TREES"

def b01 (s : String) : Bool := s == "1"

/-- `case id demo prog signed fvstrees isotrees parallel k loops multi nonpos P` then `obs <exit> <algo|->` -/
def handleDemo (c : Case) : String := Id.run do
  match c.args with
  | [prog, sg, fv, iso, par, k, lo, mu, np, P] =>
    let some p := (match prog with | "mcb" => some Prog.mcb | "approx" => some Prog.approx | "stats" => some Prog.stats | "mpi" => some Prog.mpi | _ => none)
      | return s!"diff {c.id} parse-prog"
    let o : DemoOpts := { signed := b01 sg, fvstrees := b01 fv, isotrees := b01 iso, parallel := b01 par, k := k.toInt! }
    let f : FileFacts := { loops := b01 lo, multi := b01 mu, nonpos := b01 np }
    let P := P.toNat!
    let outs := (List.range P).map fun r => demoRank p o f P r
    let code := outs.foldl (fun acc x => match x with | .exit cd _ => max acc cd | .blocked _ => acc) 0
    let hang := outs.any fun x => match x with | .blocked _ => true | _ => false
    let algo := match outs.head? with
      | some (.exit _ (some a)) => algoName a
      | _ => "-"
    match c.body with
    | [["obs", ec, al]] =>
      if hang then return s!"diff {c.id} model-predicts-hang"
      -- only zero / non-zero is specified for the exit status
      if (ec == "0") != (code == 0) then return s!"diff {c.id} exit model={code} impl={ec}"
      if al != algo then return s!"diff {c.id} algorithm model={algo} impl={al}"
      return s!"ok {c.id} {code}"
    | _ => return s!"diff {c.id} parse-obs"
  | _ => return s!"diff {c.id} parse-args"

end Parmcb.Driver
