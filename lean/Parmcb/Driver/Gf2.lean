import Parmcb.Model.Gf2
import Parmcb.Driver.Proto
/-! correspondence handler for C17: replays an operation history of the real SpVecGF2 on the model -/
namespace Parmcb.Driver
open Parmcb

def parseGf2Op : List String → Option Gf2Op
  | ["unit", i] => i.toNat?.map .unit
  | "fromSet" :: l => (natsOf l).map .fromSet
  | ["empty"] => some .empty
  | ["copy", a] => a.toNat?.map .copy
  | ["add", a, b] => do some (.add (← a.toNat?) (← b.toNat?))
  | ["addAssign", a, b] => do some (.addAssign (← a.toNat?) (← b.toNat?))
  | ["assign", a, b] => do some (.assign (← a.toNat?) (← b.toNat?))
  | ["clear", a] => a.toNat?.map .clear
  | ["dot", a, b] => do some (.dot (← a.toNat?) (← b.toNat?))
  | "dotSet" :: a :: l => do some (.dotSet (← a.toNat?) (← natsOf l))
  | ["size", a] => a.toNat?.map .size
  | _ => none

/-- what the harness prints after an op: the touched vector (`vec …`), a query answer, or nothing -/
def gf2Observe (s : Gf2Store) (op : Gf2Op) (out : Gf2Out) : String :=
  let vecAt (i : Nat) := match s[i]? with
    | some v => "vec " ++ toString v.length ++ " " ++ showNats v
    | none => "bad"
  match out with
  | .bad => "bad"
  | .bit b => "bit " ++ (if b then "1" else "0")
  | .num n => "num " ++ toString n
  | .none => match op with
    | .addAssign a _ | .assign a _ | .clear a => vecAt a
    | _ => vecAt (s.length - 1)

/-- body lines alternate: `op …` then `r …` (the implementation's observation). -/
def handleGf2 (c : Case) : String := Id.run do
  let mut s : Gf2Store := []
  let mut pending : Option String := none
  let mut k := 0
  for ln in c.body do
    match ln with
    | "op" :: rest =>
      match parseGf2Op rest with
      | none => return s!"diff {c.id} parse op {k}"
      | some op =>
        let (s', out) := gf2Step s op
        pending := some (gf2Observe s' op out)
        s := s'
        k := k + 1
    | "r" :: rest =>
      let impl := " ".intercalate rest
      match pending with
      | some m =>
        if m.trimAscii.toString ≠ impl then
          return s!"diff {c.id} step {k - 1} model=[{m.trimAscii.toString}] impl=[{impl}]"
        pending := none
      | none => return s!"diff {c.id} protocol"
    | _ => return s!"diff {c.id} protocol"
  -- the canonical-form oracle on the final store (the property itself, decided executably)
  if s.all strictSortedB then return s!"ok {c.id} {k}" else return s!"viol {c.id} not-sorted"

end Parmcb.Driver
