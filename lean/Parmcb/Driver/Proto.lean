/-! Line protocol helpers shared by all correspondence handlers.  Core Lean only. -/
namespace Parmcb.Driver

def words (s : String) : List String :=
  (s.trimAscii.toString.splitOn " ").filter (fun w => w ≠ "")

def natsOf (ws : List String) : Option (List Nat) := ws.mapM String.toNat?

def intsOf (ws : List String) : Option (List Int) := ws.mapM String.toInt?

def showNats (l : List Nat) : String := " ".intercalate (l.map toString)

def showInts (l : List Int) : String := " ".intercalate (l.map toString)

/-- a case: its id, kind, the header arguments and the body lines (already split into words) -/
structure Case where
  id : String
  kind : String
  args : List String
  body : List (List String)

/-- split the whole input into cases: `case <id> <kind> args…` … `end` -/
def parseCases (lines : List String) : List Case := Id.run do
  let mut out : List Case := []
  let mut cur : Option Case := none
  for ln in lines do
    let ws := words ln
    match ws with
    | [] => pure ()
    | "#" :: _ => pure ()
    | "case" :: id :: kind :: args =>
      cur := some { id := id, kind := kind, args := args, body := [] }
    | ["end"] =>
      match cur with
      | some c => out := { c with body := c.body.reverse } :: out; cur := none
      | none => pure ()
    | _ =>
      match cur with
      | some c => cur := some { c with body := ws :: c.body }
      | none => pure ()
  return out.reverse

end Parmcb.Driver
