import Parmcb.Model.Forest
import Parmcb.Model.Fvs
import Parmcb.Model.DePina
import Parmcb.Model.Signed
import Parmcb.Driver.Proto
/-! correspondence handlers for the graph algorithms (C16, C13, C01/C02 …) -/
namespace Parmcb.Driver
open Parmcb

/-- the `g n m` / `e u v w` lines of a case body; returns the graph and the remaining lines -/
def parseGraph (body : List (List String)) : Option (Graph × List (List String)) := do
  match body with
  | ["g", n, _m] :: rest =>
    let n ← n.toNat?
    let mut edges : List (Nat × Nat × Int) := []
    let mut rem := rest
    let mut go := true
    while go do
      match rem with
      | ["e", u, v, w] :: r =>
        edges := ((← u.toNat?), (← v.toNat?), (← w.toInt?)) :: edges
        rem := r
      | _ => go := false
    some ({ n := n, edges := edges.reverse }, rem)
  | _ => none

def findLine (key : String) (ls : List (List String)) : Option (List String) :=
  (ls.find? (fun l => l.head? == some key)).map List.tail

def findNats (key : String) (ls : List (List String)) : Option (List Nat) :=
  (findLine key ls).bind natsOf

def cmp (id what : String) (model impl : String) : Option String :=
  if model == impl then none else some s!"diff {id} {what} model=[{model}] impl=[{impl}]"

/-- C16: literal replay of spanning_forest / ForestIndex with the observed unordered_set order -/
def handleForest (c : Case) : String := Id.run do
  match parseGraph c.body with
  | none => return s!"diff {c.id} parse-graph"
  | some (g, rest) =>
    match findNats "order" rest, findNats "forest" rest, findNats "comps" rest, findNats "index" rest,
          findNats "rev" rest, findNats "onforest" rest, findNats "dim" rest, findNats "k" rest with
    | some order, some forest, some [comps], some index, some rev, some onf, some [dim], some [k] =>
      let fi := createIndex g order
      let (mf, mc) := spanningForest g order
      let checks : List (Option String) := [
        cmp c.id "forest" (showNats mf) (showNats forest),
        cmp c.id "comps" (toString mc) (toString comps),
        cmp c.id "index" (showNats fi.index) (showNats index),
        cmp c.id "rev" (showNats fi.reverse) (showNats rev),
        cmp c.id "onforest" (showNats ((List.range g.m).map fun e => if fi.isOnForest e then 1 else 0)) (showNats onf),
        cmp c.id "dim" (toString fi.dim) (toString dim),
        cmp c.id "k" (toString fi.k) (toString k)]
      match checks.filterMap id with
      | d :: _ => return d
      | [] => return s!"ok {c.id} {g.n} {g.m} {fi.dim} {fi.k}"
    | _, _, _, _, _, _, _, _ => return s!"diff {c.id} parse-forest-lines"

/-- C13: the implementation's output replayed as the heap's pop sequence.  The model started with
`picks = output` must reproduce exactly that output and leave no vertex alive (the heap is then
empty of existing vertices exactly when the C++ stops). -/
def handleFvs (c : Case) : String := Id.run do
  match parseGraph c.body with
  | none => return s!"diff {c.id} parse-graph"
  | some (g, rest) =>
    match findNats "fvs" rest with
    | none => return s!"diff {c.id} parse-fvs"
    | some out =>
      let s0 := fvsAfterInit g
      let sEnd := out.foldl (fvsPick g (fvsFuel g)) s0
      if sEnd.out != out then
        return s!"diff {c.id} picks model=[{showNats sEnd.out}] impl=[{showNats out}]"
      if sEnd.alive.any id then
        return s!"diff {c.id} leftover model-still-alive=[{showNats ((List.range g.n).filter sEnd.isAlive)}]"
      -- information: did every pick have maximum residual degree at its turn?
      return s!"ok {c.id} {g.n} {g.m} {out.length}"

def variantOf : String → Option Variant
  | "signed" => some .signed
  | "signed_tbb" => some .signedTbb
  | "fvs" | "iso" | "fvs_tbb" | "iso_tbb" => some .trees
  | "mpi_signed" | "mpi_fvs" | "mpi_iso" => some .mpi
  | _ => none

/-- parse `cycle k e1 … ek` lines -/
def parseCycles (rest : List (List String)) : Option (List (List Nat)) :=
  (rest.filter (fun l => l.head? == some "cycle")).mapM fun l => do
    let ns ← natsOf l.tail
    match ns with
    | k :: es => if es.length == k then some es else none
    | [] => none

/-- C01/C02 trace validation: the implementation's cycles are replayed through the literal support
bookkeeping; every phase must satisfy the executable part of `PhaseOK` against the model's support
vector, with the per-phase optimum from `minOddWeight` (and from the definitional `minOddBrute` when
the graph is small enough). -/
def handleExact (c : Case) : String := Id.run do
  match parseGraph c.body with
  | none => return s!"diff {c.id} parse-graph"
  | some (g, rest) =>
    let var := c.args.getD 2 ""
    match variantOf var, findNats "index" rest, findNats "dim" rest, parseCycles rest, findLine "ret" rest with
    | some v, some index, some [dim], some cycles, some (retS :: _) =>
      let some ret := retS.toInt? | return s!"diff {c.id} parse-ret"
      if index.length != g.m then return s!"diff {c.id} index-length"
      -- coordinates: forest-index numbering
      let rev := (List.range g.m).map (fun i => indexOfNat index i)
      let gI : Graph := { n := g.n, edges := rev.map (fun e => g.edges.getD e (0, 0, 0)) }
      if cycles.length != dim then return s!"viol {c.id} count emitted={cycles.length} dim={dim}"
      let cycI := cycles.map (fun cyc => setOf (cyc.map (fun e => index.getD e 0)))
      -- duplicates inside an emitted cycle
      if (cycles.zip cycI).any (fun (a, b) => a.length != b.length) then return s!"viol {c.id} repeated-edge-in-cycle"
      let sups := phaseSupports v 0 (unitSupports dim) cycI
      let brute := g.m ≤ 11
      let mut total : Int := 0
      let mut k := 0
      let mut branchAll := 0
      let mut branchHidden := 0
      for (cyc, S) in cycI.zip sups do
        if !(evenSetB gI cyc) then return s!"viol {c.id} phase {k} not-in-cycle-space"
        if !(dotPar cyc S) then return s!"diff {c.id} phase {k} even-against-model-support S=[{showNats S}] C=[{showNats cyc}]"
        let w := wt gI cyc
        match minOddWeight gI S with
        | none => return s!"diff {c.id} phase {k} model-finds-no-odd-cycle"
        | some mu =>
          if w != mu then return s!"viol {c.id} phase {k} not-minimum weight={w} optimum={mu} S=[{showNats S}]"
        if brute then
          match minOddBrute gI S with
          | some mu => if w != mu then return s!"viol {c.id} phase {k} not-minimum-brute weight={w} optimum={mu}"
          | none => return s!"diff {c.id} phase {k} brute-none"
        if S.length ≥ g.n then branchAll := branchAll + 1 else branchHidden := branchHidden + 1
        total := total + w
        k := k + 1
      if total != ret then return s!"viol {c.id} ret returned={ret} emitted-weight={total}"
      return s!"ok {c.id} {g.n} {g.m} {dim} {total} {branchAll} {branchHidden} {if brute then 1 else 0}"
    | _, _, _, _, _ => return s!"diff {c.id} parse-exact-lines"

end Parmcb.Driver
