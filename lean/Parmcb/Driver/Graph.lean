import Parmcb.Model.Forest
import Parmcb.Model.Fvs
import Parmcb.Model.DePina
import Parmcb.Model.Signed
import Parmcb.Model.BiDijkstra
import Parmcb.Model.Spanner
import Parmcb.Model.Lex
import Parmcb.Model.Iso
import Parmcb.Model.TreeCheck
import Parmcb.Model.Cert
import Parmcb.Model.TreesAlgo
import Parmcb.Model.HeapAlgo
import Parmcb.Model.Mpi
import Parmcb.Model.MpiAlgo
import Parmcb.Driver.Proto
/-! correspondence handlers for the graph algorithms (C16, C13, C01/C02 …) -/
namespace Parmcb.Driver
open Parmcb

/-- the `g n m` / `e u v w` lines of a case body; returns the graph and the remaining lines -/
def parseGraph (body : List (List String)) : Option (Graph × List (List String)) := do
  match body with
  | ["g", n, _m] :: rest =>
    let n ← n.toNat?
    let mut edges : List (Nat × Nat × Int) := []
    let mut rem := rest
    let mut go := true
    while go do
      match rem with
      | ["e", u, v, w] :: r =>
        edges := ((← u.toNat?), (← v.toNat?), (← w.toInt?)) :: edges
        rem := r
      | _ => go := false
    some ({ n := n, edges := edges.reverse }, rem)
  | _ => none

def findLine (key : String) (ls : List (List String)) : Option (List String) :=
  (ls.find? (fun l => l.head? == some key)).map List.tail

def findNats (key : String) (ls : List (List String)) : Option (List Nat) :=
  (findLine key ls).bind natsOf

def cmp (id what : String) (model impl : String) : Option String :=
  if model == impl then none else some s!"diff {id} {what} model=[{model}] impl=[{impl}]"

/-- C16: literal replay of spanning_forest / ForestIndex with the observed unordered_set order -/
def handleForest (c : Case) : String := Id.run do
  match parseGraph c.body with
  | none => return s!"diff {c.id} parse-graph"
  | some (g, rest) =>
    match findNats "order" rest, findNats "forest" rest, findNats "comps" rest, findNats "index" rest,
          findNats "rev" rest, findNats "onforest" rest, findNats "dim" rest, findNats "k" rest with
    | some order, some forest, some [comps], some index, some rev, some onf, some [dim], some [k] =>
      let fi := createIndex g order
      let (mf, mc) := spanningForest g order
      let checks : List (Option String) := [
        cmp c.id "forest" (showNats mf) (showNats forest),
        cmp c.id "comps" (toString mc) (toString comps),
        cmp c.id "index" (showNats fi.index) (showNats index),
        cmp c.id "rev" (showNats fi.reverse) (showNats rev),
        cmp c.id "onforest" (showNats ((List.range g.m).map fun e => if fi.isOnForest e then 1 else 0)) (showNats onf),
        cmp c.id "dim" (toString fi.dim) (toString dim),
        cmp c.id "k" (toString fi.k) (toString k)]
      -- copies of the index (copy construction, assignment over an index of another graph) are the same value
      let expect := s!"index {showNats fi.index} rev {showNats fi.reverse} onforest {showNats ((List.range g.m).map fun e => if fi.isOnForest e then 1 else 0)} dim {fi.dim} k {fi.k}"
      let squash (ws : List String) : String := " ".intercalate (ws.filter (· ≠ ""))
      let copies := (["assigned", "copied"].filterMap fun tag =>
        (findLine tag rest).bind fun l => cmp c.id tag (squash (expect.splitOn " ")) (squash l))
      match checks.filterMap id ++ copies with
      | d :: _ => return d
      | [] => return s!"ok {c.id} {g.n} {g.m} {fi.dim} {fi.k}"
    | _, _, _, _, _, _, _, _ => return s!"diff {c.id} parse-forest-lines"

/-- C13: the implementation's output replayed as the heap's pop sequence.  The model started with
`picks = output` must reproduce exactly that output and leave no vertex alive (the heap is then
empty of existing vertices exactly when the C++ stops). -/
def handleFvs (c : Case) : String := Id.run do
  match parseGraph c.body with
  | none => return s!"diff {c.id} parse-graph"
  | some (g, rest) =>
    match findNats "fvs" rest with
    | none => return s!"diff {c.id} parse-fvs"
    | some out =>
      let s0 := fvsAfterInit g
      let sEnd := out.foldl (fvsPick g (fvsFuel g)) s0
      if sEnd.out != out then
        return s!"diff {c.id} picks model=[{showNats sEnd.out}] impl=[{showNats out}]"
      if sEnd.alive.any id then
        return s!"diff {c.id} leftover model-still-alive=[{showNats ((List.range g.n).filter sEnd.isAlive)}]"
      -- information: did every pick have maximum residual degree at its turn?
      return s!"ok {c.id} {g.n} {g.m} {out.length}"

def variantOf : String → Option Variant
  | "signed" => some .signed
  | "signed_tbb" => some .signedTbb
  | "fvs" | "iso" | "fvs_tbb" | "iso_tbb" => some .trees
  | "mpi_signed" | "mpi_fvs" | "mpi_iso" => some .mpi
  | _ => none

/-- parse `cycle k e1 … ek` lines -/
def parseCycles (rest : List (List String)) : Option (List (List Nat)) :=
  (rest.filter (fun l => l.head? == some "cycle")).mapM fun l => do
    let ns ← natsOf l.tail
    match ns with
    | k :: es => if es.length == k then some es else none
    | [] => none

/-- trace validation of one exact run in ForestIndex coordinates: every phase must satisfy the executable
part of `PhaseOK` against the model's support vector; per-phase optimum from `minOddWeight` (and from the
definitional `minOddBrute` when the graph is small enough).  Returns total weight and branch statistics. -/
def validateRun (id : String) (gI : Graph) (v : Variant) (dim : Nat) (cycI : List (List Nat))
    (sup0 : List (List Nat) := unitSupports dim) : Except String (Int × Nat × Nat × Bool) := do
  let sups := phaseSupports v 0 sup0 cycI
  let brute := decide (gI.m ≤ 11)
  let mut total : Int := 0
  let mut k := 0
  let mut branchAll := 0
  let mut branchHidden := 0
  for (cyc, S) in cycI.zip sups do
    if !(evenSetB gI cyc) then throw s!"viol {id} phase {k} not-in-cycle-space"
    if !(dotPar cyc S) then throw s!"diff {id} phase {k} even-against-model-support S=[{showNats S}] C=[{showNats cyc}]"
    let w := wt gI cyc
    -- verified acceptance: the potentials proposed by the driver's own Dijkstra certify that no odd element of
    -- the cycle space is lighter than `w` (`checkPotential_sound`); only if the certificate is rejected the
    -- unverified optimum is consulted to tell "not minimum" from "certificate problem"
    if !(checkPotential gI S (dijkstraPotentials gI S) w) then
      match minOddWeight gI S with
      | none => throw s!"diff {id} phase {k} model-finds-no-odd-cycle"
      | some mu =>
        if w != mu then throw s!"viol {id} phase {k} not-minimum weight={w} optimum={mu} S=[{showNats S}]"
        else throw s!"diff {id} phase {k} lower-bound-certificate-rejected weight={w}"
    if brute then
      if !(checkPhaseBrute gI S cyc) then
        match minOddBrute gI S with
        | some mu => throw s!"viol {id} phase {k} not-minimum-brute weight={w} optimum={mu}"
        | none => throw s!"diff {id} phase {k} brute-none"
    if S.length ≥ gI.n then branchAll := branchAll + 1 else branchHidden := branchHidden + 1
    total := total + w
    k := k + 1
  return (total, branchAll, branchHidden, brute)

/-- one reported odd-cycle search of `mcb_sva_signed` (hook) -/
structure SearchEv where
  phase : Nat
  hiddenBranch : Bool
  source : Nat
  limit : Option Int
  found : Option Int
  emptySigned : Bool
  hidden : List Nat

def parseSearchEvs (rest : List (List String)) : List SearchEv :=
  (rest.filter (fun l => l.head? == some "hs")).filterMap fun l =>
    match l with
    | _ :: ph :: hb :: src :: lim :: fnd :: w :: es :: hid =>
      some { phase := ph.toNat!, hiddenBranch := hb == "1", source := src.toNat!,
             limit := if lim == "-" then none else lim.toInt?,
             found := if fnd == "1" then w.toInt? else none, emptySigned := es == "1", hidden := (natsOf hid).getD [] }
    | _ => none

/-- literal correspondence of the search loops of `mcb_sva_signed` with the model, phase by phase: which
searches are issued (sources, hidden sets: `hiddenPairs` of the observed enumeration order, resp. one search
per vertex) and what each search returns (the signed-graph distance in the graph with the hidden edges
removed, below the limit) -/
def validateSearches (id : String) (gI : Graph) (sups : List (List Nat)) (evs : List SearchEv) (tbb : Bool := false) : Option String := Id.run do
  let mut k := 0
  for S in sups do
    let es0 := evs.filter (·.phase == k)
    -- under a parallel schedule the searches of a phase arrive in any order: the enumeration order of the hidden-edge
    -- heuristic is recovered from the sizes of the hidden sets
    let es := if tbb then es0.mergeSort (fun a b => a.hidden.length ≥ b.hidden.length) else es0
    if tbb && S.length == 1 then
      match es with
      | [e] =>
        if !(e.emptySigned && e.hiddenBranch && [e.source] == S && e.hidden == S) then
          return some s!"diff {id} phase {k} single-edge-shortcut searches [{e.source}] hidden [{showNats e.hidden}] expected [{showNats S}]"
      | _ => return some s!"diff {id} phase {k} single-edge-shortcut issues {es.length} searches"
    else if S.length ≥ gI.n then
      let srcs := if tbb then setOf (es.map (·.source)) else es.map (·.source)
      if srcs != List.range gI.n || es.length != gI.n then
        return some s!"diff {id} phase {k} all-vertices-branch searches-from [{showNats (es.map (·.source))}] expected every vertex once"
      if es.any (fun e => e.hiddenBranch || !e.hidden.isEmpty) then return some s!"diff {id} phase {k} wrong-branch"
    else
      let σ := es.map (·.source)
      if setOf σ != S || σ.length != S.length then
        return some s!"diff {id} phase {k} hidden-edge-branch searches-for [{showNats σ}] expected each signed edge of [{showNats S}] once"
      let mut i := 0
      for e in es do
        if !e.hiddenBranch then return some s!"diff {id} phase {k} wrong-branch"
        if setOf e.hidden != setOf (σ.drop i) then
          return some s!"diff {id} phase {k} search {i} edge {e.source} hidden-set [{showNats e.hidden}] expected [{showNats (σ.drop i)}]"
        i := i + 1
    -- results of the searches
    for e in es do
      let (a, b) := if e.hiddenBranch then (sgNode gI.n (gI.src e.source) true, sgNode gI.n (gI.tgt e.source) true)
                    else (sgNode gI.n e.source true, sgNode gI.n e.source false)
      let adjH := sgAdjHidden gI (if e.emptySigned then [] else S) e.hidden
      let d := (sgDijkstra adjH a)[b]!
      -- the literal model of bidirectional_signed_dijkstra (two different heaps) must compute the same value
      -- (`biDijkstra_correct` proves it for every heap; this executes it on the implementation's own searches)
      let expct : Option Int := match d, e.limit with
        | some dist, some l => if dist < l then some dist else none
        | some dist, none => some dist
        | none, _ => none
      if a != b && (biDijkstra adjH pickHead e.limit a b != expct || biDijkstra adjH pickLast e.limit a b != expct) then
        return some s!"diff {id} phase {k} search-from {e.source} model-self-check: literal bidirectional model disagrees with the signed-graph distance"
      match e.found, d with
      | some w, some dist =>
        if w != dist then return some s!"diff {id} phase {k} search-from {e.source} returns {w}, signed-graph distance {dist}"
        match e.limit with
        | some l => if w ≥ l then return some s!"diff {id} phase {k} search-from {e.source} returns {w} not below the limit {l}"
        | none => pure ()
      | some w, none => return some s!"diff {id} phase {k} search-from {e.source} returns {w} but the target is unreachable"
      | none, none => pure ()                        -- not found: unreachable
      | none, some dist =>
        -- not found although reachable: legitimate when the distance is not below the limit, or when a shortest
        -- walk repeats an edge of g ("duplicate edge, discard cycle")
        let below := match e.limit with | some l => decide (dist < l) | none => true
        if below && !(sgShortestMayRepeat gI (if e.emptySigned then [] else S) e.hidden a b dist) then
          return some s!"diff {id} phase {k} search-from {e.source} returns nothing although the target is at distance {dist} below the limit and no shortest walk repeats an edge"
    k := k + 1
  return none

/-- lexicographic order on edge-id lists (for comparing collections of cycles as multisets) -/
def natListLe : List Nat → List Nat → Bool
  | [], _ => true
  | _ :: _, [] => false
  | a :: r, b :: q => a < b || (a == b && natListLe r q)

/-- **literal replay of a tree variant** (`Model/TreesAlgo.lean`) on the graph in ForestIndex coordinates, with the sorted
candidate list the C++ reported (hook `report_candidates`): the observed list must consist of created candidates of the
model's trees, stand for exactly the cycles of the model's collection, and be sorted by weight — these are the hypotheses
of `C02.c02_fvs_trees_end_to_end` / `c02_iso_trees_end_to_end` — and then the literal main loop must emit EXACTLY the
cycles the C++ emitted, phase by phase, and the same total. -/
def replayTrees (id : String) (gI : Graph) (var : String) (dim : Nat) (rest : List (List String))
    (cycI : List (List Nat)) (ret : Option Int) : Option String := Id.run do
  let scs : List (Nat × Nat × Nat × Int) := (rest.filter (fun l => l.head? == some "sc")).filterMap fun l =>
    match l.tail with
    | [t, s, e, w] => do some ((← t.toNat?), (← s.toNat?), (← e.toNat?), (← w.toInt?))
    | _ => none
  match findNats "nsc" rest with
  | some [k] => if k != scs.length then return some s!"diff {id} parse-sc-lines"
  | _ => return some s!"diff {id} parse-nsc"
  let (trees, coll) := if var == "fvs" then fvsCands gI ((findNats "fvs" rest).getD []) else isoCands gI
  let obs : List Cand := scs.map fun (t, _, e, w) => { tree := t, edge := e, weight := w }
  for (t, s, e, w) in scs do
    match trees[t]? with
    | none => return some s!"diff {id} sorted-candidates tree-id {t} out of range (model has {trees.length} trees)"
    | some tr =>
      if tr.source != s then return some s!"diff {id} sorted-candidates tree {t} rooted at {s}, model {tr.source}"
      let c : Cand := { tree := t, edge := e, weight := w }
      if !((createCandidates gI tr t (List.range gI.m)).contains c) then
        return some s!"diff {id} sorted-candidates ({t},{e},{w}) is not a candidate of the model's tree {t}"
  let cyclesOf (l : List Cand) : List (List Nat) :=
    (l.filterMap fun c => (trees[c.tree]?).bind fun t => unfoldCand gI t c).mergeSort natListLe
  if cyclesOf obs != cyclesOf coll || obs.length != coll.length then
    return some s!"diff {id} sorted-candidates stand for other cycles than the model's {var} collection (observed {obs.length}, model {coll.length})"
  if !(obs.zip obs.tail).all (fun (a, b) => a.weight ≤ b.weight) then
    return some s!"viol {id} candidate list not sorted by weight"
  let r := mcbTreesCore dim (fun _ S => lookupSorted gI trees obs S)
  let mut k := 0
  for (a, b) in r.cycles.zip cycI do
    if a != b then return some s!"diff {id} literal-trees-loop phase {k} model=[{showNats a}] impl=[{showNats b}]"
    k := k + 1
  if r.cycles.length != cycI.length then return some s!"diff {id} literal-trees-loop phases model={r.cycles.length} impl={cycI.length}"
  if ret.isSome && some r.weight != ret then return some s!"diff {id} literal-trees-loop weight model={r.weight} impl={ret}"
  return none

/-- **literal replay of `mcb_sva_signed`** (`Model/HeapAlgo.lean`: every search on two literal 4-ary heaps) on the graph in
ForestIndex coordinates.  The only input besides the graph is, per phase of the hidden-edge branch, the iteration order of
the `std::set` of signed edges, read off the first reported search of that phase (its hidden set is the whole set, in set
order).  The model must emit EXACTLY the cycles the C++ emitted, phase by phase, and the same total. -/
def replaySigned (id : String) (gI : Graph) (rev : List Nat) (dim : Nat) (evs : List SearchEv) (cycI : List (List Nat))
    (ret : Option Int) : Option String := Id.run do
  let sigma := fun (k : Nat) (S : List Nat) =>
    match evs.find? (fun e => e.phase == k && e.hiddenBranch) with
    | some e => e.hidden
    | none => S
  let r := mcbSignedCore .signed dim (unitSupports dim) (fun k S => signedPhaseSearchH gI rev (sigma k S) S)
  let mut k := 0
  for (a, b) in r.cycles.zip cycI do
    if a != b then return some s!"diff {id} literal-signed-loop phase {k} model=[{showNats a}] impl=[{showNats b}]"
    k := k + 1
  if r.cycles.length != cycI.length then return some s!"diff {id} literal-signed-loop phases model={r.cycles.length} impl={cycI.length}"
  if ret.isSome && some r.weight != ret then return some s!"diff {id} literal-signed-loop weight model={r.weight} impl={ret}"
  return none

/-- parse a schedule term `L a:b | S(l,r) | F(l,r)` (what the TBB stand-in logs for one `parallel_reduce`) -/
partial def parseSchedAux (cs : List Char) : Option (Sched × List Char) :=
  match cs with
  | 'L' :: r =>
    let a := r.takeWhile Char.isDigit
    match r.dropWhile Char.isDigit with
    | ':' :: r2 =>
      let b := r2.takeWhile Char.isDigit
      match (String.ofList a).toNat?, (String.ofList b).toNat? with
      | some x, some y => some (.leaf x y, r2.dropWhile Char.isDigit)
      | _, _ => none
    | _ => none
  | k :: '(' :: r =>
    if k == 'S' || k == 'F' then
      match parseSchedAux r with
      | some (l, ',' :: r2) =>
        match parseSchedAux r2 with
        | some (rt, ')' :: r3) => some (if k == 'S' then .seq l rt else .fork l rt, r3)
        | _ => none
      | _ => none
    else none
  | _ => none

def parseSched (s : String) : Option Sched :=
  match parseSchedAux s.toList with
  | some (t, []) => some t
  | _ => none

/-- the `sched <n> <term>` lines of a run under the TBB stand-in, in call order -/
def parseScheds (rest : List (List String)) : List (Nat × Option Sched) :=
  (rest.filter (fun l => l.head? == some "sched")).map fun l =>
    ((l.getD 1 "").toNat?.getD 0, parseSched (l.getD 2 ""))

/-- **literal replay of a TBB variant under the stand-in scheduler**: the schedule of every `parallel_reduce` of the run is
reported as a term of `Sched`; the literal models (`mcbSignedTbbH` on literal heaps; `lookupTbb` for the tree variants)
executed under exactly those schedules must emit EXACTLY the cycles the C++ templates emitted under the stand-in. -/
def replayTbb (id : String) (gI : Graph) (rev : List Nat) (var : String) (dim : Nat) (sup0 : List (List Nat))
    (rest : List (List String)) (evs : List SearchEv) (cycI : List (List Nat)) (ret : Option Int)
    (trailing : Nat := 0) : Option String := Id.run do
  -- `trailing` = number of reduces at the end of the run that do not belong to the exact phase (the approximate
  -- builder's weight reduction)
  let scheds := (parseScheds rest).reverse.drop trailing |>.reverse
  if scheds.any (fun p => p.2.isNone) then return some s!"diff {id} parse-sched"
  let schedAt := fun (i : Nat) => ((scheds[i]?).bind (·.2)).getD (.leaf 0 0)
  if var == "signed_tbb" then
    -- which phases run a reduce: every phase whose support has more than one entry, in phase order
    let sups := phaseSupports .signedTbb 0 sup0 cycI
    let mut table : List Nat := []
    let mut next := 0
    for S in sups do
      if S.length == 1 then table := table ++ [0]
      else
        table := table ++ [next]; next := next + 1
    if next != scheds.length then return some s!"diff {id} literal-tbb-loop reduces model={next} impl={scheds.length}"
    let sigma := fun (k : Nat) (S : List Nat) =>
      let cands := evs.filter (fun e => e.phase == k && e.hiddenBranch && !e.emptySigned)
      match cands.foldl (fun (best : Option SearchEv) e => match best with
          | none => some e
          | some b => if b.hidden.length < e.hidden.length then some e else some b) none with
      | some e => e.hidden
      | none => S
    let r := mcbSignedCore .signedTbb dim sup0
      (fun k S => signedPhaseSearchTbbH gI rev (sigma k S) S (schedAt (table.getD k 0)))
    let mut k := 0
    for (a, b) in r.cycles.zip cycI do
      if a != b then return some s!"diff {id} literal-tbb-loop phase {k} model=[{showNats a}] impl=[{showNats b}]"
      k := k + 1
    if r.cycles.length != cycI.length then return some s!"diff {id} literal-tbb-loop phases"
    if ret.isSome && some r.weight != ret then return some s!"diff {id} literal-tbb-loop weight model={r.weight} impl={ret}"
    return none
  else
    -- tree variants: one reduce per phase
    if scheds.length != dim then return some s!"diff {id} literal-tbb-loop reduces model={dim} impl={scheds.length}"
    let scs : List (Nat × Nat × Nat × Int) := (rest.filter (fun l => l.head? == some "sc")).filterMap fun l =>
      match l.tail with
      | [t, s, e, w] => do some ((← t.toNat?), (← s.toNat?), (← e.toNat?), (← w.toInt?))
      | _ => none
    let (trees, _) := if var == "fvs_tbb" then fvsCands gI ((findNats "fvs" rest).getD []) else isoCands gI
    let obs : List Cand := scs.map fun (t, _, e, w) => { tree := t, edge := e, weight := w }
    let r := mcbTreesCore dim (fun k S => lookupTbb gI trees obs S (schedAt k))
    let mut k := 0
    for (a, b) in r.cycles.zip cycI do
      if a != b then return some s!"diff {id} literal-tbb-loop phase {k} model=[{showNats a}] impl=[{showNats b}]"
      k := k + 1
    if r.cycles.length != cycI.length then return some s!"diff {id} literal-tbb-loop phases"
    if ret.isSome && some r.weight != ret then return some s!"diff {id} literal-tbb-loop weight model={r.weight} impl={ret}"
    return none

/-- **literal replay of `mcb_sva_signed_mpi`** (rank 0's view, `Model/MpiAlgo.lean` with literal heaps): per phase every
rank reduces its ceil-stride slice of the signed edges (forest-index order, hidden sets = suffixes) or of the vertices under
the schedule its stand-in logged; `boost::mpi::reduce` combines the rank results along a tree we cannot observe, so what
rank 0 emits must be the result of SOME rank whose weight is the minimum over the ranks (with distinct weights: the unique
minimum).  The supports follow the literal bookkeeping with the emitted cycles. -/
def replayMpiSigned (id : String) (gI : Graph) (rev : List Nat) (_dim : Nat) (sup0 : List (List Nat)) (P : Nat)
    (rest : List (List String)) (cycI : List (List Nat)) : Option String := Id.run do
  -- per rank: its schedules in call order
  let rs := rest.filter (fun l => l.head? == some "rsched")
  let mut next : List Nat := List.replicate P 0
  let schedOf := fun (r i : Nat) =>
    ((rs.filter (fun l => (l.getD 1 "").toNat? == some r))[i]?).bind fun l => parseSched (l.getD 3 "")
  let sups := phaseSupports .mpi 0 sup0 cycI
  let mut k := 0
  for (S, cyc) in sups.zip cycI do
    match S with
    | [e] =>
      match singleEdgeTbbH gI rev e with
      | some (_, Z) => if Z != cyc then return some s!"diff {id} literal-mpi-loop phase {k} single-edge model=[{showNats Z}] impl=[{showNats cyc}]"
      | none => return some s!"diff {id} literal-mpi-loop phase {k} single-edge model finds nothing"
    | _ =>
      let total := if S.length < gI.n then S.length else gI.n
      let mut results : List (Int × List Nat) := []
      for r in List.range P do
        let lo := sliceLo total P r
        let some sch := schedOf r (next.getD r 0) | return some s!"diff {id} literal-mpi-loop phase {k} rank {r}: schedule missing"
        next := next.set r (next.getD r 0 + 1)
        let srch : Nat → Option Int → Cyc (List Nat) :=
          if S.length < gI.n then fun j L => hiddenIndexTbbH gI rev S S (lo + j) L
          else fun j L => searchSignedH gI rev S [] (lo + j) true (lo + j) false L
        match reduceMin srch sch with
        | some x => results := results ++ [x]
        | none => pure ()
      match results.foldl (fun (m : Option Int) x => match m with | none => some x.1 | some w => some (if x.1 < w then x.1 else w)) none with
      | none => return some s!"diff {id} literal-mpi-loop phase {k}: no rank finds a cycle"
      | some w =>
        if !(results.any fun x => x.1 == w && x.2 == cyc) then
          return some s!"diff {id} literal-mpi-loop phase {k} impl=[{showNats cyc}] is not a minimum-weight rank result; rank results {results.map fun x => (x.1, x.2)}"
    k := k + 1
  return none

/-- **literal replay of the MPI tree variants** (`Model/MpiAlgo.lean`).  Rank 0's collection is the model's (FVS observed / isometric);
every rank's chunk, trees and candidates are REBUILT by the model (`rankChunk`, `rankCollection`) and must be, as a multiset, the
sorted local list that rank reports (hook 5536bbc), which must be sorted by weight; then per phase every rank's lookup is evaluated
literally on ITS reported order (`lookupSorted`; the TBB entry points under the schedule the stand-in logged) and what rank 0 emits
must be the result of SOME rank whose weight is the minimum over the ranks (the reduction tree of `boost::mpi::reduce` is not
observable; with distinct weights: the unique minimum). -/
def replayMpiTrees (id : String) (gI : Graph) (var : String) (tbb : Bool) (dim P : Nat)
    (rest : List (List String)) (cycI : List (List Nat)) : Option String := Id.run do
  let (treesAll, coll) := if var == "mpi_fvs" then fvsCands gI ((findNats "fvs" rest).getD []) else isoCands gI
  let rscs := rest.filter (fun l => l.head? == some "rsc")
  let mut locals : List (List SPTree × List Cand) := []
  let mut sizes : List Nat := []
  let mut unionCyc : List (List Nat) := []
  let mut unionPairs : List (Nat × Nat) := []
  for r in List.range P do
    let mine := rscs.filter (fun l => (l.getD 1 "").toNat? == some r)
    let obs : List (Cand × Nat) := mine.filterMap fun l =>
      match l.drop 2 with
      | [t, s, e, w] => do some ({ tree := (← t.toNat?), edge := (← e.toNat?), weight := (← w.toInt?) }, (← s.toNat?))
      | _ => none
    match (rest.find? fun l => l.head? == some "rnsc" && (l.getD 1 "").toNat? == some r) with
    | some l => if (l.getD 2 "").toNat? != some obs.length then return some s!"diff {id} rank {r}: parse-rsc-lines"
    | none => return some s!"diff {id} rank {r}: no candidate report"
    -- the rank's chunk as it arrived = the (root, edge) pairs of its local candidates; trees and candidates rebuilt by the model
    let chunk := obs.map fun (c, s) => (s, c.edge)
    let rc := rankCollection gI chunk
    for (c, s) in obs do
      match rc.1[c.tree]? with
      | none => return some s!"diff {id} rank {r}: tree id {c.tree} out of range (model rebuilds {rc.1.length} trees)"
      | some t => if t.source != s then return some s!"diff {id} rank {r}: tree {c.tree} rooted at {s}, model {t.source}"
    let oc := obs.map (·.1)
    if oc.length != rc.2.length || !(oc.all rc.2.contains) || !(rc.2.all oc.contains) then
      return some s!"diff {id} rank {r}: local candidates are not what the model rebuilds from the rank's chunk (observed {oc.length}, model {rc.2.length})"
    if !(oc.zip oc.tail).all (fun (a, b) => a.weight ≤ b.weight) then
      return some s!"viol {id} rank {r}: local candidate list not sorted by weight"
    locals := locals ++ [(rc.1, oc)]
    sizes := sizes ++ [oc.length]
    unionPairs := unionPairs ++ chunk
    unionCyc := unionCyc ++ oc.filterMap fun c => (rc.1[c.tree]?).bind fun t => unfoldCand gI t c
  -- the scatter: ceil-stride chunk sizes, and all chunks together are rank 0's collection (FVS: the same (root, edge) pairs;
  -- isometric: candidates standing for the same cycles — which representative of a class is kept depends on the edge order)
  let total := sizes.foldl (· + ·) 0
  if total != coll.length then return some s!"diff {id} scattered candidates {total}, model collection {coll.length}"
  if sizes != (List.range P).map (fun r => (slice total P r).length) then
    return some s!"diff {id} chunk sizes {sizes} are not the ceil-stride slices of {total} over {P} ranks"
  let pairLe : Nat × Nat → Nat × Nat → Bool := fun a b => a.1 < b.1 || (a.1 == b.1 && a.2 ≤ b.2)
  if var == "mpi_fvs" && unionPairs.mergeSort pairLe != (coll.map (serialise treesAll)).mergeSort pairLe then
    return some s!"diff {id} the chunks together are not the model's FVS collection"
  let collCyc := (coll.filterMap fun c => (treesAll[c.tree]?).bind fun t => unfoldCand gI t c).mergeSort natListLe
  if unionCyc.mergeSort natListLe != collCyc then
    return some s!"diff {id} the chunks together stand for other cycles than the model's collection"
  let rs := rest.filter (fun l => l.head? == some "rsched")
  let schedOf := fun (r i : Nat) =>
    ((rs.filter (fun l => (l.getD 1 "").toNat? == some r))[i]?).bind fun l => parseSched (l.getD 3 "")
  let sups := phaseSupports .mpi 0 (unitSupports dim) cycI
  let mut k := 0
  for (S, cyc) in sups.zip cycI do
    let mut results : List CycW := []
    for r in List.range P do
      let (tr, cs) := locals.getD r ([], [])
      let mut res : Option CycW := none
      if tbb then
        match schedOf r k with
        | some sch => res := lookupTbb gI tr cs S sch
        | none => return some s!"diff {id} literal-mpi-trees phase {k} rank {r}: schedule missing"
      else res := lookupSorted gI tr cs S
      match res with
      | some x => results := results ++ [x]
      | none => pure ()
    match results.foldl (fun (m : Option Int) x => match m with | none => some x.2 | some w => some (if x.2 < w then x.2 else w)) none with
    | none => return some s!"diff {id} literal-mpi-trees phase {k}: no rank finds a cycle"
    | some w =>
      if !(results.any fun x => x.2 == w && x.1 == cyc) then
        return some s!"diff {id} literal-mpi-trees phase {k} impl=[{showNats cyc}] is not a minimum-weight rank result; rank results {results}"
    k := k + 1
  return none

/-- C01/C02: the implementation's cycles are replayed through the literal support bookkeeping -/
def handleExact (c : Case) : String := Id.run do
  match parseGraph c.body with
  | none => return s!"diff {c.id} parse-graph"
  | some (g, rest) =>
    let var := c.args.getD 2 ""
    match variantOf var, findNats "index" rest, findNats "dim" rest, parseCycles rest, findLine "ret" rest with
    | some v, some index, some [dim], some cycles, some (retS :: _) =>
      let some ret := retS.toInt? | return s!"diff {c.id} parse-ret"
      if index.length != g.m then return s!"diff {c.id} index-length"
      let rev := (List.range g.m).map (fun i => indexOfNat index i)
      let gI : Graph := { n := g.n, edges := rev.map (fun e => g.edges.getD e (0, 0, 0)) }
      if cycles.length != dim then return s!"viol {c.id} count emitted={cycles.length} dim={dim}"
      let cycI := cycles.map (fun cyc => setOf (cyc.map (fun e => index.getD e 0)))
      if (cycles.zip cycI).any (fun (a, b) => a.length != b.length) then return s!"viol {c.id} repeated-edge-in-cycle"
      -- TBB variants fill the support vector by concurrent push_backs: the observed order is the start state
      let sup0 := match findNats "init" rest with
        | some ord => ord.map fun i => [i]
        | none => unitSupports dim
      if sup0.length != dim || !((List.range dim).all fun i => sup0.contains [i]) then
        return s!"viol {c.id} support-initialisation-is-not-a-permutation-of-the-unit-vectors"
      match validateRun c.id gI v dim cycI sup0 with
      | .error e => return e
      | .ok (total, bA, bH, brute) =>
        if total != ret then return s!"viol {c.id} ret returned={ret} emitted-weight={total}"
        let evs := parseSearchEvs rest
        if (var == "signed" || var == "signed_tbb" || var == "mpi_signed") && !evs.isEmpty then
          -- MPI: the union of the searches of ALL ranks must be the searches of the sequential heuristic (c04_pairs_same_order)
          match validateSearches c.id gI (phaseSupports v 0 sup0 cycI) evs (var != "signed") with
          | some d => return d
          | none => pure ()
        let mut lit := 0
        if (var == "fvs" || var == "iso") && (findLine "nsc" rest).isSome then
          match replayTrees c.id gI var dim rest cycI (some ret) with
          | some d => return d
          | none => lit := 1
        if (var == "signed_tbb" || var == "fvs_tbb" || var == "iso_tbb") && (findLine "shim" rest).isSome
            && (var != "signed_tbb" || !evs.isEmpty || dim == 0) then
          match replayTbb c.id gI rev var dim sup0 rest evs cycI (some ret) with
          | some d => return d
          | none => lit := 1
        if var == "mpi_signed" && (findLine "rsched" rest).isSome then
          let P := match findLine "entry" rest with | some [_, p] => p.toNat?.getD 1 | _ => 1
          match replayMpiSigned c.id gI rev dim sup0 P rest cycI with
          | some d => return d
          | none => lit := 1
        if (var == "mpi_fvs" || var == "mpi_iso") && (findLine "rnsc" rest).isSome then
          let (P, tbb) := match findLine "entry" rest with
            | some [e, p] => (p.toNat?.getD 1, e.endsWith "_tbb")
            | _ => (1, false)
          if !tbb || (findLine "rsched" rest).isSome || dim == 0 then
            match replayMpiTrees c.id gI var tbb dim P rest cycI with
            | some d => return d
            | none => lit := 1
        if var == "signed" && (!evs.isEmpty || dim == 0) then
          match replaySigned c.id gI rev dim evs cycI (some ret) with
          | some d => return d
          | none => lit := 1
        return s!"ok {c.id} {g.n} {g.m} {dim} {total} {bA} {bH} {if brute then 1 else 0} {evs.length} {lit}"
    | _, _, _, _, _ => return s!"diff {c.id} parse-exact-lines"

/-- C15: literal replay of the spanner construction with the observed scan order -/
def handleSpanner (c : Case) : String := Id.run do
  match parseGraph c.body with
  | none => return s!"diff {c.id} parse-graph"
  | some (g, rest) =>
    let some k := (c.args.getD 2 "").toNat? | return s!"diff {c.id} parse-k"
    match findNats "scan" rest, findNats "retained" rest, findNats "dropped" rest, findNats "spn" rest with
    | some scan, some retained, some dropped, some [spn] =>
      if !(scanOkB g scan) then return s!"viol {c.id} scan-order-not-sorted-permutation"
      let (R, D) := constructSpanner g k scan
      if R != retained then return s!"diff {c.id} retained model=[{showNats R}] impl=[{showNats retained}]"
      if D != dropped then return s!"diff {c.id} dropped model=[{showNats D}] impl=[{showNats dropped}]"
      if spn != g.n then return s!"viol {c.id} spanner-vertex-count {spn}"
      -- the spanner graph itself: endpoints and weights of its edges, in its own edge order
      let spes := rest.filter (fun l => l.head? == some "spe")
      let sp := spannerGraph g R
      let modelSp := sp.edges.map fun (u, v, w) => s!"{u} {v} {w}"
      let implSp := spes.map fun l => " ".intercalate l.tail
      if modelSp != implSp then return s!"viol {c.id} spanner-edges model=[{modelSp}] impl=[{implSp}]"
      return s!"ok {c.id} {g.n} {g.m} {k} {R.length} {D.length}"
    | _, _, _, _ => return s!"diff {c.id} parse-spanner-lines"

def approxVariantOf : String → Option Variant
  | "signed" => some .signed
  | "signed_tbb" => some .signedTbb
  | "fvs" | "iso" | "fvs_tbb" | "iso_tbb" => some .trees
  | _ => none

/-- plain shortest-path distance in `g` restricted to the edge ids `R` -/
def spDist (g : Graph) (R : List Nat) (a b : Nat) : Option Int :=
  let sp := spannerGraph g R
  (sgDijkstra (sgAdj sp []) a)[b]!

/-- C05/C06: trace validation of an approximate run: spanner replay, exact phase on the spanner in the
spanner's own ForestIndex coordinates, one shortest-path cycle per dropped edge -/
def handleApprox (c : Case) : String := Id.run do
  match parseGraph c.body with
  | none => return s!"diff {c.id} parse-graph"
  | some (g, rest) =>
    let var := c.args.getD 2 ""
    let some k := (c.args.getD 3 "").toNat? | return s!"diff {c.id} parse-k"
    if k == 0 then
      match findNats "throw" rest with
      | some [0] => return s!"ok {c.id} {g.n} {g.m} 0 0 0 0 0 0"
      | _ => return s!"viol {c.id} k=0-not-rejected-cleanly"
    match approxVariantOf var, findNats "order" rest, findNats "scan" rest, findNats "retained" rest,
          findNats "dropped" rest, parseCycles rest, findLine "ret" rest, findNats "foreign" rest with
    | some v, some order, some scan, some retained, some dropped, some cycles, some (retS :: _), some [foreign] =>
      let some ret := retS.toInt? | return s!"diff {c.id} parse-ret"
      if foreign != 0 then return s!"viol {c.id} emits-{foreign}-descriptors-that-are-not-edges-of-the-callers-graph"
      if !(scanOkB g scan) then return s!"viol {c.id} scan-order-not-sorted-permutation"
      let (R, D) := constructSpanner g k scan
      if R != retained || D != dropped then return s!"diff {c.id} spanner model=[{showNats R}|{showNats D}] impl=[{showNats retained}|{showNats dropped}]"
      let sp := spannerGraph g R
      let fi := createIndex sp order
      if cycles.length != fi.dim + D.length then
        return s!"viol {c.id} count emitted={cycles.length} spanner-dim={fi.dim} dropped={D.length}"
      let exact := cycles.take fi.dim
      let extra := cycles.drop fi.dim
      -- exact phase: translate g ids -> spanner positions -> spanner forest index
      let gI := reindex sp fi
      let pos := fun (e : Nat) => indexOfNat R e
      if exact.any (fun cyc => cyc.any (fun e => !(R.contains e))) then return s!"viol {c.id} spanner-phase-cycle-uses-non-spanner-edge"
      let cycI := exact.map (fun cyc => setOf (cyc.map (fun e => fi.index.getD (pos e) 0)))
      if (exact.zip cycI).any (fun (a, b) => a.length != b.length) then return s!"viol {c.id} repeated-edge-in-cycle"
      let mut total : Int := 0
      let sup0 := match findNats "init" rest with
        | some ord => ord.map fun i => [i]
        | none => unitSupports fi.dim
      if sup0.length != fi.dim || !((List.range fi.dim).all fun i => sup0.contains [i]) then
        return s!"viol {c.id} support-initialisation-is-not-a-permutation-of-the-unit-vectors"
      match validateRun c.id gI v fi.dim cycI sup0 with
      | .error e => return e
      | .ok (t, _, _, _) => total := t
      -- literal replay of the exact phase on the spanner (sequential variants): `Model/HeapAlgo.lean` / `Model/TreesAlgo.lean`
      -- on the spanner graph in its own ForestIndex coordinates must emit EXACTLY the spanner cycles the C++ emitted
      let mut litExact := 0
      if var == "signed" && sup0 == unitSupports fi.dim then
        let evs := parseSearchEvs rest
        if !evs.isEmpty || fi.dim == 0 then
          match replaySigned c.id gI fi.reverse fi.dim evs cycI none with
          | some d => return d
          | none => litExact := 1
      if (var == "fvs" || var == "iso") && (findLine "nsc" rest).isSome then
        -- the sequential approx_mcb_sva_iso_trees instantiates the FVS-tree exact algorithm (parmcb_approx_sva_trees.hpp:49;
        -- the model `approxIsoTrees` follows the code); a run over the isometric collection is accepted as well
        match replayTrees c.id gI "fvs" fi.dim rest cycI none with
        | none => litExact := 1
        | some d =>
          if var == "iso" then
            match replayTrees c.id gI "iso" fi.dim rest cycI none with
            | none => litExact := 1
            | some _ => return d
          else return d
      -- the TBB variants under the stand-in: the exact phase on the spanner under the logged schedules (the last reduce of the
      -- run is the builder's weight reduction and is not part of the exact phase)
      if (var == "signed_tbb" || var == "fvs_tbb" || var == "iso_tbb") && (findLine "shim" rest).isSome then
        let evs := parseSearchEvs rest
        if var != "signed_tbb" || !evs.isEmpty || fi.dim == 0 then
          match replayTbb c.id gI fi.reverse var fi.dim sup0 rest evs cycI none 1 with
          | some d => return d
          | none => litExact := 1
      -- one cycle per dropped edge (any order: the TBB variant appends concurrently)
      let mut remaining := D
      for cyc in extra do
        match cyc.getLast? with
        | none => return s!"viol {c.id} empty-edge-cycle"
        | some e =>
          if !(remaining.contains e) then return s!"diff {c.id} edge-cycle-for-unexpected-edge {e}"
          remaining := remaining.erase e
          let path := cyc.dropLast
          if path.any (fun f => !(R.contains f)) then return s!"viol {c.id} path-uses-non-spanner-edge"
          if !(isWalk g path (g.tgt e) (g.src e)) then return s!"viol {c.id} path-is-not-a-walk-between-the-endpoints-of {e}"
          let pw := (path.map g.weight).sum
          match spDist g R (g.src e) (g.tgt e) with
          | some d => if pw != d then return s!"viol {c.id} path-not-shortest edge={e} weight={pw} dist={d}"
          | none => return s!"diff {c.id} model-finds-no-spanner-path"
          total := total + pw + g.weight e
          -- literal: parmcb::dijkstra on a literal 4-ary heap from source(e), walked back from target(e)
          -- (`Model/HeapAlgo.lean`) must produce EXACTLY this edge list, in this order
          let lit := (nonSpannerCycleH g R e).1
          if lit != cyc then return s!"diff {c.id} literal-dijkstra-path edge={e} model=[{showNats lit}] impl=[{showNats cyc}]"
      if !remaining.isEmpty then return s!"viol {c.id} dropped-edges-without-cycle [{showNats remaining}]"
      if total != ret then return s!"viol {c.id} ret returned={ret} emitted-weight={total}"
      return s!"ok {c.id} {g.n} {g.m} {k} {fi.dim} {D.length} {total} {D.length} {litExact}"
    | _, _, _, _, _, _, _, _ => return s!"diff {c.id} parse-approx-lines"

def showOptNats (l : List (Option Nat)) : String :=
  " ".intercalate (l.map fun | some x => toString x | none => "-")
def showOptInts (l : List (Option Int)) : String :=
  " ".intercalate (l.map fun | some x => toString x | none => "-")

def parseOptInts (ws : List String) : List (Option Int) := ws.map fun w => if w == "-" then none else w.toInt?
def parseOptNats (ws : List String) : List (Option Nat) := ws.map fun w => if w == "-" then none else w.toNat?

/-- C12: the shortest-path tree of every source: literal comparison with the model AND the proved
certificates (`checkSPT`, `checkFirst`, `checkConsistent`) run on the IMPLEMENTATION's trees -/
def handleTrees (c : Case) : String := Id.run do
  match parseGraph c.body with
  | none => return s!"diff {c.id} parse-graph"
  | some (g, rest) =>
    let mut cur := rest
    let mut cnt := 0
    let mut implTrees : List SPTree := []
    let mut firstDiff : Option String := none
    while true do
      match cur with
      | ["tree", s] :: ("dist" :: ds) :: ("pred" :: ps) :: ("first" :: fs) :: r =>
        let s := s.toNat!
        let ti : SPTree := { source := s, dist := parseOptInts ds, pred := parseOptNats ps, first := (natsOf fs).getD [] }
        implTrees := implTrees ++ [ti]
        if !(checkSPT g ti) then return s!"viol {c.id} tree {s} fails-the-shortest-path-certificate"
        if !(checkFirst g ti) then return s!"viol {c.id} tree {s} first-in-path-labels-wrong"
        let t := buildTree g s
        if firstDiff.isNone then
          if showOptInts t.dist != " ".intercalate ds then
            firstDiff := some s!"diff {c.id} tree {s} dist model=[{showOptInts t.dist}] impl=[{" ".intercalate ds}]"
          else if showOptNats ((List.range g.n).map fun v => t.pred.getD v none) != " ".intercalate ps then
            firstDiff := some s!"diff {c.id} tree {s} pred model=[{showOptNats t.pred}] impl=[{" ".intercalate ps}]"
          else if showNats t.first != " ".intercalate fs then
            firstDiff := some s!"diff {c.id} tree {s} first model=[{showNats t.first}] impl=[{" ".intercalate fs}]"
        cur := r; cnt := cnt + 1
      | _ => break
    if cnt != g.n then return s!"diff {c.id} tree-count {cnt}"
    if !(checkConsistent g implTrees) then return s!"viol {c.id} trees-not-mutually-consistent"
    match firstDiff with
    | some d => return d
    | none => return s!"ok {c.id} {g.n} {g.m} {cnt}"

def showCands (l : List Cand) : List String := l.map fun c => s!"{c.tree} {c.edge} {c.weight}"

/-- C14: Horton / FVS collections compared with the model (same order), every candidate unfolded -/
def handleCands (c : Case) : String := Id.run do
  match parseGraph c.body with
  | none => return s!"diff {c.id} parse-graph"
  | some (g, rest) =>
    let which := c.args.getD 2 ""
    let impl := (rest.filter (fun l => l.head? == some "cand")).map fun l => " ".intercalate l.tail
    let some tsrc := findNats "tsrc" rest | return s!"diff {c.id} parse-tsrc"
    let (trees, cands) :=
      if which == "horton" then hortonCands g
      else if which == "fvs" then fvsCands g ((findNats "fvs" rest).getD [])
      else if which == "iso" then isoCands g
      else ([], [])
    if which == "horton" || which == "fvs" || which == "iso" then
      if trees.map (·.source) != tsrc then return s!"diff {c.id} tree-sources"
      if showCands cands != impl then
        return s!"diff {c.id} candidates model={showCands cands} impl={impl}"
      -- soundness of every candidate: unfolds to an element of the cycle space of the recorded weight
      for cd in cands do
        match trees[cd.tree]? with
        | none => return s!"diff {c.id} tree-id"
        | some t =>
          match unfoldCand g t cd with
          | none => return s!"viol {c.id} candidate-paths-share-an-edge tree={cd.tree} edge={cd.edge}"
          | some Z =>
            if !(evenSetB g Z) then return s!"viol {c.id} candidate-not-in-cycle-space tree={cd.tree} edge={cd.edge}"
            if wt g Z != cd.weight then return s!"viol {c.id} candidate-weight recorded={cd.weight} true={wt g Z}"
      return s!"ok {c.id} {g.n} {g.m} {cands.length}"
    return s!"ok {c.id} {g.n} {g.m} {impl.length}"

end Parmcb.Driver
