import Parmcb.Driver.Proto
import Parmcb.Driver.Gf2
import Parmcb.Driver.Fp
import Parmcb.Driver.Graph
import Parmcb.Driver.Knob
import Parmcb.Driver.Dimacs
import Parmcb.Driver.Demo
import Parmcb.Driver.Float
open Parmcb.Driver

def dispatch (c : Case) : String :=
  match c.kind with
  | "gf2" => handleGf2 c
  | "fp" => handleFp c
  | "fpvec" => handleFpVec c
  | "forest" => handleForest c
  | "fvs" => handleFvs c
  | "exact" => handleExact c
  | "knob" => handleKnob c
  | "dimacs" => handleDimacs c
  | "demo" => handleDemo c
  | "spanner" => handleSpanner c
  | "trees" => handleTrees c
  | "cands" => handleCands c
  | "approx" => handleApprox c
  | "fsum" => handleFsum c
  | "fspt" => handleFspt c
  | "exactq" => handleExactQ c
  | k => s!"diff {c.id} unknown-kind {k}"

partial def readAll (h : IO.FS.Stream) (acc : Array String) : IO (Array String) := do
  let line ← h.getLine
  if line.isEmpty then return acc else readAll h (acc.push line)

def main : IO Unit := do
  let stdin ← IO.getStdin
  let lines ← readAll stdin #[]
  let cases := parseCases lines.toList
  let out ← IO.getStdout
  for c in cases do
    out.putStrLn (dispatch c)
  out.flush
