import Parmcb.Model.Gf2
import Parmcb.Lemmas.Gf2
import Parmcb.Props.C17
import Parmcb.Driver.Proto
import Parmcb.Driver.Gf2
import Parmcb.Lemmas.Abstract
import Parmcb.Model.Fp
import Parmcb.Model.Graph
