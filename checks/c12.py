"""C12 — shortest-path trees exact and mutually consistent: theorems (Props/C12.lean) + literal equality of
every SPTree with the model + the PROVED certificates (checkSPT/checkFirst/checkConsistent) evaluated on the
implementation's trees + independent python oracle (heap Dijkstra, path reversal/sub-path checks)."""
import heapq
from gcommon import *

THEOREMS = ["Parmcb.C12." + t for t in ["c12_lexLess_irrefl", "c12_lexLess_asymm", "c12_lexLess_trans", "c12_lexLess_total",
            "c12_dist_lower", "c12_dist_attained", "c12_first", "c12_dijkstra", "c12_lex_optimal", "c12_consistency", "c12_first_walk", "c14_parity_walk"]]

def dijkstra(n, WE, s):
    adj = {}
    for u, v, w in WE: adj.setdefault(u, []).append((v, w)); adj.setdefault(v, []).append((u, w))
    d = {s: 0}; pq = [(0, s)]
    while pq:
        du, u = heapq.heappop(pq)
        if du > d[u]: continue
        for v, w in adj.get(u, []):
            if v not in d or du + w < d[v]: d[v] = du + w; heapq.heappush(pq, (du + w, v))
    return d

def oracle(case, block):
    n, WE, scale, tag = case
    trees, cur = {}, None
    for w in block["lines"]:
        if w[0] == "tree": cur = int(w[1]); trees[cur] = {}
        elif w[0] in ("dist", "pred", "first") and cur is not None: trees[cur][w[0]] = w[1:]
    if len(trees) != n: return "expected %d trees" % n
    paths = {}
    for s, t in trees.items():
        d = dijkstra(n, WE, s)
        for v in range(n):
            dv = t["dist"][v]
            if (dv == "-") != (v not in d): return "tree %d: vertex %d %s" % (s, v, "has a node but is unreachable" if v not in d else "is reachable but has no node")
            if dv != "-" and int(dv) != d[v]: return "tree %d: distance of %d reported %s, true %d" % (s, v, dv, d[v])
        for v in range(n):           # root paths
            if t["dist"][v] == "-": continue
            p, x, tot, seen = [], v, 0, 0
            while x != s:
                pe = t["pred"][x]
                if pe == "-" or seen > n: return "tree %d: predecessor edges of %d do not lead to the root" % (s, v)
                e = int(pe); u, vv, w = WE[e]
                if x not in (u, vv): return "tree %d: predecessor edge of %d is not incident to it" % (s, x)
                p.append(e); tot += w; x = u if x == vv else vv; seen += 1
            if tot != int(t["dist"][v]): return "tree %d: root path of %d has length %d, distance %s" % (s, v, tot, t["dist"][v])
            paths[(s, v)] = p
            if v != s:
                e = p[-1]; u, vv, _ = WE[e]; child = u if vv == s else vv
                if int(t["first"][v]) != child: return "tree %d: first(%d) = %s, the path starts with %d" % (s, v, t["first"][v], child)
    for (s, v), p in paths.items():
        if (v, s) in paths and sorted(paths[(v, s)]) != sorted(p): return "path %d->%d is not the reverse of %d->%d" % (s, v, v, s)
        if p:
            e = p[0]; u, vv, _ = WE[e]; par = u if vv == v else vv      # predecessor of v on the path s->v
            if paths.get((par, v)) != [e]: return "sub-path %d->%d of the chosen path %d->%d is not the chosen path" % (par, v, s, v)
    return None

def run(tier, replay=None):
    res = Result("C12", tier, "proof")
    res.assumptions = ["mutual consistency is a theorem about the literal model (c12_consistency: every root path is THE lexicographically smallest simple path, such paths are unique and closed under reversal and sub-paths); the C++ trees are tied to the model field by field and the consistency check is additionally evaluated on the C++ trees on every run",
                       "heap layout cannot matter: queued labels are totally ordered by lexLess (c12_lexLess_*)"]
    lean_ok = lean_gate(res, "Parmcb", THEOREMS)
    binary, log = compile_harness("h_graph.cpp", sanitize=(tier == "thorough"))
    if binary is None:
        res.violation("harness does not compile against the working tree", {"kind": "compile", "log": log[-3000:]}, found=False); return res.finish()
    r = rng("c12")
    if replay:
        rp = json.load(open(replay))["replay"]; cases = {"replay": (rp["n"], [tuple(e) for e in rp["edges"]], rp.get("scale", 0), "replay")}
    else:
        cases = graph_cases(r, tier, 900 if tier == "quick" else 12000, 13 if tier == "quick" else 36, small_exhaustive=4 if tier == "quick" else 5,
                            styles=("unit", "unit", "two", "small", "dyadic", "wide"), big=True)
        for i, c in enumerate(large_tie_graphs(r, tier)): cases["L%d" % i] = c
    rc, out, err = run_graph_kind(binary, "trees", cases)
    if rc != 0:
        res.violation("harness crashed / sanitizer report", {"kind": "crash", "stderr": err[-3000:]}); return res.finish()
    blocks = parse_blocks(out)
    bad = [(cid, oracle(c, blocks.get(cid, {"lines": []}))) for cid, c in cases.items()]
    bad = [(cid, why) for cid, why in bad if why]
    # hubs of very large degree (beyond 2^16 tree children of the root): one tree only, python oracle only (distances, predecessor
    # edges, first-in-path labels, the candidates the tree offers) — fixed-width counters / ids of per-root-child state
    hub = None
    if not replay:
        hub = {"runs": 0, "max_degree": 0}
        for m_sp in ((70000,) if tier == "quick" else (70000, 140000)):
            n = m_sp + 1
            WE = [(0, i, 1) if r.random() < .5 else (i, 0, 1) for i in range(1, n)] + [(i, i + 1, 3) for i in range(1, n - 1) if i % 16 == 0 or i > n - 40] + [(n - 1, 1, 3)]
            rcH, outH, errH = run_harness(binary, render_graph("hub%d" % m_sp, "tree1", "d", 0, [0], n, WE), timeout=900)
            b = parse_blocks(outH).get("hub%d" % m_sp, {"lines": []})
            hub["runs"] += 1; hub["max_degree"] = max(hub["max_degree"], m_sp)
            why = None
            if rcH != 0 or line(b, "first") is None: why = "no result on a wheel with %d spokes (crash)" % m_sp
            else:
                dist, pred, first = line(b, "dist"), line(b, "pred"), line(b, "first")
                rim = [e for e in range(m_sp, len(WE))]
                for v in range(1, n):
                    if dist[v] != "1" or pred[v] != str(v - 1): why = "hub tree: vertex %d has distance %s / predecessor edge %s, expected 1 / %d" % (v, dist[v], pred[v], v - 1); break
                    if first[v] != str(v): why = "hub tree: first(%d) = %s, the path starts with %d" % (v, first[v], v); break
                if why is None and (first[0] != "0" or dist[0] != "0"): why = "hub tree: root labels wrong"
                if why is None and sorted(map(int, line(b, "cedges") or [])) != rim:
                    why = "hub tree offers %s candidates, every one of the %d rim edges closes a cycle through the hub" % (line(b, "ncand"), len(rim))
            if why: bad.append(("hub%d" % m_sp, why)); cases["hub%d" % m_sp] = (n, WE[:0], 0, "hub")
    verdicts = run_driver(out) if lean_ok else []
    oks, diffs, viols = parse_driver(verdicts)
    res.coverage["large_degree_hub_trees"] = hub
    res.coverage.update({"evaluations": len(cases), "distinct_nontrivial": distinct_nontrivial(cases, lambda c: len(c[1]) >= 3),
        "rule": "graphs as in C16 biased to many equal-length shortest paths (unit weights, grids, hypercubes, K_ab, K_n); one tree per source vertex; non-trivial = at least 3 edges",
        "traces_validated_against_impl": len(oks), "trees_total": sum(int(w[4]) for w in oks),
        "samples": [{"n": c[0], "edges": c[1]} for c in list(cases.values())[-2:]], **stats(cases)})
    if bad or viols:
        cid, why = bad[0] if bad else (viols[0][1], " ".join(viols[0][2:]))
        if cid.startswith("hub"):
            res.violation("SPTree: " + why, {"kind": "wheel", "spokes": int(cid[3:]), "generator": "checks/c12.py: hub 0, spokes of weight 1, rim edges of weight 3", "why": why})
            return res.finish()
        def still_bad(c):
            rc, o, e = run_graph_kind(binary, "trees", {"s": c})
            if rc != 0 or oracle(c, parse_blocks(o).get("s", {"lines": []})) is not None: return True
            return bool(parse_driver(run_driver(o))[2]) if not bad else False
        c = shrink_graph(cases[cid], still_bad)
        res.violation("SPTree: " + why, {"kind": "graph", "n": c[0], "edges": c[1], "scale": c[2], "why": why, "count": len(bad) + len(viols)})
    elif diffs or (lean_ok and len(oks) != len(cases)):
        res.violation("model/implementation correspondence broken (Model/Lex.lean vs lex_dijkstra.hpp/sptrees.hpp); the C12 oracle and certificates still hold on all %d graphs" % len(cases),
                      {"kind": "correspondence", "first": diffs[:3]}, found=False)
    return res.finish()
