"""C15 — the spanner: theorems (Props/C15.lean) + literal replay of construct_spanner with the observed
scan order (PARMCB_VERIF hook) + independent oracle (hop-bounded BFS, girth, weights)."""
from approx import *
THEOREMS = ["Parmcb.C15." + t for t in ["c15_bfs_iff", "c15_partition", "c15_weights", "c15_stretch", "c15_girth", "c15_k1"]]

def run(tier, replay=None):
    res = Result("C15", tier, "proof")
    res.assumptions = ["hand-written model Model/Spanner.lean; the order std::sort leaves among equal weights is an explicit argument (observed through the hook) and the theorems quantify over it",
                       "hook PARMCB_VERIF: read-only accessors in detail/approx_spanner.hpp"]
    lean_ok = lean_gate(res, "Parmcb.Props.C15", THEOREMS)
    binary, log = compile_harness("h_graph.cpp", sanitize=(tier == "thorough"))
    if binary is None:
        res.violation("harness does not compile against the working tree", {"kind": "compile", "log": log[-3000:]}, found=False)
        return res.finish()
    r = rng("c15")
    if replay:
        rp = json.load(open(replay))["replay"]
        cases = {"replay": (rp["n"], [tuple(e) for e in rp["edges"]], rp.get("scale", 0), "replay")}; meta = {"replay": ("-", rp["k"])}
    else:
        base = graph_cases(r, tier, 700 if tier == "quick" else 10000, 14 if tier == "quick" else 40, small_exhaustive=4 if tier == "quick" else 5,
                           styles=("unit", "two", "small", "wide", "dyadic"), big=True)
        cases, meta = {}, {}
        for cid, c in base.items():
            # k beyond log2 n, beyond the girth and beyond n are valid parameters too (the spanner is then a forest-like
            # subgraph whose shortest cycle has more than 2k edges, or the whole graph minus nothing)
            for k in ([1, 2, 3, 4, r.choice([5, 6, 7]), r.choice([8, 11, 16, c[0] + 1, 2 ** 30 + 1, 2 ** 32 + 5, 2 ** 40])] if not cid.startswith("x") else [1, 2, r.choice([3, 4, 5])]):
                if not cid.startswith("x") and r.random() < .4: continue
                cases["%s-k%d" % (cid, k)] = c; meta["%s-k%d" % (cid, k)] = ("-", k)
    rc, out, err = run_kind(binary, "spanner", cases, meta, lambda m: [m[1]])
    if rc != 0:
        res.violation("harness crashed / sanitizer report", {"kind": "crash", "stderr": err[-3000:]}); return res.finish()
    blocks = parse_blocks(out)
    bad = [(cid, oracle_c15(c, meta[cid][1], blocks.get(cid, {"lines": []}))) for cid, c in cases.items()]
    bad = [(cid, why) for cid, why in bad if why]
    verdicts = run_driver(out) if lean_ok else []
    oks, diffs, viols = parse_driver(verdicts)
    res.coverage.update({"evaluations": len(cases), "distinct_nontrivial": distinct_nontrivial(cases),
        "rule": "graphs as in C16 (many equal weights: unit / {1,2} / {1,2,3} styles) x k in {1,2,3,4, one of 5-7, one of 8/11/16/n+1}; non-trivial = at least 2 edges; distinct by weighted graph",
        "traces_validated_against_impl": len(oks), "dropped_edges_total": sum(int(w[6]) for w in oks), "retained_edges_total": sum(int(w[5]) for w in oks),
        "samples": [{"n": c[0], "edges": c[1], "k": meta[k][1]} for k, c in list(cases.items())[-2:]], **stats(cases)})
    if bad or viols:
        cid, why = bad[0] if bad else (viols[0][1], " ".join(viols[0][2:]))
        k = meta[cid][1]
        def still_bad(c):
            rc, o, e = run_kind(binary, "spanner", {"s": c}, {"s": ("-", k)}, lambda m: [m[1]])
            if rc != 0 or oracle_c15(c, k, parse_blocks(o).get("s", {"lines": []})) is not None: return True
            return bool(parse_driver(run_driver(o))[2]) if not bad else False
        c = shrink_graph(cases[cid], still_bad)
        res.violation("spanner (k=%d): %s" % (k, why), {"kind": "graph", "n": c[0], "edges": c[1], "scale": c[2], "k": k, "why": why, "count": len(bad) + len(viols)})
    elif diffs or (lean_ok and len(oks) != len(cases)):
        res.violation("model/implementation correspondence broken (Model/Spanner.lean vs approx_spanner.hpp/bfs.hpp); the C15 oracle still holds on all %d cases" % len(cases),
                      {"kind": "correspondence", "first": diffs[:3]}, found=False)
    return res.finish()
