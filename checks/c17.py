"""C17 — SpVecGF2: theorems (Props/C17.lean) + correspondence of the model with the real class on
random and exhaustive-short operation histories + dense oracle (python sets) on the implementation."""
import itertools, json
from lib import *

THEOREMS = ["Parmcb.C17.c17_canonical", "Parmcb.C17.c17_refines_dense", "Parmcb.C17.c17_size",
            "Parmcb.C17.c17_dot", "Parmcb.C17.c17_add", "Parmcb.C17.c17_dotSet"]

def gen_history(r, maxlen, universe):
    ops, live = [], 0
    n = r.randint(1, maxlen)
    for _ in range(n):
        kinds = ["unit", "fromSet", "empty"] if live == 0 else \
            ["unit", "fromSet", "empty", "copy", "add", "add", "addAssign", "addAssign", "assign", "clear", "dot", "dot", "dotSet", "size"]
        k = r.choice(kinds)
        v = lambda: r.randrange(live)
        if k == "unit": ops.append(["unit", r.randrange(universe)]); live += 1
        elif k == "fromSet":
            ops.append(["fromSet"] + [r.randrange(universe) for _ in range(r.randint(0, 8))]); live += 1
        elif k == "empty": ops.append(["empty"]); live += 1
        elif k == "copy": ops.append(["copy", v()]); live += 1
        elif k == "add": ops.append(["add", v(), v()]); live += 1
        elif k in ("addAssign", "assign", "dot"): ops.append([k, v(), v()])
        elif k in ("clear", "size"): ops.append([k, v()])
        elif k == "dotSet": ops.append(["dotSet", v()] + [r.randrange(universe) for _ in range(r.randint(0, 8))])
    return ops

def gen_skewed(r):
    """operands of very different sizes: long vectors (20-300 coordinates) combined with short ones (1-3 coordinates,
    mostly drawn from the long ones' coordinates, including their smallest / largest), in both orientations"""
    universe = r.choice([40, 120, 400])
    shift = r.choice([0, 0, 0, 2 ** 16 - 20, 2 ** 32 - 50, 2 ** 40])      # coordinates around the 16- and 32-bit boundaries
    ops, live = [], 0
    longs = []
    for _ in range(r.randint(1, 3)):
        k = r.randint(17, min(universe - 1, 300))
        elems = [shift + x for x in r.sample(range(universe), k)]
        ops.append(["fromSet"] + elems); longs.append((live, sorted(elems))); live += 1
    for _ in range(r.randint(2, 6)):
        li, le = r.choice(longs)
        pick = lambda: r.choice([le[0], le[-1], r.choice(le), r.choice(le), shift + r.randrange(universe)])
        if r.random() < .5: ops.append(["unit", pick()])
        else: ops.append(["fromSet"] + [pick() for _ in range(r.randint(1, 3))])
        live += 1
    for _ in range(r.randint(3, 12)):
        k = r.choice(["add", "add", "addAssign", "addAssign", "dot", "copy", "assign", "size"])
        v = lambda: r.randrange(live)
        if k == "add": ops.append(["add", v(), v()]); live += 1
        elif k == "copy": ops.append(["copy", v()]); live += 1
        elif k in ("addAssign", "assign", "dot"): ops.append([k, v(), v()])
        else: ops.append([k, v()])
    return ops

def exhaustive_histories(length):
    """all histories of `length` ops over a tiny alphabet (universe {0,1,2}), after a fixed 2-vector prefix"""
    prefix = [["fromSet", 0, 2], ["unit", 1]]
    alphabet = []
    for a in range(2):
        for b in range(2):
            alphabet += [["add", a, b], ["addAssign", a, b], ["assign", a, b], ["dot", a, b]]
        alphabet += [["clear", a], ["copy", a], ["size", a], ["dotSet", a, 2, 0]]
    for combo in itertools.product(alphabet, repeat=length):
        ops, live, ok = list(prefix), 2, True
        yield ops + [list(o) for o in combo]

def render(cid, ops):
    return "case %s gf2\n" % cid + "".join("op " + " ".join(map(str, o)) + "\n" for o in ops) + "end\n"

def dense_oracle(ops):
    """independent dense computation with python sets: list of expected observations"""
    st, out = [], []
    vec = lambda s: "vec %d" % len(s) + "".join(" %d" % x for x in sorted(s))
    for o in ops:
        k = o[0]
        if k == "unit": st.append({o[1]}); out.append(vec(st[-1]))
        elif k == "fromSet": st.append(set(o[1:])); out.append(vec(st[-1]))
        elif k == "empty": st.append(set()); out.append(vec(st[-1]))
        elif k == "copy": st.append(set(st[o[1]])); out.append(vec(st[-1]))
        elif k == "add": st.append(st[o[1]] ^ st[o[2]]); out.append(vec(st[-1]))
        elif k == "addAssign": st[o[1]] = st[o[1]] ^ st[o[2]]; out.append(vec(st[o[1]]))
        elif k == "assign": st[o[1]] = set(st[o[2]]); out.append(vec(st[o[1]]))
        elif k == "clear": st[o[1]] = set(); out.append(vec(st[o[1]]))
        elif k == "dot": out.append("bit %d" % (len(st[o[1]] & st[o[2]]) % 2))
        elif k == "dotSet": out.append("bit %d" % (len(st[o[1]] & set(o[2:])) % 2))
        elif k == "size": out.append("num %d" % len(st[o[1]]))
    return out

def impl_obs(text_out):
    """per case: list of 'r' payloads"""
    res, cur = {}, None
    for l in text_out.split("\n"):
        w = l.split()
        if not w: continue
        if w[0] == "case": cur = w[1]; res[cur] = []
        elif w[0] == "r" and cur is not None: res[cur].append(" ".join(w[1:]))
    return res

def run(tier, replay=None):
    res = Result("C17", tier, "proof")
    res.assumptions = ["hand-written model Model/Gf2.lean tied to spvecgf2.hpp by differential replay of operation histories (sampled + exhaustive short)",
                       "std::set iteration order is increasing", "Lean compiler/runtime for the driver executable"]
    lean_ok = lean_gate(res, "Parmcb.Props.C17", THEOREMS)
    binary, log = compile_harness("h_gf2.cpp", libs=("-lboost_serialization",), sanitize=(tier == "thorough"))
    if binary is None:
        res.violation("harness does not compile against the working tree", {"kind": "compile", "log": log[-3000:]}, found=False)
        return res.finish()
    r = rng("c17")
    cases = {}
    if replay:
        rp = json.load(open(replay))["replay"]
        cases["replay"] = rp["ops"]
    else:
        corpus = os.path.join(VERIF, "corpus", "C17")
        if os.path.isdir(corpus):
            for f in sorted(os.listdir(corpus)):
                cases["corpus-" + f] = json.load(open(os.path.join(corpus, f)))["ops"]
        nrand = 3000 if tier == "quick" else 40000
        for i in range(nrand):
            cases["r%d" % i] = gen_history(r, 14 if i % 3 else 40, r.choice([4, 8, 64, 1000]))
        for i in range(600 if tier == "quick" else 8000):
            cases["k%d" % i] = gen_skewed(r)
        exl = 3 if tier == "quick" else 4
        for i, ops in enumerate(exhaustive_histories(exl)):
            cases["x%d" % i] = ops
        res.coverage["exhaustive_short_histories"] = {"length": exl, "prefix": 2}
    text = "".join(render(cid, ops) for cid, ops in cases.items())
    rc, out, err = run_harness(binary, text)
    if rc != 0:
        res.violation("harness crashed / sanitizer report", {"kind": "crash", "stderr": err[-3000:], "ops": None})
        return res.finish()
    obs = impl_obs(out)
    # 1. the property itself on the implementation: dense oracle
    spec_bad = []
    for cid, ops in cases.items():
        exp = dense_oracle(ops)
        if obs.get(cid) != exp:
            spec_bad.append(cid)
    # 2. correspondence model <-> implementation
    verdicts = run_driver(out) if lean_ok else []
    oks, diffs, viols = parse_driver(verdicts)
    distinct = len({json.dumps(o) for o in cases.values() if len(o) >= 3})
    res.coverage.update({
        "evaluations": len(cases), "distinct_nontrivial": distinct,
        "rule": "operation histories over SpVecGF2 (random length<=40 over universes 4/8/64/1000 + all histories of fixed length over a 20-op alphabet); non-trivial = at least 3 ops; distinct by op list",
        "traces_validated_against_impl": len(oks),
        "ops_total": sum(len(o) for o in cases.values()),
        "op_histogram": {k: sum(1 for o in cases.values() for x in o if x[0] == k) for k in
                         ["unit", "fromSet", "empty", "copy", "add", "addAssign", "assign", "clear", "dot", "dotSet", "size"]},
        "samples": [cases[k] for k in list(cases)[:3]],
        "exhaustive": False,
    })
    def shrink(ops, bad):
        ops = list(ops); changed = True
        while changed:
            changed = False
            for i in range(len(ops) - 1, -1, -1):
                cand = ops[:i] + ops[i + 1:]
                try:
                    if bad(cand): ops = cand; changed = True
                except Exception: pass
        return ops
    def impl_bad(ops):
        live = 0
        for o in ops:   # keep operand indices valid
            for a in ([o[1]] if o[0] in ("copy", "clear", "size", "dotSet") else o[1:3] if o[0] in ("add", "addAssign", "assign", "dot") else []):
                if a >= live: return False
            if o[0] in ("unit", "fromSet", "empty", "copy", "add"): live += 1
        rc, out, err = run_harness(binary, render("s", ops))
        return rc != 0 or impl_obs(out).get("s") != dense_oracle(ops)
    if spec_bad:
        cid = spec_bad[0]
        ops = shrink(cases[cid], impl_bad)
        res.violation("SpVecGF2 disagrees with the dense GF(2) computation",
                      {"kind": "history", "ops": ops, "expected": dense_oracle(ops), "count": len(spec_bad)})
    elif diffs or viols or (lean_ok and len(oks) != len(cases)):
        res.violation("model/implementation correspondence broken (Model/Gf2.lean gf2Step vs spvecgf2.hpp) — implementation still agrees with the dense oracle on all %d histories" % len(cases),
                      {"kind": "correspondence", "first": (diffs + viols)[:3], "model": "Parmcb.gf2Step"}, found=False)
    return res.finish()
