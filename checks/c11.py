"""C11 — demo programs: theorems (Props/C11.lean, decision logic) + the four executables built from the
working tree, run on valid and rejected DIMACS files over the option matrix and under mpiexec -n P with a
watchdog; exit status / announced algorithm compared with the model, printed weight with an independent optimum."""
import json, re
from lib import *
from graphs import *
from demos import build_demos

THEOREMS = ["Parmcb.C11." + t for t in ["c11_gate", "c11_terminates", "c11_valid", "c11_ranks_agree", "c11_pinned_mpi_hangs"]]

def write_file(path, n, E, trailing=True, omit_ones=False):
    # weight 1 may be omitted on an edge line (the reader's default), mixed with weighted lines
    lines = ["c demo input", "p edge %d %d" % (n, len(E))] + \
            [("e %d %d" % (u + 1, v + 1)) if (omit_ones and w == 1) else ("e %d %d %s" % (u + 1, v + 1, w)) for (u, v, w) in E]
    open(path, "w").write("\n".join(lines) + ("\n" if trailing else ""))

def make_files(r, tier):
    files = []      # (path, facts(loops,multi,nonpos), n, WE or None)
    d = scratch()
    k = 0
    for i in range(3 if tier == "quick" else 10):
        n, E, tag = random_graph(r, 12)
        while len(E) - n + components(n, E) < 1: n, E, tag = random_graph(r, 12)
        WE, _ = weights(r, E, ["small", "two", "wide"][i % 3])
        p = os.path.join(d, "valid%d.dimacs" % i); write_file(p, n, WE, trailing=(i % 2 == 0), omit_ones=(i % 3 != 2))
        files.append((p, (0, 0, 0), n, WE))
    # the graph classes of the property's quantifier that a random draw rarely produces: a cyclic component beside
    # tree components / isolated vertices (m < n although the basis is non-empty), forests, several cyclic components
    def structured():
        a = r.randint(3, 6); t = r.randint(a, a + 4); iso = r.randint(1, 3)
        E = [(i, (i + 1) % a) for i in range(a)] + [(a + i, a + i + 1) for i in range(t - 1)]
        yield a + t + iso, E, "cycle+path+isolated"
        yield 7, [(0, 1), (1, 2), (2, 0), (3, 4), (4, 5), (5, 3)], "two-triangles+isolated"
        nn = r.randint(4, 9)
        yield nn + 1, random_tree(r, nn), "forest+isolated"
        yield 6, [(0, 1), (1, 2), (2, 3), (3, 0), (0, 2)], "theta+isolated"
    for j, (n, E, tag) in enumerate(structured()):
        WE, _ = weights(r, E, ["small", "two", "wide"][j % 3])
        p = os.path.join(d, "struct%d.dimacs" % j); write_file(p, n, WE, trailing=(j % 2 == 1), omit_ones=(j % 2 == 0))
        files.append((p, (0, 0, 0), n, WE))
    base_n, base = 5, [(0, 1, 2), (1, 2, 3), (2, 0, 4), (2, 3, 1), (3, 4, 2), (4, 2, 5)]
    bads = {"loop": (base + [(3, 3, 1)], (1, 0, 0)), "parallel": (base + [(1, 0, 7)], (0, 1, 0)), "zero": (base + [(0, 3, 0)], (0, 0, 1)),
            "negative": (base + [(0, 3, "-2.5")], (0, 0, 1)), "loop+zero": (base + [(1, 1, 0)], (1, 0, 1)), "all": (base + [(1, 1, 1), (0, 1, 1), (0, 4, "-1")], (1, 1, 1))}
    for name, (E, facts) in bads.items():
        p = os.path.join(d, "bad_%s.dimacs" % name.replace("+", "_")); write_file(p, base_n, E)
        files.append((p, facts, base_n, None))
    # MANY violations, around the width of a process exit status (255, 256, 257, 512): a status computed from a count wraps
    big_n = 600
    path = [(i, i + 1, 1) for i in range(big_n - 1)]
    for K in (255, 256, 257, 512):
        many = {"zero%d" % K: ([(i, i + 1, 0) for i in range(K)] + path[K:], (0, 0, 1)),
                "loops%d" % K: (path + [(i, i, 1) for i in range(K)], (1, 0, 0)),
                "parallel%d" % K: (path + [(0, 1, 1)] * K, (0, 1, 0))}
        if K == 256: many["mixed256"] = (path + [(i, i, 1) for i in range(100)] + [(0, 1, 1)] * 100 + [(i, i + 2, "-1") for i in range(56)], (1, 1, 1))
        for name, (E, facts) in many.items():
            if K in (255, 257) and not name.startswith("zero"): continue
            p = os.path.join(d, "bad_%s.dimacs" % name); write_file(p, big_n, E)
            files.append((p, facts, big_n, None))
    return files

def parse_out(stdout):
    algo = re.search(r"Using ((?:PAR_|APPROX_)?MCB_[A-Z_]+)", stdout)
    w = re.search(r"MCB weight = (\S+)", stdout)
    return (algo.group(1) if algo else "-"), (float(w.group(1)) if w else None)

def run(tier, replay=None):
    res = Result("C11", tier, "proof")
    res.assumptions = ["MPI semantics: a collective completes only if every rank of the communicator enters it — trusted; observed with a watchdog",
                       "the printed weight is compared at 6 significant digits (operator<<(double))", "what the selected entry point computes is C01-C06"]
    lean_ok = lean_gate(res, "Parmcb.Props.C11", THEOREMS)
    bdir, log = build_demos()
    if bdir is None:
        res.violation("demos do not build from the working tree", {"kind": "compile", "log": log[-3000:]}, found=False); return res.finish()
    r = rng("c11")
    files = make_files(r, tier)
    runs = []     # (prog, opts dict, file idx, P)
    optsets = []
    for sg, fv, iso in [(1, 0, 0), (0, 1, 0), (0, 0, 1), (0, 0, 0), (1, 1, 1), (0, 1, 1)]:
        for par in (1, 0):
            optsets.append({"signed": sg, "fvstrees": fv, "isotrees": iso, "parallel": par})
    for fi, (path, facts, n, WE) in enumerate(files):
        subset = optsets if (tier != "quick" or fi < 2 or WE is None) else optsets[:4] if fi < 3 else optsets[:6:2]
        if WE is None and tier == "quick": subset = optsets[::3]
        many = WE is None and n >= 600            # the many-violations files: one option set per program, one and two ranks
        if many: subset = optsets[:1]
        for o in subset:
            extra = r.choice([{}, {"verbose": 1}, {"printcycles": 1}, {"cores": 2}])
            runs.append(("mcb", dict(o, **extra), fi, 1))
            runs.append(("approx", dict(o, k=r.choice([2, 3]), **extra), fi, 1))
        runs.append(("approx", dict(optsets[0], k=1), fi, 1))
        runs.append(("stats", {}, fi, 1))
        for P in ([1, 2] if many else [1, 2, 3] if tier == "quick" else [1, 2, 3, 4]):
            for o in [optsets[0]] if many else [optsets[0], optsets[2], optsets[4]] + ([optsets[6]] if WE is None else []):
                runs.append(("mpi", {k: v for k, v in o.items() if k != "parallel"}, fi, P))
    exe = {"mcb": "mcb-dimacs", "approx": "approx-mcb-dimacs", "stats": "collection-stats-dimacs", "mpi": "mcb-dimacs-mpi"}
    mu_cache, bad, text, nrun = {}, [], "", 0
    for (prog, o, fi, P) in runs:
        path, facts, n, WE = files[fi]
        args = []
        for k_, v in o.items():
            if k_ in ("signed", "fvstrees", "isotrees", "parallel", "verbose", "printcycles"): args.append("--%s=%s" % (k_, "true" if v else "false"))
            elif k_ == "cores": args += ["--cores", str(v)]
            elif k_ == "k": args += ["--k", str(v)]
        cmd = [os.path.join(bdir, exe[prog])] + args + [path]
        if prog == "mpi": cmd = ["mpiexec", "--allow-run-as-root", "--oversubscribe", "-n", str(P)] + cmd
        code, out, _ = run_watchdog(cmd, 25)
        nrun += 1
        algo, w = parse_out(out)
        rec = {"cmd": cmd[-(len(args) + 2):] if prog != "mpi" else cmd[4:], "P": P, "exit": code, "algorithm": algo, "weight": w, "file": open(path).read()}
        valid = facts == (0, 0, 0)
        if code == "hang":
            bad.append(("does not terminate (watchdog)", rec))
            if sum(1 for b in bad if b[0].startswith("does not terminate")) >= 3: break      # bound the time spent waiting
            continue
        if not valid:
            if code == 0: bad.append(("rejected input but exit status 0", rec))
            elif algo != "-" or w is not None: bad.append(("rejected input but an algorithm ran", rec))
        else:
            if prog == "approx" and o.get("k", 2) <= 1:
                if code == 0: bad.append(("k <= 1 accepted by the approximate demo", rec))
            elif code != 0: bad.append(("valid input but non-zero exit status %s" % code, rec))
            elif prog != "stats":
                key = fi
                if key not in mu_cache: mu_cache[key] = mcb_weight_oracle(n, WE)
                mu = mu_cache[key]
                if w is None: bad.append(("no 'MCB weight = ' line", rec))
                elif prog == "approx":
                    kk = o.get("k", 2)
                    if not (mu * (1 - 1e-5) <= w <= (2 * kk - 1) * mu * (1 + 1e-5)): bad.append(("approximate weight %s outside [mu, (2k-1) mu] with mu = %s" % (w, mu), rec))
                elif abs(w - mu) > 1e-5 * max(1, mu): bad.append(("prints weight %s, the minimum is %s" % (w, mu), rec))
        text += "case r%d demo %s %d %d %d %d %d %d %d %d %d\nobs %s %s\nend\n" % (nrun, prog, o.get("signed", 1), o.get("fvstrees", 0), o.get("isotrees", 0),
                o.get("parallel", 1), o.get("k", 2), facts[0], facts[1], facts[2], P, code, algo)
    verdicts = run_driver(text) if lean_ok else []
    oks, diffs, viols = parse_driver(verdicts)
    res.coverage.update({"evaluations": nrun, "distinct_nontrivial": len({json.dumps([a, b, c, d], sort_keys=True) for (a, b, c, d) in runs}),
        "rule": "files (valid graphs with/without trailing newline; loop; parallel edge; zero weight; negative weight; several at once; 255/256/257/512 violations of one kind, 256 mixed) x programs x option matrix (signed/fvstrees/isotrees in all shadowing combinations, parallel on/off, verbose, printcycles, cores, k) x mpiexec -n P; distinct by (program, options, file, P)",
        "traces_validated_against_impl": len(oks), "mpi_runs": sum(1 for x in runs if x[0] == "mpi"),
        "samples": [{"prog": a, "opts": b, "file": os.path.basename(files[c][0]), "P": d} for (a, b, c, d) in runs[:2]]})
    if bad:
        why, rec = bad[0]
        res.violation("demo: " + why, {"kind": "demo-run", **rec, "why": why, "count": len(bad)})
    elif diffs or viols or (lean_ok and len(oks) != nrun):
        res.violation("model/implementation correspondence broken (Model/Demo.lean vs src/*.cpp); the C11 oracle still holds on all %d runs" % nrun,
                      {"kind": "correspondence", "first": (diffs + viols)[:3]}, found=False)
    return res.finish()
