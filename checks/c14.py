"""C14 — candidate collections sound, nested, sufficient: theorems (Props/C14.lean) + literal equality of the
Horton / FVS / isometric collections with the model (same order) + every candidate unfolded and checked +
sufficiency per input (greedy by weight under GF(2) independence reaches the dimension and the optimum)."""
from gcommon import *

THEOREMS = ["Parmcb.C14." + t for t in ["c14_cand_sound", "c14_parity_label", "c14_iso_subset", "c14_fvs_subset", "c14_transfer",
            "c14_phase_sufficient", "c14_sufficient", "c14_sufficient_horton", "c14_sufficient_fvs",
            "c14_phase_sufficient_iso", "c14_sufficient_iso"]]

def tree_paths(n, WE, src_list, blocks_trees):
    return None

def oracle(case, blocks3, trees_block):
    """blocks3: dict which -> block of the cands kind; trees_block: block of the trees kind (all sources)"""
    n, WE, scale, tag = case
    m = len(WE)
    # root paths from the dumped trees
    trees, cur = {}, None
    for w in trees_block["lines"]:
        if w[0] == "tree": cur = int(w[1]); trees[cur] = {}
        elif w[0] in ("dist", "pred", "first") and cur is not None: trees[cur][w[0]] = w[1:]
    def root_path(s, v):
        p, x = [], v
        while x != s:
            e = int(trees[s]["pred"][x]); u, vv, _ = WE[e]; p.append(e); x = u if x == vv else vv
        return p
    N = m - n + components(n, WE)
    mu = mcb_weight_oracle(n, WE)
    colls = {}
    for which, b in blocks3.items():
        tsrc = list(map(int, line(b, "tsrc") or []))
        cands = [tuple(map(int, w)) for w in lines(b, "cand")]
        masks = []
        for (t, e, wt) in cands:
            s = tsrc[t]; u, v, w = WE[e]
            p1, p2 = root_path(s, u), root_path(s, v)
            if set(p1) & set(p2): return "%s: candidate (tree %d, edge %d): the two root paths share an edge" % (which, s, e)
            ids = [e] + p1 + p2
            if not is_simple_cycle(WE, ids): return "%s: candidate (tree %d, edge %d) is not a simple cycle" % (which, s, e)
            vs = {WE[i][0] for i in ids} | {WE[i][1] for i in ids}
            if s not in vs: return "%s: candidate (tree %d, edge %d) does not pass through the root" % (which, s, e)
            if sum(WE[i][2] for i in ids) != wt: return "%s: candidate (tree %d, edge %d) records weight %d, true weight %d" % (which, s, e, wt, sum(WE[i][2] for i in ids))
            masks.append((wt, sum(1 << i for i in ids), (s, e)))
        colls[which] = masks
        # sufficiency: greedy by weight subject to independence
        basis, tot = [], 0
        for wt, mk, _ in sorted(masks):
            v = mk
            for bb in basis: v = min(v, v ^ bb)
            if v: basis.append(v); tot += wt
        if len(basis) != N: return "%s: the collection spans only %d of %d dimensions" % (which, len(basis), N)
        if mu is not None and tot != mu: return "%s: greedy over the collection reaches weight %d, the optimum is %d" % (which, tot, mu)
    hset = {k for _, _, k in colls.get("horton", [])}
    for which in ("fvs", "iso"):
        for _, _, k in colls.get(which, []):
            if k not in hset: return "%s candidate (tree %d, edge %d) is not in Horton's collection" % ((which,) + k)
    return None

def run(tier, replay=None):
    res = Result("C14", tier, "proof")
    res.assumptions = ["sufficiency is proved for all three collections (c14_sufficient_horton / _fvs / _iso); the model replaces boost::connected_components by a label propagation that is proved to compute connected components (isoComponents_spec) and whose result is compared with the C++ collection literally on every run; greedy selection over the dumped collections against an independent optimum is kept as a per-run cross-check",
                       "candidate soundness is proved for trees passing the C12 certificate, which is evaluated per run"]
    lean_ok = lean_gate(res, "Parmcb.Props.C14b", THEOREMS)
    binary, log = compile_harness("h_graph.cpp", sanitize=(tier == "thorough"))
    if binary is None:
        res.violation("harness does not compile against the working tree", {"kind": "compile", "log": log[-3000:]}, found=False); return res.finish()
    r = rng("c14")
    if replay:
        rp = json.load(open(replay))["replay"]; cases = {"replay": (rp["n"], [tuple(e) for e in rp["edges"]], rp.get("scale", 0), "replay")}
    else:
        cases = graph_cases(r, tier, 500 if tier == "quick" else 8000, 12 if tier == "quick" else 30, small_exhaustive=4,
                            styles=("unit", "two", "small", "dyadic", "wide"), big=True)
        for i, c in enumerate(large_tie_graphs(r, tier)[:3]): cases["L%d" % i] = c
    outs, blocks = "", {}
    for which in ("horton", "fvs", "iso"):
        rc, out, err = run_graph_kind(binary, "cands", {cid + "-" + which: c for cid, c in cases.items()}, args_of=lambda cid, which=which: [which])
        if rc != 0:
            res.violation("harness crashed / sanitizer report", {"kind": "crash", "stderr": err[-3000:]}); return res.finish()
        outs += out; blocks.update(parse_blocks(out))
    rc, tout, err = run_graph_kind(binary, "trees", cases)
    tblocks = parse_blocks(tout)
    bad = []
    for cid, c in cases.items():
        why = oracle(c, {w: blocks.get(cid + "-" + w, {"lines": []}) for w in ("horton", "fvs", "iso")}, tblocks.get(cid, {"lines": []}))
        if why: bad.append((cid, why))
    verdicts = run_driver(outs) if lean_ok else []
    oks, diffs, viols = parse_driver(verdicts)
    res.coverage.update({"evaluations": 3 * len(cases), "distinct_nontrivial": distinct_nontrivial(cases, lambda c: len(c[1]) - c[0] + components(c[0], c[1]) >= 1),
        "rule": "graphs as in C12 x {HortonCyclesBuilder, FVSCyclesBuilder, ISOCyclesBuilder}; non-trivial = cycle space dimension >= 1",
        "traces_validated_against_impl": len(oks), "candidates_total": sum(int(w[4]) for w in oks),
        "samples": [{"n": c[0], "edges": c[1]} for c in list(cases.values())[-2:]], **stats(cases)})
    if bad or viols:
        cid, why = bad[0] if bad else (viols[0][1].rsplit("-", 1)[0], " ".join(viols[0][2:]))
        c = cases[cid]
        res.violation("candidate collections: " + why, {"kind": "graph", "n": c[0], "edges": c[1], "scale": c[2], "why": why, "count": len(bad) + len(viols)})
    elif diffs or (lean_ok and len(oks) != 3 * len(cases)):
        res.violation("model/implementation correspondence broken (Model/Lex.lean, Model/Iso.lean vs sptrees.hpp/cycles.hpp); the C14 oracle still holds on all %d graphs" % len(cases),
                      {"kind": "correspondence", "first": diffs[:3]}, found=False)
    return res.finish()
