"""C02 — exact algorithms return a minimum-weight basis and its weight."""
import c01
from exact import *
THEOREMS = ["Parmcb.C02." + t for t in ["c02_min", "c02_value_unique", "c02_ret", "c02_mcb_weight_unique", "c02_validated_run_is_mcb", "c02_sorted_weights", "c02_basis_card", "c02_allVertices", "c02_hiddenEdge_complete", "c02_hiddenEdge_sound", "c02_search_value", "c02_picks_ok", "c02_caller_numbering",
    "c02_fvs_trees_end_to_end", "c02_iso_trees_end_to_end", "c02_signed_end_to_end", "c02_search_sound", "c02_search_complete", "c02_signed_phase", "c14_builder", "c02_sorter_ok",
    "c02_heap_top_min", "c02_heap_push", "c02_heap_pop", "c02_heap_decrease_key", "c02_heap_search_is_oracle_run", "c02_signed_heap_end_to_end"]]
def the_oracle(case, block, mu_cache):
    key = json.dumps([case[0], case[1]])
    if key not in mu_cache: mu_cache[key] = mcb_weight_oracle(case[0], case[1])
    return oracle_c02(case, block, mu_cache[key])
def run(tier, replay=None):
    return c01.run(tier, replay, pid="C02", theorems=THEOREMS, oracle=the_oracle, module="Parmcb.Props.C02all")
