"""C03 — TBB entry points under every schedule: theorems (Props/C03.lean) + the real library templates
executed under seeded schedules by the TBB stand-in (harness/tbbshim), trace-validated against the literal
model (including the permuted support initialisation), + real oneTBB with 1/2/4/16 threads, + (thorough)
ThreadSanitizer as supporting evidence."""
from exact import *
from approx import oracle_c05, oracle_c06, run_many_dropped

THEOREMS = ["Parmcb.C03." + t for t in ["c03_join_assoc", "c03_join_ident", "c03_join_prefers_left", "c03_reduce_min", "c03_seq_min",
            "c03_reduce_none", "c03_reduce_sum", "c03_update_for", "c03_init_perm", "c03_update_no_conflict",
            "c03_parity_no_conflict", "c03_search_no_conflict"]] + \
           ["Parmcb.runFrom_independent", "Parmcb.runFrom_spans", "Parmcb.runFrom_weight", "Parmcb.runFrom_circuits",
            "Parmcb.C02.c03_signed_tbb_end_to_end", "Parmcb.C02.c03_fvs_trees_tbb_end_to_end", "Parmcb.C02.c03_iso_trees_tbb_end_to_end",
            "Parmcb.C05.c03_approx_signed_tbb_end_to_end", "Parmcb.C05.c03_approx_fvs_trees_tbb_end_to_end", "Parmcb.C05.c03_approx_iso_trees_tbb_end_to_end", "Parmcb.C02.c03_signed_tbb_heap_end_to_end"]
EXACT = ["signed_tbb", "fvs_tbb", "iso_tbb"]

def run(tier, replay=None):
    res = Result("C03", tier, "proof")
    res.assumptions = ["literal replay: the stand-in logs every parallel_reduce of a run as a term of Model/Sched.lean's Sched (split points, seq/fork, join tree) and the push order of the support initialisation; the literal models (mcbSignedTbbH on literal heaps, lookupTbb for the tree variants) executed under exactly those schedules must emit exactly the cycles the real templates emitted",
                       "oneTBB only produces executions of the shape modelled by Sched/ForSched (its documented contract) — trusted",
                       "the per-index searches meet SearchContract: PROVED for the literal models (c03_*_end_to_end: literal bidirectional search / candidate builder under every schedule) and additionally validated per run by the trace validation",
                       "footprints hand-extracted from the lambdas; the memory model itself is outside the model (TSan samples it in the thorough tier)"]
    lean_ok = lean_gate(res, "Parmcb", THEOREMS)
    shimdir = os.path.join(VERIF, "harness", "tbbshim")
    bshim, log = compile_harness("h_graph.cpp", out_name="h_graph_shim", flags=("-DPARMCB_SHIM",), pre_includes=(shimdir,), libs=("-lboost_timer",),
                                 sanitize=(tier == "thorough"))
    breal, log2 = compile_harness("h_graph.cpp", out_name="h_graph_real")
    if bshim is None or breal is None:
        res.violation("harness does not compile against the working tree", {"kind": "compile", "log": (log + log2)[-3000:]}, found=False)
        return res.finish()
    r = rng("c03")
    nsched = 4 if tier == "quick" else 12
    if replay:
        rp = json.load(open(replay))["replay"]
        base = {"replay": (rp["n"], [tuple(e) for e in rp["edges"]], rp.get("scale", 0), "replay")}
    else:
        base = graph_cases(r, tier, 160 if tier == "quick" else 2500, 12 if tier == "quick" else 30, small_exhaustive=3 if tier == "quick" else 4)
    # (1) stand-in scheduler: graph x variant x schedules
    jobs = {}      # id -> (case, kind, args)
    int_jobs = set()
    for cid, c in base.items():
        if replay:
            jobs[cid] = (c, rp["kind"], rp["args"])
            if rp.get("wt") == "i": int_jobs.add(cid)
            continue
        for v in EXACT:
            for j in range(nsched if not cid.startswith("x") else 2):
                mode = 0 if j >= 2 or cid.startswith("x") else j + 1      # also the two extreme schedules
                jobs["%s-%s-s%d" % (cid, v, j)] = (c, "exact", [v, r.getrandbits(40), mode])
        if not cid.startswith("x") or r.random() < .3:
            for v in EXACT:
                jobs["%s-a%s" % (cid, v)] = (c, "approx", [v, r.choice([1, 2, 3]), r.getrandbits(40), 0])
    # the same entry points instantiated with an INTEGRAL weight type (graphs whose weights are integers): identities, limits and
    # "infinity" values of the reductions are type-dependent (numeric_limits<int>::infinity() is 0)
    if not replay:
        for cid, c in list(base.items()):
            if c[2] != 0 or (cid.startswith("x") and r.random() < .8): continue
            for v in EXACT:
                j = "%s-%s-int" % (cid, v)
                jobs[j] = (c, "exact", [v, r.getrandbits(40), r.choice([0, 0, 2])]); int_jobs.add(j)
    text = "".join(render_graph(j, k, "i" if j in int_jobs else "d", c[2], a, c[0], c[1]) for j, (c, k, a) in jobs.items())
    rc, out, err = run_harness(bshim, text)
    blocks = parse_blocks(out)
    mu_cache, bad = {}, []
    def mu_of(c):
        key = json.dumps([c[0], c[1]])
        if key not in mu_cache: mu_cache[key] = mcb_weight_oracle(c[0], c[1])
        return mu_cache[key]
    for j, (c, k, a) in jobs.items():
        b = blocks.get(j, {"lines": []})
        if k == "exact": why = oracle_c01(c, b) or oracle_c02(c, b, mu_of(c))
        else: why = oracle_c05(c, a[1], b) or oracle_c06(c, a[1], b, mu_of(c))
        if why: bad.append((j, why))
    if rc != 0 and not bad:
        res.violation("harness crashed / sanitizer report under the stand-in scheduler", {"kind": "crash", "stderr": err[-3000:]}); return res.finish()
    verdicts = run_driver(out) if lean_ok and rc == 0 else []
    oks, diffs, viols = parse_driver(verdicts)
    shim = [list(map(int, line(b, "shim"))) for b in blocks.values() if line(b, "shim")]
    # (2) real oneTBB with several worker counts (supporting evidence; python oracle only)
    real_jobs = {}
    if not replay:
        sub = [cid for cid in base if not cid.startswith("x")][: (40 if tier == "quick" else 400)]
        for cid in sub:
            for v in EXACT:
                for t in (1, 2, 4, 16):
                    real_jobs["%s-%s-t%d" % (cid, v, t)] = (base[cid], "exact", [v, t])
            real_jobs["%s-ar" % cid] = (base[cid], "approx", [r.choice(EXACT), 2, r.choice([2, 16])])
        # explicit OVERSUBSCRIBED arenas: the entry point is called inside tbb::task_arena(64) (16 cores): per-thread state indexed by
        # current_thread_index(), thread counts taken from the hardware instead of the arena, … — mid-size graphs so that the
        # parallel ranges are long enough for several threads to work at once; every graph several times
        for i in range(10 if tier == "quick" else 60):
            n = r.randint(18, 26)
            E = [(a, b) for a in range(n) for b in range(a + 1, n) if r.random() < r.uniform(.2, .35)]
            r.shuffle(E)
            WE = [(a, b, r.randint(1, 50)) for (a, b) in E]
            for v in ("fvs_tbb", "iso_tbb", "signed_tbb"):
                for rep in range(3 if v != "signed_tbb" else 1):
                    real_jobs["ar%d-%s-%d" % (i, v, rep)] = ((n, WE, 0, "arena-mid"), "exact", [v, 64, "arena=64"])
        text2 = "".join(render_graph(j, k, "d", c[2], a, c[0], c[1]) for j, (c, k, a) in real_jobs.items())
        rc2, out2, err2 = run_harness(breal, text2)
        b2 = parse_blocks(out2)
        for j, (c, k, a) in real_jobs.items():
            b = b2.get(j, {"lines": []})
            why = (oracle_c01(c, b) or oracle_c02(c, b, mu_of(c))) if k == "exact" else (oracle_c05(c, a[1], b) or oracle_c06(c, a[1], b, mu_of(c)))
            if why: bad.append((j, "real oneTBB: " + why)); jobs[j] = (c, k, a)
        if rc2 != 0 and not bad:
            last = [j for j in real_jobs if j in b2][-1:] or list(real_jobs)[:1]
            nxt = list(real_jobs)[min(len(real_jobs) - 1, list(real_jobs).index(last[0]) + 1)]
            bad.append((nxt, "real oneTBB: harness crashed (exit status %s) %s" % (rc2, err2[-200:].replace("\n", " ")))); jobs[nxt] = real_jobs[nxt]
    # (3) more than 1024 / 16384 dropped edges in the TBB builder of the approximate algorithms: under the stand-in (whose
    # parallel_deterministic_reduce honours the grainsize, as oneTBB's contract says) and under real oneTBB with 16 threads
    big = {"runs": 0, "cycles": 0}
    if not replay:
        for which, bn, extra in (("stand-in", bshim, lambda v: [r.getrandbits(40), 0]), ("real oneTBB", breal, lambda v: [16])):
            bb, nr, nc = run_many_dropped(bn, r, tier, ["signed_tbb", "fvs_tbb", "iso_tbb"], extra)
            big["runs"] += nr; big["cycles"] += nc
            for (j, why, c, a) in bb:
                jid = "big-%s-%s" % (which, j)
                bad.append((jid, "%s, many dropped edges: %s" % (which, why))); jobs[jid] = ((c[0], c[1] if len(c[1]) < 4000 else [], c[2], c[3]), "approx", a)
    tsan_note = None
    if tier == "thorough" and not replay:
        bt, lt = compile_harness("h_graph.cpp", out_name="h_graph_tsan", flags=("-fsanitize=thread",), opt="-O1")
        if bt:
            sub = list(real_jobs.items())[:120]
            rc3, out3, err3 = run_harness(bt, "".join(render_graph(j, k, "d", c[2], a, c[0], c[1]) for j, (c, k, a) in sub),
                                          env={"TSAN_OPTIONS": "halt_on_error=0 report_signal_unsafe=0"})
            races = [l for l in err3.split("\n") if "data race" in l and "parmcb" in err3]
            tsan_note = {"runs": len(sub), "reports_mentioning_data_race": len(races), "note": "supporting evidence only; libtbb is not instrumented"}
    res.coverage.update({"evaluations": len(jobs) + len(real_jobs), "distinct_nontrivial": len({json.dumps([c[0], c[1], k, a]) for (c, k, a) in jobs.values() if len(c[1]) - c[0] + components(c[0], c[1]) >= 1}),
        "rule": "graph x {mcb_sva_signed_tbb, mcb_sva_fvs_trees_tbb, mcb_sva_iso_trees_tbb, approx_*_tbb} x seeded schedules of the stand-in (random partitions/orders/seq-fork trees, plus the fully sequential and the maximally split schedule); real oneTBB with 1,2,4,16 threads; non-trivial = cycle space dimension >= 1; distinct by (graph, entry point, schedule seed)",
        "traces_validated_against_impl": len(oks),
        "exact_tbb_runs_replayed_literally_under_the_logged_schedules_with_equal_cycles": sum(int(w[10]) for w in oks if len(w) > 10 and jobs.get(w[1], (0, "", 0))[1] == "exact"),
        "approx_tbb_runs_whose_exact_phase_was_replayed_literally_under_the_logged_schedules": sum(int(w[9]) for w in oks if len(w) > 9 and jobs.get(w[1], (0, "", 0))[1] == "approx"),
        "schedule_stats": {"runs": len(shim), "parallel_regions": sum(s[0] for s in shim), "leaves": sum(s[1] for s in shim), "forks": sum(s[2] for s in shim), "seqs": sum(s[3] for s in shim)},
        "real_tbb_runs": len(real_jobs), "runs_with_an_integral_weight_type": len(int_jobs), "many_dropped_edges_family": big, "tsan": tsan_note,
        "samples": [{"n": c[0], "edges": c[1], "kind": k, "args": a} for (c, k, a) in list(jobs.values())[-2:]], **stats(base)})
    if bad or viols:
        j, why = bad[0] if bad else (viols[0][1], " ".join(viols[0][2:]))
        c, k, a = jobs[j]
        res.violation("C03 %s %s: %s" % (k, a, why), {"kind": k, "n": c[0], "edges": c[1], "scale": c[2], "args": a, "wt": "i" if j in int_jobs else "d", "why": why, "count": len(bad) + len(viols)})
    elif diffs or (lean_ok and len(oks) != len(jobs)):
        # focused search: the disagreeing graphs under other labellings / edge orders / weights / schedules
        ids = []
        for d in diffs:
            if len(d) > 1 and d[1] in jobs and d[1] not in ids: ids.append(d[1])
        tried = 0
        for jid in ids[:20]:
            c, k, a = jobs[jid]
            n, WE = c[0], c[1]
            fj = {}
            for t in range(100):
                perm = list(range(n)); r.shuffle(perm)
                E2 = [(perm[x], perm[y], w) if r.random() < .5 else (perm[y], perm[x], w) for (x, y, w) in WE]; r.shuffle(E2)
                if t % 3 == 1: E2 = [(x, y, max(1, w + r.randint(-2, 2))) for (x, y, w) in E2]
                if t % 3 == 2: E2 = [(x, y, r.randint(1, 30)) for (x, y, w) in E2]
                a2 = list(a)
                if k == "exact": a2[1] = r.getrandbits(40); a2[2] = r.choice([0, 0, 1, 2])
                else: a2[2] = r.getrandbits(40)
                fj["f%d" % t] = ((n, E2, c[2], "focused"), k, a2)
            rcf, outf, errf = run_harness(bshim, "".join(render_graph(j, kk, "d", cc[2], aa, cc[0], cc[1]) for j, (cc, kk, aa) in fj.items()))
            bf = parse_blocks(outf)
            for j, (cc, kk, aa) in fj.items():
                tried += 1
                b = bf.get(j, {"lines": []})
                mu = mcb_weight_oracle(cc[0], cc[1])
                why = (oracle_c01(cc, b) or oracle_c02(cc, b, mu)) if kk == "exact" else (oracle_c05(cc, aa[1], b) or oracle_c06(cc, aa[1], b, mu))
                if why:
                    res.coverage["focused_search_runs"] = tried
                    res.violation("C03 %s %s: %s (found by the focused search after the correspondence broke: %s)" % (kk, aa, why, " ".join(diffs[0][2:])[:200]),
                                  {"kind": kk, "n": cc[0], "edges": cc[1], "scale": cc[2], "args": aa, "why": why})
                    return res.finish()
        # second stage: fresh mid-size random graphs with wide weights (unique optima), the disagreeing entry points,
        # maximally split and random schedules
        kinds = []
        for jid in ids:
            c, k, a = jobs[jid]
            if (k, a[0]) not in kinds: kinds.append((k, a[0]))
        for rnd in range(12 if kinds else 0):
            fj = {}
            for t in range(150):
                n = r.randint(7, 14)
                E = [(x, y) for x in range(n) for y in range(x + 1, n) if r.random() < r.choice([.25, .35, .5])]
                WE = [(x, y, r.randint(1, 30)) for (x, y) in E]
                k, v = kinds[t % len(kinds)]
                aa = [v, r.getrandbits(40), r.choice([0, 2, 2])] if k == "exact" else [v, r.choice([2, 3]), r.getrandbits(40), 0]
                fj["g%d" % t] = ((n, WE, 0, "focused-random"), k, aa)
            rcf, outf, errf = run_harness(bshim, "".join(render_graph(j, kk, "d", cc[2], aa, cc[0], cc[1]) for j, (cc, kk, aa) in fj.items()))
            bf = parse_blocks(outf)
            for j, (cc, kk, aa) in fj.items():
                tried += 1
                b = bf.get(j, {"lines": []})
                mu = mcb_weight_oracle(cc[0], cc[1])
                why = (oracle_c01(cc, b) or oracle_c02(cc, b, mu)) if kk == "exact" else (oracle_c05(cc, aa[1], b) or oracle_c06(cc, aa[1], b, mu))
                if why:
                    res.coverage["focused_search_runs"] = tried
                    res.violation("C03 %s %s: %s (found by the focused search after the correspondence broke: %s)" % (kk, aa, why, " ".join(diffs[0][2:])[:200]),
                                  {"kind": kk, "n": cc[0], "edges": cc[1], "scale": cc[2], "args": aa, "why": why})
                    return res.finish()
        res.coverage["focused_search_runs"] = tried
        res.violation("trace validation under the stand-in scheduler broken (Model/Sched.lean, Model/DePina.lean vs the TBB variants); the S-level oracle still holds on all %d runs" % len(jobs),
                      {"kind": "correspondence", "first": diffs[:3], "validated": len(oks)}, found=False)
    return res.finish()
