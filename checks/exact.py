"""shared by C01 / C02 (and C03, C08 …): run exact variants, python S-level oracle, Lean trace validation"""
from gcommon import *

def cycles_of(block):
    out = []
    for w in lines(block, "cycle"):
        out.append(list(map(int, w[1:])))
    return out

def oracle_c01(case, block):
    """C01 on the implementation's output: count, simple cycles of g, GF(2) independence"""
    n, WE, scale, tag = case
    m = len(WE)
    if line(block, "ret") is None: return "no result (crash or exception)"
    cyc = cycles_of(block)
    N = m - n + components(n, WE)
    if len(cyc) != N: return "emits %d cycles, m-n+c = %d" % (len(cyc), N)
    for c in cyc:
        if any(e < 0 or e >= m for e in c): return "cycle names a non-edge"
        if not is_simple_cycle(WE, c): return "emitted edge list %s is not one simple cycle" % c
    if gf2_rank(sum(1 << e for e in c) for c in cyc) != N: return "emitted cycles are linearly dependent over GF(2)"
    return None

def oracle_c02(case, block, mu=None):
    n, WE, scale, tag = case
    r = line(block, "ret")
    if r is None: return "no result (crash or exception)"
    ret, exact = int(r[0]), r[1] == "1"
    cyc = cycles_of(block)
    tot = sum(WE[e][2] for c in cyc for e in c if 0 <= e < len(WE))
    if not exact or ret != tot: return "returned value %s != weight of the emitted cycles %d" % (r[0], tot)
    if mu is None: mu = mcb_weight_oracle(n, WE)
    if mu is not None and tot != mu: return "emitted basis weighs %d, the minimum is %d" % (tot, mu)
    return None

VARIANTS = ["signed", "fvs", "iso"]

def build_cases(r, tier, count, maxn, small_exhaustive):
    base = graph_cases(r, tier, count, maxn, small_exhaustive=small_exhaustive)
    cases, meta = {}, {}
    for cid, c in base.items():
        for v in VARIANTS:
            for wt in ("d", "i"):
                if wt == "i" and (c[2] != 0 or r.random() < 0.5) and not cid.startswith("x"): continue
                if cid.startswith("x") and wt == "i" and v != "signed": continue
                k = "%s-%s-%s" % (cid, v, wt)
                cases[k] = c; meta[k] = (v, wt)
    # dense mid-size graphs for the signed variant: cycle spaces of dimension 40-100, many sparsest-support swaps that pull far
    # coordinates to the front, supports that are NOT confined to coordinates <= their index (what a "textbook" shortcut in
    # the support update would assume)
    for i in range(70 if tier == "quick" else 600):
        n = r.randint(11, 17); p = r.uniform(.45, .75)
        E = [(a, b) for a in range(n) for b in range(a + 1, n) if r.random() < p]
        r.shuffle(E)
        st = r.choice(["wide", "wide", "unit", "small"])
        WE, scale = weights(r, [(a, b) if r.random() < .5 else (b, a) for (a, b) in E], st)
        k = "dm%d-signed-d" % i
        cases[k] = (n, WE, scale, "dense-mid"); meta[k] = ("signed", "d")
    return cases, meta

def run_exact(binary, cases, meta, timeout=3600):
    # every third run places the edge nodes at addresses out of insertion order (the signed searches iterate
    # std::set<edge_descriptor>, i.e. in address order)
    import zlib
    def extra(i, cid): return ["0", "heap=%d" % (1 + (zlib.crc32(cid.encode()) & 0xfffffff))] if i % 3 == 1 else []
    text = "".join(render_graph(cid, "exact", meta[cid][1], c[2] if meta[cid][1] == "d" else 0, [meta[cid][0]] + extra(i, cid), c[0], c[1])
                   for i, (cid, c) in enumerate(cases.items()))
    return run_harness(binary, text, timeout=timeout)
