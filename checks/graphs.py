"""Graph generators for the correspondence checks.  A graph is (n, [(u, v, w)], scale) with integer w;
the actual weight is w / 2**scale.  Every random choice comes from the rng passed in."""
import itertools

def gnp(r, n, p):
    return [(u, v) for u in range(n) for v in range(u + 1, n) if r.random() < p]
def complete(n): return [(u, v) for u in range(n) for v in range(u + 1, n)]
def bipartite(a, b): return [(u, a + v) for u in range(a) for v in range(b)]
def grid(a, b):
    E = []
    for i in range(a):
        for j in range(b):
            if j + 1 < b: E.append((i * b + j, i * b + j + 1))
            if i + 1 < a: E.append((i * b + j, (i + 1) * b + j))
    return E
def hypercube(d): return [(u, u ^ (1 << i)) for u in range(1 << d) for i in range(d) if u < u ^ (1 << i)]
def wheel(k): return [(0, i) for i in range(1, k + 1)] + [(i, i % k + 1) for i in range(1, k + 1)]
def cycle(k): return [(i, (i + 1) % k) for i in range(k)]
def petersen(): return [(i, (i + 1) % 5) for i in range(5)] + [(i, i + 5) for i in range(5)] + [(5 + i, 5 + (i + 2) % 5) for i in range(5)]
def theta(a, b, c):
    # two hubs 0,1 joined by three internally disjoint paths with a,b,c inner vertices
    E, nxt = [], 2
    for k in (a, b, c):
        prev = 0
        for _ in range(k):
            E.append((prev, nxt)); prev = nxt; nxt += 1
        E.append((prev, 1))
    return list(dict.fromkeys(tuple(sorted(e)) for e in E)), nxt
def random_tree(r, n): return [(r.randrange(i), i) for i in range(1, n)]
def cactus(r, k):
    E, n = [], 1
    for _ in range(k):
        a = r.randrange(n); L = r.randint(3, 5)
        vs = [a] + list(range(n, n + L - 1)); n += L - 1
        E += [(vs[i], vs[(i + 1) % L]) for i in range(L)]
    return E, n

def torus(a, b):
    return [((i * b + j), (i * b + (j + 1) % b)) for i in range(a) for j in range(b)] + [((i * b + j), (((i + 1) % a) * b + j)) for i in range(a) for j in range(b)]

def large_tie_graphs(r, tier):
    """graphs with more than 64 vertices and very many equal-length shortest paths (unit weights)"""
    out = []
    out.append((81, torus(9, 9), "torus9x9"))
    n, E = shuffle_graph(r, 100, grid(10, 10)); out.append((n, E, "grid10x10-shuffled"))
    n, E = shuffle_graph(r, 128, hypercube(7)); out.append((n, E, "Q7-shuffled"))
    out.append((72, bipartite(2, 70), "K2,70"))
    n = 100; E = gnp(r, n, 0.05); out.append((n, E, "gnp100-unit"))
    # long tied shortest paths (more than 32 / 64 vertices on a path): ladders, thin grids, a long tail ending in a square
    out.append((90, grid(2, 45), "ladder2x45"))
    out.append((120, grid(3, 40), "grid3x40"))
    t = 70; out.append((t + 4, [(i, i + 1) for i in range(t)] + [(t, t + 1), (t, t + 2), (t + 1, t + 3), (t + 2, t + 3)], "tail70+square"))
    if tier != "quick":
        out.append((256, hypercube(8), "Q8"))
        n, E = shuffle_graph(r, 144, torus(12, 12)); out.append((n, E, "torus12x12-shuffled"))
        for _ in range(4):
            n = r.randint(70, 140); out.append((n, gnp(r, n, 3.0 / n), "gnp-unit-large"))
    return [(n, [(u, v, 1) for (u, v) in E], 0, tag) for (n, E, tag) in out]

def nverts(E, n=None): return n if n is not None else (max(max(e) for e in E) + 1 if E else 0)

def disjoint_union(parts):
    E, off = [], 0
    for (n, es) in parts:
        E += [(u + off, v + off) for (u, v) in es]; off += n
    return off, E

def decorate(r, n, E):
    """add isolated vertices, pendant trees and bridges to another blob"""
    E = list(E)
    for _ in range(r.randint(0, 2)): n += 1                       # isolated
    for _ in range(r.randint(0, 3)):                               # pendant paths / trees
        if n == 0: n = 1
        a = r.randrange(n)
        for _ in range(r.randint(1, 3)):
            E.append((a, n)); a = r.choice([a, n]); n += 1
    return n, E

def weights(r, E, style):
    """-> ([(u,v,w)], scale)"""
    if style == "unit": return [(u, v, 1) for (u, v) in E], 0
    if style == "small": return [(u, v, r.randint(1, 3)) for (u, v) in E], 0
    if style == "two": return [(u, v, r.randint(1, 2)) for (u, v) in E], 0
    if style == "wide": return [(u, v, r.randint(1, 1000)) for (u, v) in E], 0
    # dyadic weights w / 2^scale over the whole exponent range in which sums stay exact: tiny (2^-60: every weight and
    # every difference is far below machine epsilon), ordinary, and huge (w * 2^20)
    if style == "dyadic": return [(u, v, r.randint(1, 64)) for (u, v) in E], r.choice([1, 3, 5, 40, 55, 60, -20])
    # mixed magnitudes: small weights next to weights around 2^43 (ratio > 1e12), alternatives that differ by a few
    # units — still exactly summable (scale -1: real weight = 2 w; int runs are skipped for non-zero scales)
    if style == "mixed":
        B = 2 ** 42
        return [(u, v, r.randint(1, 4) if r.random() < .5 else B + r.randint(0, 4)) for (u, v) in E], -1
    raise ValueError(style)

def shuffle_graph(r, n, E):
    perm = list(range(n)); r.shuffle(perm)
    E = [(perm[u], perm[v]) if r.random() < .5 else (perm[v], perm[u]) for (u, v) in E]
    r.shuffle(E)
    return n, E

def random_graph(r, maxn=12, big=False):
    """a structured random simple graph: (n, E, tag)"""
    kind = r.choice(["gnp-sparse", "gnp-mid", "gnp-dense", "complete", "bipartite", "grid", "hypercube", "wheel", "theta",
                     "cactus", "petersen", "union", "tree", "forest", "empty", "cycle", "gnp-sparse", "gnp-mid", "dense+tails", "dense+tails"])
    n = r.randint(2, maxn)
    if kind == "gnp-sparse": E = gnp(r, n, 1.6 / max(n, 2))
    elif kind == "gnp-mid": E = gnp(r, n, 0.35)
    elif kind == "gnp-dense": n = min(n, 9 if not big else maxn); E = gnp(r, n, 0.8)
    elif kind == "complete": n = r.randint(2, 6 if not big else 9); E = complete(n)
    elif kind == "dense+tails":
        # a dense core (supports reach |S| >= n: the all-vertices search branch) plus isolated / pendant vertices and
        # short tails whose lightest odd closed walk is not a simple cycle through them
        k = r.randint(5, 7 if not big else 8)
        E = [e for e in complete(k) if r.random() < 0.92]; n = k
        for _ in range(r.randint(1, 3)):
            t = r.choice(["isolated", "pendant", "path2"])
            if t == "isolated": n += 1
            elif t == "pendant": E.append((r.randrange(k), n)); n += 1
            else: E.append((r.randrange(k), n)); E.append((n, n + 1)); n += 2
    elif kind == "bipartite": a, b = r.randint(1, 4), r.randint(1, 4); n = a + b; E = bipartite(a, b)
    elif kind == "grid": a, b = r.randint(1, 4), r.randint(2, 4); n = a * b; E = grid(a, b)
    elif kind == "hypercube": d = r.randint(1, 3 if not big else 4); n = 1 << d; E = hypercube(d)
    elif kind == "wheel": k = r.randint(3, 7); n = k + 1; E = wheel(k)
    elif kind == "theta": E, n = theta(r.randint(0, 3), r.randint(1, 3), r.randint(1, 3))
    elif kind == "cactus": E, n = cactus(r, r.randint(1, 4))
    elif kind == "petersen": n = 10; E = petersen()
    elif kind == "cycle": n = r.randint(3, maxn); E = cycle(n)
    elif kind == "tree": E = random_tree(r, n)
    elif kind == "forest":
        parts = [(k, random_tree(r, k)) for k in [r.randint(1, 4) for _ in range(r.randint(1, 3))]]
        n, E = disjoint_union(parts)
    elif kind == "empty": n = r.choice([0, 1, 2, 5]); E = []
    elif kind == "union":
        parts = []
        for _ in range(r.randint(2, 3)):
            k = r.randint(1, 6); parts.append((k, gnp(r, k, 0.6)))
        n, E = disjoint_union(parts)
    E = [tuple(e) for e in E]
    if r.random() < 0.4 and kind != "empty": n, E = decorate(r, n, E)
    if r.random() < 0.7: n, E = shuffle_graph(r, n, E)
    return n, E, kind

def all_small_graphs(n):
    """all labelled simple graphs on n vertices (as edge lists)"""
    pairs = [(u, v) for u in range(n) for v in range(u + 1, n)]
    for mask in range(1 << len(pairs)):
        yield [pairs[i] for i in range(len(pairs)) if mask >> i & 1]

def render_graph(cid, kind, wt, scale, args, n, WE):
    s = "case %s %s %s %d%s\n" % (cid, kind, wt, scale, "".join(" " + str(a) for a in args))
    s += "g %d %d\n" % (n, len(WE)) + "".join("e %d %d %d\n" % e for e in WE) + "end\n"
    return s

# ------------------------------------------------------------------ independent python oracles

class UF:
    def __init__(self, n): self.p = list(range(n))
    def find(self, x):
        while self.p[x] != x:
            self.p[x] = self.p[self.p[x]]; x = self.p[x]
        return x
    def union(self, a, b):
        a, b = self.find(a), self.find(b)
        if a == b: return False
        self.p[a] = b; return True

def components(n, E):
    uf = UF(n)
    for e in E: uf.union(e[0], e[1])
    return len({uf.find(v) for v in range(n)})

def is_forest(n, E):
    uf = UF(n)
    return all(uf.union(e[0], e[1]) for e in E)

def gf2_rank(vectors):
    """vectors = iterable of python ints (bitmasks)"""
    basis = []
    for v in vectors:
        for b in basis: v = min(v, v ^ b)
        if v: basis.append(v)
    return len(basis)

def is_simple_cycle(WE, ids):
    """edge ids form exactly one simple cycle"""
    if len(ids) < 3 or len(set(ids)) != len(ids): return False
    deg, adj = {}, {}
    for i in ids:
        u, v = WE[i][0], WE[i][1]
        for a, b in ((u, v), (v, u)):
            deg[a] = deg.get(a, 0) + 1; adj.setdefault(a, []).append(b)
    if any(d != 2 for d in deg.values()): return False
    start = next(iter(deg)); seen = {start}; stack = [start]
    while stack:
        x = stack.pop()
        for y in adj[x]:
            if y not in seen: seen.add(y); stack.append(y)
    return len(seen) == len(deg)

def mcb_weight_oracle(n, WE):
    """independent minimum cycle basis weight: Horton candidates (all shortest-path-tree fundamental
    cycles via Floyd–Warshall with path reconstruction) + greedy GF(2) elimination."""
    m = len(WE)
    if m == 0: return 0
    INF = float("inf")
    d = [[INF] * n for _ in range(n)]; nxt = [[None] * n for _ in range(n)]; eid = {}
    for i, (u, v, w) in enumerate(WE):
        eid[(u, v)] = i; eid[(v, u)] = i
        if w < d[u][v]:
            d[u][v] = d[v][u] = w; nxt[u][v] = v; nxt[v][u] = u
    for v in range(n): d[v][v] = 0
    for k in range(n):
        dk = d[k]
        for i in range(n):
            dik = d[i][k]
            if dik == INF: continue
            di = d[i]; ni = nxt[i]
            for j in range(n):
                if dik + dk[j] < di[j]:
                    di[j] = dik + dk[j]; ni[j] = ni[k]
    def path_mask(a, b):
        mk = 0
        while a != b:
            c = nxt[a][b]; mk ^= 1 << eid[(a, c)]; a = c
        return mk
    cands = []
    for x in range(n):
        for i, (u, v, w) in enumerate(WE):
            if d[x][u] == INF or d[x][v] == INF: continue
            mk = path_mask(x, u) ^ path_mask(x, v) ^ (1 << i)
            if mk == 0: continue
            wt = sum(WE[j][2] for j in range(m) if mk >> j & 1)
            cands.append((wt, mk))
    cands.sort()
    N = m - n + components(n, WE)
    basis, total = [], 0
    for wt, mk in cands:
        v = mk
        for b in basis: v = min(v, v ^ b)
        if v:
            basis.append(v); total += wt
            if len(basis) == N: break
    return total if len(basis) == N else None
