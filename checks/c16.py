"""C16 — ForestIndex: theorems (Props/C16.lean) + literal replay of spanning_forest/ForestIndex with the
observed unordered_set order + independent oracle (union–find) on the implementation's answers."""
from gcommon import *

THEOREMS = ["Parmcb.C16." + t for t in ["c16_forest_edges", "c16_forest_acyclic", "c16_forest_card", "c16_forest_spanning",
            "c16_index_bijection", "c16_index_inverse", "c16_split", "c16_dim", "c16_exact_domain"]]

def oracle(case, block):
    """the property itself on the implementation's output"""
    n, WE, scale, tag = case
    m = len(WE)
    try:
        index = list(map(int, line(block, "index"))); rev = list(map(int, line(block, "rev")))
        onf = list(map(int, line(block, "onforest"))); dim = int(line(block, "dim")[0]); k = int(line(block, "k")[0])
    except Exception as ex:
        return "unparsable output"
    c = components(n, WE)
    if sorted(index) != list(range(m)): return "index is not a bijection onto 0..m-1"
    if any(rev[index[e]] != e for e in range(m)) or any(index[rev[i]] != i for i in range(m)): return "lookups are not inverse"
    if k != c: return "reports %d components, graph has %d" % (k, c)
    if dim != m - n + c: return "reports dimension %d, m-n+c = %d" % (dim, m - n + c)
    if any((onf[e] == 1) != (index[e] >= dim) for e in range(m)): return "is_on_forest disagrees with index >= dimension"
    F = [WE[e] for e in range(m) if index[e] >= dim]
    if not is_forest(n, F): return "on-forest edges contain a cycle"
    if components(n, F) != c: return "on-forest edges do not connect every component"
    held = line(block, "held"); conc = line(block, "conc")
    if held is not None and list(map(int, held)) != index: return "edge-to-index results held by reference change when further lookups are made"
    if conc is not None and int(conc[0]) != 0: return "%s wrong answers from concurrent const lookups" % conc[0]
    # copies answer like the original
    orig = ["index"] + line(block, "index") + ["rev"] + line(block, "rev") + ["onforest"] + line(block, "onforest") + ["dim", str(dim), "k", str(k)]
    for tag in ("assigned", "copied"):
        got = line(block, tag)
        if got is not None and got != orig: return "a %s ForestIndex answers differently from the original (e.g. dimension/is_on_forest)" % tag
    return None

def run(tier, replay=None):
    res = Result("C16", tier, "proof")
    res.assumptions = ["hand-written model Model/Forest.lean; the iteration order of std::unordered_set is an explicit argument (observed from an identically filled set) and all theorems quantify over it",
                       "erase keeps the relative order of the remaining elements of the unordered_set (validated by the literal replay)",
                       "Boost adjacency_list iteration orders (edges, out_edges)"]
    lean_ok = lean_gate(res, "Parmcb.Props.C16", THEOREMS)
    binary, log = compile_harness("h_graph.cpp", sanitize=(tier == "thorough"))
    if binary is None:
        res.violation("harness does not compile against the working tree", {"kind": "compile", "log": log[-3000:]}, found=False)
        return res.finish()
    r = rng("c16")
    if replay:
        rp = json.load(open(replay))["replay"]
        cases = {"replay": (rp["n"], [tuple(e) for e in rp["edges"]], rp.get("scale", 0), "replay")}
    else:
        cases = graph_cases(r, tier, 1500 if tier == "quick" else 20000, 14 if tier == "quick" else 40,
                            small_exhaustive=4 if tier == "quick" else 5)
    rc, out, err = run_graph_kind(binary, "forest", cases)
    if rc != 0:
        res.violation("harness crashed / sanitizer report", {"kind": "crash", "stderr": err[-3000:]})
        return res.finish()
    blocks = parse_blocks(out)
    bad = [(cid, oracle(c, blocks.get(cid, {"lines": []}))) for cid, c in cases.items()]
    bad = [(cid, why) for cid, why in bad if why]
    verdicts = run_driver(out) if lean_ok else []
    oks, diffs, viols = parse_driver(verdicts)
    res.coverage.update({"evaluations": len(cases), "distinct_nontrivial": distinct_nontrivial(cases),
        "rule": "all labelled simple graphs on <=4 (quick) / <=5 (thorough) vertices + structured random graphs (G(n,p), K_n, K_ab, grids, hypercubes, wheels, thetas, cacti, Petersen, unions, trees, forests, empty; isolated vertices, pendant trees; shuffled labels/insertion order); non-trivial = at least 2 edges; distinct by (n, edge list)",
        "traces_validated_against_impl": len(oks), "samples": [{"n": c[0], "edges": c[1]} for c in list(cases.values())[-2:]], **stats(cases)})
    # sizes beyond the 8- and 16-bit boundaries (oracle only: the list-based model is quadratic): many components,
    # isolated edges, more than 65536 vertices / edges / components
    if not bad and not replay:
        big = {}
        n1 = 70000; E1 = [(i, i + 1, 1) for i in range(n1 - 1) if i % 7 != 3] + [(i, i + 5, 1) for i in range(0, n1 - 5, 950)]
        big["path-pieces-70000"] = (n1, E1, 0, "big")
        n2 = 600; E2 = [(a, b, 1) for a in range(n2) for b in range(a + 1, min(n2, a + 4))]                   # m = 1794, dim > 1024
        big["band-600"] = (n2, E2, 0, "big")
        n3 = 140000; E3 = [(2 * i, 2 * i + 1, 1) for i in range(n3 // 2) if i % 3] + [(0, 2, 1), (1, 3, 1), (0, 3, 1)]     # > 46000 isolated-edge components
        big["matching-140000"] = (n3, E3, 0, "big")
        rcb, outb, errb = run_graph_kind(binary, "forest", big)
        bb = parse_blocks(outb)
        for cid, c in big.items():
            why = "harness crashed" if rcb != 0 else oracle(c, bb.get(cid, {"lines": []}))
            if why:
                res.violation("ForestIndex on %s (n = %d, m = %d): %s" % (cid, c[0], len(c[1]), why),
                              {"kind": "generated", "family": cid, "n": c[0], "m": len(c[1]), "why": why, "edges_rule": "see checks/c16.py (big graphs)"})
                return res.finish()
        res.coverage["large_graphs"] = {k: [c[0], len(c[1])] for k, c in big.items()}
    if bad:
        cid, why = bad[0]
        def still_bad(c):
            rc, o, e = run_graph_kind(binary, "forest", {"s": c})
            return rc != 0 or oracle(c, parse_blocks(o).get("s", {"lines": []})) is not None
        c = shrink_graph(cases[cid], still_bad)
        res.violation("ForestIndex: " + why, {"kind": "graph", "n": c[0], "edges": c[1], "scale": c[2], "why": why, "count": len(bad)})
    elif diffs or viols or (lean_ok and len(oks) != len(cases)):
        res.violation("model/implementation correspondence broken (Model/Forest.lean vs spanning_forest.hpp/forestindex.hpp); the C16 oracle still holds on all %d graphs" % len(cases),
                      {"kind": "correspondence", "first": (diffs + viols)[:3]}, found=False)
    return res.finish()
