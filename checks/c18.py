"""C18 — fp / primes / SpVecFP: theorems (Props/C18.lean) + literal correspondence with the real
templates for long, int and cpp_int + arithmetic oracle (python ints) on the implementation."""
import json, math
from lib import *

THEOREMS = ["Parmcb.C18." + t for t in ["c18_extgcd", "c18_inverse", "c18_isPrimeWith", "c18_isPrime", "c18_add_canon",
            "c18_add_dense", "c18_scale_canon", "c18_scale_dense", "c18_dot", "c18_canonical"]]
PRIMES = [2, 3, 5, 7, 13, 17, 101, 257, 7901, 65537]

def is_prime_py(p):
    if p < 2: return False
    i = 2
    while i * i <= p:
        if p % i == 0: return False
        i += 1
    return True

def scalar_cases(r, tier):
    cases = {}
    # exhaustive small pairs for the built-in types
    R = 25 if tier == "quick" else 60
    for T in ("long", "int"):
        qs = [["gcd", a, b] for a in range(-R, R + 1) for b in range(-R, R + 1) if (a, b) != (0, 0)]
        cases["gcd-ex-" + T] = (T, qs)
        cases["inv-ex-" + T] = (T, [["inv", a, p] for p in range(1, 40) for a in range(-45, 46)])
    N = 3000 if tier == "quick" else 30000
    cases["prime-ex-long"] = ("long", [["prime", p] for p in range(2, N)])
    cases["prime-ex-int"] = ("int", [["prime", p] for p in range(2, N // 2)])
    cases["prime-ex-cpp"] = ("cpp", [["prime", p] for p in range(2, N // 3)])
    nr = 400 if tier == "quick" else 5000
    big = lambda bits: r.getrandbits(bits) * r.choice([1, -1])
    cases["gcd-r-long"] = ("long", [["gcd", big(r.choice([8, 30, 61])), big(r.choice([8, 30, 61]))] for _ in range(nr)])
    cases["gcd-r-int"] = ("int", [["gcd", big(r.choice([8, 30])), big(r.choice([8, 30]))] for _ in range(nr)])
    cases["gcd-r-cpp"] = ("cpp", [["gcd", big(r.choice([8, 64, 200])), big(r.choice([8, 64, 200]))] for _ in range(nr)] +
                          [["gcd", 0, big(70)], ["gcd", big(70), 0], ["gcd", -5, 0], ["gcd", 0, -7]])
    cases["inv-r-cpp"] = ("cpp", [["inv", big(r.choice([8, 64, 150])), abs(big(r.choice([8, 64, 150]))) + 1] for _ in range(nr)])
    cases["inv-r-long"] = ("long", [["inv", big(30), abs(big(30)) + 1] for _ in range(nr)])
    # the top of the built-in range: the largest values an int can hold (sqrt about 46341, cheap) and, for long, values
    # just above 2^32 squared boundaries are too slow to trial-divide, so long gets the squares/products around 2^31
    top = 2 ** 31 - 1
    cases["prime-top-int"] = ("int", [["prime", top - d] for d in range(0, 70)] + [["prime", 46337 * 46337], ["prime", 46337 * 46327], ["prime", 46340 * 46340 + 1]])
    cases["prime-top-long"] = ("long", [["prime", q] for q in (2 ** 31 - 1, 2 ** 31 + 11, 2 ** 32 - 5, 2 ** 32 + 15, 65537 * 65539, 65521 * 65521, 2 ** 40 - 87, 1000003 * 1000033)])
    cases["prime-r-long"] = ("long", [["prime", r.getrandbits(r.choice([20, 30, 40])) | 1] for _ in range(60 if tier == "quick" else 400)])
    for k in cases:  # gcd(0,0) excluded by the property's domain
        cases[k] = (cases[k][0], [q for q in cases[k][1] if not (q[0] == "gcd" and q[1] == 0 and q[2] == 0)])
    return cases

def scalar_oracle(q, robs):
    """the property itself, decided with python integers on the implementation's answer"""
    w = robs.split()
    if q[0] == "gcd":
        a, b = q[1], q[2]
        g, x, y = int(w[0]), int(w[1]), int(w[2])
        return g == math.gcd(a, b) and a * x + b * y == g
    if q[0] == "inv":
        a, p = q[1], q[2]
        if math.gcd(a, p) == 1:
            return w[0] == "ok" and (a * int(w[1]) - 1) % p == 0
        return w[0] == "throw"
    if q[0] == "prime":
        return w[0] == ("1" if is_prime_py(q[1]) else "0")
    return False

def gen_vec_history(r, p, maxlen):
    ops, live = [["new"], ["new"]], 2
    ops.append(["unit", 0, r.randrange(6)]); ops.append(["unit", 1, r.randrange(6)])
    for _ in range(r.randint(1, maxlen)):
        k = r.choice(["new", "unit", "copy", "add", "add", "addAssign", "addAssign", "scale", "scale", "scaleAssign", "assign", "clear", "dot", "dot", "size"])
        v = lambda: r.randrange(live)
        c = lambda: r.choice([0, 1, -1, 2, -2, p, -p, p - 1, 1 - p, r.randrange(-3 * p, 3 * p + 1)])
        if k == "new": ops.append(["new"]); live += 1
        elif k == "unit": ops.append(["unit", v(), r.randrange(8)])
        elif k == "copy": ops.append(["copy", v()]); live += 1
        elif k == "add": ops.append(["add", v(), v()]); live += 1
        elif k in ("addAssign", "assign", "dot"): ops.append([k, v(), v()])
        elif k == "scale": ops.append(["scale", v(), c()]); live += 1
        elif k == "scaleAssign": ops.append(["scaleAssign", v(), c()])
        elif k in ("clear", "size"): ops.append([k, v()])
    return ops

def vec_oracle(p, ops):
    st, out = [], []
    show = lambda d: "vec %d" % len(d) + "".join(" %d:%d" % (i, d[i]) for i in sorted(d)) + " mod %d" % p
    clean = lambda d: {i: v % p for i, v in d.items() if v % p != 0}
    for o in ops:
        k = o[0]
        if k == "new": st.append({}); out.append(show(st[-1]))
        elif k == "unit": st[o[1]] = {o[2]: 1}; out.append(show(st[o[1]]))
        elif k == "copy": st.append(dict(st[o[1]])); out.append(show(st[-1]))
        elif k in ("add", "addAssign"):
            d = dict(st[o[1]])
            for i, v in st[o[2]].items(): d[i] = d.get(i, 0) + v
            d = clean(d)
            if k == "add": st.append(d); out.append(show(d))
            else: st[o[1]] = d; out.append(show(d))
        elif k in ("scale", "scaleAssign"):
            d = clean({i: v * o[2] for i, v in st[o[1]].items()})
            if k == "scale": st.append(d); out.append(show(d))
            else: st[o[1]] = d; out.append(show(d))
        elif k == "assign": st[o[1]] = dict(st[o[2]]); out.append(show(st[o[1]]))
        elif k == "clear": st[o[1]] = {}; out.append(show({}))
        elif k == "dot": out.append("val %d" % (sum(v * st[o[2]].get(i, 0) for i, v in st[o[1]].items()) % p))
        elif k == "size": out.append("num %d" % len(st[o[1]]))
    return out

def run(tier, replay=None):
    res = Result("C18", tier, "proof")
    res.assumptions = ["hand-written model Model/Fp.lean over unbounded Int (overflow of long/int outside the property)",
                       "floating-point sqrt of the built-in instantiations equals the integer square root on the tested range (validated by the correspondence)",
                       "sampled + exhaustive-small correspondence (harness/h_fp.cpp)"]
    lean_ok = lean_gate(res, "Parmcb.Props.C18", THEOREMS)
    binary, log = compile_harness("h_fp.cpp", libs=("-lboost_serialization",), sanitize=(tier == "thorough"))
    if binary is None:
        res.violation("harness does not compile against the working tree", {"kind": "compile", "log": log[-3000:]}, found=False)
        return res.finish()
    r = rng("c18")
    sc = scalar_cases(r, tier)
    vc = {}
    nv = 600 if tier == "quick" else 8000
    for i in range(nv):
        T = r.choice(["long", "int", "cpp"])
        p = r.choice(PRIMES[:8] if T == "int" else PRIMES)
        vc["v%d" % i] = (T, p, gen_vec_history(r, p, 10 if i % 4 else 30))
    if replay:
        rp = json.load(open(replay))["replay"]
        if rp.get("kind") == "scalar": sc, vc = {"replay": (rp["T"], [rp["query"]])}, {}
        elif rp.get("kind") == "vec": sc, vc = {}, {"replay": (rp["T"], rp["p"], rp["ops"])}
    text = ""
    for cid, (T, qs) in sc.items():
        text += "case %s fp %s\n" % (cid, T) + "".join(" ".join(map(str, q)) + "\n" for q in qs) + "end\n"
    for cid, (T, p, ops) in vc.items():
        text += "case %s fpvec %s %d\n" % (cid, T, p) + "".join("op " + " ".join(map(str, o)) + "\n" for o in ops) + "end\n"
    rc, out, err = run_harness(binary, text)
    if rc != 0:
        res.violation("harness crashed / sanitizer report", {"kind": "crash", "stderr": err[-3000:]})
        return res.finish()
    obs, cur = {}, None
    for l in out.split("\n"):
        w = l.split()
        if not w: continue
        if w[0] == "case": cur = w[1]; obs[cur] = []
        elif w[0] == "r": obs[cur].append(" ".join(w[1:]))
    viol = None
    nq = 0
    for cid, (T, qs) in sc.items():
        o = obs.get(cid, [])
        for i, q in enumerate(qs):
            nq += 1
            if i >= len(o) or not scalar_oracle(q, o[i]):
                viol = viol or {"kind": "scalar", "T": T, "query": q, "observed": o[i] if i < len(o) else None,
                                "finding_key": None}
    for cid, (T, p, ops) in vc.items():
        if obs.get(cid) != vec_oracle(p, ops):
            viol = viol or {"kind": "vec", "T": T, "p": p, "ops": ops, "observed": obs.get(cid), "expected": vec_oracle(p, ops)}
    verdicts = run_driver(out) if lean_ok else []
    oks, diffs, viols = parse_driver(verdicts)
    res.coverage.update({
        "evaluations": nq + len(vc), "distinct_nontrivial": nq + len({json.dumps(v[2]) for v in vc.values()}),
        "rule": "scalar queries: all (a,b) in a square around 0 for long/int, all (a,p) small, all p below a bound for is_prime, random 8..200-bit values (cpp_int) / 61-bit (long) / 30-bit (int); SpVecFP histories with scalars including negatives and multiples of p; distinct by query / op list",
        "traces_validated_against_impl": len(oks), "scalar_queries": nq, "vector_histories": len(vc),
        "samples": [sc["gcd-r-cpp"][1][:3] if "gcd-r-cpp" in sc else None] + [v[2] for v in list(vc.values())[:1]],
    })
    if viol:
        res.violation("implementation disagrees with arithmetic modulo p / gcd / primality", viol)
    elif diffs or viols or (lean_ok and len(oks) != len(sc) + len(vc)):
        res.violation("model/implementation correspondence broken (Model/Fp.lean vs fp.hpp/spvecfp.hpp); arithmetic oracle still satisfied on all cases",
                      {"kind": "correspondence", "first": (diffs + viols)[:3]}, found=False)
    return res.finish()
