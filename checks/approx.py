"""shared by C05 / C06 / C15: approximate runs and spanner dumps"""
from exact import *

def oracle_c15(case, k, block):
    n, WE, scale, tag = case
    m = len(WE)
    try:
        scan = list(map(int, line(block, "scan"))); R = list(map(int, line(block, "retained"))); D = list(map(int, line(block, "dropped")))
    except Exception: return "unparsable output"
    if sorted(R + D) != list(range(m)): return "retained and dropped edges do not partition the edge set"
    spe = [tuple(map(int, w)) for w in lines(block, "spe")]
    if len(spe) != len(R): return "spanner edge count differs from the retained list"
    for (u, v, w), e in zip(spe, R):
        if {u, v} != {WE[e][0], WE[e][1]}: return "spanner edge %d does not join the endpoints of input edge %d" % (R.index(e), e)
        if w != WE[e][2]: return "spanner edge for input edge %d carries weight %d instead of %d" % (e, w, WE[e][2])
    adj = {}
    for e in R:
        u, v, w = WE[e]; adj.setdefault(u, []).append((v, e)); adj.setdefault(v, []).append((u, e))
    def hops(a, b, maxw=None, skip=None):
        dist = {a: 0}; q = [a]
        for x in q:
            for y, e in adj.get(x, []):
                if e == skip or (maxw is not None and WE[e][2] > maxw): continue
                if y not in dist: dist[y] = dist[x] + 1; q.append(y)
        return dist.get(b)
    for e in D:
        u, v, w = WE[e]
        h = hops(u, v, maxw=w)
        if h is None or h > 2 * k - 1: return "dropped edge %d has no path of <= %d retained edges of weight <= its own" % (e, 2 * k - 1)
    for e in R:          # girth: shortest cycle through e = 1 + hops avoiding e
        u, v, w = WE[e]
        h = hops(u, v, skip=e)
        if h is not None and h + 1 <= 2 * k: return "retained subgraph has a cycle of %d <= 2k edges" % (h + 1)
    return None

def oracle_c05(case, k, block):
    n, WE, scale, tag = case
    m = len(WE)
    if k == 0: return None
    if line(block, "ret") is None: return "no result (exception or crash)"
    if int(line(block, "foreign")[0]) != 0: return "emits edge descriptors that are not edges of the caller's graph"
    why = oracle_c01(case, block)
    if why: return why
    ret, exact = int(line(block, "ret")[0]), line(block, "ret")[1] == "1"
    tot = sum(WE[e][2] for c in cycles_of(block) for e in c)
    if not exact or ret != tot or int(line(block, "truew")[0]) != tot:
        return "returned value %s != weight of the emitted cycles under the caller's weight map %d" % (line(block, "ret")[0], tot)
    return None

def oracle_c06(case, k, block, mu):
    n, WE, scale, tag = case
    if k == 0:
        t = line(block, "throw")
        if t is None: return "k = 0 is not rejected with an exception"
        if int(t[0]) != 0 or cycles_of(block): return "k = 0: cycles were emitted before the exception"
        return None
    if line(block, "ret") is None: return "no result (exception or crash)"
    tot = sum(WE[e][2] for c in cycles_of(block) for e in c if 0 <= e < len(WE))
    if mu is None: return None
    if tot > (2 * k - 1) * mu: return "emitted weight %d exceeds (2k-1) x optimum = %d" % (tot, (2 * k - 1) * mu)
    if tot < mu: return "emitted weight %d is below the optimum %d (not a basis?)" % (tot, mu)
    if k == 1 and tot != mu: return "k = 1: emitted weight %d is not the optimum %d" % (tot, mu)
    return None

def oracle_c05_light(case, k, block):
    """C05 without the GF(2) rank (graphs with > 10^4 cycles): count, caller's descriptors, simple cycles, returned value"""
    n, WE, scale, tag = case
    m = len(WE)
    if line(block, "ret") is None: return "no result (exception or crash)"
    if int(line(block, "foreign")[0]) != 0: return "emits edge descriptors that are not edges of the caller's graph"
    cyc = cycles_of(block)
    N = m - n + components(n, WE)
    if len(cyc) != N: return "emits %d cycles, m-n+c = %d" % (len(cyc), N)
    for c in cyc:
        if any(e < 0 or e >= m for e in c): return "cycle names a non-edge"
        if not is_simple_cycle(WE, c): return "emitted edge list %s is not one simple cycle" % c
    if len({tuple(sorted(c)) for c in cyc}) != N: return "the same cycle is emitted twice"
    ret, exact = int(line(block, "ret")[0]), line(block, "ret")[1] == "1"
    tot = sum(WE[e][2] for c in cyc for e in c)
    if not exact or ret != tot or int(line(block, "truew")[0]) != tot:
        return "returned value %s != weight of the emitted cycles under the caller's weight map %d" % (line(block, "ret")[0], tot)
    return None

def many_dropped_cases(r, tier):
    """complete graphs with more than 1024 (K52.., k = 2) and more than 16384 (K200) dropped edges: the ranges the TBB builder
    reduces over become divisible whatever grainsize they carry; the exact phase only sees the sparse spanner.
    -> id -> (case, k, light)"""
    out = {}
    for i, n in enumerate([52, 58] if tier == "quick" else [52, 55, 58, 64, 72]):
        WE = [(a, b, r.randint(1, 20)) if r.random() < .5 else (b, a, r.randint(1, 20)) for a in range(n) for b in range(a + 1, n)]
        r.shuffle(WE)
        out["kd%d" % i] = ((n, WE, 0, "many-dropped-1k"), r.choice([2, 2, 3]), False)
    n = 200
    WE = [(a, b, r.randint(1, 9)) for a in range(n) for b in range(a + 1, n)]
    r.shuffle(WE)
    out["kdx"] = ((n, WE, 0, "many-dropped-16k"), 2, True)
    return out

def run_many_dropped(binary, r, tier, variants, extra_args, timeout=1800):
    """-> (list of (id, why), number of runs, total dropped-edge cycles)"""
    fam = many_dropped_cases(r, tier)
    jobs = {}
    for cid, (c, k, light) in fam.items():
        for v in (variants if not light else variants[:1]):
            jobs["%s-%s" % (cid, v)] = (c, [v, k] + list(extra_args(v)), k, light)
    text = "".join(render_graph(j, "approx", "d", 0, a, c[0], c[1]) for j, (c, a, k, light) in jobs.items())
    rc, out, err = run_harness(binary, text, timeout=timeout)
    blocks = parse_blocks(out)
    bad, cyc = [], 0
    for j, (c, a, k, light) in jobs.items():
        b = blocks.get(j, {"lines": []})
        why = (oracle_c05_light if light else oracle_c05)(c, k, b)
        cyc += len(cycles_of(b))
        if why: bad.append((j, why, c, a))
    if rc != 0 and not bad: bad.append(("crash", "harness crashed on the many-dropped-edges family: " + err[-300:], (0, [], 0, ""), []))
    return bad, len(jobs), cyc

AVARIANTS = ["signed", "fvs", "iso"]

def approx_cases(r, tier, count, maxn, small_exhaustive, ks, variants=AVARIANTS):
    base = graph_cases(r, tier, count, maxn, small_exhaustive=small_exhaustive)
    cases, meta = {}, {}
    for cid, c in base.items():
        for v in (variants if not cid.startswith("x") else variants[:1] if r.random() < .7 else variants):
            kk = ks if not cid.startswith("x") else [r.choice(ks)]
            for k in ([r.choice(kk)] if len(kk) > 2 and not cid.startswith("x") and r.random() < .6 else kk):
                key = "%s-%s-k%d" % (cid, v, k)
                cases[key] = c; meta[key] = (v, k)
    # mid-size weighted graphs with small k: many dropped edges per run, several of them sharing an endpoint and closed over
    # spanners with alternative routes of different weight (where a Dijkstra that is stopped early, reused or bounded differs)
    for i in range(60 if tier == "quick" else 500):
        n = r.randint(13, 22); p = r.uniform(.3, .55)
        E = [(a, b) for a in range(n) for b in range(a + 1, n) if r.random() < p]
        r.shuffle(E)
        WE, scale = weights(r, [(a, b) if r.random() < .5 else (b, a) for (a, b) in E], r.choice(["small", "wide", "wide", "two"]))
        v = variants[i % len(variants)]; k = r.choice([k for k in ks if 2 <= k <= 4] or [2])
        key = "am%d-%s-k%d" % (i, v, k)
        cases[key] = (n, WE, scale, "approx-mid"); meta[key] = (v, k)
    return cases, meta

def run_kind(binary, kind, cases, meta, args_of, timeout=3600):
    text = "".join(render_graph(cid, kind, "d", c[2], args_of(meta[cid]), c[0], c[1]) for cid, c in cases.items())
    return run_harness(binary, text, timeout=timeout)


def spider_clique(A, L, wa=100, wc=101):
    """centre 0, A arms of L edges (weight wa), complete graph on the A arm tips (weight wc).
    -> n, WE, weight of an explicit cycle basis (an upper bound on the optimum)"""
    WE, tips, nxt = [], [], 1
    for a in range(A):
        prev = 0
        for i in range(L):
            WE.append((prev, nxt, wa)); prev = nxt; nxt += 1
        tips.append(prev)
    for i in range(A):
        for j in range(i + 1, A): WE.append((tips[i], tips[j], wc))
    big = 2 * L * wa + wc
    basis = (A - 1) * big + ((A - 1) * (A - 2) // 2) * 3 * wc        # arm0+arm j+tip edge; tip triangles through tip 0
    return nxt, WE, basis

def stretch_search(binary, variants=("signed",), budget_s=600):
    """focused search after the spanner correspondence broke: a family on which ANY loosening of the hop limit that
    lets tips at 2L > 2k-1 hops count as 'reachable' turns into a weight above (2k-1) x optimum.  The reference is an
    explicit basis, so a report is sound whatever the implementation does."""
    import time
    t0 = time.time()
    for k in (2, 3, 4, 5, 6, 7):
        Ls = sorted({L for L in (3 * k - 1, 3 * k + 2, 4 * k, 6 * k, 2 ** (k - 1) - 1, 2 ** (k - 1), 2 ** k // 2 + 1) if L > 3 * k - 2})
        for L in Ls:
            big = 2 * L * 100 + 101
            A = next((A for A in range(4, 221) if (A * (A - 1) // 2) * big > 1.05 * (2 * k - 1) * ((A - 1) * big + ((A - 1) * (A - 2) // 2) * 303)), None)
            if A is None or A * L > 6000: continue
            n, WE, wB = spider_clique(A, L)
            for v in variants:
                if time.time() - t0 > budget_s: return None
                rc, out, err = run_kind(binary, "approx", {"s": (n, WE, 0, "spider-clique")}, {"s": (v, k)}, lambda m: [m[0], m[1]], timeout=300)
                b = parse_blocks(out).get("s")
                if rc != 0 or b is None or line(b, "ret") is None: continue
                tot = sum(WE[e][2] for c in cycles_of(b) for e in c if 0 <= e < len(WE))
                if tot > (2 * k - 1) * wB:
                    return {"kind": "graph", "n": n, "edges": WE, "scale": 0, "variant": v, "k": k, "mu_upper": wB, "emitted": tot,
                            "why": "emitted weight %d exceeds (2k-1) x %d, the weight of an explicit cycle basis (arms=%d, arm length=%d)" % (tot, wB, A, L)}
    return None
