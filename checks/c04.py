"""C04 — MPI entry points for every rank count and memory layout: theorems (Props/C04.lean) + the real
entry points under mpiexec -n P with per-rank heap perturbation, rank-0 output trace-validated and judged
by the C01/C02 oracle, other ranks must emit nothing, watchdog for hangs."""
from exact import *

THEOREMS = ["Parmcb.C04." + t for t in ["c04_slices_partition", "c04_slice_bounds", "c04_slices_adjacent", "c04_minop_assoc", "c04_minop_comm",
            "c04_minop_ident", "c04_phase", "c04_pairs_same_order", "c04_pairs_layout_counterexample", "c04_collectives_aligned",
            "c04_signed_mpi_end_to_end", "c04_fvs_trees_mpi_end_to_end", "c04_iso_trees_mpi_end_to_end"]] + ["Parmcb.C02.c04_signed_mpi_heap_end_to_end"]
ENTRIES = ["mpi_signed", "mpi_fvs", "mpi_fvs_tbb", "mpi_iso", "mpi_iso_tbb"]

def mpirun(binary, P, text, timeout):
    f = os.path.join(scratch(), "mpi_%d_%d.case" % (P, abs(hash(text)) % 10 ** 9))
    open(f, "w").write(text)
    return run_watchdog(["mpiexec", "--allow-run-as-root", "--oversubscribe", "-n", str(P), binary, f], timeout)

def render(cid, c, entry, pseed):
    return render_graph(cid, "mpi", "d", c[2], [entry, pseed], c[0], c[1])

def judge(c, b, P, mu):
    if line(b, "ret") is None: return "rank 0 produced no result"
    why = oracle_c01(c, b) or oracle_c02(c, b, mu)
    if why: return why
    ranks = [w for w in b["lines"] if w[0] == "rank"]
    if len(ranks) != P: return "only %d of %d ranks reported" % (len(ranks), P)
    for w in ranks:
        if int(w[1]) != 0 and int(w[3]) != 0: return "rank %s emitted %s cycles" % (w[1], w[3])
    return None

def run(tier, replay=None):
    res = Result("C04", tier, "proof")
    res.assumptions = ["Open MPI / Boost.MPI collective semantics (a collective completes iff all ranks enter it; reduce with a commutative operator may combine in any tree) — trusted",
                       "literal layer: Model/MpiAlgo.lean is an end-to-end literal model of what rank 0 of the five MPI entry points computes; its correctness is PROVED for every P >= 1, every per-rank schedule, reduction tree and sort order (c04_*_mpi_end_to_end), with the literal searches / candidate builder inside; nothing in that model depends on a rank's memory layout",
                       "literal replay of the MPI tree variants (hook 5536bbc): every rank reports its sorted local candidate list; the model rebuilds each rank's trees and candidates from the rank's chunk (rankCollection) and must obtain exactly the reported candidates; chunk sizes must be the ceil-stride slices and all chunks together rank 0's collection; per phase every rank's lookup is evaluated literally on its reported order (TBB entry points under the stand-in's logged schedules) and what rank 0 emits must be a minimum-weight rank result",
                       "literal replay of mcb_sva_signed_mpi: every rank's parallel_reduce schedules are logged by the stand-in and gathered; per phase every rank's slice is reduced literally (literal heaps, forest-index enumeration) and what rank 0 emits must be a minimum-weight rank result (the reduction tree of boost::mpi::reduce is not observable, so ties between ranks are accepted either way)",
                       "per-rank heap layouts are sampled by the perturbation, not enumerated; after the repair the enumeration order of the signed edges is the ForestIndex order, which no layout can change (c04_pairs_same_order)"]
    lean_ok = lean_gate(res, "Parmcb", THEOREMS)
    # the TBB regions inside every rank run under the deterministic stand-in (seeded per rank): reproducible, and
    # rank 0's support initialisation order is observable for the trace validation
    binary, log = compile_harness("h_mpi.cpp", cxx="mpic++", flags=("-DPARMCB_SHIM",), pre_includes=(os.path.join(VERIF, "harness", "tbbshim"),),
                                  libs=("-lboost_timer", "-lboost_mpi", "-lboost_serialization"))
    if binary is None:
        res.violation("MPI harness does not compile against the working tree", {"kind": "compile", "log": log[-3000:]}, found=False)
        return res.finish()
    r = rng("c04")
    Ps = [1, 2, 3, 5] if tier == "quick" else [1, 2, 3, 4, 5, 7, 8]
    if replay:
        rp = json.load(open(replay))["replay"]
        base = {"replay": (rp["n"], [tuple(e) for e in rp["edges"]], rp.get("scale", 0), "replay")}
        Ps = [rp["P"]]; plan = {"replay": (rp["entry"], rp["pseed"])}
    else:
        base = graph_cases(r, tier, 60 if tier == "quick" else 600, 12 if tier == "quick" else 24, small_exhaustive=3)
        base = {k: v for k, v in base.items() if not k.startswith("x") or r.random() < (0.25 if tier == "quick" else 1.0)}
        plan = None
    mu_cache = {}
    def mu_of(c):
        key = json.dumps([c[0], c[1]])
        if key not in mu_cache: mu_cache[key] = mcb_weight_oracle(c[0], c[1])
        return mu_cache[key]
    bad, hangs, outs, nruns, jobs = [], [], "", 0, {}
    for P in Ps:
        batch = {}
        for cid, c in base.items():
            if plan: entry, pseed = plan[cid]; ents = [entry]
            else:
                ents = ENTRIES if not cid.startswith("x") else [r.choice(ENTRIES)]
            for entry in ents:
                pseed = plan[cid][1] if plan else r.choice([0, r.getrandbits(30) + 1, r.getrandbits(30) + 1])
                batch["%s-%s-P%d" % (cid, entry, P)] = (c, entry, pseed)
        text = "".join(render(j, c, e, ps) for j, (c, e, ps) in batch.items())
        rc, out, err = mpirun(binary, P, text, timeout=120 + 2 * len(batch))
        blocks = parse_blocks(out)
        if rc != 0:
            # a rank still inside a collective (hang) or a crash: find the first case without a complete block
            done = [j for j in batch if j in blocks and line(blocks[j], "entry")]
            first = next((j for j in batch if j not in done), None)
            if first:
                c, e, ps = batch[first]
                # confirm on its own
                rc1, out1, _ = mpirun(binary, P, render(first, c, e, ps), timeout=60)
                if rc1 != 0:
                    hangs.append({"kind": "mpi", "P": P, "entry": e, "pseed": ps, "n": c[0], "edges": c[1], "scale": c[2],
                                  "why": "ranks do not all return (watchdog)" if rc1 == "hang" else "mpiexec exit %s" % rc1})
        for j, (c, e, ps) in batch.items():
            if j not in blocks: continue
            nruns += 1; jobs[j] = (c, e, ps, P)
            why = judge(c, blocks[j], P, mu_of(c))
            if why: bad.append((j, why))
        outs += out
    verdicts = run_driver(outs) if lean_ok else []
    oks, diffs, viols = parse_driver(verdicts)
    res.coverage.update({"evaluations": nruns, "distinct_nontrivial": len({json.dumps([c[0], c[1], e, ps, P]) for (c, e, ps, P) in jobs.values() if len(c[1]) - c[0] + components(c[0], c[1]) >= 1}),
        "rule": "graph x {mcb_sva_signed_mpi, mcb_sva_fvs_trees_mpi, mcb_sva_fvs_trees_tbb_mpi, mcb_sva_iso_trees_mpi, mcb_sva_iso_trees_tbb_mpi} x communicator sizes %s x heap perturbation seeds (0 = none); non-trivial = cycle space dimension >= 1" % Ps,
        "traces_validated_against_impl": len(oks), "rank_counts": Ps,
        "mpi_signed_runs_replayed_literally_per_rank_under_the_logged_schedules": sum(int(w[10]) for w in oks if len(w) > 10 and w[1] in jobs and jobs[w[1]][1] == "mpi_signed"),
        "mpi_tree_variant_runs_replayed_literally_per_rank_on_the_reported_local_candidate_lists": {e: sum(int(w[10]) for w in oks if len(w) > 10 and w[1] in jobs and jobs[w[1]][1] == e) for e in ("mpi_fvs", "mpi_fvs_tbb", "mpi_iso", "mpi_iso_tbb")},
        "samples": [{"n": c[0], "edges": c[1], "entry": e, "pseed": ps, "P": P} for (c, e, ps, P) in list(jobs.values())[-2:]], **stats(base)})
    if hangs:
        res.violation("MPI entry point: " + hangs[0]["why"], hangs[0])
    elif bad or viols:
        j, why = bad[0] if bad else (viols[0][1], " ".join(viols[0][2:]))
        c, e, ps, P = jobs[j]
        def still_bad(cc):
            rc, o, _ = mpirun(binary, P, render("s", cc, e, ps), timeout=60)
            if rc != 0: return True
            b = parse_blocks(o).get("s")
            return b is None or judge(cc, b, P, mcb_weight_oracle(cc[0], cc[1])) is not None
        cc = shrink_graph(c, still_bad) if bad else c
        res.violation("C04 %s with %d ranks: %s" % (e, P, why), {"kind": "mpi", "P": P, "entry": e, "pseed": ps, "n": cc[0], "edges": cc[1], "scale": cc[2], "why": why, "count": len(bad) + len(viols)})
    elif diffs or (lean_ok and len(oks) != nruns):
        # focused search: fresh weighted graphs (unique optima) through the disagreeing entry points / rank counts with
        # per-rank heap layouts, and relabelled copies of the disagreeing graphs
        targets = []
        for d in diffs:
            if len(d) > 1 and d[1] in jobs:
                c, e, ps, P = jobs[d[1]]
                if (e, P) not in targets: targets.append((e, P))
        tried = 0
        for (e, P) in targets[:4]:
            for rnd in range(6):
                fb = {}
                for t in range(150):
                    n = r.randint(6, 11)
                    E = [(x, y) for x in range(n) for y in range(x + 1, n) if r.random() < r.choice([.3, .45, .6])]
                    r.shuffle(E)
                    WE = [((x, y, r.randint(1, 30)) if r.random() < .5 else (y, x, r.randint(1, 30))) for (x, y) in E]
                    fb["f%d" % t] = ((n, WE, 0, "focused-random"), e, r.getrandbits(30) + 1)
                rcf, outf, _ = mpirun(binary, P, "".join(render(j, c, ee, ps) for j, (c, ee, ps) in fb.items()), timeout=600)
                bf = parse_blocks(outf)
                for j, (c, ee, ps) in fb.items():
                    if j not in bf: continue
                    tried += 1
                    why = judge(c, bf[j], P, mcb_weight_oracle(c[0], c[1]))
                    if why:
                        res.coverage["focused_search_runs"] = tried
                        res.violation("C04 %s with %d ranks: %s (found by the focused search after the correspondence broke: %s)" % (ee, P, why, " ".join(diffs[0][2:])[:200]),
                                      {"kind": "mpi", "P": P, "entry": ee, "pseed": ps, "n": c[0], "edges": c[1], "scale": c[2], "why": why})
                        return res.finish()
        # third stage: OTHER communicator sizes and dense graphs (the all-vertices branch) whose lightest odd cycles sit on three
        # vertices at the end or at the start of the numbering — work that a wrong slice arithmetic leaves to nobody
        for e in [t[0] for t in targets[:2]]:
            for P2 in (6, 7, 8):
                fb = {}
                for t in range(30):
                    n = r.randint(9, 12)
                    light = set(range(n - 3, n)) if t % 2 == 0 else set(range(3))
                    WE = []
                    for x in range(n):
                        for y in range(x + 1, n):
                            w = r.randint(1, 5) if (x in light and y in light) else r.randint(200, 400)
                            WE.append((x, y, w) if r.random() < .5 else (y, x, w))
                    r.shuffle(WE)
                    fb["d%d" % t] = ((n, WE, 0, "focused-dense"), e, r.getrandbits(30) + 1)
                rcf, outf, _ = mpirun(binary, P2, "".join(render(j, c, ee, ps) for j, (c, ee, ps) in fb.items()), timeout=600)
                bf = parse_blocks(outf)
                for j, (c, ee, ps) in fb.items():
                    if j not in bf: continue
                    tried += 1
                    why = judge(c, bf[j], P2, mcb_weight_oracle(c[0], c[1]))
                    if why:
                        res.coverage["focused_search_runs"] = tried
                        res.violation("C04 %s with %d ranks: %s (found by the focused search after the correspondence broke: %s)" % (ee, P2, why, " ".join(diffs[0][2:])[:200]),
                                      {"kind": "mpi", "P": P2, "entry": ee, "pseed": ps, "n": c[0], "edges": c[1], "scale": c[2], "why": why})
                        return res.finish()
        res.coverage["focused_search_runs"] = tried
        res.violation("trace validation of the MPI runs broken (Model/Mpi.lean, Model/DePina.lean vs mpi/*.hpp); the oracle still holds on all %d runs" % nruns,
                      {"kind": "correspondence", "first": diffs[:3], "validated": len(oks)}, found=False)
    return res.finish()
