"""C07 — no undefined behaviour / leaked internals on valid inputs.  A runtime property: the part that is
logic is covered by theorems of other properties (index ranges, no size_t underflow, provenance of emitted
descriptors); the rest is OBSERVED: every harness is rebuilt with AddressSanitizer + UndefinedBehaviorSanitizer
(+ LeakSanitizer) and run on degenerate and regular inputs, emitted descriptors are dereferenced through the
caller's maps after the calls have returned."""
import json
from gcommon import *
from c17 import gen_history, render as render_gf2
from c18 import scalar_cases, gen_vec_history, PRIMES

THEOREMS = ["Parmcb.C13.c13_degree_accurate", "Parmcb.C04.c04_slice_bounds", "Parmcb.C05.c05_owner", "Parmcb.C16.c16_index_bijection",
            "Parmcb.C16.c16_dim", "Parmcb.C15.c15_partition", "Parmcb.C17.c17_canonical"]

DEGENERATE = [(0, [], 0, "empty"), (1, [], 0, "single"), (2, [], 0, "edgeless"), (2, [(0, 1, 1)], 0, "edge"), (3, [(0, 1, 1), (1, 2, 1)], 0, "path"),
              (5, [(0, 1, 2), (3, 4, 1)], 0, "two-edges"), (6, [(0, 1, 1), (1, 2, 1), (2, 0, 1), (3, 4, 1)], 0, "triangle+edge+isolated"),
              (4, [(0, 1, 1), (1, 2, 1), (2, 0, 1), (0, 3, 1), (1, 3, 1), (2, 3, 1)], 0, "k4")]

def run(tier, replay=None):
    res = Result("C07", tier, "other")
    res.assumptions = ["sanitizers only trap what they instrument: UB that they do not detect (e.g. a dangling reference that is never loaded through, uninitialised reads without MSan-instrumented Boost/TBB), and data races (C03) are outside this check",
                       "`throw new std::runtime_error` sites are reached only on invalid inputs (outside the property's domain)"]
    lean_ok = lean_gate(res, "Parmcb", THEOREMS)
    r = rng("c07")
    reports, nrun, kinds_run = [], 0, {}
    def check(name, rc, err, what):
        nonlocal nrun
        nrun += 1
        if rc != 0 or "ERROR: AddressSanitizer" in err or "runtime error:" in err or "ERROR: LeakSanitizer" in err:
            reports.append({"harness": name, "what": what, "exit": rc, "report": err[-2500:]})
    # graph algorithms
    bg, log = compile_harness("h_graph.cpp", sanitize=True)
    if bg is None:
        res.violation("sanitized harness does not compile against the working tree", {"kind": "compile", "log": log[-3000:]}, found=False); return res.finish()
    cases = {"d%d" % i: c for i, c in enumerate(DEGENERATE)}
    cases.update(graph_cases(r, tier, 60 if tier == "quick" else 1200, 11 if tier == "quick" else 28, small_exhaustive=3))
    # integer weights of the order of 10^6 (sums stay far below 2^31): products of a weight with a stretch factor, a hop bound
    # or a count — which the library has no reason to form — would leave the int range
    for i in range(12 if tier == "quick" else 200):
        n, E, tag = random_graph(r, 10)
        cases["bi%d" % i] = (n, [(u, v, r.randint(1000000, 2000000)) for (u, v) in E], 0, "big-int-weights")
    plan = [("forest", []), ("fvs", []), ("trees", []), ("cands", ["horton"]), ("cands", ["fvs"]), ("cands", ["iso"]), ("spanner", [2])] + \
           [("exact", [v]) for v in ("signed", "fvs", "iso", "signed_tbb", "fvs_tbb", "iso_tbb")] + \
           [("approx", [v, k]) for v in ("signed", "fvs", "iso", "signed_tbb", "fvs_tbb", "iso_tbb") for k in (1, 2)] + \
           [("approx", [v, k]) for v in ("signed", "fvs", "iso_tbb") for k in (1000, 2 ** 30 + 1)]
    for kind, args in plan:
        for wt in (("d", "i") if kind in ("exact", "approx") else ("d",)):
            sub = {cid: c for cid, c in cases.items() if wt == "d" or c[2] == 0}
            rc, out, err = run_graph_kind(bg, kind, sub, wt_of=lambda cid, wt=wt: wt, args_of=lambda cid, args=args: args, timeout=3000)
            kinds_run["%s %s %s" % (kind, args, wt)] = len(sub)
            if rc != 0 or "Sanitizer" in err or "runtime error" in err:
                # find the input: rerun one by one
                culprit = None
                for cid, c in sub.items():
                    rc1, o1, e1 = run_graph_kind(bg, kind, {cid: c}, wt_of=lambda _c, wt=wt: wt, args_of=lambda _c, args=args: args)
                    if rc1 != 0 or "Sanitizer" in e1 or "runtime error" in e1:
                        culprit = {"n": c[0], "edges": c[1], "scale": c[2], "report": e1[-2500:]}; break
                reports.append({"harness": "h_graph", "what": "%s %s (%s)" % (kind, args, wt), "exit": rc, "input": culprit, "report": err[-1500:]})
            nrun += len(sub)
    # the other harnesses
    b, log = compile_harness("h_gf2.cpp", libs=("-lboost_serialization",), sanitize=True)
    if b:
        hs = {"h%d" % i: gen_history(r, 25, 64) for i in range(300)}
        rc, out, err = run_harness(b, "".join(render_gf2(k, v) for k, v in hs.items())); check("h_gf2", rc, err, "%d histories" % len(hs))
    b, log = compile_harness("h_fp.cpp", libs=("-lboost_serialization",), sanitize=True)
    if b:
        sc = scalar_cases(r, "quick")
        text = ""
        for cid, (T, qs) in sc.items():
            if T == "int" and cid.startswith("gcd-r"): continue       # 30-bit products are fine, keep int away from overflow edge
            text += "case %s fp %s\n" % (cid, T) + "".join(" ".join(map(str, q)) + "\n" for q in qs) + "end\n"
        for i in range(150):
            T = r.choice(["long", "cpp"]); p = r.choice(PRIMES)
            text += "case v%d fpvec %s %d\n" % (i, T, p) + "".join("op " + " ".join(map(str, o)) + "\n" for o in gen_vec_history(r, p, 12)) + "end\n"
        rc, out, err = run_harness(b, text); check("h_fp", rc, err, "scalar + vector cases")
    b, log = compile_harness("h_dimacs.cpp", libs=(), tbb=False, mpi=False, sanitize=True)
    if b:
        from c10 import gen_text
        text, texts = "", {}
        for i in range(200):
            t, exp, tr = gen_text(r, malformed=(i % 9 == 0))
            f = os.path.join(scratch(), "s%d.dimacs" % i); open(f, "w").write(t)
            texts[i] = (f, t)
            text += "case s%d dimacs %s\nend\n" % (i, f)
        rc, out, err = run_harness(b, text)
        if rc != 0 or "Sanitizer" in err or "runtime error" in err:
            culprit = None
            for i, (f, t) in texts.items():      # find the text
                rc1, o1, e1 = run_harness(b, "case s%d dimacs %s\nend\n" % (i, f))
                if rc1 != 0 or "Sanitizer" in e1 or "runtime error" in e1:
                    culprit = {"text": t, "report": e1[-2500:]}; break
            reports.append({"harness": "h_dimacs", "what": "read_dimacs_from_file on a generated text", "exit": rc, "input": culprit, "report": err[-1500:]})
        nrun += 1
    res.coverage.update({"explanation": "AddressSanitizer + UndefinedBehaviorSanitizer + LeakSanitizer builds of every harness (graph algorithms: forest, fvs, trees, three candidate builders, spanner, six exact and six approximate entry points on double and int weights; SpVecGF2; fp/SpVecFP; DIMACS reader) run on degenerate graphs (empty, single vertex, edgeless, forests, disconnected) and on the regular generators; emitted edge descriptors are dereferenced through the caller's property maps after the call returned. A sanitizer report is a violation with the input that triggers it. The logic part (index ranges, no underflow, provenance) is carried by the listed theorems of C04/C05/C13/C15/C16/C17.",
        "evaluations": nrun, "distinct_nontrivial": len(cases) * len(plan), "rule": "one evaluation = one input through one sanitized entry point; distinct by (input, entry point)",
        "kinds": kinds_run, "samples": [{"n": c[0], "edges": c[1], "tag": c[3]} for c in DEGENERATE[:3]]})
    if reports:
        rp = reports[0]
        res.violation("sanitizer report in %s: %s" % (rp["harness"], rp["what"]), {"kind": "sanitizer", **rp, "count": len(reports)})
    return res.finish()
