"""C08 — the reported optimum depends only on the weighted graph: theorems (Props/C08.lean, C02) +
metamorphic runs of every exact variant/backend on a graph and on its transformed copies (vertex
renumbering, edge insertion order, isolated vertices, pendant trees, bridges, disjoint union, subdivision,
scaling by powers of two), up to hundreds of vertices where no brute-force oracle exists."""
import json
from gcommon import *
from exact import oracle_c01, cycles_of

THEOREMS = ["Parmcb.C02.c02_value_unique", "Parmcb.C02.c02_mcb_weight_unique", "Parmcb.C08.c08_mcb_exists", "Parmcb.C08.c08_scale",
            "Parmcb.C08.c08_isolated", "Parmcb.C08.c08_pendant", "Parmcb.C08.c08_relabel", "Parmcb.C08.c08_union", "Parmcb.C08.c08_bridge", "Parmcb.C08.c08_subdivide"]
VARIANTS = ["signed", "fvs", "iso", "signed_tbb", "fvs_tbb", "iso_tbb"]

def transforms(r, n, WE):
    """-> list of (name, n', WE', expected = f(mu)) """
    out = []
    perm = list(range(n)); r.shuffle(perm)
    E2 = [(perm[u], perm[v], w) if r.random() < .5 else (perm[v], perm[u], w) for (u, v, w) in WE]; r.shuffle(E2)
    out.append(("relabel+reorder", n, E2, lambda mu: mu))
    out.append(("isolated", n + 2, list(WE), lambda mu: mu))
    out.append(("heap-layout", n, list(WE), lambda mu: mu))      # same graph, edge nodes at addresses out of insertion order
    if n > 0:
        n3, E3 = n, list(WE)
        for _ in range(3):
            a = r.randrange(n3); E3.append((a, n3, r.randint(1, 9))); n3 += 1
        out.append(("pendant-tree", n3, E3, lambda mu: mu))
        # bridge to a fresh triangle-free blob (a path): joins two components
        n4, E4 = n + 3, list(WE) + [(n, n + 1, 2), (n + 1, n + 2, 3), (r.randrange(n), n, r.randint(1, 9))]
        out.append(("bridge", n4, E4, lambda mu: mu))
    # disjoint union with a small second graph of known optimum (a 4-cycle with a chord: 3+3... computed by oracle)
    H = [(0, 1, 2), (1, 2, 2), (2, 3, 2), (3, 0, 2), (0, 2, 1)]
    muH = mcb_weight_oracle(4, H)
    out.append(("union", n + 4, list(WE) + [(u + n, v + n, w) for (u, v, w) in H], lambda mu, muH=muH: mu + muH))
    if WE:
        i = r.randrange(len(WE)); u, v, w = WE[i]
        if w >= 2:
            w1 = r.randint(1, w - 1)
            E6 = WE[:i] + WE[i + 1:] + [(u, n, w1), (n, v, w - w1)]
            out.append(("subdivide", n + 1, E6, lambda mu: mu))
    j = r.choice([1, 3, 6])
    out.append(("scale-2^%d" % j, n, [(u, v, w << j) for (u, v, w) in WE], lambda mu, j=j: mu << j))
    return out

def big_graph(r, n):
    kind = r.choice(["gnp", "grid", "ladder", "cactus-chain"])
    if kind == "gnp": E = gnp(r, n, 2.4 / n)
    elif kind == "grid":
        a = max(2, int(n ** 0.5)); E = grid(a, a); n = a * a
    elif kind == "ladder":
        k = n // 2; E = [(i, i + 1) for i in range(k - 1)] + [(k + i, k + i + 1) for i in range(k - 1)] + [(i, k + i) for i in range(k)]; n = 2 * k
    else:
        E, n = cactus(r, n // 4)
    return n, [tuple(e) for e in E]

def run(tier, replay=None):
    res = Result("C08", tier, "proof")
    res.assumptions = ["on the large graphs agreement between variants/transforms is OBSERVED, not certified by an independent optimum (the oracle is used up to n <= 40)"]
    lean_ok = lean_gate(res, "Parmcb.Props.C08b", THEOREMS)
    binary, log = compile_harness("h_graph.cpp", opt="-O2")
    if binary is None:
        res.violation("harness does not compile against the working tree", {"kind": "compile", "log": log[-3000:]}, found=False); return res.finish()
    r = rng("c08")
    bases = []
    if replay:
        rp = json.load(open(replay))["replay"]
        bases = [(rp["n"], [tuple(e) for e in rp["edges"]])]
    else:
        for i in range(40 if tier == "quick" else 400):
            n, E, tag = random_graph(r, 14)
            WE, _ = weights(r, E, r.choice(["unit", "small", "wide", "two"]))
            bases.append((n, WE))
        # mixed magnitudes (small weights next to weights around 2^40, alternatives differing by single units): every
        # sum, also after scaling by 2^6, stays below 2^53
        for i in range(40 if tier == "quick" else 400):
            n = r.randint(4, 8); E = gnp(r, n, r.uniform(.35, .7))[:14]
            bases.append((n, [(u, v, r.randint(1, 4) if r.random() < .5 else 2 ** 40 + r.randint(0, 3)) for (u, v) in E]))
        # beyond the 8-bit boundaries: more than 256 vertices, edges and cycle-space dimension
        n = 300; E = gnp(r, n, 4.2 / n)
        bases.append((n, weights(r, [tuple(e) for e in E], "wide")[0]))
        for i in range(4 if tier == "quick" else 30):
            n, E = big_graph(r, r.choice([60, 120] if tier == "quick" else [100, 200, 350]))
            WE, _ = weights(r, E, r.choice(["unit", "small", "wide"]))
            bases.append((n, WE))
    # mid-size weighted graphs for the layout transform: the signed variant iterates edges in ADDRESS order, so
    # the same graph is run with several perturbed heap layouts and must report the same optimum
    layout_bases = []
    if not replay:
        for i in range(110 if tier == "quick" else 600):
            n = r.randint(25, 55); E = gnp(r, n, r.uniform(2.2, 4.0) / n)
            WE, _ = weights(r, [tuple(e) for e in E], "wide")
            layout_bases.append((n, WE))
    # renumbering sweep: small graphs made of isometric even cycles (every antipodal pair has two tied shortest paths)
    # under MANY vertex numberings each — "unchanged by renumbering vertices" is a statement about every permutation, and
    # a tie-break that is only consistent for some numberings shows on few of them
    renum_bases = []
    if not replay:
        shapes = []
        for L in (6, 8, 10):
            shapes.append(cycle(L))
            shapes.append(cycle(L) + [(0, L), (L, L + 1), (L + 1, L + 2), (L + 2, 3)])
            shapes.append(cycle(L) + [(0, L), (L, L + 1)])
        shapes.append(grid(2, 4)); shapes.append(hypercube(3)); shapes.append(bipartite(2, 3))
        for E in shapes:
            WE = [(u, v, 1) for (u, v) in E]
            if r.random() < .3: WE = [(u, v, 2) for (u, v) in E]
            renum_bases.append((nverts(E), WE))
    jobs, meta = {}, {}
    for ri, (n, WE) in enumerate(renum_bases):
        bi = len(bases) + len(layout_bases) + ri
        for v in ("signed", "iso", "fvs"):
            jobs["b%d-%s" % (bi, v)] = ((n, WE, 0, "base"), v); meta["b%d-%s" % (bi, v)] = (bi, "base", v)
        for pj in range(12 if tier == "quick" else 60):
            perm = list(range(n)); r.shuffle(perm)
            E2 = [(perm[u], perm[v], w) if r.random() < .5 else (perm[v], perm[u], w) for (u, v, w) in WE]; r.shuffle(E2)
            for v in ("iso", "fvs") if pj % 2 == 0 else ("iso_tbb",):
                k = "b%d-p%d-%s" % (bi, pj, v)
                jobs[k] = ((n, E2, 0, "renumber-sweep"), v); meta[k] = (bi, "renumber-sweep", v, lambda mu: mu)
    for li, (n, WE) in enumerate(layout_bases):
        bi = len(bases) + li
        jobs["b%d-fvs" % bi] = ((n, WE, 0, "base"), "fvs"); meta["b%d-fvs" % bi] = (bi, "base", "fvs")
        jobs["b%d-signed" % bi] = ((n, WE, 0, "base"), "signed"); meta["b%d-signed" % bi] = (bi, "base", "signed")
        for hj in range(4):
            k = "b%d-h%d" % (bi, hj)
            jobs[k] = ((n, WE, 0, "heap-layout"), "signed"); meta[k] = (bi, "heap-layout", "signed", lambda mu: mu)
    bases = bases + layout_bases + renum_bases
    for bi, (n, WE) in enumerate(bases[:len(bases) - len(layout_bases) - len(renum_bases)]):
        big = n > 40
        vs = VARIANTS if not big else ["signed", "fvs", "iso_tbb", "signed_tbb"]
        for v in vs:
            jobs["b%d-%s" % (bi, v)] = ((n, WE, 0, "base"), v); meta["b%d-%s" % (bi, v)] = (bi, "base", v)
        for ti, (name, n2, WE2, f) in enumerate(transforms(r, n, WE)):
            for v in ([r.choice(vs)] if big else (r.sample(vs, 2) if name != "heap-layout" else ["signed", "signed_tbb", r.choice(vs)])):
                k = "b%d-t%d-%s" % (bi, ti, v)
                jobs[k] = ((n2, WE2, 0, name), v); meta[k] = (bi, name, v, f)
    text = "".join(render_graph(k, "exact", "d", 0, [v, 0] + (["heap=%d" % (r.getrandbits(30) + 1)] if c[3] == "heap-layout" else []), c[0], c[1]) for k, (c, v) in jobs.items())
    rc, out, err = run_harness(binary, text, timeout=7200)
    if rc != 0:
        res.violation("harness crashed", {"kind": "crash", "stderr": err[-3000:]}); return res.finish()
    blocks = parse_blocks(out)
    rets = {k: (int(line(b, "ret")[0]) if line(b, "ret") else None) for k, b in blocks.items()}
    bad = []
    for bi, (n, WE) in enumerate(bases):
        base_vals = {m[2]: rets.get(k) for k, m in meta.items() if m[0] == bi and m[1] == "base"}
        vals = set(base_vals.values())
        if len(vals) != 1 or None in vals:
            bad.append({"n": n, "edges": WE, "why": "exact variants disagree on one graph: %s" % base_vals}); continue
        mu = vals.pop()
        if n <= 40:
            o = mcb_weight_oracle(n, WE)
            if o is not None and o != mu: bad.append({"n": n, "edges": WE, "why": "all variants report %d, the optimum is %d" % (mu, o)}); continue
        for k, m in meta.items():
            if m[0] != bi or m[1] == "base": continue
            exp = m[3](mu)
            if rets.get(k) != exp:
                c = jobs[k][0]
                bad.append({"n": n, "edges": WE, "transform": m[1], "variant": m[2], "transformed": {"n": c[0], "edges": c[1]},
                            "why": "after '%s' %s reports %s, expected %s (base optimum %d)" % (m[1], m[2], rets.get(k), exp, mu)})
    res.coverage.update({"evaluations": len(jobs), "distinct_nontrivial": len({json.dumps([c[0], c[1], v]) for (c, v) in jobs.values() if len(c[1]) >= 3}),
        "rule": "base graphs (structured random n<=14, and large: G(n,2.4/n), grids, ladders, cactus chains with 60-350 vertices) x all exact variants/backends, and for every base graph the transformed copies x sampled variants; non-trivial = at least 3 edges",
        "largest_n": max(n for n, _ in bases), "largest_dim": max(len(WE) - n + components(n, WE) for n, WE in bases),
        "transforms": sorted({m[1] for m in meta.values()}), "samples": [{"n": bases[0][0], "edges": bases[0][1]}]})
    if bad:
        b = bad[0]
        res.violation("C08: " + b["why"], {"kind": "graph", "variant": b.get("variant", "signed"), "wt": "d", **b, "count": len(bad)})
    return res.finish()
