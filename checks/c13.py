"""C13 — greedy_fvs: theorems (Props/C13.lean) + replay of the implementation's output as the heap's pop
sequence on the literal model + independent oracle (union–find) on the implementation's output."""
from gcommon import *

THEOREMS = ["Parmcb.C13." + t for t in ["c13_vertices", "c13_fvs", "c13_forest", "c13_degree_accurate"]]

def oracle(case, block):
    n, WE, scale, tag = case
    try: out = list(map(int, line(block, "fvs")))
    except Exception: return "unparsable output"
    if any(v < 0 or v >= n for v in out): return "emits a non-vertex"
    if len(set(out)) != len(out): return "emits a vertex twice"
    S = set(out)
    if not is_forest(n, [e for e in WE if e[0] not in S and e[1] not in S]): return "graph minus the emitted vertices has a cycle"
    if is_forest(n, WE) and out: return "emits vertices for a forest"
    return None

def run(tier, replay=None):
    res = Result("C13", tier, "proof")
    res.assumptions = ["hand-written model Model/Fvs.lean; the pairing heap's pop order is an explicit argument (observed = the emitted sequence) and the theorems quantify over it",
                       "Boost adjacency_list iteration order of out_edges"]
    lean_ok = lean_gate(res, "Parmcb.Props.C13", THEOREMS)
    binary, log = compile_harness("h_graph.cpp", sanitize=(tier == "thorough"))
    if binary is None:
        res.violation("harness does not compile against the working tree", {"kind": "compile", "log": log[-3000:]}, found=False)
        return res.finish()
    r = rng("c13")
    if replay:
        rp = json.load(open(replay))["replay"]
        cases = {"replay": (rp["n"], [tuple(e) for e in rp["edges"]], rp.get("scale", 0), "replay")}
    else:
        cases = graph_cases(r, tier, 2000 if tier == "quick" else 25000, 16 if tier == "quick" else 45,
                            small_exhaustive=4 if tier == "quick" else 5, styles=("unit",))
        # several independently unravelling pieces: unions of 3-6 small blobs (cycles with chords and pendant trees, thetas,
        # cacti, small dense blobs, bare trees, isolated vertices) — clean-ups of different pieces interleave in the worklist
        for i in range(400 if tier == "quick" else 4000):
            parts = []
            for _ in range(r.randint(3, 6)):
                t = r.choice(["cycle", "theta", "cactus", "dense", "tree", "iso", "cyc+tails"])
                if t == "cycle": k = r.randint(3, 6); parts.append((k, cycle(k)))
                elif t == "theta": E, k = theta(r.randint(0, 2), r.randint(1, 3), r.randint(1, 3)); parts.append((k, E))
                elif t == "cactus": E, k = cactus(r, r.randint(1, 3)); parts.append((k, E))
                elif t == "dense": k = r.randint(4, 6); parts.append((k, gnp(r, k, 0.7)))
                elif t == "tree": k = r.randint(1, 5); parts.append((k, random_tree(r, k)))
                elif t == "iso": parts.append((1, []))
                else:
                    k = r.randint(3, 5); E = cycle(k); nn = k
                    for _ in range(r.randint(1, 4)): E = E + [(r.randrange(nn), nn)]; nn += 1
                    parts.append((nn, E))
            nn, E = disjoint_union(parts)
            E = [tuple(e) for e in E]
            if r.random() < .8: nn, E = shuffle_graph(r, nn, E)
            cases["mp%d" % i] = (nn, [(u, v, 1) for (u, v) in E], 0, "multi-piece")
        # a small 2-core next to about as many non-trivial tree components as the core has vertices (counters that count
        # worklist pops instead of removed vertices come out at 0 exactly there), with and without isolated vertices
        for i in range(90 if tier == "quick" else 600):
            core = r.choice([cycle(3), cycle(4), cycle(5), cycle(3) + [(0, 3), (3, 4), (4, 0)], theta(1, 1, 2)[0]])
            cn = nverts(core)
            parts = [(cn, core)]
            for _ in range(max(0, cn + r.choice([-1, 0, 0, 0, 1]))):
                k = r.randint(2, 4); parts.append((k, random_tree(r, k)))
            for _ in range(r.randint(0, 2)): parts.append((1, []))
            r.shuffle(parts)
            nn, E = disjoint_union(parts)
            E = [tuple(e) for e in E]
            if r.random() < .7: nn, E = shuffle_graph(r, nn, E)
            cases["ct%d" % i] = (nn, [(u, v, 1) for (u, v) in E], 0, "core+trees")
    rc, out, err = run_graph_kind(binary, "fvs", cases)
    if rc != 0:
        res.violation("harness crashed / sanitizer report", {"kind": "crash", "stderr": err[-3000:]})
        return res.finish()
    blocks = parse_blocks(out)
    bad = [(cid, oracle(c, blocks.get(cid, {"lines": []}))) for cid, c in cases.items()]
    bad = [(cid, why) for cid, why in bad if why]
    verdicts = run_driver(out) if lean_ok else []
    oks, diffs, viols = parse_driver(verdicts)
    sizes = [len(line(blocks[cid], "fvs") or []) for cid in cases if cid in blocks]
    res.coverage.update({"evaluations": len(cases), "distinct_nontrivial": distinct_nontrivial(cases, lambda c: len(c[1]) >= 3),
        "rule": "all labelled simple graphs on <=4/5 vertices + structured random graphs incl. pendant trees and vertices whose residual degree drops to <=1 repeatedly; non-trivial = at least 3 edges; distinct by (n, edge list)",
        "traces_validated_against_impl": len(oks), "fvs_size_histogram": {str(k): sizes.count(k) for k in sorted(set(sizes))},
        "samples": [{"n": c[0], "edges": [e[:2] for e in c[1]]} for c in list(cases.values())[-2:]], **stats(cases)})
    # very large degrees (oracle only: the list-based model is quadratic): wheels whose hub has 255 … 70000 spokes,
    # optionally with pendant leaves on the hub, a 70000-leaf star (a forest) and a long cycle
    if not bad and not replay:
        big = {}
        for spokes, leaves in ((255, 0), (256, 3), (65535, 0), (65536, 0), (65537, 0), (65530, 6), (70000, 2)):
            E = [(0, i, 1) for i in range(1, spokes + 1)] + [(i, i + 1, 1) for i in range(1, spokes)] + [(spokes, 1, 1)]
            E += [(0, spokes + 1 + j, 1) for j in range(leaves)]
            big["wheel-%d-%d" % (spokes, leaves)] = (spokes + 1 + leaves, E, 0, "wheel")
        big["star-70000"] = (70001, [(0, i, 1) for i in range(1, 70001)], 0, "star")
        big["cycle-66000"] = (66000, [(i, (i + 1) % 66000, 1) for i in range(66000)], 0, "cycle")
        rcb, outb, errb = run_graph_kind(binary, "fvs", big)
        bb = parse_blocks(outb)
        for cid, c in big.items():
            why = "harness crashed" if rcb != 0 else oracle(c, bb.get(cid, {"lines": []}))
            if why:
                res.coverage["large_degree_graphs"] = len(big)
                res.violation("greedy_fvs on %s (n = %d): %s" % (cid, c[0], why), {"kind": "generated", "family": cid, "n": c[0], "why": why,
                              "edges_rule": "hub 0 joined to 1..spokes, rim cycle 1..spokes, pendant leaves on the hub (see checks/c13.py)"})
                return res.finish()
        res.coverage["large_degree_graphs"] = len(big)
    if bad:
        cid, why = bad[0]
        def still_bad(c):
            rc, o, e = run_graph_kind(binary, "fvs", {"s": c})
            return rc != 0 or oracle(c, parse_blocks(o).get("s", {"lines": []})) is not None
        c = shrink_graph(cases[cid], still_bad)
        res.violation("greedy_fvs: " + why, {"kind": "graph", "n": c[0], "edges": c[1], "why": why, "count": len(bad)})
    elif diffs or viols or (lean_ok and len(oks) != len(cases)):
        res.violation("model/implementation correspondence broken (Model/Fvs.lean vs detail/fvs.hpp); the C13 oracle still holds on all %d graphs" % len(cases),
                      {"kind": "correspondence", "first": (diffs + viols)[:3]}, found=False)
    return res.finish()
