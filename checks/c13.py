"""C13 — greedy_fvs: theorems (Props/C13.lean) + replay of the implementation's output as the heap's pop
sequence on the literal model + independent oracle (union–find) on the implementation's output."""
from gcommon import *

THEOREMS = ["Parmcb.C13." + t for t in ["c13_vertices", "c13_fvs", "c13_forest", "c13_degree_accurate"]]

def oracle(case, block):
    n, WE, scale, tag = case
    try: out = list(map(int, line(block, "fvs")))
    except Exception: return "unparsable output"
    if any(v < 0 or v >= n for v in out): return "emits a non-vertex"
    if len(set(out)) != len(out): return "emits a vertex twice"
    S = set(out)
    if not is_forest(n, [e for e in WE if e[0] not in S and e[1] not in S]): return "graph minus the emitted vertices has a cycle"
    if is_forest(n, WE) and out: return "emits vertices for a forest"
    return None

def run(tier, replay=None):
    res = Result("C13", tier, "proof")
    res.assumptions = ["hand-written model Model/Fvs.lean; the pairing heap's pop order is an explicit argument (observed = the emitted sequence) and the theorems quantify over it",
                       "Boost adjacency_list iteration order of out_edges"]
    lean_ok = lean_gate(res, "Parmcb.Props.C13", THEOREMS)
    binary, log = compile_harness("h_graph.cpp", sanitize=(tier == "thorough"))
    if binary is None:
        res.violation("harness does not compile against the working tree", {"kind": "compile", "log": log[-3000:]}, found=False)
        return res.finish()
    r = rng("c13")
    if replay:
        rp = json.load(open(replay))["replay"]
        cases = {"replay": (rp["n"], [tuple(e) for e in rp["edges"]], rp.get("scale", 0), "replay")}
    else:
        cases = graph_cases(r, tier, 2000 if tier == "quick" else 25000, 16 if tier == "quick" else 45,
                            small_exhaustive=4 if tier == "quick" else 5, styles=("unit",))
    rc, out, err = run_graph_kind(binary, "fvs", cases)
    if rc != 0:
        res.violation("harness crashed / sanitizer report", {"kind": "crash", "stderr": err[-3000:]})
        return res.finish()
    blocks = parse_blocks(out)
    bad = [(cid, oracle(c, blocks.get(cid, {"lines": []}))) for cid, c in cases.items()]
    bad = [(cid, why) for cid, why in bad if why]
    verdicts = run_driver(out) if lean_ok else []
    oks, diffs, viols = parse_driver(verdicts)
    sizes = [len(line(blocks[cid], "fvs") or []) for cid in cases if cid in blocks]
    res.coverage.update({"evaluations": len(cases), "distinct_nontrivial": distinct_nontrivial(cases, lambda c: len(c[1]) >= 3),
        "rule": "all labelled simple graphs on <=4/5 vertices + structured random graphs incl. pendant trees and vertices whose residual degree drops to <=1 repeatedly; non-trivial = at least 3 edges; distinct by (n, edge list)",
        "traces_validated_against_impl": len(oks), "fvs_size_histogram": {str(k): sizes.count(k) for k in sorted(set(sizes))},
        "samples": [{"n": c[0], "edges": [e[:2] for e in c[1]]} for c in list(cases.values())[-2:]], **stats(cases)})
    # very large degrees (oracle only: the list-based model is quadratic): wheels whose hub has 255 … 70000 spokes,
    # optionally with pendant leaves on the hub, a 70000-leaf star (a forest) and a long cycle
    if not bad and not replay:
        big = {}
        for spokes, leaves in ((255, 0), (256, 3), (65535, 0), (65536, 0), (65537, 0), (65530, 6), (70000, 2)):
            E = [(0, i, 1) for i in range(1, spokes + 1)] + [(i, i + 1, 1) for i in range(1, spokes)] + [(spokes, 1, 1)]
            E += [(0, spokes + 1 + j, 1) for j in range(leaves)]
            big["wheel-%d-%d" % (spokes, leaves)] = (spokes + 1 + leaves, E, 0, "wheel")
        big["star-70000"] = (70001, [(0, i, 1) for i in range(1, 70001)], 0, "star")
        big["cycle-66000"] = (66000, [(i, (i + 1) % 66000, 1) for i in range(66000)], 0, "cycle")
        rcb, outb, errb = run_graph_kind(binary, "fvs", big)
        bb = parse_blocks(outb)
        for cid, c in big.items():
            why = "harness crashed" if rcb != 0 else oracle(c, bb.get(cid, {"lines": []}))
            if why:
                res.coverage["large_degree_graphs"] = len(big)
                res.violation("greedy_fvs on %s (n = %d): %s" % (cid, c[0], why), {"kind": "generated", "family": cid, "n": c[0], "why": why,
                              "edges_rule": "hub 0 joined to 1..spokes, rim cycle 1..spokes, pendant leaves on the hub (see checks/c13.py)"})
                return res.finish()
        res.coverage["large_degree_graphs"] = len(big)
    if bad:
        cid, why = bad[0]
        def still_bad(c):
            rc, o, e = run_graph_kind(binary, "fvs", {"s": c})
            return rc != 0 or oracle(c, parse_blocks(o).get("s", {"lines": []})) is not None
        c = shrink_graph(cases[cid], still_bad)
        res.violation("greedy_fvs: " + why, {"kind": "graph", "n": c[0], "edges": c[1], "why": why, "count": len(bad)})
    elif diffs or viols or (lean_ok and len(oks) != len(cases)):
        res.violation("model/implementation correspondence broken (Model/Fvs.lean vs detail/fvs.hpp); the C13 oracle still holds on all %d graphs" % len(cases),
                      {"kind": "correspondence", "first": (diffs + viols)[:3]}, found=False)
    return res.finish()
