"""C09 — exact variants on inexact floating-point weights.  Props/C09.lean: binary64 addition modelled on scaled integers
(rounding lemmas, accumulated-sum bound), Dijkstra in double arithmetic as a verified certificate, selection by computed weight,
de Pina with a rational per-phase factor, and the verified per-run certificate checkRunPotRat.  The missing link (the double
searches do return a per-phase approximation) is validated on every run, not proved.  Independent oracle: python Fractions."""
import json
from fractions import Fraction
from gcommon import *
from exact import cycles_of, oracle_c01

THEOREMS = ["Parmcb.runIn_basis", "Parmcb.run_weight", "Parmcb.runFrom_weight", "Parmcb.run_weight_rat", "Parmcb.checkRunPotRat_sound"] + \
    ["Parmcb.C09." + t for t in ["c09_rnd_exact", "c09_rnd_err", "c09_rnd_mono", "c09_rnd_idem", "c09_fadd_inflationary", "c09_fsum_bounds", "c09_fsum_rel",
                                 "c09_select_partial", "c09_valid_partial", "c09_near_min_partial", "c09_within_1e9_partial",
                                 "c09_float_spt_lower", "c09_float_spt_approx", "c09_validated_run_partial", "c09_float_dijkstra_cert", "c09_float_dijkstra_approx", "c09_float_lex_dijkstra_cert", "c09_ret_partial", "c09_signed_search_weight_partial"]]
P_FACTOR, Q_FACTOR = 2 ** 32 + 1, 2 ** 32 - 1

def dyadic(xs):
    """doubles -> exact integers on a common power-of-two scale"""
    fr = [Fraction(x) for x in xs]
    D = max([f.denominator for f in fr] + [1])
    return [int(f * D) for f in fr], D

def exactq_text(j, c, toks, v, block):
    """the run of an exact variant on double weights as a driver case: weights exactly as integers, the implementation's
    index / dim / cycle lines unchanged"""
    rf = line(block, "retf")
    import math
    if rf and not math.isfinite(float(rf[0])): rf = None
    W, _ = dyadic([float(t) for t in toks] + ([float(rf[0])] if rf else []))
    s = "case %s exactq d 0 %s %d %d\n" % (j, v, P_FACTOR, Q_FACTOR) + "g %d %d\n" % (c[0], len(c[1]))
    s += "".join("e %d %d %d\n" % (u, w_, W[i]) for i, (u, w_, _) in enumerate(c[1]))
    for w in block["lines"]:
        if w[0] in ("index", "dim", "cycle", "init", "hs"): s += " ".join(w) + "\n"
    if rf: s += "retx %d\n" % W[-1]       # the returned double, exactly, on the same scale
    return s + "end\n"

def fspt_text(j, c, toks, block):
    """labels of SPTree (ltree/ld) and parmcb::dijkstra (dtree/dd) in double arithmetic -> driver cases fspt + fsum"""
    vals = [float(t) for t in toks]
    labs = [float.fromhex(w[2]) for w in block["lines"] if w[0] in ("ld", "dd")]
    acc = line(block, "acc")
    allv, D = dyadic(vals + labs + ([float.fromhex(acc[0])] if acc else []))
    W = allv[:len(vals)]
    conv = lambda h: int(Fraction(float.fromhex(h)) * D)
    s = "case %s fspt\n" % j + "g %d %d\n" % (c[0], len(c[1])) + "".join("e %d %d %d\n" % (u, w_, W[i]) for i, (u, w_, _) in enumerate(c[1]))
    for w in block["lines"]:
        if w[0] in ("ltree", "dtree"): s += "s %s %s\n" % (w[1], w[0][0])
        elif w[0] in ("ld", "dd"): s += "d %s %d %s\n" % (w[1], conv(w[2]), w[3])
    s += "end\n"
    if acc: s += "case %s-acc fsum\nfsum %s %d\nend\n" % (j, " ".join(map(str, W)), conv(acc[0]))
    return s

VARIANTS = ["signed", "fvs", "iso", "signed_tbb", "fvs_tbb", "iso_tbb"]
KNOWN_KEY = "iso-trees-inexact-weights"

def gen_weight(r):
    s = r.choice(["tenth", "tenth", "milli", "rand"])
    if s == "tenth": return "%.1f" % (r.randint(1, 60) / 10)
    if s == "milli": return "%.3f" % (r.randint(1, 5000) / 1000)
    return repr(r.uniform(1e-3, 1e3))

def mcb_exact(n, FE):
    """optimum in exact rational arithmetic (same Horton-greedy oracle, Fractions)"""
    return mcb_weight_oracle(n, FE)

def judge(case, toks, block):
    n, WE, scale, tag = case
    if line(block, "retf") is None: return "no result (crash or exception)"
    why = oracle_c01(case, block)
    if why: return why
    FE = [(u, v, Fraction(float(t))) for (u, v, _), t in zip(WE, toks)]
    tot = sum(FE[e][2] for c in cycles_of(block) for e in c)
    ret = Fraction(float(line(block, "retf")[0]))
    N = len(cycles_of(block))
    if abs(ret - tot) > Fraction(4 * max(N, 1) * max(n, 1), 2 ** 53) * max(tot, 1): return "returned value %s is not the weight of the emitted cycles %s" % (float(ret), float(tot))
    mu = mcb_exact(n, FE)
    if mu is not None and tot > mu * (1 + Fraction(1, 10 ** 9)): return "emitted weight %.12g exceeds the true minimum %.12g by more than 1e-9" % (float(tot), float(mu))
    return None

def run(tier, replay=None):
    res = Result("C09", tier, "proof")
    res.assumptions = ["PARTIAL: the end-to-end literal models compute with exact Int weights; that the double-arithmetic searches return a per-phase (2^32+1)/(2^32-1)-approximation is NOT a theorem — it is validated on every generated run by the verified certificate checkRunPotRat (c09_validated_run_partial)",
                       "Model/Float.lean models binary64 addition (round to nearest, ties to even) on values scaled to integers; no overflow/underflow in the property's range [1e-3,1e3]; tied to the hardware's additions on every run (harness kind ftrees: acc, ld, dd lines vs Float.fsum)",
                       "doubles are converted exactly to rationals / integers (python Fraction, common power-of-two scale) for every comparison",
                       "signed_tbb with several threads fills its support vector in an unobserved order: those runs are judged by the python oracle only (every second signed_tbb run is limited to one thread and validated by the certificate)"]
    lean_ok = lean_gate(res, "Parmcb", THEOREMS)
    binary, log = compile_harness("h_graph.cpp")
    if binary is None:
        res.violation("harness does not compile against the working tree", {"kind": "compile", "log": log[-3000:]}, found=False); return res.finish()
    r = rng("c09")
    if replay:
        rp = json.load(open(replay))["replay"]
        jobs = {"replay": ((rp["n"], [tuple(e[:2]) + (1,) for e in rp["edges"]], 0, "replay"), [e[2] for e in rp["edges"]], rp["variant"])}
    else:
        jobs = {}
        for i in range(250 if tier == "quick" else 4000):
            n, E, tag = random_graph(r, 12 if tier == "quick" else 22)
            toks = [gen_weight(r) for _ in E]
            for v in VARIANTS:
                jobs["g%d-%s" % (i, v)] = ((n, [(a, b, 1) for (a, b) in E], 0, tag), toks, v)
        # tie-heavy decimal weights on mid-density graphs: where accumulated rounding differs between equal sums
        for i in range(300 if tier == "quick" else 3000):
            n = r.randint(8, 14); m = r.randint(n, 2 * n); E = set()
            while len(E) < m:
                a, b = r.randrange(n), r.randrange(n)
                if a != b: E.add((min(a, b), max(a, b)))
            E = sorted(E); r.shuffle(E)
            toks = ["%.1f" % (r.randint(1, 12) / 10) for _ in E]
            for v in VARIANTS:
                if i % 2 == 0 or v.startswith("iso"):
                    jobs["t%d-%s" % (i, v)] = ((n, [(a, b, 1) for (a, b) in E], 0, "ties"), toks, v)
    if not replay:
        for i in range(150 if tier == "quick" else 2000):
            n = r.randint(7, 14); E = gnp(r, n, r.uniform(0.6, 0.95))
            toks = ["%.1f" % (r.randint(1, 9) / 10) for _ in E]
            for v in VARIANTS:
                jobs["d%d-%s" % (i, v)] = ((n, [(a, b, 1) for (a, b) in E], 0, "dense-decimal"), toks, v)
    if not replay:
        # near-ties at the bottom of the range: small weights k/1000 plus gaps of a few 1e-10 — far above rounding
        # (1e-19) but below any "reasonable" absolute tolerance; a relative 1e-9 on totals of ~1e-2 still sees them
        for i in range(200 if tier == "quick" else 2500):
            n = r.randint(4, 10); E = gnp(r, n, r.uniform(0.35, 0.8))
            toks = [repr(r.randint(1, 9) / 1000 + r.choice([0, 0, 1, 2, 4, 7]) * 1e-10) for _ in E]
            for v in VARIANTS:
                jobs["n%d-%s" % (i, v)] = ((n, [(a, b, 1) for (a, b) in E], 0, "near-ties"), toks, v)
    import zlib
    def one_thread(j): return zlib.crc32(j.encode()) % 2 == 0
    text = ""
    for j, (c, toks, v) in jobs.items():
        text += "case %s exactf d 0 %s%s\n" % (j, v, " 1" if v == "signed_tbb" and one_thread(j) else "") + "g %d %d\n" % (c[0], len(c[1])) + "".join("e %d %d %s\n" % (u, w_, t) for (u, w_, _), t in zip(c[1], toks)) + "end\n"
    rc, out, err = run_harness(binary, text)
    blocks = parse_blocks(out)
    bad = []
    for j, (c, toks, v) in jobs.items():
        why = judge(c, toks, blocks.get(j, {"lines": []}))
        if why: bad.append((j, why))
    # --- Lean side (1): every run is validated by the VERIFIED certificate checkRunPotRat (c09_validated_run_partial): per phase
    # the emitted cycle is in the cycle space, odd against the model's support vector and within (2^32+1)/(2^32-1) of the exact
    # optimum, which is certified as a lower bound by potentials.  signed_tbb with several threads fills the support vector
    # in an unobserved order: those runs are judged by the python oracle only.
    qtext, qjobs = "", []
    for j, (c, toks, v) in jobs.items():
        b = blocks.get(j)
        if b is None or line(b, "dim") is None: continue
        if v == "signed_tbb" and not one_thread(j) and int(line(b, "dim")[0]) > 1: continue
        qtext += exactq_text(j, c, toks, v, b); qjobs.append(j)
    qoks, qdiffs, qviols = parse_driver(run_driver(qtext)) if qtext else ([], [], [])
    bad_ids = {j for j, _ in bad}
    for w in qviols + qdiffs:
        if w[1] not in bad_ids: bad.append((w[1], "trace validation on exact dyadic weights: " + " ".join(w[2:])[:300])); bad_ids.add(w[1])
    # --- Lean side (2): the double-arithmetic labels of SPTree and parmcb::dijkstra on the same graphs pass the verified
    # certificate checkFloatSPT (c09_float_spt_lower / _approx), and double accumulation is Float.fsum (the rounding model)
    ftext, fcases, seen = "", {}, set()
    for j, (c, toks, v) in jobs.items():
        key = json.dumps([c[0], c[1], toks])
        if key in seen or len(seen) >= (400 if tier == "quick" else 4000): continue
        seen.add(key); fcases["F" + j] = (c, toks)
        ftext += "case F%s ftrees d 0\n" % j + "g %d %d\n" % (c[0], len(c[1])) + "".join("e %d %d %s\n" % (u, w_, t) for (u, w_, _), t in zip(c[1], toks)) + "end\n"
    frc, fout, ferr = run_harness(binary, ftext) if ftext else (0, "", "")
    fblocks = parse_blocks(fout)
    dtext = "".join(fspt_text(j, c, toks, fblocks[j]) for j, (c, toks) in fcases.items() if j in fblocks)
    foks, fdiffs, fviols = parse_driver(run_driver(dtext)) if dtext else ([], [], [])
    fbad = [(w[1], " ".join(w[2:])[:300]) for w in fviols + fdiffs]
    if frc != 0 or len(fblocks) != len(fcases): fbad.append(("ftrees", "harness crashed on the double-label dump: " + ferr[-300:]))
    known = [b for b in bad if jobs[b[0]][2].startswith("iso")]
    other = [b for b in bad if not jobs[b[0]][2].startswith("iso")]
    res.coverage.update({"explanation": "graphs with decimal weights (j/10, j/1000), near-tie weights (k/1000 + a few 1e-10) and random doubles in [1e-3,1e3] through all six exact entry points; the doubles are turned into exact rationals and the C01 oracle (count, simple cycles, GF(2) independence), |ret - sum| and sum <= (1+1e-9) x exact optimum are evaluated in rational arithmetic. Theorems cover validity for ANY per-phase odd cycle and the propagation of a per-phase factor; the floating-point error bound itself is not a theorem.",
        "evaluations": len(jobs), "distinct_nontrivial": len({json.dumps([c[0], c[1], t, v]) for (c, t, v) in jobs.values() if len(c[1]) - c[0] + components(c[0], c[1]) >= 1}),
        "rule": "random structured graph x weight tokens x variant; non-trivial = cycle space dimension >= 1",
        "known_finding_hits": len(known), "runs_validated_by_verified_certificate": len(qoks), "runs_with_a_phase_not_exactly_minimum": sum(1 for w in qoks if w[-2] != "0"),
        "mcb_sva_signed_runs_replayed_literally_in_double_arithmetic_with_equal_cycles_and_equal_returned_double": sum(int(w[-1]) for w in qoks),
        "float_spt_certificates": {"graphs": len([w for w in foks if not w[1].endswith("-acc")]), "trees": sum(int(w[-1]) for w in foks if not w[1].endswith("-acc")), "accumulations": len([w for w in foks if w[1].endswith("-acc")])}, "samples": [{"n": c[0], "edges": [[u, v, t] for (u, v, _), t in zip(c[1], toks)], "variant": v} for (c, toks, v) in list(jobs.values())[:2]]})
    if rc != 0 and not bad:
        res.violation("harness crashed", {"kind": "crash", "stderr": err[-3000:]}); return res.finish()
    for (j, why) in known[:1]:
        c, toks, v = jobs[j]
        res.violation("C09 %s on inexact weights: %s" % (v, why), {"finding_key": KNOWN_KEY, "kind": "graphf", "n": c[0], "edges": [[u, w_, t] for (u, w_, _), t in zip(c[1], toks)], "variant": v, "why": why, "count": len(known)})
    if fbad:
        j, why = fbad[0]
        c, toks = fcases.get(j.replace("-acc", ""), ((0, [], 0, ""), []))
        res.violation("C09 double-arithmetic labels / rounding model: %s" % why, {"kind": "graphf-labels", "n": c[0], "edges": [[u, w_, t] for (u, w_, _), t in zip(c[1], toks)], "why": why, "count": len(fbad)}, found=False)
    if other:
        j, why = other[0]
        c, toks, v = jobs[j]
        res.violation("C09 %s on inexact weights: %s" % (v, why), {"kind": "graphf", "n": c[0], "edges": [[u, w_, t] for (u, w_, _), t in zip(c[1], toks)], "variant": v, "why": why, "count": len(other)})
    return res.finish()
