"""C09 — exact variants on inexact floating-point weights.  Lean has no usable theory of IEEE doubles, so the
rounding analysis is not a theorem; proved is why rounding cannot hurt VALIDITY (any odd cycle per phase gives
a basis: runIn_basis) and how a per-phase factor propagates (run_weight with alpha).  The rest is checked in
exact rational arithmetic on the implementation's outputs."""
import json
from fractions import Fraction
from gcommon import *
from exact import cycles_of, oracle_c01

THEOREMS = ["Parmcb.runIn_basis", "Parmcb.run_weight", "Parmcb.runFrom_weight"]
VARIANTS = ["signed", "fvs", "iso", "signed_tbb", "fvs_tbb", "iso_tbb"]
KNOWN_KEY = "iso-trees-inexact-weights"

def gen_weight(r):
    s = r.choice(["tenth", "tenth", "milli", "rand"])
    if s == "tenth": return "%.1f" % (r.randint(1, 60) / 10)
    if s == "milli": return "%.3f" % (r.randint(1, 5000) / 1000)
    return repr(r.uniform(1e-3, 1e3))

def mcb_exact(n, FE):
    """optimum in exact rational arithmetic (same Horton-greedy oracle, Fractions)"""
    return mcb_weight_oracle(n, FE)

def judge(case, toks, block):
    n, WE, scale, tag = case
    if line(block, "retf") is None: return "no result (crash or exception)"
    why = oracle_c01(case, block)
    if why: return why
    FE = [(u, v, Fraction(float(t))) for (u, v, _), t in zip(WE, toks)]
    tot = sum(FE[e][2] for c in cycles_of(block) for e in c)
    ret = Fraction(float(line(block, "retf")[0]))
    N = len(cycles_of(block))
    if abs(ret - tot) > Fraction(4 * max(N, 1) * max(n, 1), 2 ** 53) * max(tot, 1): return "returned value %s is not the weight of the emitted cycles %s" % (float(ret), float(tot))
    mu = mcb_exact(n, FE)
    if mu is not None and tot > mu * (1 + Fraction(1, 10 ** 9)): return "emitted weight %.12g exceeds the true minimum %.12g by more than 1e-9" % (float(tot), float(mu))
    return None

def run(tier, replay=None):
    res = Result("C09", tier, "other")
    res.assumptions = ["no Lean theory of IEEE-754 doubles: c09_fp_partial (double Dijkstra returns a (1+eps)-shortest path) is stated as a hypothesis of run_weight's alpha and NOT proved",
                       "doubles are converted exactly to rationals (python Fraction) for every comparison"]
    lean_ok = lean_gate(res, "Parmcb", THEOREMS)
    binary, log = compile_harness("h_graph.cpp")
    if binary is None:
        res.violation("harness does not compile against the working tree", {"kind": "compile", "log": log[-3000:]}, found=False); return res.finish()
    r = rng("c09")
    if replay:
        rp = json.load(open(replay))["replay"]
        jobs = {"replay": ((rp["n"], [tuple(e[:2]) + (1,) for e in rp["edges"]], 0, "replay"), [e[2] for e in rp["edges"]], rp["variant"])}
    else:
        jobs = {}
        for i in range(250 if tier == "quick" else 4000):
            n, E, tag = random_graph(r, 12 if tier == "quick" else 22)
            toks = [gen_weight(r) for _ in E]
            for v in VARIANTS:
                jobs["g%d-%s" % (i, v)] = ((n, [(a, b, 1) for (a, b) in E], 0, tag), toks, v)
        # tie-heavy decimal weights on mid-density graphs: where accumulated rounding differs between equal sums
        for i in range(300 if tier == "quick" else 3000):
            n = r.randint(8, 14); m = r.randint(n, 2 * n); E = set()
            while len(E) < m:
                a, b = r.randrange(n), r.randrange(n)
                if a != b: E.add((min(a, b), max(a, b)))
            E = sorted(E); r.shuffle(E)
            toks = ["%.1f" % (r.randint(1, 12) / 10) for _ in E]
            for v in VARIANTS:
                if i % 2 == 0 or v.startswith("iso"):
                    jobs["t%d-%s" % (i, v)] = ((n, [(a, b, 1) for (a, b) in E], 0, "ties"), toks, v)
    if not replay:
        for i in range(150 if tier == "quick" else 2000):
            n = r.randint(7, 14); E = gnp(r, n, r.uniform(0.6, 0.95))
            toks = ["%.1f" % (r.randint(1, 9) / 10) for _ in E]
            for v in VARIANTS:
                jobs["d%d-%s" % (i, v)] = ((n, [(a, b, 1) for (a, b) in E], 0, "dense-decimal"), toks, v)
    if not replay:
        # near-ties at the bottom of the range: small weights k/1000 plus gaps of a few 1e-10 — far above rounding
        # (1e-19) but below any "reasonable" absolute tolerance; a relative 1e-9 on totals of ~1e-2 still sees them
        for i in range(200 if tier == "quick" else 2500):
            n = r.randint(4, 10); E = gnp(r, n, r.uniform(0.35, 0.8))
            toks = [repr(r.randint(1, 9) / 1000 + r.choice([0, 0, 1, 2, 4, 7]) * 1e-10) for _ in E]
            for v in VARIANTS:
                jobs["n%d-%s" % (i, v)] = ((n, [(a, b, 1) for (a, b) in E], 0, "near-ties"), toks, v)
    text = ""
    for j, (c, toks, v) in jobs.items():
        text += "case %s exactf d 0 %s\n" % (j, v) + "g %d %d\n" % (c[0], len(c[1])) + "".join("e %d %d %s\n" % (u, w_, t) for (u, w_, _), t in zip(c[1], toks)) + "end\n"
    rc, out, err = run_harness(binary, text)
    blocks = parse_blocks(out)
    bad = []
    for j, (c, toks, v) in jobs.items():
        why = judge(c, toks, blocks.get(j, {"lines": []}))
        if why: bad.append((j, why))
    known = [b for b in bad if jobs[b[0]][2].startswith("iso")]
    other = [b for b in bad if not jobs[b[0]][2].startswith("iso")]
    res.coverage.update({"explanation": "graphs with decimal weights (j/10, j/1000), near-tie weights (k/1000 + a few 1e-10) and random doubles in [1e-3,1e3] through all six exact entry points; the doubles are turned into exact rationals and the C01 oracle (count, simple cycles, GF(2) independence), |ret - sum| and sum <= (1+1e-9) x exact optimum are evaluated in rational arithmetic. Theorems cover validity for ANY per-phase odd cycle and the propagation of a per-phase factor; the floating-point error bound itself is not a theorem.",
        "evaluations": len(jobs), "distinct_nontrivial": len({json.dumps([c[0], c[1], t, v]) for (c, t, v) in jobs.values() if len(c[1]) - c[0] + components(c[0], c[1]) >= 1}),
        "rule": "random structured graph x weight tokens x variant; non-trivial = cycle space dimension >= 1",
        "known_finding_hits": len(known), "samples": [{"n": c[0], "edges": [[u, v, t] for (u, v, _), t in zip(c[1], toks)], "variant": v} for (c, toks, v) in list(jobs.values())[:2]]})
    if rc != 0 and not bad:
        res.violation("harness crashed", {"kind": "crash", "stderr": err[-3000:]}); return res.finish()
    for (j, why) in known[:1]:
        c, toks, v = jobs[j]
        res.violation("C09 %s on inexact weights: %s" % (v, why), {"finding_key": KNOWN_KEY, "kind": "graphf", "n": c[0], "edges": [[u, w_, t] for (u, w_, _), t in zip(c[1], toks)], "variant": v, "why": why, "count": len(known)})
    if other:
        j, why = other[0]
        c, toks, v = jobs[j]
        res.violation("C09 %s on inexact weights: %s" % (v, why), {"kind": "graphf", "n": c[0], "edges": [[u, w_, t] for (u, w_, _), t in zip(c[1], toks)], "variant": v, "why": why, "count": len(other)})
    return res.finish()
