"""C05 — approximate algorithms return a basis of the caller's graph with true weight."""
from approx import *
THEOREMS = ["Parmcb.C05.c05_basis", "Parmcb.C05.c05_owner", "Parmcb.C05.c05_count", "Parmcb.C05.c05_every_basis_has_N",
            "Parmcb.C05.c05_approx_signed_end_to_end", "Parmcb.C05.c05_approx_fvs_trees_end_to_end", "Parmcb.C05.c05_approx_iso_trees_end_to_end",
            "Parmcb.C02.c05_approx_signed_heap_end_to_end", "Parmcb.C02.c05_approx_fvs_trees_heap_end_to_end", "Parmcb.C02.c05_approx_iso_trees_heap_end_to_end"]
PID = "C05"

def the_oracle(case, k, block, mu): return oracle_c05(case, k, block)

def run(tier, replay=None, pid=PID, theorems=THEOREMS, oracle=the_oracle, ks=(1, 2, 3, 5, 9, 40, 2 ** 30 + 1, 2 ** 40), need_mu=False, module="Parmcb"):
    res = Result(pid, tier, "proof")
    res.assumptions = ["relational layer: Model/Spanner.lean (approxRun) + Model/DePina.lean; the exact phase on the spanner and the shortest spanner paths are open choices validated per run (trace validation)",
                       "literal layer: Model/ApproxAlgo.lean / Model/HeapAlgo.lean are end-to-end literal models (spanner, exact phase on the spanner, literal parmcb::dijkstra on a literal 4-ary heap, walk back along the predecessor edges) whose correctness is PROVED (c05_approx_*_end_to_end); on every sequential run the exact phase is replayed literally on the spanner and every dropped-edge cycle must equal the literal heap-Dijkstra path, edge by edge in order",
                       "descriptors are dereferenced through the caller's maps after the call has returned (ASan build in the thorough tier)"]
    lean_ok = lean_gate(res, module, theorems)
    binary, log = compile_harness("h_graph.cpp", sanitize=(tier == "thorough"))
    if binary is None:
        res.violation("harness does not compile against the working tree", {"kind": "compile", "log": log[-3000:]}, found=False)
        return res.finish()
    r = rng(pid)
    if replay:
        rp = json.load(open(replay))["replay"]
        cases = {"replay": (rp["n"], [tuple(e) for e in rp["edges"]], rp.get("scale", 0), "replay")}; meta = {"replay": (rp["variant"], rp["k"])}
    else:
        cases, meta = approx_cases(r, tier, 350 if tier == "quick" else 6000, 13 if tier == "quick" else 34,
                                   3 if tier == "quick" else 4, list(ks))
    rc, out, err = run_kind(binary, "approx", cases, meta, lambda m: [m[0], m[1]])
    blocks = parse_blocks(out)
    mu_cache, bad = {}, []
    if replay and "mu_upper" in rp:        # a replay found by stretch_search: judged against an explicit basis (upper bound on the optimum)
        b = blocks.get("replay", {"lines": []}); c = cases["replay"]
        tot = sum(c[1][e][2] for cy in cycles_of(b) for e in cy if 0 <= e < len(c[1])) if line(b, "ret") else None
        if tot is None or tot > (2 * rp["k"] - 1) * rp["mu_upper"]:
            res.violation("%s approx_%s k=%d: emitted weight %s exceeds (2k-1) x %d (explicit basis)" % (pid, rp["variant"], rp["k"], tot, rp["mu_upper"]), rp)
        return res.finish()
    for cid, c in cases.items():
        mu = None
        if need_mu:
            key = json.dumps([c[0], c[1]])
            if key not in mu_cache: mu_cache[key] = mcb_weight_oracle(c[0], c[1])
            mu = mu_cache[key]
        why = oracle(c, meta[cid][1], blocks.get(cid, {"lines": []}), mu)
        if why: bad.append((cid, why))
    if rc != 0 and not bad:
        res.violation("harness crashed / sanitizer report", {"kind": "crash", "stderr": err[-3000:]}); return res.finish()
    verdicts = run_driver(out) if lean_ok and rc == 0 else []
    oks, diffs, viols = parse_driver(verdicts)
    # more than 1024 / 16384 dropped edges (sequential and TBB entry points under real oneTBB, 16 threads): oracle only
    big_bad, big_runs, big_cycles = ([], 0, 0)
    if not replay and pid == "C05":
        big_bad, big_runs, big_cycles = run_many_dropped(binary, r, tier, ["signed", "signed_tbb", "fvs_tbb", "iso_tbb"], lambda v: [16] if v.endswith("_tbb") else [])
    res.coverage["many_dropped_edges_family"] = {"runs": big_runs, "cycles": big_cycles}
    res.coverage.update({"evaluations": len(cases), "distinct_nontrivial": distinct_nontrivial(cases, lambda c: len(c[1]) - c[0] + components(c[0], c[1]) >= 1),
        "rule": "graphs as in C16 x {approx_mcb_sva_signed, _fvs_trees, _iso_trees} x k in %s; non-trivial = cycle space dimension >= 1" % (list(ks),),
        "traces_validated_against_impl": len(oks), "spanner_cycles_total": sum(int(w[5]) for w in oks), "edge_cycles_total": sum(int(w[6]) for w in oks),
        "edge_cycles_equal_to_the_literal_heap_dijkstra_path": sum(int(w[8]) for w in oks if len(w) > 8),
        "runs_whose_exact_phase_on_the_spanner_was_replayed_literally": sum(int(w[9]) for w in oks if len(w) > 9),
        "k_histogram": {str(k): sum(1 for m in meta.values() if m[1] == k) for k in ks},
        "samples": [{"n": c[0], "edges": c[1], "variant": meta[k][0], "k": meta[k][1]} for k, c in list(cases.items())[-2:]], **stats(cases)})
    if big_bad:
        j, why, c, a = big_bad[0]
        res.violation("%s approx %s: %s" % (pid, a, why), {"kind": "graph-approx-big", "n": c[0], "edges": c[1] if len(c[1]) < 4000 else "complete graph K%d, see generator many_dropped_cases" % c[0], "args": a, "why": why, "count": len(big_bad)})
    elif bad or viols:
        cid, why = bad[0] if bad else (viols[0][1], " ".join(viols[0][2:]))
        v, k = meta[cid]
        def still_bad(c):
            rc, o, e = run_kind(binary, "approx", {"s": c}, {"s": (v, k)}, lambda m: [m[0], m[1]])
            b = parse_blocks(o).get("s", {"lines": []})
            if rc != 0 or oracle(c, k, b, mcb_weight_oracle(c[0], c[1]) if need_mu else None) is not None: return True
            return bool(parse_driver(run_driver(o))[2]) if not bad else False
        c = shrink_graph(cases[cid], still_bad)
        res.violation("%s approx_%s k=%d: %s" % (pid, v, k, why), {"kind": "graph", "n": c[0], "edges": c[1], "scale": c[2], "variant": v, "k": k, "why": why, "count": len(bad) + len(viols)})
    elif diffs or (lean_ok and len(oks) != len(cases)):
        hit = stretch_search(binary) if pid == "C06" else None
        if hit:
            res.violation("C06 approx_%s k=%d: %s (found by the focused search after the spanner correspondence broke)" % (hit["variant"], hit["k"], hit["why"]), hit)
            return res.finish()
        res.violation("trace validation / correspondence broken (Model/Spanner.lean approxRun vs approx_spanner.hpp); the %s oracle still holds on all %d runs" % (pid, len(cases)),
                      {"kind": "correspondence", "first": diffs[:3], "validated": len(oks)}, found=False)
    return res.finish()
