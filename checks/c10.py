"""C10 — DIMACS reader and validators: theorems (Props/C10.lean) + the real reader on generated texts in
every style (comments, e/a lines, optional weights, integer/decimal weights, trailing newline or not, long
lines) compared with the model's parse and with the generator's graph; validators on random multigraphs."""
import json
from lib import *
from graphs import *

THEOREMS = ["Parmcb.C10." + t for t in ["c10_strip_newline", "c10_strip_no_newline", "c10_roundtrip", "c10_undeclared", "c10_undeclared_read",
            "c10_has_loops", "c10_has_non_positive", "c10_has_multiple", "c10_pinned_strip_counterexample", "c10_classify_edge_line", "c10_classify_problem_line", "c10_classify_comment", "c10_text_roundtrip"]]

def gen_text(r, malformed=False):
    """-> (text, expected) ; expected = ('ok', n, [(u,v,weight_token_or_None)]) or ('error',)"""
    n = r.choice([r.randint(1, 9), r.randint(1, 9), r.randint(10, 120), r.randint(1000, 5000)])      # also multi-digit vertex ids
    m = r.choice([r.randint(0, 12), r.randint(0, 12), r.randint(13, 80)])
    lines, edges = [], []
    def comment():
        return r.choice(["c ", "# ", "c", "#"]) + "".join(r.choice("abc p e 12 3.5") for _ in range(r.randint(0, 20)))
    for _ in range(r.randint(0, 2)): lines.append(comment())
    # the announced edge count is only an announcement: the property counts one edge per 'e'/'a' line, so stale headers
    # (fewer or more edges announced than present, zero) are valid texts too
    m_announced = m if r.random() < .6 else r.choice([0, max(0, m - r.randint(1, 3)), m + r.randint(1, 4), 1])
    lines.append("p %s %d %d" % (r.choice(["edge", "sp", "mcb"]), n, m_announced))
    bad_at = r.randrange(m) if (malformed and m) else None
    err = False
    for i in range(m):
        if r.random() < 0.15: lines.append(comment())
        if r.random() < 0.06: lines.append("")                                   # an empty line
        if r.random() < 0.04:                                                    # a comment filling the 1024-byte buffer exactly / almost
            lines.append("c" + "x" * (r.choice([1021, 1022, 1022]) ))
        u, v = r.randint(1, n), r.randint(1, n)
        if i == bad_at:
            u = r.choice([0, n + 1, n + 5, -1]); err = True
        style = r.choice(["int", "int", "none", "dec", "dyadic", "neg", "zero", "one"])
        tok = {"int": str(r.randint(1, 99)), "none": None, "dec": "%d.%d" % (r.randint(0, 9), r.randint(1, 99)),
               "dyadic": r.choice(["0.5", "2.25", "35", "0.125", "7.75"]), "neg": "-%d" % r.randint(1, 9), "zero": "0", "one": "1"}[style]
        pad = " " * r.randint(1, 3)
        line = r.choice(["e", "a"]) + pad + str(u) + pad + str(v) + ((pad + tok) if tok is not None else "")
        if r.random() < 0.05: line += " " * r.randint(1, 900 - len(line))      # long lines (< 1024 bytes)
        lines.append(line)
        if not err: edges.append((u - 1, v - 1, tok))
    for _ in range(r.randint(0, 1)): lines.append(comment())
    if r.random() < 0.1: lines.append("")                                        # trailing empty line
    trailing = r.random() < 0.5
    text = "\n".join(lines) + ("\n" if trailing else "")
    return text, (("error",) if err else ("ok", n, edges)), trailing

def oracle(expected, block):
    ls = block["lines"]
    ls = [w for w in ls if w[0] != "raw"]
    if expected[0] == "error":
        return None if ls and ls[0][0] == "error" else "an edge naming an undeclared vertex did not raise an error"
    if ls and ls[0][0] == "error": return "a valid text was rejected"
    _, n, edges = expected
    got_n = [w for w in ls if w[0] == "n"]
    if not got_n or int(got_n[0][1]) != n: return "vertex count %s, declared %d" % (got_n[0][1] if got_n else None, n)
    des = [w for w in ls if w[0] == "de"]
    if len(des) != len(edges): return "%d edges read, %d edge lines" % (len(des), len(edges))
    for w, (u, v, tok) in zip(des, edges):
        if int(w[1]) != u or int(w[2]) != v: return "edge endpoints %s-%s, file says %d-%d" % (w[1], w[2], u, v)
        want = float(tok) if tok is not None else 1.0
        if float(w[4]) != want: return "edge weight %s, file says %s" % (w[4], tok if tok is not None else "(omitted: 1)")
    flag = lambda k: int([w for w in ls if w[0] == k][0][1])
    loops = any(u == v for u, v, _ in edges)
    nonpos = any((float(t) if t is not None else 1.0) <= 0 for _, _, t in edges)
    multi = len({frozenset((u, v)) for u, v, _ in edges}) < len(edges)
    if flag("loops") != loops: return "has_loops answers %d" % flag("loops")
    if flag("nonpos") != nonpos: return "has_non_positive_weights answers %d" % flag("nonpos")
    if not loops and flag("multi") != multi: return "has_multiple_edges answers %d" % flag("multi")
    return None

def run(tier, replay=None):
    res = Result("C10", tier, "proof")
    res.assumptions = ["fgets/sscanf/strtod on well-formed lines behave as the char-level tokeniser `classify` of the model (tied by the correspondence); that tokeniser is PROVED to read back every rendered text: c10_classify_* and c10_text_roundtrip (any spacing, e/a tags, omitted unit weights, decimal weights, comments anywhere, final newline or not)",
                       "decimal -> double rounding of strtod (compared against python's float())"]
    lean_ok = lean_gate(res, "Parmcb.Props.C10", THEOREMS)
    binary, log = compile_harness("h_dimacs.cpp", libs=(), tbb=False, mpi=False, sanitize=(tier == "thorough"))
    if binary is None:
        res.violation("harness does not compile against the working tree", {"kind": "compile", "log": log[-3000:]}, found=False)
        return res.finish()
    r = rng("c10")
    cases = {}
    if replay:
        rp = json.load(open(replay))["replay"]
        cases["replay"] = (rp["text"], tuple(rp["expected"]) if rp["expected"][0] == "error" else ("ok", rp["expected"][1], [tuple(e) for e in rp["expected"][2]]), rp["text"].endswith("\n"))
    else:
        for i in range(1500 if tier == "quick" else 20000):
            cases["t%d" % i] = gen_text(r, malformed=(i % 7 == 0))
    text = ""
    for cid, (t, exp, tr) in cases.items():
        f = os.path.join(scratch(), cid + ".dimacs")
        open(f, "w").write(t)
        raws = t.split("\n")
        raw_lines = [l + "\n" for l in raws[:-1]] + ([raws[-1]] if raws[-1] != "" else [])
        # fgets(buffer, 1024) hands over at most 1023 characters at a time
        raw_lines = [l[i:i + 1023] for l in raw_lines for i in range(0, len(l), 1023)]
        text += "case %s dimacs %s\n" % (cid, f) + "".join("raw %s\n" % l.encode().hex() for l in raw_lines) + "end\n"
    rc, out, err = run_harness(binary, text)
    if rc != 0:
        res.violation("harness crashed / sanitizer report", {"kind": "crash", "stderr": err[-3000:]}); return res.finish()
    from gcommon import parse_blocks
    blocks = parse_blocks(out)
    bad = [(cid, oracle(exp, blocks.get(cid, {"lines": []}))) for cid, (t, exp, tr) in cases.items()]
    bad = [(cid, why) for cid, why in bad if why]
    verdicts = run_driver(out) if lean_ok else []
    oks, diffs, viols = parse_driver(verdicts)
    res.coverage.update({"evaluations": len(cases), "distinct_nontrivial": len({t for (t, e, tr) in cases.values() if t.count("\n") >= 3}),
        "rule": "generated DIMACS texts: c/# comments anywhere, e/a edge lines, 1-3 blanks between fields, integer / decimal / dyadic / negative / zero / omitted weights, lines padded up to ~900 bytes, final newline present or absent, every 7th text names an undeclared vertex; non-trivial = at least 3 lines; distinct by text",
        "traces_validated_against_impl": len(oks), "without_trailing_newline": sum(1 for (t, e, tr) in cases.values() if not tr),
        "malformed": sum(1 for (t, e, tr) in cases.values() if e[0] == "error"),
        "samples": [cases[k][0] for k in list(cases)[:2]]})
    if bad:
        cid, why = bad[0]
        t, exp, tr = cases[cid]
        res.violation("read_dimacs_from_file / validators: " + why, {"kind": "text", "text": t, "expected": list(exp), "why": why, "count": len(bad)})
    elif diffs or viols or (lean_ok and len(oks) != len(cases)):
        res.violation("model/implementation correspondence broken (Model/Dimacs.lean vs util.hpp); the C10 oracle still holds on all %d texts" % len(cases),
                      {"kind": "correspondence", "first": (diffs + viols)[:3]}, found=False)
    return res.finish()
