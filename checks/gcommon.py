"""shared driver for graph-kind correspondence checks"""
import json
from lib import *
from graphs import *

def parse_blocks(out):
    """harness output -> {id: {'args': [...], 'lines': [[words]...]}}"""
    res, cur = {}, None
    for l in out.split("\n"):
        w = l.split()
        if not w: continue
        if w[0] == "case": cur = w[1]; res[cur] = {"kind": w[2], "args": w[3:], "lines": []}
        elif w[0] == "end": cur = None
        elif cur is not None: res[cur]["lines"].append(w)
    return res

def line(block, key):
    for w in block["lines"]:
        if w[0] == key: return w[1:]
    return None
def lines(block, key): return [w[1:] for w in block["lines"] if w[0] == key]

def graph_cases(r, tier, count, maxn, styles=("unit", "small", "two", "wide", "dyadic"), small_exhaustive=4, big=False):
    """-> dict id -> (n, WE, scale, tag).  corpus first is handled by the caller."""
    cases = {}
    # exhaustive tiny universe
    k = 0
    for n in range(0, small_exhaustive + 1):
        for E in all_small_graphs(n):
            for wmask in ([0] if len(E) > 6 else range(1 << len(E))) if n <= 3 else [0, (1 << len(E)) - 1, 0b0101010101 & ((1 << len(E)) - 1)]:
                WE = [(u, v, 1 + (wmask >> i & 1)) for i, (u, v) in enumerate(E)]
                cases["x%d" % k] = (n, WE, 0, "exhaustive-n%d" % n); k += 1
    # isometric even cycles under arbitrary vertex numberings (unit weights: two tied antipodal paths between every
    # opposite pair; which one the tie-break picks depends on the numbering) — alone, with a chord-free partner, with tails
    k = 0
    for L in (6, 8, 10, 12):
        for j in range(3 if L <= 8 else 2):
            E = cycle(L)
            if j == 1: E = E + [(0, L), (L, L + 1)]                                  # a tail
            if j == 2: E = E + [(0, L), (L, L + 1), (L + 1, L + 2), (L + 2, 3)]     # a second even cycle through 0..3
            nn, E2 = shuffle_graph(r, nverts(E), E)
            cases["ec%d" % k] = (nn, [(u, v, 1) for (u, v) in E2], 0, "even-cycle-renumbered"); k += 1
    for i in range(count):
        n, E, tag = random_graph(r, maxn, big)
        st = r.choice(styles + (("mixed",) if "wide" in styles and "dyadic" in styles else ()))
        if st == "mixed" and (n > 12 or len(E) > 40): st = "wide"        # keep every sum below 2^53
        WE, scale = weights(r, E, st)
        cases["r%d" % i] = (n, WE, scale, tag)
    return cases

def run_graph_kind(binary, kind, cases, wt_of=lambda cid: "d", args_of=lambda cid: [], timeout=3600):
    text = "".join(render_graph(cid, kind, wt_of(cid), c[2] if wt_of(cid) == "d" else 0, args_of(cid), c[0], c[1]) for cid, c in cases.items())
    rc, out, err = run_harness(binary, text, timeout=timeout)
    return rc, out, err

def shrink_graph(case, bad):
    """delete edges, then trailing vertices, then lower weights while `bad(case)` stays true"""
    n, WE, scale, tag = case
    changed = True
    while changed:
        changed = False
        for i in range(len(WE) - 1, -1, -1):
            cand = (n, WE[:i] + WE[i + 1:], scale, tag)
            if bad(cand): n, WE, scale, tag = cand; changed = True
        while n > 0 and all(u < n - 1 and v < n - 1 for u, v, _ in WE) and bad((n - 1, WE, scale, tag)):
            n -= 1; changed = True
        for i in range(len(WE)):
            if WE[i][2] > 1:
                cand = (n, WE[:i] + [(WE[i][0], WE[i][1], 1)] + WE[i + 1:], scale, tag)
                if bad(cand): n, WE, scale, tag = cand; changed = True
    return (n, WE, scale, tag)

def stats(cases):
    tags = {}
    for c in cases.values(): tags[c[3]] = tags.get(c[3], 0) + 1
    ns = [c[0] for c in cases.values()]; ms = [len(c[1]) for c in cases.values()]
    return {"graph_kinds": tags, "n_max": max(ns) if ns else 0, "m_max": max(ms) if ms else 0,
            "with_cycles": sum(1 for c in cases.values() if len(c[1]) - c[0] + components(c[0], c[1]) > 0),
            "disconnected": sum(1 for c in cases.values() if c[0] > 0 and components(c[0], c[1]) > 1)}

def distinct_nontrivial(cases, pred=lambda c: len(c[1]) >= 2):
    return len({json.dumps([c[0], c[1], c[2]]) for c in cases.values() if pred(c)})
