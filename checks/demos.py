"""building and running the demo programs from /repo's working tree"""
from lib import *

_built = {}
def build_demos(targets=("mcb-dimacs", "approx-mcb-dimacs", "collection-stats-dimacs", "mcb-dimacs-mpi")):
    """cmake configure + build of the demo targets into the scratch dir; returns (bindir, log)"""
    key = tuple(sorted(targets))
    bdir = os.path.join(scratch(), "demos")
    if not os.path.exists(os.path.join(bdir, "build.ninja")):
        r = sh(["cmake", "-G", "Ninja", "-S", REPO, "-B", bdir, "-DCMAKE_BUILD_TYPE=Release",
                "-DCMAKE_CXX_FLAGS_RELEASE=-O1", "-DCMAKE_CXX_FLAGS=-D" + GUARD])
        if r.returncode != 0: return None, r.stdout
    todo = [t for t in targets if t not in _built]
    if todo:
        r = sh(["cmake", "--build", bdir, "--target"] + todo + ["-j", "16"])
        if r.returncode != 0: return None, r.stdout
        for t in todo: _built[t] = True
    return bdir, ""

def write_dimacs(path, n, WE, scale=0, newline_at_end=True):
    lines = ["c generated", "p edge %d %d" % (n, len(WE))]
    for u, v, w in WE:
        lines.append("e %d %d %s" % (u + 1, v + 1, repr(w / 2 ** scale) if scale else str(w)))
    open(path, "w").write("\n".join(lines) + ("\n" if newline_at_end else ""))
