"""C06 — approximation guarantee (2k-1), exact for k = 1, k = 0 rejected."""
import c05
from approx import *
THEOREMS = ["Parmcb.C06.c06_k0", "Parmcb.C06.c06_k1", "Parmcb.C06.c06_spanner_part", "Parmcb.C06.c06_edge_cycle",
            "Parmcb.C06.c06_bound", "Parmcb.C06.c06_bound_mcb", "Parmcb.C06.c06_bound_renumbered",
            "Parmcb.C05.c05_approx_signed_end_to_end", "Parmcb.C05.c05_approx_fvs_trees_end_to_end", "Parmcb.C05.c05_approx_iso_trees_end_to_end",
            "Parmcb.C05.c06_k0_end_to_end", "Parmcb.C05.c06_k1_end_to_end", "Parmcb.C05.c06_dijkstra_path",
            "Parmcb.C02.c06_heap_dijkstra_is_oracle_run", "Parmcb.C02.c05_approx_signed_heap_end_to_end", "Parmcb.C02.c05_approx_fvs_trees_heap_end_to_end", "Parmcb.C02.c05_approx_iso_trees_heap_end_to_end"]
def the_oracle(case, k, block, mu): return oracle_c06(case, k, block, mu)
def run(tier, replay=None):
    return c05.run(tier, replay, pid="C06", theorems=THEOREMS, oracle=the_oracle, ks=(0, 1, 2, 3, 4, 7, 2 ** 31), need_mu=True, module="Parmcb")
