"""Shared machinery for every check: Lean build + audit, harness compilation from /repo's
working tree, model driver, evidence, violation protocol.  Everything is located relative to
this file; scratch lives in a per-invocation temp directory that is removed on exit."""
import atexit, fcntl, hashlib, json, os, random, re, shutil, subprocess, sys, tempfile, time

HERE = os.path.dirname(os.path.abspath(__file__))
VERIF = os.path.dirname(HERE)
LEAN = os.path.join(VERIF, "lean")
REPO = os.environ.get("PARMCB_REPO", "/repo")
EVID = os.path.join(VERIF, "evidence")
REPLAYS = os.path.join(EVID, "replays")
DRIVER = os.path.join(LEAN, ".lake", "build", "bin", "parmcb_model")
GUARD = "PARMCB_VERIF"

_scratch = None
def scratch():
    global _scratch
    if _scratch is None:
        _scratch = tempfile.mkdtemp(prefix="parmcb-verif-")
        atexit.register(lambda: shutil.rmtree(_scratch, ignore_errors=True))
    return _scratch

def seed():
    try:
        return int(os.environ.get("VERIF_SEED", "20260929"))
    except ValueError:
        return 20260929

def rng(tag=""):
    return random.Random(hashlib.sha256(f"{seed()}:{tag}".encode()).hexdigest())

def sh(cmd, **kw):
    kw.setdefault("stdout", subprocess.PIPE)
    kw.setdefault("stderr", subprocess.STDOUT)
    kw.setdefault("text", True)
    return subprocess.run(cmd, **kw)

# ---------------------------------------------------------------------------------- Lean side

FORBIDDEN = re.compile(r"\b(sorry|admit|native_decide|bv_decide|implemented_by|unsafe)\b|^axiom\s|maxHeartbeats\s+0")
ALLOWED_AXIOMS = {"propext", "Quot.sound", "Classical.choice"}

def _strip_comments(src):
    # remove /- ... -/ (nested) and -- line comments
    out, i, depth = [], 0, 0
    while i < len(src):
        if src.startswith("/-", i):
            depth += 1; i += 2; continue
        if depth and src.startswith("-/", i):
            depth -= 1; i += 2; continue
        if depth:
            if src[i] == "\n": out.append("\n")
            i += 1; continue
        if src.startswith("--", i):
            j = src.find("\n", i)
            i = len(src) if j < 0 else j
            continue
        out.append(src[i]); i += 1
    return "".join(out)

def lean_grep():
    """forbidden constructs in any Lean source of the project (comments stripped)"""
    hits = []
    for root, _, files in os.walk(LEAN):
        if ".lake" in root: continue
        for f in files:
            if not f.endswith(".lean"): continue
            p = os.path.join(root, f)
            txt = _strip_comments(open(p).read())
            for n, line in enumerate(txt.split("\n"), 1):
                if FORBIDDEN.search(line):
                    hits.append(f"{os.path.relpath(p, LEAN)}:{n}: {line.strip()}")
    return hits

def lean_build(extra_targets=()):
    """lake build (serialised with flock); returns (ok, log)"""
    os.makedirs(os.path.join(LEAN, ".lake"), exist_ok=True)
    with open(os.path.join(LEAN, ".lake", "verif.lock"), "w") as lk:
        fcntl.flock(lk, fcntl.LOCK_EX)
        r = sh(["lake", "build"] + list(extra_targets), cwd=LEAN)
        ok = r.returncode == 0 and os.path.exists(DRIVER)
        return ok, r.stdout

def lean_axioms(module, names):
    """#print axioms for the given fully qualified theorem names; returns {name: [axioms]} or raises"""
    src = f"import {module}\n" + "".join(f"#print axioms {n}\n" for n in names)
    p = os.path.join(scratch(), "Axioms_%s.lean" % module.replace(".", "_"))
    open(p, "w").write(src)
    with open(os.path.join(LEAN, ".lake", "verif.lock"), "w") as lk:
        fcntl.flock(lk, fcntl.LOCK_SH)
        r = sh(["lake", "env", "lean", p], cwd=LEAN)
    res, cur = {}, None
    txt = r.stdout
    # messages look like: 'Parmcb.C17.c17_canonical' depends on axioms: [propext, Quot.sound]
    #                 or: 'X' does not depend on any axioms
    for m in re.finditer(r"'([^']+)' (depends on axioms: \[([^\]]*)\]|does not depend on any axioms)", txt, re.S):
        name = m.group(1)
        axs = [a.strip() for a in (m.group(3) or "").replace("\n", " ").split(",") if a.strip()]
        res[name] = axs
    return res, txt, r.returncode

def run_driver(text, timeout=3600):
    r = subprocess.run([DRIVER], input=text, stdout=subprocess.PIPE, stderr=subprocess.PIPE, text=True, timeout=timeout)
    if r.returncode != 0:
        raise RuntimeError("model driver failed: " + r.stderr[-2000:])
    return [l for l in r.stdout.split("\n") if l.strip()]

# ---------------------------------------------------------------------------------- C++ side

CONFIG_HPP = """#ifndef _PARMCB_CONFIG_HPP_
#define _PARMCB_CONFIG_HPP_
#define PARMCB_HAVE_BOOST
%s
%s
#define PARMCB_INVARIANTS_CHECK
#endif
"""

def gen_config(tbb=True, mpi=True):
    d = os.path.join(scratch(), "inc_%d%d" % (tbb, mpi), "parmcb")
    os.makedirs(d, exist_ok=True)
    open(os.path.join(d, "config.hpp"), "w").write(
        CONFIG_HPP % ("#define PARMCB_HAVE_TBB" if tbb else "/* no TBB */",
                      "#define PARMCB_HAVE_MPI" if mpi else "/* no MPI */"))
    return os.path.dirname(d)

def compile_harness(src, out_name=None, flags=(), libs=("-ltbb", "-lboost_timer"), sanitize=False,
                    cxx="g++", tbb=True, mpi=True, pre_includes=(), opt="-O1"):
    """compile harness/<src> against /repo/include (current working tree); returns (path, log) — path None on failure"""
    out = os.path.join(scratch(), out_name or (os.path.splitext(src)[0] + ("_san" if sanitize else "")))
    inc = gen_config(tbb, mpi)
    cmd = [cxx, "-std=c++14", opt, "-g", "-D" + GUARD, "-w"]
    for p in pre_includes: cmd += ["-I", p]
    cmd += ["-I", inc, "-I", os.path.join(REPO, "include"), "-I", os.path.join(VERIF, "harness")]
    if sanitize:
        cmd += ["-fsanitize=address,undefined", "-fno-sanitize-recover=all", "-fno-omit-frame-pointer"]
    cmd += list(flags) + [os.path.join(VERIF, "harness", src), "-o", out] + list(libs)
    r = sh(cmd)
    if r.returncode != 0:
        return None, r.stdout
    return out, r.stdout

def run_harness(binary, text, timeout=3600, env=None, args=()):
    e = dict(os.environ)
    e.setdefault("ASAN_OPTIONS", "detect_leaks=1:abort_on_error=0")
    if env: e.update(env)
    r = subprocess.run([binary] + list(args), input=text, stdout=subprocess.PIPE, stderr=subprocess.PIPE, text=True,
                       timeout=timeout, env=e)
    return r.returncode, r.stdout, r.stderr

def run_watchdog(cmd, timeout, **kw):
    """run a command in its own process group; on timeout kill the whole group. -> (returncode | 'hang', stdout, stderr)"""
    import signal
    p = subprocess.Popen(cmd, stdout=subprocess.PIPE, stderr=subprocess.PIPE, text=True, start_new_session=True, **kw)
    try:
        out, err = p.communicate(timeout=timeout)
        return p.returncode, out, err
    except subprocess.TimeoutExpired:
        try: os.killpg(p.pid, signal.SIGKILL)
        except ProcessLookupError: pass
        try: out, err = p.communicate(timeout=10)
        except Exception: out, err = "", ""
        return "hang", out or "", err or ""

# ---------------------------------------------------------------------------------- results

def known_findings():
    p = os.path.join(VERIF, "known_findings.json")
    if not os.path.exists(p): return {"findings": [], "fixed": []}
    return json.load(open(p))

class Result:
    """collects what a check run covered; writes evidence; prints VIOLATION / KNOWN-FINDING lines"""
    def __init__(self, pid, tier, level):
        self.pid, self.tier, self.level = pid, tier, level
        self.t0 = time.time()
        self.coverage = {}
        self.assumptions = []
        self.violations = []      # (what, replay_obj, failing_input_found)
        self.known = []
    def violation(self, what, replay, found=True):
        self.violations.append((what, replay, found))
    def finish(self):
        os.makedirs(REPLAYS, exist_ok=True)
        for old in os.listdir(REPLAYS):        # replays of earlier runs of this property are stale
            if old.startswith(self.pid + "-"):
                try: os.remove(os.path.join(REPLAYS, old))
                except OSError: pass
        kf = known_findings()
        lines, nviol = [], 0
        for n, (what, replay, found) in enumerate(self.violations):
            key = replay.get("finding_key") if isinstance(replay, dict) else None
            match = None
            for f in kf.get("findings", []):
                if f.get("property") == self.pid and key is not None and f.get("key") == key:
                    match = f
            if match:
                lines.append(f"KNOWN-FINDING: property={self.pid} {match.get('what', what)}")
                continue
            nviol += 1
            path = os.path.join(REPLAYS, f"{self.pid}-{seed()}-{n}.json")
            json.dump({"property": self.pid, "what": what, "replay": replay,
                       "failing_input_found": found}, open(path, "w"), indent=1)
            lines.append(f"VIOLATION property={self.pid} replay={path}" + ("" if found else " no-failing-input-found"))
        ev = {"property_id": self.pid, "tier": self.tier, "seed": seed(), "level": self.level,
              "coverage": self.coverage, "assumptions": self.assumptions,
              "wall_s": round(time.time() - self.t0, 2), "violations": nviol}
        os.makedirs(EVID, exist_ok=True)
        json.dump(ev, open(os.path.join(EVID, self.pid + ".json"), "w"), indent=1)
        for l in lines: print(l)
        sys.stdout.flush()
        return 1 if nviol else 0

def lean_gate(res, module, theorems):
    """build + audit; on failure records a violation (no failing input by itself). returns ok"""
    ok, log = lean_build()
    if not ok:
        res.violation("lean build failed", {"kind": "lean-build", "log": log[-4000:]}, found=False)
        return False
    hits = lean_grep()
    if hits:
        res.violation("forbidden construct in Lean sources", {"kind": "lean-audit", "hits": hits}, found=False)
        return False
    ax, txt, rc = lean_axioms(module, theorems)
    bad = {}
    for t in theorems:
        if t not in ax: bad[t] = "missing (does not check)"
        elif set(ax[t]) - ALLOWED_AXIOMS: bad[t] = sorted(set(ax[t]) - ALLOWED_AXIOMS)
    res.coverage["obligations"] = len(theorems)
    res.coverage["discharged"] = len(theorems) - len(bad)
    res.coverage["theorems"] = {t: ax.get(t) for t in theorems}
    res.coverage["checker_cmd"] = "lake build && lake env lean <#print axioms %s>" % module
    res.coverage["trusted_base"] = ["Lean 4.33.0 kernel", "axioms: " + ", ".join(sorted({a for v in ax.values() for a in v}))]
    if bad:
        res.violation("theorem(s) no longer check or use extra axioms", {"kind": "lean-axioms", "bad": bad, "out": txt[-3000:]}, found=False)
        return False
    if getattr(res, "tier", "quick") == "thorough":
        # independent re-check of the compiled declarations (one module per call): the property module and every
        # lemma module of the library
        mods = [module] + sorted("Parmcb.Lemmas." + f[:-5] for f in os.listdir(os.path.join(LEAN, "Parmcb", "Lemmas")) if f.endswith(".lean"))
        failed = []
        for m in mods:
            p = subprocess.run(["lake", "env", "leanchecker", m], cwd=LEAN, capture_output=True, text=True)
            if p.returncode != 0: failed.append((m, (p.stdout + p.stderr)[-500:]))
        res.coverage["leanchecker"] = {"modules": len(mods), "failed": [m for m, _ in failed]}
        if failed:
            res.violation("leanchecker rejects compiled module(s)", {"kind": "leanchecker", "failed": failed}, found=False)
            return False
    return True

def parse_driver(lines):
    """-> (oks, diffs, viols) lists of word lists"""
    oks, diffs, viols = [], [], []
    for l in lines:
        w = l.split()
        if not w: continue
        (oks if w[0] == "ok" else viols if w[0] == "viol" else diffs).append(w)
    return oks, diffs, viols
