"""C01 — exact algorithms emit a genuine basis: theorems (Props/C01.lean) + trace validation of the
implementation's runs against the literal support-vector model + independent oracle."""
from exact import *

PID = "C01"
THEOREMS = ["Parmcb.C01." + t for t in ["c01_count", "c01_cycles", "c01_independent", "c01_spans", "c01_basis", "c01_of_graph"]] + \
    ["Parmcb.C02." + t for t in ["c02_fvs_trees_end_to_end", "c02_iso_trees_end_to_end", "c02_signed_end_to_end", "c02_signed_heap_end_to_end"]]
def the_oracle(case, block, mu_cache): return oracle_c01(case, block)
ASSUME = ["relational layer: the emitted cycle of a phase is an open choice (ties); the theorems quantify over every choice satisfying the phase contract PhaseOK, and every run of the C++ is validated against it (per-phase optimum from the model's signed-graph distances; definitional enumeration of all 2^m edge subsets on graphs with m<=11)",
          "literal layer: Model/TreesAlgo.lean and Model/SignedAlgo.lean + Model/BiSearch.lean are end-to-end literal models of the tree variants and of mcb_sva_signed(_tbb) whose correctness is PROVED with no hypothesis about the searches (c02_*_end_to_end); the tree variants' main loop is replayed literally on every run with the sorted candidate list the C++ reports (hook report_candidates) and must emit exactly the C++'s cycles; mcb_sva_signed is replayed literally as well (Model/HeapAlgo.lean: literal boost 4-ary heaps, the caller's out-edge order, the std::set order read off the reported searches) and must emit exactly the C++'s cycles, phase by phase; mcbSignedH is proved to be an instance of the oracle model (c02_signed_heap_end_to_end)",
          "Model/DePina.lean support bookkeeping literal for signed / signed_tbb / trees / mpi", "C16 supplies ExactDomain for the ForestIndex numbering"]

def focused_search(res, pid, binary, cases, meta, diffs, oracle, r):
    """the model and the implementation disagree on some runs although the property held there: look for an
    input on which the property itself fails, near the disagreeing inputs (same graph under many edge insertion
    orders / vertex relabellings — the signed searches depend on the pointer order of the edges — and
    reweighted copies)"""
    ids = []
    for d in diffs:
        if d[1] in cases and d[1] not in ids: ids.append(d[1])
    tried = 0
    for cid in ids[:25]:
        n, WE, scale, tag = cases[cid]
        v, wt = meta[cid]
        batch, bmeta = {}, {}
        for j in range(120):
            perm = list(range(n)); r.shuffle(perm)
            E2 = [(perm[a], perm[b], w) if r.random() < .5 else (perm[b], perm[a], w) for (a, b, w) in WE]
            r.shuffle(E2)
            if j % 3 == 2: E2 = [(a, b, max(1, w + r.randint(-2, 2))) for (a, b, w) in E2]
            batch["f%d" % j] = (n, E2, scale, "focused"); bmeta["f%d" % j] = (v, wt)
        rc, out, err = run_exact(binary, batch, bmeta)
        blocks = parse_blocks(out)
        for j, c in batch.items():
            tried += 1
            why = oracle(c, blocks.get(j, {"lines": []}), {})
            if why:
                res.coverage["focused_search_runs"] = tried
                res.violation("%s on %s/%s: %s (found by the focused search after the correspondence broke: %s)" % (pid, v, wt, why, " ".join(diffs[0][2:])[:200]),
                              {"kind": "graph", "n": c[0], "edges": c[1], "scale": c[2], "variant": v, "wt": wt, "why": why})
                return True
    # second stage: fresh mid-size graphs with wide weights (unique optima) through the disagreeing variants, every run
    # under its own heap layout (the signed searches enumerate std::set<edge_descriptor> in address order)
    kinds = []
    for cid in ids:
        if meta[cid] not in kinds: kinds.append(meta[cid])
    for rnd in range(14 if kinds else 0):
        batch, bmeta = {}, {}
        for t in range(300):
            n = r.randint(6, 13)
            E = [(a, b) for a in range(n) for b in range(a + 1, n) if r.random() < r.choice([.25, .4, .55])]
            r.shuffle(E)
            WE = [((a, b, r.randint(1, 30)) if r.random() < .5 else (b, a, r.randint(1, 30))) for (a, b) in E]
            if t % 2 == 1:
                # heavy-tailed weights on slightly larger graphs: single edges heavier than whole cycles (where pruning rules that
                # compare an EDGE weight with the running best fire), supports with >= 4 signed edges
                n = r.randint(12, 15)
                E = [(a, b) for a in range(n) for b in range(a + 1, n) if r.random() < r.choice([.35, .45, .5])]
                r.shuffle(E)
                hw = lambda: r.randint(1, 4) if r.random() < .8 else r.randint(20, 99)
                WE = [((a, b, hw()) if r.random() < .5 else (b, a, hw())) for (a, b) in E]
            batch["g%d" % t] = (n, WE, 0, "focused-random"); bmeta["g%d" % t] = kinds[t % len(kinds)]
        text = "".join(render_graph(j, "exact", bmeta[j][1], 0, [bmeta[j][0], "0", "heap=%d" % (r.getrandbits(27) + 1)], c[0], c[1]) for j, c in batch.items())
        rc, out, err = run_harness(binary, text, timeout=1200)
        blocks = parse_blocks(out)
        for j, c in batch.items():
            tried += 1
            why = oracle(c, blocks.get(j, {"lines": []}), {})
            if why:
                v, wt = bmeta[j]
                res.coverage["focused_search_runs"] = tried
                res.violation("%s on %s/%s: %s (found by the focused search after the correspondence broke: %s)" % (pid, v, wt, why, " ".join(diffs[0][2:])[:200]),
                              {"kind": "graph", "n": c[0], "edges": c[1], "scale": c[2], "variant": v, "wt": wt, "why": why})
                return True
    res.coverage["focused_search_runs"] = tried
    return False

def run(tier, replay=None, pid=PID, theorems=THEOREMS, oracle=the_oracle, module="Parmcb.Props.C02all"):
    res = Result(pid, tier, "proof")
    res.assumptions = ASSUME
    lean_ok = lean_gate(res, module, theorems)
    binary, log = compile_harness("h_graph.cpp", sanitize=(tier == "thorough"))
    if binary is None:
        res.violation("harness does not compile against the working tree", {"kind": "compile", "log": log[-3000:]}, found=False)
        return res.finish()
    r = rng(pid)
    if replay:
        rp = json.load(open(replay))["replay"]
        cases = {"replay": (rp["n"], [tuple(e) for e in rp["edges"]], rp.get("scale", 0), "replay")}
        meta = {"replay": (rp["variant"], rp["wt"])}
    else:
        cases, meta = build_cases(r, tier, 500 if tier == "quick" else 8000, 13 if tier == "quick" else 36,
                                  3 if tier == "quick" else 4)
    rc, out, err = run_exact(binary, cases, meta)
    blocks = parse_blocks(out)
    mu_cache = {}
    bad = []
    for cid, c in cases.items():
        why = oracle(c, blocks.get(cid, {"lines": []}), mu_cache)
        if why: bad.append((cid, why))
    if rc != 0 and not bad:
        res.violation("harness crashed / sanitizer report", {"kind": "crash", "stderr": err[-3000:]})
        return res.finish()
    verdicts = run_driver(out) if lean_ok and rc == 0 else []
    oks, diffs, viols = parse_driver(verdicts)
    br = {"all_vertices_phases": sum(int(w[6]) for w in oks), "hidden_edge_phases": sum(int(w[7]) for w in oks),
          "runs_with_definitional_optimum": sum(int(w[8]) for w in oks), "phases_total": sum(int(w[4]) for w in oks),
          "runs_replayed_literally_end_to_end_with_equal_cycles": sum(int(w[10]) for w in oks if len(w) > 10)}
    res.coverage.update({"evaluations": len(cases), "distinct_nontrivial": distinct_nontrivial(cases, lambda c: len(c[1]) - c[0] + components(c[0], c[1]) >= 1) ,
        "rule": "graphs as in C16 x {mcb_sva_signed, mcb_sva_fvs_trees, mcb_sva_iso_trees} x weight type {double (unit, 1..3, 1..1000, dyadic), int}; non-trivial = cycle space dimension >= 1; distinct by weighted graph",
        "traces_validated_against_impl": len(oks), "branch_coverage": br,
        "samples": [{"n": c[0], "edges": c[1], "scale": c[2], "variant": meta[k][0], "wt": meta[k][1]} for k, c in list(cases.items())[-2:]], **stats(cases)})
    if bad or viols:
        if bad: cid, why = bad[0]
        else: cid, why = viols[0][1], " ".join(viols[0][2:])
        v, wt = meta[cid]
        def still_bad(c):
            rc, o, e = run_exact(binary, {"s": c}, {"s": (v, wt)})
            b = parse_blocks(o).get("s", {"lines": []})
            if rc != 0 or oracle(c, b, {}) is not None: return True
            if not bad:
                vs = parse_driver(run_driver(o))[2]
                return bool(vs)
            return False
        c = shrink_graph(cases[cid], still_bad)
        res.violation("%s on %s/%s: %s" % (pid, v, wt, why), {"kind": "graph", "n": c[0], "edges": c[1], "scale": c[2], "variant": v, "wt": wt, "why": why, "count": len(bad) + len(viols)})
    elif diffs and not replay and focused_search(res, pid, binary, cases, meta, diffs, oracle, r):
        pass
    elif diffs or (lean_ok and len(oks) != len(cases)):
        res.violation("trace validation / correspondence broken (Model/DePina.lean, search loops of mcb_sva_signed vs the exact algorithms): %s; the %s oracle still holds on all %d runs and on %d focused-search runs" % (" ".join(diffs[0][2:])[:160] if diffs else "runs not validated", pid, len(cases), res.coverage.get("focused_search_runs", 0)),
                      {"kind": "correspondence", "first": diffs[:3], "validated": len(oks), "runs": len(cases)}, found=False)
    return res.finish()
