#!/usr/bin/env python3
"""usage: check.py <Cxx> quick|thorough [--replay file]"""
import importlib, os, sys
sys.path.insert(0, os.path.dirname(os.path.abspath(__file__)))
def main():
    if len(sys.argv) < 3:
        print(__doc__); return 2
    pid, tier = sys.argv[1].upper(), sys.argv[2]
    replay = sys.argv[sys.argv.index("--replay") + 1] if "--replay" in sys.argv else None
    os.environ.setdefault("VERIF_TIER", tier)
    mod = importlib.import_module(pid.lower())
    return mod.run(tier, replay)
if __name__ == "__main__":
    sys.exit(main())
