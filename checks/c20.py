"""C20 — concurrency knob: theorems (Props/C20.lean) + correspondence of the state-machine model with
tbb::global_control::active_value after real calls of set_global_tbb_concurrency + thread counting, for
the library call and for the demos' --cores option."""
import json, re, tempfile
from lib import *

THEOREMS = ["Parmcb.C20." + t for t in ["c20_set", "c20_history", "c20_upper_bound", "c20_demo", "c20_demo_default"]]

def gen_ops(r, with_client):
    ops = [["query"]]
    for _ in range(r.randint(2, 7)):
        k = r.choice(["set", "set", "set", "query", "region"] + (["push", "pop"] if with_client else []))
        if k == "set": ops.append(["set", r.choice([1, 2, 3, 4, 5, 7, 8, 16, 24])]); ops.append(r.choice([["query"], ["region"]]))
        elif k == "push": ops.append(["push", r.choice([1, 2, 3, 6])]); ops.append(["query"])
        elif k == "pop": ops.append(["pop"]); ops.append(["query"])
        else: ops.append([k])
    return ops

def demo_half(res, tier, r):
    """--cores n on the real demos: count the threads the process creates (strace clone/clone3)"""
    from demos import build_demos, write_dimacs
    from graphs import gnp, weights
    bdir, log = build_demos(["mcb-dimacs", "approx-mcb-dimacs"])
    if bdir is None:
        res.violation("demos do not build from the working tree", {"kind": "compile", "log": log[-3000:]}, found=False)
        return 0, []
    n = 170
    E = gnp(r, n, 0.06)
    WE, _ = weights(r, E, "wide")
    f = os.path.join(scratch(), "knob.dimacs")
    write_dimacs(f, n, WE)
    runs, bad = 0, []
    combos = []
    for prog, extra in (("mcb-dimacs", []), ("approx-mcb-dimacs", ["--k", "2"])):
        for cores in ([1, 2, 3] if tier == "quick" else [1, 2, 3, 5, 8]):
            for verbose in (False, True):
                for unrelated in ([], ["--printcycles=true"]):
                    if tier == "quick" and unrelated and cores != 2: continue
                    combos.append((prog, extra, cores, verbose, unrelated))
    for prog, extra, cores, verbose, unrelated in combos:
        cmd = ["strace", "-f", "-qq", "-e", "trace=clone,clone3", os.path.join(bdir, prog), "--parallel=true", "--cores", str(cores)] + \
              (["--verbose=true"] if verbose else []) + extra + unrelated + [f]
        p = sh(cmd, stdout=subprocess.PIPE, stderr=subprocess.PIPE, timeout=600)
        created = len(re.findall(r"clone3?\(", p.stderr))
        runs += 1
        # calibration on this image (oneTBB 2021.8, 16 hardware threads): with a limit of n in force the
        # process creates n+1 threads, with no limit in force it creates hw-1 = 15; n <= 8 keeps the two apart
        if p.returncode != 0 or created > cores + 1:
            bad.append({"cmd": cmd[5:], "threads_created": created, "allowed": cores, "exit": p.returncode})
    return runs, bad

def run(tier, replay=None):
    res = Result("C20", tier, "proof")
    res.assumptions = ["oneTBB semantics of global_control (active value = minimum over live controls, default = hardware concurrency) — trusted, exercised by the correspondence",
                       "oneTBB sizes its worker pool by the active value (observed by thread counting, not proved)"]
    lean_ok = lean_gate(res, "Parmcb.Props.C20", THEOREMS)
    binary, log = compile_harness("h_knob.cpp")
    if binary is None:
        res.violation("harness does not compile against the working tree", {"kind": "compile", "log": log[-3000:]}, found=False)
        return res.finish()
    r = rng("c20")
    cases = {}
    if replay:
        cases["replay"] = json.load(open(replay))["replay"]["ops"]
    else:
        for i in range(24 if tier == "quick" else 150):
            cases["k%d" % i] = gen_ops(r, i % 3 == 0)
    outs, bad_prop = "", []
    for cid, ops in cases.items():
        text = "case %s knob\n" % cid + "".join("op " + " ".join(map(str, o)) + "\n" for o in ops) + "end\n"
        rc, out, err = run_harness(binary, text, timeout=300)
        if rc != 0:
            res.violation("harness crashed", {"kind": "crash", "stderr": err[-2000:], "ops": ops}); return res.finish()
        outs += out
        # the property itself (python): after `set n` with no client controls the next observation is n
        last_set, clients = None, 0
        obs = [l.split() for l in out.split("\n") if l.startswith("r ")]
        oi = 0
        for o in ops:
            if o[0] == "set": last_set = o[1]
            elif o[0] == "push": clients += 1
            elif o[0] == "pop": clients = max(0, clients - 1)
            if o[0] in ("query", "region"):
                w = obs[oi]; oi += 1
                act = int(w[-1])
                if last_set is not None and clients == 0 and act != last_set:
                    bad_prop.append({"ops": ops, "after_set": last_set, "active_value": act})
                if o[0] == "region" and int(w[2]) > act:
                    bad_prop.append({"ops": ops, "threads": int(w[2]), "active_value": act})
    verdicts = run_driver(outs) if lean_ok else []
    oks, diffs, viols = parse_driver(verdicts)
    druns, dbad = (0, [])
    if not replay:
        druns, dbad = demo_half(res, tier, r)
    res.coverage.update({"evaluations": len(cases) + druns, "distinct_nontrivial": len({json.dumps(o) for o in cases.values()}) + druns,
        "rule": "library half: one process per random call sequence (set n / client-side controls / active_value queries / parallel regions with thread-id counting); demo half: mcb-dimacs and approx-mcb-dimacs under strace for --cores n x -v on/off x unrelated flags; distinct by sequence / command line",
        "traces_validated_against_impl": len(oks), "demo_runs": druns, "samples": [list(cases.values())[0]]})
    if bad_prop:
        res.violation("set_global_tbb_concurrency(n) does not make the allowed parallelism n", {"kind": "ops", **bad_prop[0], "count": len(bad_prop)})
    elif dbad:
        res.violation("--cores n does not limit the threads of the demo", {"kind": "demo", **dbad[0], "count": len(dbad)})
    elif diffs or viols or (lean_ok and len(oks) != len(cases)):
        res.violation("model/implementation correspondence broken (Model/Knob.lean vs util.hpp)", {"kind": "correspondence", "first": (diffs + viols)[:3]}, found=False)
    return res.finish()
