"""C20 — concurrency knob: theorems (Props/C20.lean) + correspondence of the state-machine model with
tbb::global_control::active_value after real calls of set_global_tbb_concurrency + thread counting, for
the library call and for the demos' --cores option."""
import json, re, tempfile
from lib import *

THEOREMS = ["Parmcb.C20." + t for t in ["c20_set", "c20_history", "c20_upper_bound", "c20_demo", "c20_demo_default"]]

def gen_ops(r, with_client):
    ops = [["query"]]
    for _ in range(r.randint(2, 7)):
        k = r.choice(["set", "set", "set", "query", "region"] + (["push", "pop"] if with_client else []))
        if k == "set": ops.append(["set", r.choice([1, 2, 3, 4, 5, 7, 8, 16, 24])]); ops.append(r.choice([["query"], ["region"]]))
        elif k == "push": ops.append(["push", r.choice([1, 2, 3, 6])]); ops.append(["query"])
        elif k == "pop": ops.append(["pop"]); ops.append(["query"])
        else: ops.append([k])
    return ops

def demo_half(res, tier, r):
    """--cores n on the real demos: the demo's own main() (compiled from the working tree with `main` renamed) runs
    in-process; afterwards TBB's allowed parallelism must be n, and while it ran at most n threads were inside the
    main arena at the same time.  (An earlier version counted clone() calls under strace: oneTBB's lazy, chained worker
    start-up makes that count load-dependent — it raised a false alarm on a busy machine and was replaced.)"""
    from demos import write_dimacs
    from graphs import gnp, weights
    bins = {}
    for prog in ("mcb-dimacs", "approx-mcb-dimacs"):
        b, log = compile_harness("h_demo_knob.cpp", out_name="h_demo_knob_" + prog.replace("-", "_"),
                                 flags=('-DDEMO_SRC="%s"' % os.path.join(REPO, "src", prog + ".cpp"),),
                                 libs=("-ltbb", "-lboost_timer", "-lboost_program_options", "-lboost_thread", "-lboost_system", "-lpthread"))
        if b is None:
            res.violation("demo source does not compile from the working tree", {"kind": "compile", "log": log[-3000:]}, found=False)
            return 0, []
        bins[prog] = b
    n = 170
    E = gnp(r, n, 0.06)
    WE, _ = weights(r, E, "wide")
    f = os.path.join(scratch(), "knob.dimacs")
    write_dimacs(f, n, WE)
    runs, bad = 0, []
    combos = []
    algos = [[], ["--signed=false", "--fvstrees=true"], ["--signed=false", "--fvstrees=false", "--isotrees=true"]]
    for prog, extra in (("mcb-dimacs", []), ("approx-mcb-dimacs", ["--k", "2"])):
        for cores in ([1, 2, 3] if tier == "quick" else [1, 2, 3, 5, 8]):
            for verbose in (False, True):
                for ai, algo in enumerate(algos):
                    for unrelated in ([], ["--printcycles=true"]):
                        if tier == "quick" and unrelated and cores != 2: continue
                        if tier == "quick" and ai and verbose: continue
                        combos.append((prog, extra + algo, cores, verbose, unrelated))
    for prog, extra, cores, verbose, unrelated in combos:
        cmd = [bins[prog], "--parallel=true", "--cores", str(cores)] + (["--verbose=true"] if verbose else []) + extra + unrelated + [f]
        p = sh(cmd, stdout=subprocess.PIPE, stderr=subprocess.PIPE, timeout=600)
        m = re.search(r"knob active=(\d+) maxconc=(\d+) distinct=(\d+) rc=(-?\d+)", p.stdout)
        runs += 1
        if p.returncode != 0 or not m or int(m.group(4)) != 0:
            bad.append({"cmd": [prog] + cmd[1:], "why": "demo did not run to completion", "exit": p.returncode, "allowed": cores}); continue
        active, maxconc = int(m.group(1)), int(m.group(2))
        if active != cores or maxconc > cores:
            bad.append({"cmd": [prog] + cmd[1:], "active_value_after": active, "max_threads_in_arena": maxconc, "allowed": cores, "exit": p.returncode})
    for b in bad: b["dimacs"] = open(f).read()
    return runs, bad

def run(tier, replay=None):
    res = Result("C20", tier, "proof")
    res.assumptions = ["oneTBB semantics of global_control (active value = minimum over live controls, default = hardware concurrency) — trusted, exercised by the correspondence",
                       "oneTBB sizes its worker pool by the active value (observed by thread counting, not proved)"]
    lean_ok = lean_gate(res, "Parmcb.Props.C20", THEOREMS)
    binary, log = compile_harness("h_knob.cpp", flags=(os.path.join(VERIF, "harness", "h_knob_tu2.cpp"),), opt="-O2")      # two translation units
    if binary is None:
        res.violation("harness does not compile against the working tree", {"kind": "compile", "log": log[-3000:]}, found=False)
        return res.finish()
    r = rng("c20")
    cases = {}
    if replay:
        cases["replay"] = json.load(open(replay))["replay"]["ops"]
    else:
        for i in range(24 if tier == "quick" else 150):
            cases["k%d" % i] = gen_ops(r, i % 3 == 0)
    outs, bad_prop = "", []
    for cid, ops in cases.items():
        text = "case %s knob\n" % cid + "".join("op " + " ".join(map(str, o)) + "\n" for o in ops) + "end\n"
        rc, out, err = run_harness(binary, text, timeout=300)
        if rc != 0:
            res.violation("harness crashed", {"kind": "crash", "stderr": err[-2000:], "ops": ops}); return res.finish()
        outs += out
        # the property itself (python): after `set n` with no client controls the next observation is n
        last_set, clients = None, 0
        obs = [l.split() for l in out.split("\n") if l.startswith("r ")]
        oi = 0
        for o in ops:
            if o[0] == "set": last_set = o[1]
            elif o[0] == "push": clients += 1
            elif o[0] == "pop": clients = max(0, clients - 1)
            if o[0] in ("query", "region"):
                w = obs[oi]; oi += 1
                act = int(w[-1])
                if last_set is not None and clients == 0 and act != last_set:
                    bad_prop.append({"ops": ops, "after_set": last_set, "active_value": act})
                if o[0] == "region" and int(w[2]) > act:
                    bad_prop.append({"ops": ops, "threads": int(w[2]), "active_value": act})
    verdicts = run_driver(outs) if lean_ok else []
    oks, diffs, viols = parse_driver(verdicts)
    druns, dbad = (0, [])
    if not replay:
        druns, dbad = demo_half(res, tier, r)
    res.coverage.update({"evaluations": len(cases) + druns, "distinct_nontrivial": len({json.dumps(o) for o in cases.values()}) + druns,
        "rule": "library half: one process per random call sequence (set n / client-side controls / active_value queries / parallel regions with thread-id counting); demo half: the mains of mcb-dimacs and approx-mcb-dimacs run in-process for --cores n x -v on/off x algorithm selection x unrelated flags, allowed parallelism queried afterwards and arena occupancy observed; distinct by sequence / command line",
        "traces_validated_against_impl": len(oks), "demo_runs": druns, "samples": [list(cases.values())[0]]})
    if bad_prop:
        res.violation("set_global_tbb_concurrency(n) does not make the allowed parallelism n", {"kind": "ops", **bad_prop[0], "count": len(bad_prop)})
    elif dbad:
        res.violation("--cores n does not limit the threads of the demo", {"kind": "demo", **dbad[0], "count": len(dbad)})
    elif diffs or viols or (lean_ok and len(oks) != len(cases)):
        res.violation("model/implementation correspondence broken (Model/Knob.lean vs util.hpp)", {"kind": "correspondence", "first": (diffs + viols)[:3]}, found=False)
    return res.finish()
