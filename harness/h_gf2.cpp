// C17 correspondence: executes an operation history on the real parmcb::SpVecGF2<std::size_t>
// and prints, after every operation, what a client can observe.
#include "common.hpp"
#include <set>
#include <parmcb/spvecgf2.hpp>

typedef parmcb::SpVecGF2<std::size_t> Vec;

static void show(const Vec &v) {
    std::cout << "r vec " << v.size();
    for (auto it = v.begin(); it != v.end(); ++it) std::cout << " " << *it;
    std::cout << "\n";
}
static std::set<std::size_t> mkset(const std::vector<std::string> &w, std::size_t from) {
    std::set<std::size_t> s;
    for (std::size_t i = from; i < w.size(); i++) s.insert(std::stoul(w[i]));
    return s;
}

int main() {
    CaseIn c;
    while (next_case(c)) {
        std::cout << "case " << c.id << " gf2\n";
        std::vector<Vec> st;
        st.reserve(c.body.size() + 1);   // no reallocation: copies below are exactly the ones we ask for
        std::size_t alt = 0;
        for (auto &w : c.body) {
            if (w.size() < 2 || w[0] != "op") continue;
            const std::string &o = w[1];
            auto A = [&](std::size_t i) { return (std::size_t) std::stoul(w.at(i)); };
            if (o == "unit") { std::cout << "op unit " << A(2) << "\n"; st.emplace_back(A(2)); show(st.back()); }
            else if (o == "fromSet") {
                std::cout << "op fromSet"; for (std::size_t i = 2; i < w.size(); i++) std::cout << " " << w[i]; std::cout << "\n";
                std::set<std::size_t> s = mkset(w, 2); st.emplace_back(s); show(st.back());
            } else if (o == "empty") { std::cout << "op empty\n"; st.emplace_back(); show(st.back()); }
            else if (o == "copy") {
                std::cout << "op copy " << A(2) << "\n";
                if ((alt++) % 2 == 0) { Vec t(st.at(A(2))); st.push_back(t); }        // copy construction
                else { Vec t(st.at(A(2))); st.emplace_back(std::move(t)); }            // move construction
                show(st.back());
            } else if (o == "add") {
                std::cout << "op add " << A(2) << " " << A(3) << "\n";
                Vec r = st.at(A(2)) + st.at(A(3)); st.push_back(r); show(st.back());
            } else if (o == "addAssign") {
                std::cout << "op addAssign " << A(2) << " " << A(3) << "\n";
                st.at(A(2)) += st.at(A(3)); show(st.at(A(2)));
            } else if (o == "assign") {
                std::cout << "op assign " << A(2) << " " << A(3) << "\n";
                if ((alt++) % 2 == 0) st.at(A(2)) = st.at(A(3));                         // copy assignment (maybe self)
                else if (A(2) == A(3)) st.at(A(2)) = std::move(st.at(A(3)));             // self move-assignment (guarded)
                else { Vec t(st.at(A(3))); st.at(A(2)) = std::move(t); }                // move assignment
                show(st.at(A(2)));
            } else if (o == "clear") { std::cout << "op clear " << A(2) << "\n"; st.at(A(2)).clear(); show(st.at(A(2))); }
            else if (o == "dot") {
                std::cout << "op dot " << A(2) << " " << A(3) << "\n";
                std::cout << "r bit " << (st.at(A(2)) * st.at(A(3))) << "\n";
            } else if (o == "dotSet") {
                std::cout << "op dotSet"; for (std::size_t i = 2; i < w.size(); i++) std::cout << " " << w[i]; std::cout << "\n";
                std::set<std::size_t> s = mkset(w, 3);
                std::cout << "r bit " << (st.at(A(2)) * s) << "\n";
            } else if (o == "size") { std::cout << "op size " << A(2) << "\n"; std::cout << "r num " << st.at(A(2)).size() << "\n"; }
        }
        std::cout << "end\n";
    }
    return 0;
}
