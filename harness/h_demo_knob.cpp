// C20, demo half: the demo program's own main(), compiled from the working tree with `main` renamed, is run in-process;
// afterwards TBB's allowed parallelism is queried and compared with --cores n.  While the demo runs, an observer on the
// main thread's arena records how many threads are inside it at the same time.
//   build: -DDEMO_SRC="\"/repo/src/mcb-dimacs.cpp\""
#define main parmcb_demo_main
#include DEMO_SRC
#undef main
#include <atomic>
#include <mutex>
#include <set>
#include <thread>
#include <tbb/task_scheduler_observer.h>
#include <tbb/global_control.h>

namespace {
struct Obs : tbb::task_scheduler_observer {
    std::atomic<int> cur { 0 }, mx { 0 };
    std::mutex m;
    std::set<std::thread::id> ids;
    Obs() { observe(true); }
    void on_scheduler_entry(bool) override {
        int c = ++cur, o = mx.load();
        while (c > o && !mx.compare_exchange_weak(o, c)) { }
        std::lock_guard<std::mutex> l(m); ids.insert(std::this_thread::get_id());
    }
    void on_scheduler_exit(bool) override { --cur; }
};
}

int main(int argc, char *argv[]) {
    Obs obs;
    int rc = parmcb_demo_main(argc, argv);
    obs.observe(false);
    std::size_t active = tbb::global_control::active_value(tbb::global_control::max_allowed_parallelism);
    std::cout << "knob active=" << active << " maxconc=" << obs.mx.load() << " distinct=" << obs.ids.size() << " rc=" << rc << std::endl;
    return 0;
}
