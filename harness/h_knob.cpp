// C20 correspondence (library half): set_global_tbb_concurrency against
// tbb::global_control::active_value and the number of distinct threads that execute a parallel region.
#include "common.hpp"
#include <chrono>
#include <memory>
#include <mutex>
#include <set>
#include <thread>
#include <boost/graph/adjacency_list.hpp>
#include <parmcb/util.hpp>
#include <tbb/tbb.h>

static std::size_t active() { return tbb::global_control::active_value(tbb::global_control::max_allowed_parallelism); }

static std::size_t region_threads() {
    std::mutex mu; std::set<std::thread::id> ids;
    tbb::parallel_for(tbb::blocked_range<std::size_t>(0, 256, 1), [&](const tbb::blocked_range<std::size_t> &r) {
        for (std::size_t i = r.begin(); i != r.end(); ++i) {
            auto t0 = std::chrono::steady_clock::now();
            while (std::chrono::steady_clock::now() - t0 < std::chrono::microseconds(400)) { }
            std::lock_guard<std::mutex> g(mu); ids.insert(std::this_thread::get_id());
        }
    }, tbb::simple_partitioner());
    return ids.size();
}

void parmcb_verif_tu2_set(std::size_t n);

int main() {
    CaseIn c;
    std::size_t nset = 0;
    std::vector<std::unique_ptr<tbb::global_control>> client;
    while (next_case(c)) {
        std::cout << "case " << c.id << " knob\n";
        std::cout << "hw " << active() << "\n";
        for (auto &w : c.body) {
            if (w[0] != "op") continue;
            std::cout << "op"; for (std::size_t i = 1; i < w.size(); i++) std::cout << " " << w[i]; std::cout << "\n";
            if (w[1] == "set") {
                // alternately from this translation unit and from a second one (h_knob_tu2.cpp)
                // and with the integer types a caller may pass (literals are int; sizes are size_t; option values unsigned / long):
                // all of them denote the same request
                unsigned long v = std::stoul(w[2]);
                std::size_t turn = nset++;
                if (turn % 2 == 1) parmcb_verif_tu2_set(v);
                else switch ((turn / 2) % 4) {
                    case 0: parmcb::set_global_tbb_concurrency(v); break;
                    case 1: parmcb::set_global_tbb_concurrency((int) v); break;
                    case 2: parmcb::set_global_tbb_concurrency((unsigned) v); break;
                    default: parmcb::set_global_tbb_concurrency((long) v); break;
                }
            }
            else if (w[1] == "push") client.emplace_back(new tbb::global_control(tbb::global_control::max_allowed_parallelism, std::stoul(w[2])));
            else if (w[1] == "pop") { if (!client.empty()) client.pop_back(); }
            else if (w[1] == "query") std::cout << "r active " << active() << "\n";
            else if (w[1] == "region") std::cout << "r threads " << region_threads() << " " << active() << "\n";
        }
        std::cout << "end\n";
        break;   // one case per process: the library's control object is process-global state
    }
    return 0;
}
