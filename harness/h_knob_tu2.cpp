// C20: a second translation unit of the knob harness — the library call made from another part of the program must act
// on the same process-wide limit as the call made from main's translation unit.
#include <cstddef>
#include <boost/graph/adjacency_list.hpp>
#include <parmcb/util.hpp>

void parmcb_verif_tu2_set(std::size_t n) { parmcb::set_global_tbb_concurrency(n); }
