// shared helpers for the correspondence harnesses (line protocol reader)
#pragma once
#include <cstdio>
#include <iostream>
#include <sstream>
#include <string>
#include <vector>

struct CaseIn {
    std::string id, kind;
    std::vector<std::string> args;
    std::vector<std::vector<std::string>> body;
};

static inline std::vector<std::string> split_ws(const std::string &s) {
    std::vector<std::string> w; std::istringstream is(s); std::string t;
    while (is >> t) w.push_back(t);
    return w;
}

// reads the next `case … end` block from stdin; false at EOF
static inline bool next_case(CaseIn &c) {
    std::string line; bool in = false;
    c = CaseIn();
    while (std::getline(std::cin, line)) {
        auto w = split_ws(line);
        if (w.empty() || w[0] == "#") continue;
        if (w[0] == "case" && w.size() >= 3) {
            in = true; c.id = w[1]; c.kind = w[2];
            c.args.assign(w.begin() + 3, w.end());
            continue;
        }
        if (w[0] == "end") { if (in) return true; continue; }
        if (in) c.body.push_back(w);
    }
    return false;
}
