// C18 correspondence: fp<T>::ext_gcd / get_mult_inverse, primes<T>::is_prime, SpVecFP<T>
// on the real headers, T in {long, int, cpp_int}.
#include "common.hpp"
#include <cassert>
#include <cmath>
#include <cstddef>
#include <stdexcept>
#include <boost/multiprecision/cpp_int.hpp>
#include <parmcb/fp.hpp>
#include <parmcb/spvecfp.hpp>

typedef boost::multiprecision::cpp_int BigInt;

template<class T> T parse(const std::string &s);
template<> long parse<long>(const std::string &s) { return std::stol(s); }
template<> int parse<int>(const std::string &s) { return std::stoi(s); }
template<> BigInt parse<BigInt>(const std::string &s) {
    if (!s.empty() && s[0] == '-') return -BigInt(s.substr(1));
    return BigInt(s);
}

template<class T>
void run_scalar(const CaseIn &c) {
    for (auto &w : c.body) {
        if (w[0] == "gcd") {
            T a = parse<T>(w[1]), b = parse<T>(w[2]);
            T x = 777, y = 777;       // sentinels: an out-parameter that is not written stays 777
            T g = parmcb::fp<T>::ext_gcd(a, b, x, y);
            std::cout << "gcd " << w[1] << " " << w[2] << "\nr " << g << " " << x << " " << y << "\n";
        } else if (w[0] == "inv") {
            T a = parse<T>(w[1]), p = parse<T>(w[2]);
            std::cout << "inv " << w[1] << " " << w[2] << "\n";
            try {
                T x = parmcb::fp<T>::get_mult_inverse(a, p);
                std::cout << "r ok " << x << "\n";
            } catch (std::runtime_error *e) { delete e; std::cout << "r throw\n"; }
              catch (const std::exception &e) { std::cout << "r throw\n"; }
        } else if (w[0] == "prime") {
            T p = parse<T>(w[1]);
            std::cout << "prime " << w[1] << "\n";
            try { std::cout << "r " << (parmcb::primes<T>::is_prime(p) ? 1 : 0) << "\n"; }
            catch (std::runtime_error *e) { delete e; std::cout << "r throw\n"; }
        }
    }
}

template<class T>
void run_vec(const CaseIn &c) {
    typedef parmcb::SpVecFP<T> Vec;
    T p = parse<T>(c.args.at(1));
    std::cout << "p " << c.args.at(1) << "\n";
    std::vector<Vec> st; st.reserve(c.body.size() + 1);
    auto show = [&](const Vec &v) {
        std::cout << "r vec " << v.size();
        for (auto it = v.begin(); it != v.end(); ++it) std::cout << " " << boost::get<0>(*it) << ":" << boost::get<1>(*it);
        std::cout << " mod " << v.prime() << "\n";
    };
    std::size_t alt = 0;
    for (auto &w : c.body) {
        if (w[0] != "op") continue;
        const std::string &o = w[1];
        auto A = [&](std::size_t i) { return (std::size_t) std::stoul(w.at(i)); };
        std::cout << "op"; for (std::size_t i = 1; i < w.size(); i++) std::cout << " " << w[i]; std::cout << "\n";
        if (o == "new") { st.emplace_back(p); show(st.back()); }
        else if (o == "unit") { st.at(A(2)) = (std::size_t) A(3); show(st.at(A(2))); }
        else if (o == "copy") {
            if ((alt++) % 2 == 0) { Vec t(st.at(A(2))); st.push_back(t); } else { Vec t(st.at(A(2))); st.emplace_back(std::move(t)); }
            show(st.back());
        } else if (o == "add") { Vec r = st.at(A(2)) + st.at(A(3)); st.push_back(r); show(st.back()); }
        else if (o == "addAssign") { st.at(A(2)) += st.at(A(3)); show(st.at(A(2))); }
        else if (o == "scale") { T cc = parse<T>(w.at(3)); Vec r = st.at(A(2)) * cc; st.push_back(r); show(st.back()); }
        else if (o == "scaleAssign") { T cc = parse<T>(w.at(3)); st.at(A(2)) *= cc; show(st.at(A(2))); }
        else if (o == "assign") {
            if ((alt++) % 2 == 0) st.at(A(2)) = st.at(A(3));
            else if (A(2) == A(3)) st.at(A(2)) = std::move(st.at(A(3)));
            else { Vec t(st.at(A(3))); st.at(A(2)) = std::move(t); }
            show(st.at(A(2)));
        } else if (o == "clear") { st.at(A(2)).clear(); show(st.at(A(2))); }
        else if (o == "dot") { T d = st.at(A(2)) * st.at(A(3)); std::cout << "r val " << d << "\n"; }
        else if (o == "size") { std::cout << "r num " << st.at(A(2)).size() << "\n"; }
    }
}

int main() {
    CaseIn c;
    while (next_case(c)) {
        std::cout << "case " << c.id << " " << c.kind;
        for (auto &a : c.args) std::cout << " " << a;
        std::cout << "\n";
        const std::string &T = c.args.at(0);
        if (c.kind == "fp") {
            if (T == "long") run_scalar<long>(c); else if (T == "int") run_scalar<int>(c); else run_scalar<BigInt>(c);
        } else if (c.kind == "fpvec") {
            if (T == "long") run_vec<long>(c); else if (T == "int") run_vec<int>(c); else run_vec<BigInt>(c);
        }
        std::cout << "end\n";
    }
    return 0;
}
