// C04 correspondence: the MPI entry points under mpiexec -n P.  Every rank reads the same case file,
// perturbs its own heap (rank- and seed-dependent) before building the graph so that the relative
// address order of the edge nodes — the order of std::set<edge_descriptor> — differs between ranks,
// runs the entry point; rank 0 prints what it received, the other ranks report what they emitted.
#include "common.hpp"
#include <cmath>
#include <cstdlib>
#include <fstream>
#include <list>
#include <memory>
#include <set>
#include <sstream>
#include <boost/graph/adjacency_list.hpp>
#include <boost/mpi/environment.hpp>
#include <boost/mpi/communicator.hpp>
#include <boost/mpi/collectives.hpp>
#include <parmcb/mpi/parmcb.hpp>
#include <parmcb/detail/fvs.hpp>
#include <tbb/global_control.h>

using namespace boost;
typedef adjacency_list<vecS, vecS, undirectedS, no_property,
        property<edge_weight_t, double, property<edge_index_t, std::size_t>>> Graph;
typedef graph_traits<Graph>::edge_descriptor Edge;
typedef graph_traits<Graph>::vertex_descriptor Vertex;

static std::uint64_t mix(std::uint64_t z) { z = (z ^ (z >> 30)) * 0xBF58476D1CE4E5B9ull; z = (z ^ (z >> 27)) * 0x94D049BB133111EBull; return z ^ (z >> 31); }

// allocate and free blocks in the size classes Boost uses for edge nodes, in a rank dependent pattern
static std::vector<void*> perturb_heap(int rank, std::uint64_t seed, std::size_t m) {
    std::vector<void*> keep, blocks;
    std::uint64_t s = mix(seed * 1315423911ull + 7919ull * (rank + 1));
    for (std::size_t i = 0; i < 4 * m + 16; i++) blocks.push_back(std::malloc(24 + 8 * (i % 6)));
    for (std::size_t i = blocks.size(); i > 1; i--) { s = mix(s + i); std::swap(blocks[i - 1], blocks[s % i]); }
    for (std::size_t i = 0; i < blocks.size(); i++) { s = mix(s + 1); if (s % 4 != 0) std::free(blocks[i]); else keep.push_back(blocks[i]); }
    return keep;
}

int main(int argc, char **argv) {
    mpi::environment env(argc, argv, mpi::threading::multiple);
    mpi::communicator world;
#ifndef PARMCB_SHIM
    tbb::global_control gc(tbb::global_control::max_allowed_parallelism, 2);
#endif
    if (argc < 2) return 2;
    std::ifstream in(argv[1]);
    std::cin.rdbuf(in.rdbuf());
    CaseIn c;
    while (next_case(c)) {
        // case <id> mpi d <scale> <entry> <perturb-seed>
        long scale = std::stol(c.args.at(1));
        const std::string entry = c.args.at(2);
        std::uint64_t pseed = std::stoull(c.args.at(3));
        std::size_t n = 0, m = 0;
        for (auto &w : c.body) if (w[0] == "g") { n = std::stoul(w[1]); m = std::stoul(w[2]); }
        std::vector<void*> keep;
        if (pseed) keep = perturb_heap(world.rank(), pseed, m);
        std::unique_ptr<Graph> gp(new Graph());
        Graph &g = *gp;
        std::vector<Edge> edges_;
        for (std::size_t i = 0; i < n; i++) add_vertex(g);
        for (auto &w : c.body) if (w[0] == "e") {
            auto e = add_edge(std::stoul(w[1]), std::stoul(w[2]), g).first;
            put(edge_weight, g, e, std::ldexp((double) std::stoll(w[3]), (int) -scale));
            put(edge_index, g, e, edges_.size());
            edges_.push_back(e);
        }
        // the order every rank sees for std::set<Edge> (pointer order)
        std::set<Edge> all(edges_.begin(), edges_.end());
        std::string myorder;
        for (auto &e : all) myorder += " " + std::to_string(get(edge_index, g, e));
        std::list<std::list<Edge>> cycles;
        auto wm = get(edge_weight, g);
        double ret = 0;
#ifdef PARMCB_VERIF
        // every odd-cycle search this rank performs (hook in mpi/parmcb_sva_signed.hpp)
        std::vector<parmcb::verif::SearchEvent> events;
        parmcb::verif::search_hook() = [&](const parmcb::verif::SearchEvent &ev) { events.push_back(ev); };
#endif
#ifdef PARMCB_VERIF
        // the sorted LOCAL candidate list of this rank (hook in mpi/parmcb_sva_trees.hpp)
        std::vector<parmcb::verif::CandidateEvent> cand_events;
        bool cand_seen = false;
        parmcb::verif::candidates_hook() = [&](const std::vector<parmcb::verif::CandidateEvent> &evs) { cand_events = evs; cand_seen = true; };
#endif
#ifdef PARMCB_SHIM
        // every rank runs its TBB regions under its own seeded schedule of the stand-in
        tbbshim::reseed(pseed * 7919 + 104729 * (world.rank() + 1) + 1, 0);
#endif
        if (entry == "mpi_signed") ret = parmcb::mcb_sva_signed_mpi(g, wm, std::back_inserter(cycles), world);
        else if (entry == "mpi_fvs") ret = parmcb::mcb_sva_fvs_trees_mpi(g, wm, std::back_inserter(cycles), world);
        else if (entry == "mpi_fvs_tbb") ret = parmcb::mcb_sva_fvs_trees_tbb_mpi(g, wm, std::back_inserter(cycles), world);
        else if (entry == "mpi_iso") ret = parmcb::mcb_sva_iso_trees_mpi(g, wm, std::back_inserter(cycles), world);
        else if (entry == "mpi_iso_tbb") ret = parmcb::mcb_sva_iso_trees_tbb_mpi(g, wm, std::back_inserter(cycles), world);
        std::string evtext;
#ifdef PARMCB_VERIF
        parmcb::verif::search_hook() = nullptr;
        for (auto &ev : events) {
            auto sc = [&](double w) { double x = std::ldexp(w, (int) scale); return std::to_string((long long) std::llround(x)); };
            evtext += "hsraw " + std::to_string(ev.phase) + " " + (ev.hidden_branch ? "1" : "0") + " " + std::to_string(ev.source) + " " +
                      (ev.use_limit ? sc(ev.limit) : std::string("-")) + " " + (ev.found ? "1" : "0") + " " + (ev.found ? sc(ev.weight) : std::string("-")) +
                      " " + (ev.empty_signed_set ? "1" : "0");
            for (auto h : ev.hidden) evtext += " " + std::to_string(h);
            evtext += "\n";
        }
#endif
        std::string candtext;
#ifdef PARMCB_VERIF
        parmcb::verif::candidates_hook() = nullptr;
        if (cand_seen) {
            candtext = "n " + std::to_string(cand_events.size()) + "\n";
            for (auto &ev : cand_events) {
                double x = std::ldexp(ev.weight, (int) scale);
                candtext += std::to_string(ev.tree) + " " + std::to_string(ev.source) + " " + std::to_string(ev.edge) + " " + std::to_string((long long) std::llround(x)) + "\n";
            }
        }
#endif
        std::vector<std::string> candtexts;
        mpi::gather(world, candtext, candtexts, 0);
        std::string schedtext;
#ifdef PARMCB_SHIM
        // every parallel_reduce this rank executed, in call order, as terms of Model/Sched.lean's `Sched` (local index ranges)
        for (auto &l : tbbshim::ctl().log) if (l.compare(0, 7, "reduce ") == 0) schedtext += l.substr(7) + "\n";
#endif
        std::vector<std::string> schedtexts;
        mpi::gather(world, schedtext, schedtexts, 0);
        std::string report = "rank " + std::to_string(world.rank()) + " emitted " + std::to_string(cycles.size()) + " order" + myorder;
        std::vector<std::string> evtexts;
        mpi::gather(world, evtext, evtexts, 0);
        std::vector<std::string> reports;
        mpi::gather(world, report, reports, 0);
        if (world.rank() == 0) {
            std::cout << "case " << c.id << " exact";
            std::cout << " d " << scale << " " << (entry.find("signed") != std::string::npos ? "mpi_signed" : entry.find("fvs") != std::string::npos ? "mpi_fvs" : "mpi_iso") << "\n";
            for (auto &w : c.body) { for (std::size_t i = 0; i < w.size(); i++) std::cout << (i ? " " : "") << w[i]; std::cout << "\n"; }
            parmcb::ForestIndex<Graph> fi(g);
            std::cout << "index"; for (auto &e : edges_) std::cout << " " << fi(e); std::cout << "\n";
            std::cout << "dim " << fi.cycle_space_dimension() << "\n";
            for (auto &cy : cycles) { std::cout << "cycle " << cy.size(); for (auto &e : cy) std::cout << " " << get(edge_index, g, e); std::cout << "\n"; }
            double x = std::ldexp(ret, (int) scale);
            std::cout << "ret " << (long long) std::llround(x) << " " << (x == std::floor(x) ? 1 : 0) << "\n";
#ifdef PARMCB_SHIM
            if (entry == "mpi_signed") {
                // rank 0 owns the support vector; its first parallel_for filled it by concurrent push_backs
                for (auto &l : tbbshim::ctl().log) if (l.compare(0, 3, "for") == 0) {
                    std::cout << "init";
                    std::istringstream is(l.substr(3)); std::string tok;
                    while (is >> tok) { auto p = tok.find(':'); std::size_t a = std::stoul(tok.substr(0, p)), b = std::stoul(tok.substr(p + 1)); for (std::size_t i = a; i < b; i++) std::cout << " " << i; }
                    std::cout << "\n"; break;
                }
            }
#endif
            {   // all ranks made the same number of calls so far: rank 0's first phase number is the base of this case
                long base = -1;
                for (auto &t : evtexts) {
                    std::istringstream is(t); std::string ln;
                    while (std::getline(is, ln)) {
                        auto w = split_ws(ln);
                        if (w.size() < 8) continue;
                        if (base < 0) base = std::stol(w[1]);
                        std::cout << "hs " << (std::stol(w[1]) - base);
                        for (std::size_t i = 2; i < w.size(); i++) std::cout << " " << w[i];
                        std::cout << "\n";
                    }
                }
            }
            for (std::size_t rk = 0; rk < schedtexts.size(); rk++) {
                std::istringstream is(schedtexts[rk]); std::string ln;
                while (std::getline(is, ln)) if (!ln.empty()) std::cout << "rsched " << rk << " " << ln << "\n";
            }
            if (entry.find("fvs") != std::string::npos) {
                std::vector<Vertex> fv; parmcb::greedy_fvs(g, std::back_inserter(fv));
                std::cout << "fvs"; for (auto v : fv) std::cout << " " << v; std::cout << "\n";
            }
            for (std::size_t rk = 0; rk < candtexts.size(); rk++) {
                std::istringstream is(candtexts[rk]); std::string ln;
                while (std::getline(is, ln)) if (!ln.empty()) {
                    if (ln[0] == 'n') std::cout << "rnsc " << rk << " " << ln.substr(2) << "\n";
                    else std::cout << "rsc " << rk << " " << ln << "\n";
                }
            }
            std::cout << "entry " << entry << " " << world.size() << "\n";
            for (auto &r : reports) std::cout << r << "\n";
            std::cout << "end" << std::endl;
        }
        gp.reset();
        for (void *p : keep) std::free(p);
    }
    return 0;
}
