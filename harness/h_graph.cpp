// Correspondence harness over the real graph algorithms of parmcb.
// One `case … end` block per graph; the block is echoed (so the model driver sees the same input)
// followed by what a client of the library observes.
//
//   case <id> <kind> <wt:d|i> <scale> [kind args…]
//   g <n> <m>
//   e <u> <v> <w>          weight = w / 2^scale (exactly representable)
//   end
#include "common.hpp"
#include <cmath>
#include <cstdint>
#include <cstdlib>
#include <list>
#include <set>
#include <unordered_set>
#include <memory>
#include <mutex>
#include <boost/graph/adjacency_list.hpp>
#include <boost/property_map/property_map.hpp>
#include <tbb/task_arena.h>
#include <tbb/global_control.h>
#include <parmcb/parmcb.hpp>
#include <parmcb/util.hpp>
#include <thread>
#include <atomic>
#include <functional>
#include <parmcb/forestindex.hpp>
#include <parmcb/detail/fvs.hpp>
#include <parmcb/detail/cycles.hpp>

using namespace boost;

template<class W> struct GT {
    typedef adjacency_list<vecS, vecS, undirectedS, no_property,
            property<edge_weight_t, W, property<edge_index_t, std::size_t>>> Graph;
};

template<class W>
struct Ctx {
    typedef typename GT<W>::Graph Graph;
    typedef typename graph_traits<Graph>::edge_descriptor Edge;
    typedef typename graph_traits<Graph>::vertex_descriptor Vertex;
    Graph g;
    long scale = 0;
    std::vector<Edge> edges;
    std::size_t n = 0, m = 0;
    std::string kind;
    int arena = 0;

    long long scaled(W w) const {            // exact: w * 2^scale is an integer in the exact domain
        double x = std::ldexp((double) w, (int) scale);
        return (long long) std::llround(x);
    }
    bool exact(W w) const { double x = std::ldexp((double) w, (int) scale); return x == std::floor(x) && std::fabs(x) < 9e15; }
    std::size_t id(const Edge &e) const { return get(edge_index, g, e); }

    void build(const CaseIn &c) {
        kind = c.kind;
        scale = std::stol(c.args.at(1));
        for (auto &a : c.args) if (a.compare(0, 6, "arena=") == 0) arena = std::stoi(a.substr(6));
        for (auto &w : c.body) {
            if (w[0] == "g") { n = std::stoul(w[1]); m = std::stoul(w[2]); for (std::size_t i = 0; i < n; i++) add_vertex(g); }
            else if (w[0] == "e") {
                auto e = add_edge(std::stoul(w[1]), std::stoul(w[2]), g).first;
                if (c.kind == "exactf" || c.kind == "ftrees") put(edge_weight, g, e, (W) std::strtod(w[3].c_str(), nullptr));   // arbitrary (inexact) doubles
                else put(edge_weight, g, e, (W) std::ldexp((double) std::stoll(w[3]), (int) -scale));
                put(edge_index, g, e, edges.size());
                edges.push_back(e);
            }
        }
    }
    void echo(const CaseIn &c) const {
        std::cout << "case " << c.id << " " << c.kind;
        for (auto &a : c.args) std::cout << " " << a;
        std::cout << "\n";
        for (auto &w : c.body) { for (std::size_t i = 0; i < w.size(); i++) std::cout << (i ? " " : "") << w[i]; std::cout << "\n"; }
    }
    void print_cycle(const char *tag, const std::list<Edge> &cyc) const {
        std::cout << tag << " " << cyc.size();
        for (auto &e : cyc) std::cout << " " << id(e);
        std::cout << "\n";
    }
};

template<class W>
void do_forest(Ctx<W> &x) {
    typedef typename Ctx<W>::Vertex Vertex; typedef typename Ctx<W>::Edge Edge;
    // the iteration order of an identically filled unordered_set (what *unreached.begin() walks through)
    std::unordered_set<Vertex> un;
    for (std::size_t v = 0; v < x.n; v++) un.insert(v);
    std::cout << "order"; for (auto v : un) std::cout << " " << v; std::cout << "\n";
    std::vector<Edge> forest;
    std::size_t comps = parmcb::detail::spanning_forest(x.g, std::back_inserter(forest));
    std::cout << "forest"; for (auto &e : forest) std::cout << " " << x.id(e); std::cout << "\n";
    std::cout << "comps " << comps << "\n";
    parmcb::ForestIndex<typename Ctx<W>::Graph> fi(x.g);
    std::cout << "index"; for (auto &e : x.edges) std::cout << " " << fi(e); std::cout << "\n";
    std::cout << "rev"; for (std::size_t i = 0; i < x.m; i++) std::cout << " " << x.id(fi(i)); std::cout << "\n";
    std::cout << "onforest"; for (auto &e : x.edges) std::cout << " " << (fi.is_on_forest(e) ? 1 : 0); std::cout << "\n";
    std::cout << "dim " << fi.cycle_space_dimension() << "\n";
    std::cout << "k " << fi.weak_connected_components() << "\n";
    // the edge-to-index lookup returns a reference: results held by reference while further lookups are made must stay
    // what they were (the parallel variants and callers' comparators keep several alive at once)
    {
        std::vector<std::reference_wrapper<const std::size_t>> held;
        for (auto &e : x.edges) held.push_back(std::cref(fi(e)));
        std::cout << "held"; for (auto &h : held) std::cout << " " << h.get(); std::cout << "\n";
        // const lookups from several threads at once (what the TBB/MPI variants do with one shared index)
        std::vector<std::size_t> expect; for (auto &e : x.edges) expect.push_back(fi(e));
        std::atomic<long> wrong { 0 };
        const auto &cfi = fi;
        auto reader = [&](unsigned seed) {
            for (int rep = 0; rep < 40; rep++)
                for (std::size_t i = 0; i < x.m; i++) {
                    std::size_t j = (i * 7 + seed + rep) % x.m;
                    if (cfi(x.edges[j]) != expect[j]) wrong++;
                    if (x.id(cfi(expect[j])) != j) wrong++;
                }
        };
        std::vector<std::thread> ts;
        if (x.m > 0) { for (unsigned t = 0; t < 4; t++) ts.emplace_back(reader, t * 13 + 1); for (auto &t : ts) t.join(); }
        std::cout << "conc " << wrong.load() << "\n";
    }
    // the index is a value: a copy-constructed index and an index ASSIGNED over one that was built for a
    // different graph (other dimension / component count) must answer exactly like the original
    typename Ctx<W>::Graph tri;
    for (int i = 0; i < 5; i++) add_vertex(tri);
    add_edge(0, 1, tri); add_edge(1, 2, tri); add_edge(2, 0, tri); add_edge(2, 3, tri); add_edge(3, 0, tri);
    parmcb::ForestIndex<typename Ctx<W>::Graph> assigned(tri);
    assigned = fi;
    parmcb::ForestIndex<typename Ctx<W>::Graph> copied(fi);
    const char *tags[2] = {"assigned", "copied"};
    const parmcb::ForestIndex<typename Ctx<W>::Graph> *objs[2] = {&assigned, &copied};
    for (int t = 0; t < 2; t++) {
        const auto &o = *objs[t];
        std::cout << tags[t] << " index"; for (auto &e : x.edges) std::cout << " " << o(e);
        std::cout << " rev"; for (std::size_t i = 0; i < x.m; i++) std::cout << " " << x.id(o(i));
        std::cout << " onforest"; for (auto &e : x.edges) std::cout << " " << (o.is_on_forest(e) ? 1 : 0);
        std::cout << " dim " << o.cycle_space_dimension() << " k " << o.weak_connected_components() << "\n";
    }
}

template<class W>
void do_fvs(Ctx<W> &x) {
    std::vector<typename Ctx<W>::Vertex> out;
    parmcb::greedy_fvs(x.g, std::back_inserter(out));
    std::cout << "fvs"; for (auto v : out) std::cout << " " << v; std::cout << "\n";
}

#ifdef PARMCB_SHIM
// schedule control of the TBB stand-in: reseed before a run, report afterwards
static void shim_begin(const CaseIn &c, std::size_t argpos) {
    std::uint64_t seed = c.args.size() > argpos ? std::stoull(c.args[argpos]) : 1;
    int mode = c.args.size() > argpos + 1 ? std::stoi(c.args[argpos + 1]) : 0;
    tbbshim::reseed(seed, mode);
}
static void shim_end(bool first_for_is_init) {
    auto &ct = tbbshim::ctl();
    if (first_for_is_init) {
        // the first parallel_for of mcb_sva_signed_tbb fills the support vector: report the push_back order
        for (auto &l : ct.log) if (l.compare(0, 3, "for") == 0) {
            std::cout << "init";
            std::istringstream is(l.substr(3)); std::string tok;
            while (is >> tok) { auto p = tok.find(':'); std::size_t a = std::stoul(tok.substr(0, p)), b = std::stoul(tok.substr(p + 1)); for (std::size_t i = a; i < b; i++) std::cout << " " << i; }
            std::cout << "\n"; break;
        }
    }
    std::cout << "shim " << ct.regions << " " << ct.leaves << " " << ct.forks << " " << ct.seqs << "\n";
    // every parallel_reduce of the run, in call order, as a term of Model/Sched.lean's `Sched` (leaves with their sub-ranges)
    for (auto &l : ct.log) if (l.compare(0, 7, "reduce ") == 0) std::cout << "sched " << l.substr(7) << "\n";
    for (std::size_t i = 0; i < ct.log.size() && i < 3; i++) std::cout << "# " << ct.log[i].substr(0, 200) << "\n";
}
#else
// real oneTBB: the extra case argument is the number of threads to allow
static void shim_begin(const CaseIn &c, std::size_t argpos) {
    static std::unique_ptr<tbb::global_control> gc;
    gc.reset();
    if (c.args.size() > argpos) {
        std::size_t t = std::stoul(c.args[argpos]);
        if (t > 0) gc.reset(new tbb::global_control(tbb::global_control::max_allowed_parallelism, t));
    }
}
static void shim_end(bool) {}
#endif

template<class W>
void do_exact(Ctx<W> &x, const std::string &variant) {
    typedef typename Ctx<W>::Edge Edge;
    parmcb::ForestIndex<typename Ctx<W>::Graph> fi(x.g);
    std::cout << "index"; for (auto &e : x.edges) std::cout << " " << fi(e); std::cout << "\n";
    std::cout << "dim " << fi.cycle_space_dimension() << "\n";
    std::list<std::list<Edge>> cycles;
    auto wm = get(edge_weight, x.g);
    W ret = W();
#ifdef PARMCB_VERIF
    // every odd-cycle search of mcb_sva_signed, in call order (hook in parmcb_sva_signed.hpp)
    std::vector<parmcb::verif::SearchEvent> events;
    std::mutex events_mu;
    parmcb::verif::search_hook() = [&](const parmcb::verif::SearchEvent &ev) { std::lock_guard<std::mutex> lk(events_mu); events.push_back(ev); };
#endif
    // the sorted candidate list of the tree variants (hook in parmcb_sva_trees.hpp)
    std::vector<parmcb::verif::CandidateEvent> cand_events;
    parmcb::verif::candidates_hook() = [&](const std::vector<parmcb::verif::CandidateEvent> &evs) { cand_events = evs; };
    if (variant == "fvs" || variant == "fvs_tbb") {
        std::vector<typename Ctx<W>::Vertex> fv; parmcb::greedy_fvs(x.g, std::back_inserter(fv));
        std::cout << "fvs"; for (auto v : fv) std::cout << " " << v; std::cout << "\n";
    }
    bool known = true;
    auto call = [&]() {
        if (variant == "signed") ret = parmcb::mcb_sva_signed(x.g, wm, std::back_inserter(cycles));
        else if (variant == "fvs") ret = parmcb::mcb_sva_fvs_trees(x.g, wm, std::back_inserter(cycles));
        else if (variant == "iso") ret = parmcb::mcb_sva_iso_trees(x.g, wm, std::back_inserter(cycles));
        else if (variant == "signed_tbb") ret = parmcb::mcb_sva_signed_tbb(x.g, wm, std::back_inserter(cycles));
        else if (variant == "fvs_tbb") ret = parmcb::mcb_sva_fvs_trees_tbb(x.g, wm, std::back_inserter(cycles));
        else if (variant == "iso_tbb") ret = parmcb::mcb_sva_iso_trees_tbb(x.g, wm, std::back_inserter(cycles));
        else known = false;
    };
    // `arena=N`: the entry point is called inside an explicit tbb::task_arena(N) — N may exceed the hardware concurrency
    // (an oversubscribed arena is a legal worker count)
    if (x.arena > 0) {
#ifndef PARMCB_SHIM
        tbb::global_control gc(tbb::global_control::max_allowed_parallelism, (std::size_t) x.arena);
#endif
        tbb::task_arena ar(x.arena);
        ar.execute(call);
    } else call();
    if (!known) { std::cout << "error unknown-variant\n"; return; }
    shim_end(variant == "signed_tbb");
#ifdef PARMCB_VERIF
    parmcb::verif::search_hook() = nullptr;
    parmcb::verif::candidates_hook() = nullptr;
    if (x.kind != "exactf" && (variant == "fvs" || variant == "iso" || variant == "fvs_tbb" || variant == "iso_tbb")) {
        for (auto &ev : cand_events)
            std::cout << "sc " << ev.tree << " " << ev.source << " " << ev.edge << " " << x.scaled((W) ev.weight) << "\n";
        std::cout << "nsc " << cand_events.size() << "\n";
    }
    if (x.kind != "exactf")
        for (auto &ev : events) {
            std::cout << "hs " << ev.phase << " " << (ev.hidden_branch ? 1 : 0) << " " << ev.source << " ";
            if (ev.use_limit) std::cout << x.scaled((W) ev.limit); else std::cout << "-";
            std::cout << " " << (ev.found ? 1 : 0) << " ";
            if (ev.found) std::cout << x.scaled((W) ev.weight); else std::cout << "-";
            std::cout << " " << (ev.empty_signed_set ? 1 : 0);
            for (auto h : ev.hidden) std::cout << " " << h;
            std::cout << "\n";
        }
#endif
#ifdef PARMCB_VERIF
    if (x.kind == "exactf")          // inexact weights: only the combinatorial part of each search (phase, branch, source, hidden set)
        for (auto &ev : events) {
            std::cout << "hs " << ev.phase << " " << (ev.hidden_branch ? 1 : 0) << " " << ev.source << " - " << (ev.found ? 1 : 0) << " - "
                      << (ev.empty_signed_set ? 1 : 0);
            for (auto h : ev.hidden) std::cout << " " << h;
            std::cout << "\n";
        }
#endif
    for (auto &c : cycles) x.print_cycle("cycle", c);
    std::cout << "ret " << x.scaled(ret) << " " << (x.exact(ret) ? 1 : 0) << "\n";
    { char buf[64]; snprintf(buf, sizeof buf, "%.17g", (double) ret); std::cout << "retf " << buf << "\n"; }
}

template<class W>
void do_trees(Ctx<W> &x) {
    typedef typename Ctx<W>::Graph Graph;
    typedef typename property_map<Graph, edge_weight_t>::type WM;
    typedef typename property_map<Graph, vertex_index_t>::type IM;
    WM wm = get(edge_weight, x.g);
    IM im = get(vertex_index, x.g);
    for (std::size_t s = 0; s < x.n; s++) {
        parmcb::SPTree<Graph, WM> t(s, x.g, im, wm, s);
        std::cout << "tree " << s << "\n";
        std::cout << "dist";
        for (std::size_t v = 0; v < x.n; v++) { auto nd = t.node(v); if (nd) std::cout << " " << x.scaled(nd->weight()); else std::cout << " -"; }
        std::cout << "\npred";
        for (std::size_t v = 0; v < x.n; v++) { auto nd = t.node(v); if (nd && nd->has_pred()) std::cout << " " << x.id(nd->pred()); else std::cout << " -"; }
        std::cout << "\nfirst";
        for (std::size_t v = 0; v < x.n; v++) std::cout << " " << t.first(v);
        std::cout << "\n";
    }
}


// one tree only (large graphs): labels of the tree rooted at the given source, and the number of candidates it offers
template<class W>
void do_tree1(Ctx<W> &x, std::size_t s) {
    typedef typename Ctx<W>::Graph Graph; typedef typename Ctx<W>::Edge Edge;
    typedef typename property_map<Graph, edge_weight_t>::type WM;
    typedef typename property_map<Graph, vertex_index_t>::type IM;
    WM wm = get(edge_weight, x.g);
    IM im = get(vertex_index, x.g);
    parmcb::SPTree<Graph, WM> t(0, x.g, im, wm, s);
    std::cout << "tree " << s << "\n";
    std::cout << "dist";
    for (std::size_t v = 0; v < x.n; v++) { auto nd = t.node(v); if (nd) std::cout << " " << x.scaled(nd->weight()); else std::cout << " -"; }
    std::cout << "\npred";
    for (std::size_t v = 0; v < x.n; v++) { auto nd = t.node(v); if (nd && nd->has_pred()) std::cout << " " << x.id(nd->pred()); else std::cout << " -"; }
    std::cout << "\nfirst";
    for (std::size_t v = 0; v < x.n; v++) std::cout << " " << t.first(v);
    std::cout << "\n";
    auto cands = t.create_candidate_cycles();
    std::cout << "ncand " << cands.size() << "\n";
    std::cout << "cedges"; for (auto &c : cands) std::cout << " " << x.id(c.edge()); std::cout << "\n";
}

// C09: labels computed in DOUBLE arithmetic on arbitrary double weights, printed exactly (hex floats): the lexicographic
// shortest-path tree of every source (SPTree) and the labels of parmcb::dijkstra; plus the plain accumulation of all weights
static void put_hex(double v) { char b[64]; std::snprintf(b, sizeof b, "%a", v); std::cout << b; }
template<class W>
void do_ftrees(Ctx<W> &x) {
    typedef typename Ctx<W>::Graph Graph; typedef typename Ctx<W>::Edge Edge;
    typedef typename property_map<Graph, edge_weight_t>::type WM;
    typedef typename property_map<Graph, vertex_index_t>::type IM;
    WM wm = get(edge_weight, x.g);
    IM im = get(vertex_index, x.g);
    W acc = W();
    for (auto &e : x.edges) acc += get(wm, e);
    std::cout << "acc "; put_hex((double) acc); std::cout << "\n";
    for (std::size_t s = 0; s < x.n; s++) {
        parmcb::SPTree<Graph, WM> t(s, x.g, im, wm, s);
        std::cout << "ltree " << s << "\n";
        for (std::size_t v = 0; v < x.n; v++) {
            auto nd = t.node(v);
            if (!nd) continue;
            std::cout << "ld " << v << " "; put_hex((double) nd->weight());
            if (nd->has_pred()) std::cout << " " << x.id(nd->pred()); else std::cout << " -";
            std::cout << "\n";
        }
        std::vector<W> dist(x.n, (std::numeric_limits<W>::max)());
        std::vector<std::tuple<bool, Edge>> pred(x.n, std::make_tuple(false, Edge()));
        auto dm = make_iterator_property_map(dist.begin(), im);
        auto pm = make_iterator_property_map(pred.begin(), im);
        parmcb::dijkstra(x.g, wm, s, dm, pm);
        std::cout << "dtree " << s << "\n";
        for (std::size_t v = 0; v < x.n; v++) {
            if (v != s && !std::get<0>(pred[v])) continue;
            std::cout << "dd " << v << " "; put_hex((double) dist[v]);
            if (v != s) std::cout << " " << x.id(std::get<1>(pred[v])); else std::cout << " -";
            std::cout << "\n";
        }
    }
}

template<class W>
void do_cands(Ctx<W> &x, const std::string &which) {
    typedef typename Ctx<W>::Graph Graph;
    typedef typename property_map<Graph, edge_weight_t>::type WM;
    WM wm = get(edge_weight, x.g);
    std::vector<parmcb::SPTree<Graph, WM>> trees;
    std::vector<parmcb::CandidateCycle<Graph, WM>> cycles;
    if (which == "horton") { parmcb::detail::HortonCyclesBuilder<Graph, WM> b; b(x.g, wm, trees, cycles); }
    else if (which == "fvs") {
        std::vector<typename Ctx<W>::Vertex> fv; parmcb::greedy_fvs(x.g, std::back_inserter(fv));
        std::cout << "fvs"; for (auto v : fv) std::cout << " " << v; std::cout << "\n";
        parmcb::detail::FVSCyclesBuilder<Graph, WM> b; b(x.g, wm, trees, cycles);
    } else { parmcb::detail::ISOCyclesBuilder<Graph, WM> b; b(x.g, wm, trees, cycles); }
    std::cout << "tsrc"; for (auto &t : trees) std::cout << " " << t.source(); std::cout << "\n";
    for (auto &c : cycles) std::cout << "cand " << c.tree() << " " << x.id(c.edge()) << " " << x.scaled(c.weight()) << "\n";
    std::cout << "ncand " << cycles.size() << "\n";
}

template<class W>
void do_spanner(Ctx<W> &x, std::size_t k) {
    typedef typename Ctx<W>::Graph Graph; typedef typename Ctx<W>::Edge Edge;
    typedef typename property_map<Graph, edge_weight_t>::type WM;
    typedef std::back_insert_iterator<std::list<std::list<Edge>>> It;
    typedef parmcb::detail::mcb_sva_signed<Graph, WM, It> Exact;
    WM wm = get(edge_weight, x.g);
    parmcb::detail::BaseApproxSpannerAlgorithm<Graph, WM, Exact, false> algo(x.g, wm, get(vertex_index, x.g), k);
    std::cout << "scan"; for (auto &e : algo.verif_scan_order()) std::cout << " " << x.id(e); std::cout << "\n";
    const Graph &sp = algo.verif_spanner();
    auto spw = get(edge_weight, sp);
    std::cout << "retained";
    for (auto ep = edges(sp); ep.first != ep.second; ++ep.first) std::cout << " " << x.id(algo.verif_edge_spanner_to_g().at(*ep.first));
    std::cout << "\n";
    for (auto ep = edges(sp); ep.first != ep.second; ++ep.first) {
        auto se = *ep.first;
        std::cout << "spe " << source(se, sp) << " " << target(se, sp) << " " << x.scaled(get(spw, se)) << "\n";
    }
    std::cout << "spn " << num_vertices(sp) << "\n";
    std::cout << "dropped"; for (auto &e : algo.verif_non_spanner_edges()) std::cout << " " << x.id(e); std::cout << "\n";
}

template<class W>
void do_approx(Ctx<W> &x, const std::string &variant, std::size_t k) {
    typedef typename Ctx<W>::Edge Edge; typedef typename Ctx<W>::Graph Graph; typedef typename Ctx<W>::Vertex Vertex;
    std::list<std::list<Edge>> cycles;
    auto wm = get(edge_weight, x.g);
    if (k >= 1) {
        // what the algorithm object builds internally, observed through the PARMCB_VERIF accessors on an
        // identically constructed object (construction is deterministic)
        typedef typename property_map<Graph, edge_weight_t>::type WM;
        typedef std::back_insert_iterator<std::list<std::list<Edge>>> It;
        typedef parmcb::detail::mcb_sva_signed<Graph, WM, It> Exact;
        parmcb::detail::BaseApproxSpannerAlgorithm<Graph, WM, Exact, false> probe(x.g, wm, get(vertex_index, x.g), k);
        std::unordered_set<Vertex> un;
        for (std::size_t v = 0; v < x.n; v++) un.insert(v);
        std::cout << "order"; for (auto v : un) std::cout << " " << v; std::cout << "\n";
        std::cout << "scan"; for (auto &e : probe.verif_scan_order()) std::cout << " " << x.id(e); std::cout << "\n";
        const Graph &sp = probe.verif_spanner();
        std::cout << "retained";
        for (auto ep = edges(sp); ep.first != ep.second; ++ep.first) std::cout << " " << x.id(probe.verif_edge_spanner_to_g().at(*ep.first));
        std::cout << "\n";
        std::cout << "dropped"; for (auto &e : probe.verif_non_spanner_edges()) std::cout << " " << x.id(e); std::cout << "\n";
        if (variant == "fvs" || variant == "fvs_tbb" || variant == "iso") {
            // the feedback vertex set of the spanner, as the FVS builder of the exact phase computes it
            // (approx_mcb_sva_iso_trees instantiates the FVS-tree exact algorithm as well: parmcb_approx_sva_trees.hpp:49)
            std::vector<Vertex> fv; parmcb::greedy_fvs(sp, std::back_inserter(fv));
            std::cout << "fvs"; for (auto v : fv) std::cout << " " << v; std::cout << "\n";
        }
    }
    W ret = W();
    bool threw = false;
#ifdef PARMCB_VERIF
    // the exact phase runs on the internal spanner: its searches / its sorted candidate list are reported by the same hooks
    std::vector<parmcb::verif::SearchEvent> events;
    std::mutex events_mu;
    std::vector<parmcb::verif::CandidateEvent> cand_events;
    parmcb::verif::search_hook() = [&](const parmcb::verif::SearchEvent &ev) { std::lock_guard<std::mutex> lk(events_mu); events.push_back(ev); };
    parmcb::verif::candidates_hook() = [&](const std::vector<parmcb::verif::CandidateEvent> &evs) { cand_events = evs; };
#endif
    try {
        if (variant == "signed") ret = parmcb::approx_mcb_sva_signed(x.g, wm, k, std::back_inserter(cycles));
        else if (variant == "fvs") ret = parmcb::approx_mcb_sva_fvs_trees(x.g, wm, k, std::back_inserter(cycles));
        else if (variant == "iso") ret = parmcb::approx_mcb_sva_iso_trees(x.g, wm, k, std::back_inserter(cycles));
        else if (variant == "signed_tbb") ret = parmcb::approx_mcb_sva_signed_tbb(x.g, wm, k, std::back_inserter(cycles));
        else if (variant == "fvs_tbb") ret = parmcb::approx_mcb_sva_fvs_trees_tbb(x.g, wm, k, std::back_inserter(cycles));
        else if (variant == "iso_tbb") ret = parmcb::approx_mcb_sva_iso_trees_tbb(x.g, wm, k, std::back_inserter(cycles));
        else { std::cout << "error unknown-variant\n"; return; }
    } catch (const std::runtime_error &e) { threw = true; }
#ifdef PARMCB_VERIF
    parmcb::verif::search_hook() = nullptr;
    parmcb::verif::candidates_hook() = nullptr;
    if (variant == "signed" || variant == "signed_tbb")
        for (auto &ev : events) {
            std::cout << "hs " << ev.phase << " " << (ev.hidden_branch ? 1 : 0) << " " << ev.source << " ";
            if (ev.use_limit) std::cout << x.scaled((W) ev.limit); else std::cout << "-";
            std::cout << " " << (ev.found ? 1 : 0) << " ";
            if (ev.found) std::cout << x.scaled((W) ev.weight); else std::cout << "-";
            std::cout << " " << (ev.empty_signed_set ? 1 : 0);
            for (auto h : ev.hidden) std::cout << " " << h;
            std::cout << "\n";
        }
    if (variant == "fvs" || variant == "iso" || variant == "fvs_tbb" || variant == "iso_tbb") {
        for (auto &ev : cand_events)
            std::cout << "sc " << ev.tree << " " << ev.source << " " << ev.edge << " " << x.scaled((W) ev.weight) << "\n";
        std::cout << "nsc " << cand_events.size() << "\n";
    }
#endif
    // everything below happens AFTER the call has returned: the descriptors must still be usable
    std::size_t foreign = 0;
    long long truew = 0;
    for (auto &c : cycles) {
        for (auto &e : c) {
            std::size_t i = x.id(e);
            if (i >= x.m || !(x.edges[i] == e) || source(e, x.g) != source(x.edges[i], x.g) || target(e, x.g) != target(x.edges[i], x.g)) foreign++;
            truew += x.scaled(get(wm, e));
        }
        x.print_cycle("cycle", c);
    }
    std::cout << "foreign " << foreign << "\n";
    std::cout << "truew " << truew << "\n";
    shim_end(variant == "signed_tbb");
    if (threw) std::cout << "throw " << cycles.size() << "\n";
    else std::cout << "ret " << x.scaled(ret) << " " << (x.exact(ret) ? 1 : 0) << "\n";
}

template<class W>
void do_approx_dispatch(Ctx<W> &x, const CaseIn &c) { do_approx(x, c.args.at(2), std::stoul(c.args.at(3))); }

// allocate and free blocks in the size classes of Boost's edge nodes so that the address order of the edge nodes
// (= the order of std::set<edge_descriptor>) differs from the insertion order
static std::vector<void*> perturb_heap(std::uint64_t seed, std::size_t m) {
    auto mix = [](std::uint64_t z) { z = (z ^ (z >> 30)) * 0xBF58476D1CE4E5B9ull; z = (z ^ (z >> 27)) * 0x94D049BB133111EBull; return z ^ (z >> 31); };
    std::vector<void*> keep, blocks;
    std::uint64_t s = mix(seed * 1315423911ull + 7919ull);
    for (std::size_t i = 0; i < 4 * m + 16; i++) blocks.push_back(std::malloc(24 + 8 * (i % 6)));
    for (std::size_t i = blocks.size(); i > 1; i--) { s = mix(s + i); std::swap(blocks[i - 1], blocks[s % i]); }
    for (std::size_t i = 0; i < blocks.size(); i++) { s = mix(s + 1); if (s % 4 != 0) std::free(blocks[i]); else keep.push_back(blocks[i]); }
    return keep;
}

template<class W>
void run_case(const CaseIn &c) {
    std::vector<void*> keep;
    for (auto &a : c.args) if (a.compare(0, 5, "heap=") == 0) {
        std::size_t m = 0; for (auto &w : c.body) if (w[0] == "e") m++;
        keep = perturb_heap(std::stoull(a.substr(5)), m);
    }
    struct Freer { std::vector<void*> &k; ~Freer() { for (void *p : k) std::free(p); } } freer{keep};
    Ctx<W> x;
    x.build(c);
    x.echo(c);
    if (c.kind == "forest") do_forest(x);
    else if (c.kind == "fvs") do_fvs(x);
    else if (c.kind == "exact" || c.kind == "exactf") { shim_begin(c, 3); do_exact(x, c.args.at(2)); }
    else if (c.kind == "trees") do_trees(x);
    else if (c.kind == "ftrees") do_ftrees(x);
    else if (c.kind == "tree1") do_tree1(x, std::stoul(c.args.at(2)));
    else if (c.kind == "cands") do_cands(x, c.args.at(2));
    else if (c.kind == "spanner") do_spanner(x, std::stoul(c.args.at(2)));
    else if (c.kind == "approx") { shim_begin(c, 4); do_approx_dispatch(x, c); }
    else if (c.kind == "approx_old") do_approx(x, c.args.at(2), std::stoul(c.args.at(3)));
    std::cout << "end\n";
}

int main() {
    CaseIn c;
    while (next_case(c)) {
        if (c.args.at(0) == "i") run_case<int>(c); else run_case<double>(c);
    }
    return 0;
}
