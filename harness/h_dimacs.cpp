// C10 correspondence: the real read_dimacs_from_file and the three validators.
#include "common.hpp"
#include <cmath>
#include <cstdio>
#include <cstring>
#include <system_error>
#include <boost/graph/adjacency_list.hpp>
#include <parmcb/util.hpp>

using namespace boost;
typedef adjacency_list<vecS, vecS, undirectedS, no_property, property<edge_weight_t, double>> Graph;

int main() {
    CaseIn c;
    while (next_case(c)) {
        std::cout << "case " << c.id << " dimacs " << c.args.at(0) << "\n";
        for (auto &w : c.body) { for (std::size_t i = 0; i < w.size(); i++) std::cout << (i ? " " : "") << w[i]; std::cout << "\n"; }
        Graph g;
        FILE *fp = fopen(c.args.at(0).c_str(), "r");
        if (!fp) { std::cout << "nofile\nend\n"; continue; }
        bool err = false;
        try { parmcb::read_dimacs_from_file(fp, g); } catch (const std::system_error &e) { err = true; }
        fclose(fp);
        if (err) { std::cout << "error\nend\n"; continue; }
        std::cout << "n " << num_vertices(g) << "\n";
        auto wm = get(edge_weight, g);
        for (auto ep = edges(g); ep.first != ep.second; ++ep.first) {
            double w = get(wm, *ep.first);
            double sc = std::ldexp(w, 20);
            char buf[64]; snprintf(buf, sizeof buf, "%.17g", w);
            std::cout << "de " << source(*ep.first, g) << " " << target(*ep.first, g) << " ";
            if (sc == std::floor(sc) && std::fabs(sc) < 9e15) std::cout << (long long) sc; else std::cout << "inexact";
            std::cout << " " << buf << "\n";
        }
        std::cout << "loops " << parmcb::has_loops(g) << "\n";
        std::cout << "multi " << parmcb::has_multiple_edges(g) << "\n";
        std::cout << "nonpos " << parmcb::has_non_positive_weights(g, wm) << "\n";
        std::cout << "end\n";
    }
    return 0;
}
