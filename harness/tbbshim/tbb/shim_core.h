// Deterministic stand-in for the parts of oneTBB that parmcb uses (C03).
// Put this directory FIRST on the include path: <tbb/parallel_for.h>, <tbb/parallel_reduce.h>,
// <tbb/concurrent_vector.h>, <tbb/task_group.h>, <tbb/tbb.h> then resolve to these files and the REAL
// library templates of parmcb run under schedules chosen by a seeded generator:
//   parallel_for   : arbitrary partition of the range into consecutive leaves, executed in an arbitrary order
//   parallel_reduce: arbitrary recursive split; the right part either continues with the left part's
//                    running value (same Body object, "seq") or starts from the identity and is joined
//                    afterwards with reduction(left, right) ("fork"), in either evaluation order
// i.e. exactly the executions oneTBB's contract allows (Model/Sched.lean: `Sched`, `ForSched`).
#pragma once
#include <algorithm>
#include <cstddef>
#include <cstdint>
#include <deque>
#include <iterator>
#include <string>
#include <type_traits>
#include <utility>
#include <vector>

#define TBB_VERSION_MAJOR 2021
#define TBB_VERSION_MINOR 8

namespace tbbshim {
struct Control {
    std::uint64_t state = 0x9E3779B97F4A7C15ull;
    int mode = 0;                        // 0 random, 1 fully sequential (single leaf), 2 maximal splitting
    std::vector<std::string> log;        // one entry per parallel region, in call order
    std::size_t regions = 0, leaves = 0, forks = 0, seqs = 0;
};
inline Control &ctl() { static Control c; return c; }
inline std::uint64_t rnd() {             // splitmix64
    std::uint64_t z = (ctl().state += 0x9E3779B97F4A7C15ull);
    z = (z ^ (z >> 30)) * 0xBF58476D1CE4E5B9ull; z = (z ^ (z >> 27)) * 0x94D049BB133111EBull;
    return z ^ (z >> 31);
}
inline void reseed(std::uint64_t s, int mode) { ctl() = Control(); ctl().state = s * 0x2545F4914F6CDD1Dull + 1; ctl().mode = mode; }
}

namespace tbb {

struct split {};
struct simple_partitioner {}; struct auto_partitioner {}; struct static_partitioner {};

template<class T>
class blocked_range {
public:
    typedef T const_iterator;
    typedef std::size_t size_type;
    blocked_range() : b_(), e_(), g_(1) {}
    blocked_range(T b, T e, size_type g = 1) : b_(b), e_(e), g_(g) {}
    T begin() const { return b_; }
    T end() const { return e_; }
    size_type size() const { return (size_type) (e_ - b_); }
    size_type grainsize() const { return g_; }
    bool empty() const { return !(b_ < e_); }
    bool is_divisible() const { return g_ < size(); }
private:
    T b_, e_; size_type g_;
};

namespace shim_detail {
template<class Range>
std::vector<Range> random_leaves(const Range &r) {
    // consecutive sub-ranges covering r
    std::vector<Range> out;
    std::size_t n = r.size();
    if (n == 0) { return out; }
    auto b = r.begin();
    std::size_t pos = 0;
    int mode = tbbshim::ctl().mode;
    while (pos < n) {
        std::size_t len = mode == 1 ? n - pos : mode == 2 ? 1 : 1 + (std::size_t) (tbbshim::rnd() % (n - pos));
        if (mode == 0 && tbbshim::rnd() % 3 == 0) len = 1;
        out.push_back(Range(b + pos, b + (pos + len)));
        pos += len;
    }
    return out;
}
}

template<class Range, class Body>
void parallel_for(const Range &r, const Body &body) {
    auto leaves = shim_detail::random_leaves(r);
    // arbitrary execution order
    for (std::size_t i = leaves.size(); i > 1; i--) {
        std::size_t j = tbbshim::ctl().mode == 0 ? (std::size_t) (tbbshim::rnd() % i) : i - 1;
        std::swap(leaves[i - 1], leaves[j]);
    }
    std::string lg = "for";
    for (auto &l : leaves) { lg += " " + std::to_string((std::size_t) (l.begin() - r.begin())) + ":" + std::to_string((std::size_t) (l.end() - r.begin())); body(l); }
    tbbshim::ctl().regions++; tbbshim::ctl().leaves += leaves.size();
    tbbshim::ctl().log.push_back(lg);
}
template<class Range, class Body, class Partitioner>
void parallel_for(const Range &r, const Body &body, const Partitioner &) { parallel_for(r, body); }

namespace shim_detail {
template<class Range, class Value, class RealBody, class Reduction, class Base>
Value reduce_rec(const Range &r, const Value &init, const Value &identity, const RealBody &body, const Reduction &red, std::string &lg, const Base &base) {
    std::size_t n = r.size();
    int mode = tbbshim::ctl().mode;
    bool leaf = n <= 1 || mode == 1 || (mode == 0 && tbbshim::rnd() % 3 == 0);
    if (leaf) {
        // leaves are logged with their sub-range (offsets into the reduced range), so that the whole execution is a term of
        // Model/Sched.lean's `Sched`: L a:b | S(l,r) | F(l,r)
        tbbshim::ctl().leaves++;
        lg += "L" + std::to_string((std::size_t) (r.begin() - base)) + ":" + std::to_string((std::size_t) (r.end() - base));
        return body(r, init);
    }
    std::size_t cut = mode == 2 ? n / 2 : 1 + (std::size_t) (tbbshim::rnd() % (n - 1));
    Range left(r.begin(), r.begin() + cut), right(r.begin() + cut, r.end());
    if (tbbshim::rnd() % 2 == 0) {      // same body continues
        tbbshim::ctl().seqs++; lg += "S(";
        Value v = reduce_rec(left, init, identity, body, red, lg, base); lg += ",";
        Value w = reduce_rec(right, v, identity, body, red, lg, base); lg += ")";
        return w;
    }
    tbbshim::ctl().forks++; lg += "F(";
    if (tbbshim::rnd() % 2 == 0) {
        Value vl = reduce_rec(left, init, identity, body, red, lg, base); lg += ",";
        Value vr = reduce_rec(right, identity, identity, body, red, lg, base); lg += ")";
        return red(vl, vr);
    } else {                              // the right half happens to finish first
        std::string lr;
        Value vr = reduce_rec(right, identity, identity, body, red, lr, base);
        Value vl = reduce_rec(left, init, identity, body, red, lg, base); lg += "," + lr + ")";
        return red(vl, vr);
    }
}
}

template<class Range, class Value, class RealBody, class Reduction>
Value parallel_reduce(const Range &r, const Value &identity, const RealBody &body, const Reduction &red) {
    std::string lg = "reduce " + std::to_string(r.size()) + " ";
    Value v = shim_detail::reduce_rec(r, identity, identity, body, red, lg, r.begin());
    tbbshim::ctl().regions++;
    tbbshim::ctl().log.push_back(lg);
    return v;
}

template<class Range, class Value, class RealBody, class Reduction, class Partitioner>
Value parallel_reduce(const Range &r, const Value &identity, const RealBody &body, const Reduction &red, const Partitioner &) {
    return parallel_reduce(r, identity, body, red);
}

// parallel_deterministic_reduce: oneTBB's contract fixes the execution shape — the range is halved while it is divisible
// (grainsize honoured: simple_partitioner semantics), EVERY leaf starts from the identity, the joins follow the split tree.
// Only the order in which the leaves are evaluated is left open.
namespace shim_detail {
template<class Range, class Value, class RealBody, class Reduction, class Base>
Value det_reduce_rec(const Range &r, const Value &identity, const RealBody &body, const Reduction &red, std::string &lg, const Base &base) {
    if (!r.is_divisible()) {
        tbbshim::ctl().leaves++;
        lg += "L" + std::to_string((std::size_t) (r.begin() - base)) + ":" + std::to_string((std::size_t) (r.end() - base));
        return body(r, identity);
    }
    std::size_t cut = r.size() / 2;
    Range left(r.begin(), r.begin() + cut, r.grainsize()), right(r.begin() + cut, r.end(), r.grainsize());
    tbbshim::ctl().forks++; lg += "F(";
    if (tbbshim::ctl().mode != 0 || tbbshim::rnd() % 2 == 0) {
        Value vl = det_reduce_rec(left, identity, body, red, lg, base); lg += ",";
        Value vr = det_reduce_rec(right, identity, body, red, lg, base); lg += ")";
        return red(vl, vr);
    } else {
        std::string lr;
        Value vr = det_reduce_rec(right, identity, body, red, lr, base);
        Value vl = det_reduce_rec(left, identity, body, red, lg, base); lg += "," + lr + ")";
        return red(vl, vr);
    }
}
}
template<class Range, class Value, class RealBody, class Reduction>
Value parallel_deterministic_reduce(const Range &r, const Value &identity, const RealBody &body, const Reduction &red) {
    std::string lg = "reduce " + std::to_string(r.size()) + " ";
    Value v = r.empty() ? body(r, identity) : shim_detail::det_reduce_rec(r, identity, body, red, lg, r.begin());
    if (r.empty()) lg += "L0:0";
    tbbshim::ctl().regions++;
    tbbshim::ctl().log.push_back(lg);
    return v;
}
template<class Range, class Value, class RealBody, class Reduction, class Partitioner>
Value parallel_deterministic_reduce(const Range &r, const Value &identity, const RealBody &body, const Reduction &red, const Partitioner &) {
    return parallel_deterministic_reduce(r, identity, body, red);
}

// imperative form: Body with splitting constructor and join()
namespace shim_detail {
template<class Range, class Body, class Base>
void reduce_body_rec(const Range &r, Body &body, std::string &lg, const Base &base) {
    std::size_t n = r.size();
    int mode = tbbshim::ctl().mode;
    bool leaf = n <= 1 || mode == 1 || (mode == 0 && tbbshim::rnd() % 3 == 0);
    if (leaf) {
        tbbshim::ctl().leaves++;
        lg += "L" + std::to_string((std::size_t) (r.begin() - base)) + ":" + std::to_string((std::size_t) (r.end() - base));
        body(r); return;
    }
    std::size_t cut = mode == 2 ? n / 2 : 1 + (std::size_t) (tbbshim::rnd() % (n - 1));
    Range left(r.begin(), r.begin() + cut), right(r.begin() + cut, r.end());
    if (tbbshim::rnd() % 2 == 0) {
        tbbshim::ctl().seqs++; lg += "S(";
        reduce_body_rec(left, body, lg, base); lg += ",";
        reduce_body_rec(right, body, lg, base); lg += ")";
        return;
    }
    tbbshim::ctl().forks++; lg += "F(";
    Body rb(body, split());
    reduce_body_rec(left, body, lg, base); lg += ",";
    reduce_body_rec(right, rb, lg, base); lg += ")";
    body.join(rb);
}
}
template<class Range, class Body>
void parallel_reduce(const Range &r, Body &body) {
    std::string lg = "reduce " + std::to_string(r.size()) + " ";
    shim_detail::reduce_body_rec(r, body, lg, r.begin());
    tbbshim::ctl().regions++;
    tbbshim::ctl().log.push_back(lg);
}
template<class Range, class Body, class Partitioner>
void parallel_reduce(const Range &r, Body &body, const Partitioner &) { parallel_reduce(r, body); }

// index forms of parallel_for, parallel_for_each, parallel_invoke: any order of the iterations
template<class Index, class F>
void parallel_for(Index first, Index last, Index step, const F &f) {
    std::vector<Index> ix; for (Index i = first; i < last; i += step) ix.push_back(i);
    parallel_for(blocked_range<std::size_t>(0, ix.size()), [&](const blocked_range<std::size_t> &r) { for (std::size_t i = r.begin(); i != r.end(); ++i) f(ix[i]); });
}
template<class Index, class F, typename = typename std::enable_if<std::is_integral<Index>::value>::type>
void parallel_for(Index first, Index last, const F &f) { parallel_for(first, last, (Index) 1, f); }
template<class It, class F>
void parallel_for_each(It first, It last, const F &f) {
    std::vector<It> its; for (It i = first; i != last; ++i) its.push_back(i);
    parallel_for(blocked_range<std::size_t>(0, its.size()), [&](const blocked_range<std::size_t> &r) { for (std::size_t i = r.begin(); i != r.end(); ++i) f(*its[i]); });
}
template<class C, class F>
void parallel_for_each(C &c, const F &f) { parallel_for_each(c.begin(), c.end(), f); }
template<class F0, class F1>
void parallel_invoke(const F0 &f0, const F1 &f1) { if (tbbshim::ctl().mode == 0 && tbbshim::rnd() % 2) { f1(); f0(); } else { f0(); f1(); } }
template<class F0, class F1, class F2>
void parallel_invoke(const F0 &f0, const F1 &f1, const F2 &f2) { parallel_invoke(f0, f1); f2(); }

// locks: one thread, nothing to exclude
struct spin_mutex { struct scoped_lock { scoped_lock() {} scoped_lock(spin_mutex &) {} void acquire(spin_mutex &) {} void release() {} }; void lock() {} void unlock() {} bool try_lock() { return true; } };
typedef spin_mutex mutex; typedef spin_mutex queuing_mutex; typedef spin_mutex null_mutex;
struct spin_rw_mutex { struct scoped_lock { scoped_lock() {} scoped_lock(spin_rw_mutex &, bool = true) {} void acquire(spin_rw_mutex &, bool = true) {} void release() {} }; };

// concurrent_vector: growth never moves elements (std::deque), push_back order = execution order of the tasks
template<class T>
class concurrent_vector {
public:
    typedef typename std::deque<T>::iterator iterator;
    typedef typename std::deque<T>::const_iterator const_iterator;
    typedef blocked_range<iterator> range_type;
    typedef std::size_t size_type;
    typedef T value_type;
    iterator push_back(const T &x) { d_.push_back(x); return d_.end() - 1; }
    T &operator[](size_type i) { return d_[i]; }
    const T &operator[](size_type i) const { return d_[i]; }
    T &at(size_type i) { return d_.at(i); }
    iterator begin() { return d_.begin(); }
    iterator end() { return d_.end(); }
    const_iterator begin() const { return d_.begin(); }
    const_iterator end() const { return d_.end(); }
    size_type size() const { return d_.size(); }
    bool empty() const { return d_.empty(); }
    concurrent_vector() {}
    explicit concurrent_vector(size_type n, const T &x = T()) : d_(n, x) {}
    template<class... A> iterator emplace_back(A &&... a) { d_.emplace_back(std::forward<A>(a)...); return d_.end() - 1; }
    iterator grow_by(size_type n, const T &x = T()) { size_type o = d_.size(); d_.insert(d_.end(), n, x); return d_.begin() + o; }
    void reserve(size_type) {}
    void clear() { d_.clear(); }
    void resize(size_type n, const T &x = T()) { d_.resize(n, x); }
    T &front() { return d_.front(); } T &back() { return d_.back(); }
    const T &front() const { return d_.front(); } const T &back() const { return d_.back(); }
private:
    std::deque<T> d_;
};

class global_control {
public:
    enum parameter { max_allowed_parallelism, thread_stack_size, terminate_on_exception };
    global_control(parameter, std::size_t) {}
    static std::size_t active_value(parameter) { return 1; }
};
class task_group {};

// arenas and thread identity: one real thread; the identity a task observes is an arbitrary index below the arena's
// concurrency (mode 0), which may exceed info::default_concurrency() (an oversubscribed explicit arena)
namespace info { inline int default_concurrency() { return 4; } }
class task_arena {
public:
    static const int automatic = -1;
    static const int not_initialized = -2;
    explicit task_arena(int n = automatic, unsigned = 1) : n_(n < 1 ? info::default_concurrency() : n) {}
    void initialize() {}
    void initialize(int n, unsigned = 1) { n_ = n < 1 ? info::default_concurrency() : n; }
    void terminate() {}
    bool is_active() const { return true; }
    int max_concurrency() const { return n_; }
    template<class F> auto execute(F &&f) -> decltype(f()) { Scope sc(n_); return f(); }
    static int &current_size() { static int c = 0; return c; }
private:
    struct Scope { int old; explicit Scope(int n) : old(current_size()) { current_size() = n; } ~Scope() { current_size() = old; } };
    int n_;
};
namespace this_task_arena {
inline int max_concurrency() { int c = task_arena::current_size(); return c > 0 ? c : info::default_concurrency(); }
inline int current_thread_index() { return tbbshim::ctl().mode == 0 ? (int) (tbbshim::rnd() % (std::uint64_t) max_concurrency()) : 0; }
template<class F> auto isolate(F &&f) -> decltype(f()) { return f(); }
}
}
namespace oneapi { namespace tbb = ::tbb; }
