#pragma once
#include "shim_core.h"
